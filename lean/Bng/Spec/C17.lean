import Bng.Proof.Rendezvous
/-
  C17 — All peers agree on who owns a subscriber (pkg/pool/peer.go).

  Property statements only (helper lemmas: Bng/Proof/Rendezvous.lean).  In every theorem the hash is an
  UNINTERPRETED function `score` (per key: `score : α → Nat`; per pool: `score : κ → α → Nat`), node ids
  are an arbitrary type, `le` is any order with the laws of Go's string comparison (`TotalOrder`), and
  `empty` is Go's zero string.  Theorems quantify over all peer lists / all configuration and AddPeer /
  RemovePeer / health histories / all keys.

  `SomePositive score l` (some candidate scores above 0) is the one assumption about the hash: the loop
  of rendezvousHash starts from bestHash = 0 with a strict comparison, so when EVERY candidate scores
  exactly 0 it returns "" (theorem `owner_all_zero_is_empty`).  For the real 64-bit hash this needs
  hashCombine = 0 for every peer simultaneously.
-/
namespace Bng.Spec.C17
open Bng.Rendezvous

set_option linter.unusedSectionVars false
variable {α κ : Type} [DecidableEq α]

/-- the pools that can exist: NewPeerPool with any id and any peer list in any order, followed by any
    sequence of AddPeer / RemovePeer / health changes -/
def reachable (le : α → α → Bool) (self : α) (peers : List α) (ops : List (PoolOp α)) : Pool α :=
  runPool le (newPool le self peers) ops

/-! ## the peer list is the peer SET -/

/-- NewPeerPool: the node list contains exactly the configured peers and the node itself (whatever the
    order of the configuration and however often a peer is listed). -/
theorem newPool_members (le : α → α → Bool) (self : α) (peers : List α) (x : α) :
    x ∈ (newPool le self peers).nodes ↔ x = self ∨ x ∈ peers :=
  mem_newPool le self peers x

/-- AddPeer adds exactly that peer; RemovePeer removes exactly that peer (completely), in every reachable pool. -/
theorem add_remove_members {le : α → α → Bool} (ho : TotalOrder le) (self : α) (peers : List α)
    (ops : List (PoolOp α)) (x y : α) :
    (y ∈ (addPeer le (reachable le self peers ops) x).nodes ↔ y = x ∨ y ∈ (reachable le self peers ops).nodes) ∧
    (y ∈ (removePeer (reachable le self peers ops) x).nodes ↔ y ≠ x ∧ y ∈ (reachable le self peers ops).nodes) :=
  ⟨mem_addPeer le _ x y, mem_removePeer (ssorted_runPool ho (ssorted_newPool ho self peers) ops) x y⟩

/-! ## agreement -/

/-- Order independence of the hash ring: any two arrangements of the same peers give the same owner. -/
theorem owner_order_independent {le : α → α → Bool} (ho : TotalOrder le) (empty : α) (score : α → Nat)
    (l₁ l₂ : List α) (h : l₁.Perm l₂) :
    owner empty score (sortNodes le l₁) = owner empty score (sortNodes le l₂) := by
  rw [sortNodes_eq_of_perm ho h]

/-- All nodes agree: two pools — configured in any order, with any repetitions, brought to their present
    peer set by any histories of AddPeer/RemovePeer — that have the same peer SET compute the same owner
    and the same ranked fallback list for every subscriber. -/
theorem all_peers_agree {le : α → α → Bool} (ho : TotalOrder le) (empty : α) (score : κ → α → Nat)
    (self₁ self₂ : α) (peers₁ peers₂ : List α) (ops₁ ops₂ : List (PoolOp α))
    (hm : ∀ x, x ∈ (reachable le self₁ peers₁ ops₁).nodes ↔ x ∈ (reachable le self₂ peers₂ ops₂).nodes)
    (k : κ) :
    getOwner empty score (reachable le self₁ peers₁ ops₁) k = getOwner empty score (reachable le self₂ peers₂ ops₂) k ∧
    rankedOf score (reachable le self₁ peers₁ ops₁) k = rankedOf score (reachable le self₂ peers₂ ops₂) k := by
  have e := ssorted_ext ho (ssorted_runPool ho (ssorted_newPool ho self₁ peers₁) ops₁)
    (ssorted_runPool ho (ssorted_newPool ho self₂ peers₂) ops₂) hm
  unfold getOwner rankedOf
  unfold reachable at e ⊢
  rw [e]
  exact ⟨rfl, rfl⟩

/-- The owner is a function of the membership SET and the subscriber only: whatever the configuration
    order, repetitions and AddPeer/RemovePeer history that led to a pool, GetOwner (and the ranked list)
    equal those of a pool built from scratch from ANY listing `members` of the same membership.  Nothing
    else — not the number of peers, not an earlier answer — may enter the result, so a memo of owners is
    valid exactly as long as the membership is. -/
theorem owner_depends_only_on_membership {le : α → α → Bool} (ho : TotalOrder le) (empty : α)
    (score : κ → α → Nat) (self : α) (peers : List α) (ops : List (PoolOp α))
    (self' : α) (members : List α)
    (hm : ∀ x, x ∈ (reachable le self peers ops).nodes ↔ (x = self' ∨ x ∈ members)) (k : κ) :
    getOwner empty score (reachable le self peers ops) k = getOwner empty score (newPool le self' members) k ∧
    rankedOf score (reachable le self peers ops) k = rankedOf score (newPool le self' members) k := by
  have := all_peers_agree ho empty score self self' peers members ops []
    (by intro x; rw [hm x]; exact (newPool_members le self' members x).symm) k
  exact this

/-- At most one node claims a subscriber: if two such pools both answer IsLocalOwner = true they are the same node. -/
theorem at_most_one_local_owner {le : α → α → Bool} (ho : TotalOrder le) (empty : α) (score : κ → α → Nat)
    (self₁ self₂ : α) (peers₁ peers₂ : List α) (ops₁ ops₂ : List (PoolOp α))
    (hm : ∀ x, x ∈ (reachable le self₁ peers₁ ops₁).nodes ↔ x ∈ (reachable le self₂ peers₂ ops₂).nodes)
    (k : κ)
    (h₁ : isLocalOwner empty score (reachable le self₁ peers₁ ops₁) k = true)
    (h₂ : isLocalOwner empty score (reachable le self₂ peers₂ ops₂) k = true) :
    (reachable le self₁ peers₁ ops₁).self = (reachable le self₂ peers₂ ops₂).self := by
  have := (all_peers_agree ho empty score self₁ self₂ peers₁ peers₂ ops₁ ops₂ hm k).1
  unfold isLocalOwner at h₁ h₂
  simp only [beq_iff_eq] at h₁ h₂
  rw [← h₁, ← h₂, this]

/-- The owner is one of the peers (given the hash assumption). -/
theorem owner_is_member (empty : α) (score : α → Nat) (l : List α) (h : SomePositive score l) :
    owner empty score l ∈ l ∧ ∀ y ∈ l, score y ≤ score (owner empty score l) :=
  ⟨owner_mem empty score l h, owner_max empty score l h⟩

/-! ## the ranked fallback list -/

/-- The ranked list is a rearrangement of the peer list. -/
theorem ranked_perm (score : α → Nat) (l : List α) : (ranked score l).Perm l :=
  ranked_perm' score l

/-- The ranked list starts with the owner (stable insertion sort, i.e. Go's sort.Slice up to 12 peers),
    whatever ties there are. -/
theorem ranked_head_is_owner (empty : α) (score : α → Nat) (l : List α) (h : SomePositive score l) :
    (ranked score l).head? = some (owner empty score l) := by
  obtain ⟨pre, post, hf⟩ := owner_firstMax empty score l h
  exact ranked_head_of_firstMax hf

/-- …and for ANY sorting algorithm (any rearrangement `r` of the peers in descending score order, e.g.
    pdqsort beyond 12 peers) the head is the owner as soon as different peers have different scores. -/
theorem sorted_head_is_owner_of_distinct_scores (empty : α) (score : α → Nat) (l r : List α)
    (h : SomePositive score l) (hr : r.Perm l) (hs : r.Pairwise (fun a b => score b ≤ score a))
    (hinj : ∀ x ∈ l, ∀ y ∈ l, score x = score y → x = y) :
    r.head? = some (owner empty score l) := by
  have hm := owner_mem empty score l h
  have hmax := owner_max empty score l h
  cases r with
  | nil =>
    have := hr.nil_eq
    rw [← this] at hm; simp at hm
  | cons a t =>
    rw [List.pairwise_cons] at hs
    have ha : a ∈ l := hr.mem_iff.mp (by simp)
    have ho : owner empty score l ∈ a :: t := hr.mem_iff.mpr hm
    have : score a = score (owner empty score l) := by
      have h1 := hmax a ha
      rcases List.mem_cons.mp ho with h2 | h2
      · rw [h2]
      · have := hs.1 _ h2; omega
    simp [hinj a ha _ hm this]

/-! ## minimal disruption -/

/-- Removing a peer moves only the subscribers that peer owned. -/
theorem remove_minimal (empty : α) (score : α → Nat) (l : List α) (n : α) (h : SomePositive score l)
    (hne : owner empty score l ≠ n) : owner empty score (l.erase n) = owner empty score l :=
  owner_erase empty score l n h hne

/-- The same at the level of pools: after RemovePeer(n) every key whose owner was not `n` keeps its owner. -/
theorem removePeer_minimal (empty : α) (score : κ → α → Nat) (p : Pool α) (n : α) (k : κ)
    (h : SomePositive (score k) p.nodes) (hne : getOwner empty score p k ≠ n) :
    getOwner empty score (removePeer p n) k = getOwner empty score p k :=
  owner_erase empty (score k) p.nodes n h hne

/-- The general law behind both directions (peers leaving, peers joining): between two reachable pools
    where the peer set of the second is contained in that of the first, a subscriber whose owner in the
    first is still a peer of the second has the same owner in the second. -/
theorem membership_minimal {le : α → α → Bool} (ho : TotalOrder le) (empty : α) (score : κ → α → Nat)
    (self₁ self₂ : α) (peers₁ peers₂ : List α) (ops₁ ops₂ : List (PoolOp α)) (k : κ)
    (hsub : ∀ x, x ∈ (reachable le self₂ peers₂ ops₂).nodes → x ∈ (reachable le self₁ peers₁ ops₁).nodes)
    (hpos : SomePositive (score k) (reachable le self₁ peers₁ ops₁).nodes)
    (hin : getOwner empty score (reachable le self₁ peers₁ ops₁) k ∈ (reachable le self₂ peers₂ ops₂).nodes) :
    getOwner empty score (reachable le self₂ peers₂ ops₂) k = getOwner empty score (reachable le self₁ peers₁ ops₁) k :=
  owner_subset ho empty (score k)
    (ssorted_runPool ho (ssorted_newPool ho self₁ peers₁) ops₁).1
    (ssorted_runPool ho (ssorted_newPool ho self₂ peers₂) ops₂).1 hsub hpos hin

/-- Marking peers unhealthy moves only subscribers whose serving node became ineligible: if the node
    chosen under the health view `U` is the local node or is still healthy under the larger view `U'`,
    it is still chosen. -/
theorem unhealthy_minimal (self : α) (U U' rankedNodes : List α) (hsub : ∀ x, x ∈ U → x ∈ U')
    (hel : healthyOwner self U rankedNodes = self ∨ healthyOwner self U rankedNodes ∉ U') :
    healthyOwner self U' rankedNodes = healthyOwner self U rankedNodes :=
  healthyOwner_mono self U U' rankedNodes hsub hel

/-- In particular marking the single peer `n` unhealthy changes the healthy owner only for keys it served. -/
theorem mark_unhealthy_minimal (score : κ → α → Nat) (p : Pool α) (n : α) (k : κ)
    (hne : getHealthyOwner score p k ≠ n) :
    getHealthyOwner score (setHealth p n false) k = getHealthyOwner score p k := by
  unfold getHealthyOwner rankedOf setHealth
  simp only [Bool.false_eq_true, if_false]
  split
  · rfl
  · simp only
    apply healthyOwner_mono
    · intro x hx; exact List.mem_cons_of_mem _ hx
    · by_cases hs : healthyOwner p.self p.unhealthy (ranked (score k) p.nodes) = p.self
      · exact Or.inl hs
      · right
        intro hmem
        rcases List.mem_cons.mp hmem with h | h
        · exact hne h
        · -- a node chosen while listed unhealthy can only be the local node
          have := healthyOwner_eligible p.self p.unhealthy (ranked (score k) p.nodes)
          rcases this with h' | h'
          · exact hs h'
          · exact h' h

/-! ## exactly one serving pool -/

/-- (Corollary of the situation outside the finding's clause: a COMMON health view.)  Two entry nodes that have the same peer set and
    the same health view, are members of that set and healthy in that view, hand the request to the
    same node (itself if it is the healthy owner, otherwise the healthy owner by one forward). -/
theorem single_server {le : α → α → Bool} (ho : TotalOrder le) (score : κ → α → Nat)
    (self₁ self₂ : α) (peers₁ peers₂ : List α) (ops₁ ops₂ : List (PoolOp α))
    (hm : ∀ x, x ∈ (reachable le self₁ peers₁ ops₁).nodes ↔ x ∈ (reachable le self₂ peers₂ ops₂).nodes)
    (hu : ∀ x, x ∈ (reachable le self₁ peers₁ ops₁).unhealthy ↔ x ∈ (reachable le self₂ peers₂ ops₂).unhealthy)
    (hin₁ : (reachable le self₁ peers₁ ops₁).self ∈ (reachable le self₁ peers₁ ops₁).nodes)
    (hh₁ : (reachable le self₁ peers₁ ops₁).self ∉ (reachable le self₁ peers₁ ops₁).unhealthy)
    (hh₂ : (reachable le self₂ peers₂ ops₂).self ∉ (reachable le self₁ peers₁ ops₁).unhealthy)
    (k : κ) :
    servedBy score (reachable le self₁ peers₁ ops₁) k = servedBy score (reachable le self₂ peers₂ ops₂) k := by
  have hs₁ : SSorted le (reachable le self₁ peers₁ ops₁).nodes :=
    ssorted_runPool ho (ssorted_newPool ho self₁ peers₁) ops₁
  have hs₂ : SSorted le (reachable le self₂ peers₂ ops₂).nodes :=
    ssorted_runPool ho (ssorted_newPool ho self₂ peers₂) ops₂
  generalize reachable le self₁ peers₁ ops₁ = p₁ at *
  generalize reachable le self₂ peers₂ ops₂ = p₂ at *
  have e := ssorted_ext ho hs₁ hs₂ hm
  unfold servedBy getHealthyOwner rankedOf
  rw [← e, ← healthyOwner_congr p₂.self p₁.unhealthy p₂.unhealthy _ hu]
  apply healthyOwner_entry_irrelevant _ _ _ _ _ hh₁ hh₂
  exact (ranked_perm' (score k) p₁.nodes).mem_iff.mpr hin₁

/-! ### known finding C17-split-health-view

  The health view is per node (each node probes its peers itself, and "the local node is always
  considered healthy").  When two entry nodes DISAGREE on the eligibility of a node — e.g. B has marked A
  unhealthy while A, being the local node there, always counts itself healthy — a request for a key owned
  by A is served from A's pool when it enters at A and from another pool when it enters at B.  Every
  local pool spans the whole network, so the two pools can hand out the same address.
  `single_pool_full` is the property as given, `excl_split_view` the narrow clause of the finding,
  `single_server_partial` what is proved outside the clause, `split_view_witness` the defect as a theorem. -/

/-- the property as given: two pools with the same peer set serve a key from the same node -/
def single_pool_full (score : κ → α → Nat) (p₁ p₂ : Pool α) (k : κ) : Prop :=
  servedBy score p₁ k = servedBy score p₂ k

/-- the exclusion clause: the two entry nodes disagree on the eligibility of one of the two serving nodes -/
def excl_split_view (score : κ → α → Nat) (p₁ p₂ : Pool α) (k : κ) : Bool :=
  Spec.splitView p₁.self p₁.unhealthy p₂.self p₂.unhealthy (servedBy score p₁ k) (servedBy score p₂ k)

/-- Outside the clause the property holds: reachable pools with the same peer set, each a member of it,
    whose eligibility views agree on the two serving nodes, serve the key from the same node — for every
    pair of health views, not only a common one. -/
theorem single_server_partial {le : α → α → Bool} (ho : TotalOrder le) (score : κ → α → Nat)
    (self₁ self₂ : α) (peers₁ peers₂ : List α) (ops₁ ops₂ : List (PoolOp α))
    (hm : ∀ x, x ∈ (reachable le self₁ peers₁ ops₁).nodes ↔ x ∈ (reachable le self₂ peers₂ ops₂).nodes)
    (hin₁ : (reachable le self₁ peers₁ ops₁).self ∈ (reachable le self₁ peers₁ ops₁).nodes)
    (hin₂ : (reachable le self₂ peers₂ ops₂).self ∈ (reachable le self₂ peers₂ ops₂).nodes)
    (k : κ)
    (hex : excl_split_view score (reachable le self₁ peers₁ ops₁) (reachable le self₂ peers₂ ops₂) k = false) :
    single_pool_full score (reachable le self₁ peers₁ ops₁) (reachable le self₂ peers₂ ops₂) k := by
  have hs₁ : SSorted le (reachable le self₁ peers₁ ops₁).nodes :=
    ssorted_runPool ho (ssorted_newPool ho self₁ peers₁) ops₁
  have hs₂ : SSorted le (reachable le self₂ peers₂ ops₂).nodes :=
    ssorted_runPool ho (ssorted_newPool ho self₂ peers₂) ops₂
  generalize reachable le self₁ peers₁ ops₁ = p₁ at *
  generalize reachable le self₂ peers₂ ops₂ = p₂ at *
  have e := ssorted_ext ho hs₁ hs₂ hm
  unfold excl_split_view Spec.splitView at hex
  simp only [Bool.or_eq_false_iff, bne_eq_false_iff_eq] at hex
  unfold single_pool_full
  unfold servedBy getHealthyOwner rankedOf at hex ⊢
  rw [← e] at hex ⊢
  have hr₁ : p₁.self ∈ ranked (score k) p₁.nodes := (ranked_perm' (score k) p₁.nodes).mem_iff.mpr hin₁
  have hr₂ : p₂.self ∈ ranked (score k) p₁.nodes := by
    rw [e]; exact (ranked_perm' (score k) p₂.nodes).mem_iff.mpr hin₂
  exact healthyOwner_agree p₁.self p₂.self p₁.unhealthy p₂.unhealthy _ hr₁ hr₂ hex.1 hex.2

/-- score and order of the witness: node 1 scores highest for every key -/
def wScore : Nat → Nat → Nat := fun _ n => 10 - n
def wLe : Nat → Nat → Bool := fun a b => decide (a ≤ b)

/-- The defect, on the model: three nodes 1, 2, 3 with the same peer set; node 2 has marked node 1
    unhealthy, node 1 (being local) counts itself healthy.  A key whose owner is node 1 is served by node 1
    when it enters at node 1 and by node 2 when it enters at node 2; the clause holds. -/
theorem split_view_witness :
    (reachable wLe 1 [2, 3] []).nodes = (reachable wLe 2 [3, 1] [.health 1 false]).nodes ∧
    ¬ single_pool_full wScore (reachable wLe 1 [2, 3] []) (reachable wLe 2 [3, 1] [.health 1 false]) 0 ∧
    excl_split_view wScore (reachable wLe 1 [2, 3] []) (reachable wLe 2 [3, 1] [.health 1 false]) 0 = true := by
  unfold single_pool_full
  decide

/-! ## the edge of the hash assumption, and non-vacuity -/

/-- When every candidate scores exactly 0 the code returns the empty id, which need not be a peer. -/
theorem owner_all_zero_is_empty (empty a b : α) : owner empty (fun _ => 0) [a, b] = empty := rfl

/-- Go's string order satisfies the order laws assumed above. -/
theorem bytesLe_totalOrder : TotalOrder Real.bytesLe := Real.bytesLe_total

/-! ### a forwarded request reaches the node it is meant for (getPeerAddr) -/

/-- getPeerAddr answers with the node id it was asked about, or with that id followed by the port — whatever the configured
    peer list holds, in whatever order (in particular never with the address of a node whose id merely STARTS with the id
    asked about: bng-10 for bng-1). -/
theorem peer_addr_is_owner_or_owner_port (withPort : α → α) (cfgPeers : List α) (x : α) :
    peerAddr withPort cfgPeers x = x ∨ peerAddr withPort cfgPeers x = withPort x := by
  unfold peerAddr
  split
  · rename_i p hp
    have := List.find?_some hp
    simp only [Bool.or_eq_true, beq_iff_eq] at this
    exact this
  · exact Or.inl rfl

/-- "A request entering at any node is served from exactly one node's pool": when every node is reached under its id and
    under its id with the port (`resolve`), Allocate entering at ANY pool — any configured peer list, any order, any
    AddPeer / RemovePeer / health history — is served by the healthy owner that pool computes, and by no other node. -/
theorem forward_reaches_healthy_owner (withPort : α → α) (resolve : α → Option α)
    (hres : ∀ x, resolve x = some x ∧ resolve (withPort x) = some x)
    (cfgPeers : List α) (score : κ → α → Nat) (p : Pool α) (k : κ) :
    servedVia withPort resolve cfgPeers score p k = some (getHealthyOwner score p k) := by
  unfold servedVia
  simp only
  split
  · rfl
  · rcases peer_addr_is_owner_or_owner_port withPort cfgPeers (getHealthyOwner score p k) with h | h
    · rw [h]; exact (hres _).1
    · rw [h]; exact (hres _).2

/-- non-vacuity: ids 0..99, "with the port" = +100, an address leads to the node it names -/
example : ∀ x : Nat, x < 100 → ((fun a => some (a % 100)) x = some x ∧ (fun a => some (a % 100)) (x + 100) = some x) := by
  intro x hx; constructor <;> simp <;> omega
/-- bng-1 (1) is configured after bng-10 (10): the address of 1 is still 1 -/
example : peerAddr (fun x : Nat => x + 100) [10, 1, 2] 1 = 1 := by decide
example : peerAddr (fun x : Nat => x + 100) [10, 101, 2] 1 = 101 := by decide
/-- PeerPool.peers after NewPeerPool: sorted in place with the repetitions squeezed out when the node lists itself -/
example : cfgPeersAfterNew (fun a b : Nat => decide (a ≤ b)) 0 3 [5, 3, 5, 1] = [1, 3, 5, 0] := by decide
example : cfgPeersAfterNew (fun a b : Nat => decide (a ≤ b)) 0 3 [5, 1] = [5, 1] := by decide

example : TotalOrder (fun a b : Nat => decide (a ≤ b)) where
  total a b := by simp only [decide_eq_true_eq]; omega
  trans a b c h1 h2 := by simp only [decide_eq_true_eq] at *; omega
  antisymm a b h1 h2 := by simp only [decide_eq_true_eq] at *; omega
example : SomePositive (fun n : Nat => n + 1) [3, 1, 2] := ⟨3, by simp, Nat.succ_pos _⟩
example : owner 0 (fun n : Nat => if n = 2 then 9 else 4) [1, 2, 3] = 2 := by decide
example : ranked (fun n : Nat => if n = 2 then 9 else 4) [1, 2, 3] = [2, 1, 3] := by decide
/-- the real hash of key "sub-1" and node "bng-1" is positive -/
example : 0 < Real.score [115, 117, 98, 45, 49] [98, 110, 103, 45, 49] := by decide

end Bng.Spec.C17
