import Bng.Model.Teardown
/-
  C16 (PPPoE teardown paths) — Ending a session by any path releases everything it held, exactly once.

  Theorems over the model of pkg/pppoe/teardown.go (SessionTeardown + the SessionManager/IPPool parts it
  uses), for ALL sequences of session creations and terminations by any path (client PADT, TerminateSession
  on a held pointer, TerminateByID/ByMAC/ByUsername/All), including repeated terminations of one session, two
  TerminateSession calls at once (`tpark`/`tresume`) and an eBPF-map callback that fails (`fault`): the cleanup goes on,
  everything else is released exactly once, but the session's fast-path entry stays for ever — the recorded finding
  KF-pppoe-teardown-ebpf-noretry (`fastpath_entry_removed_partial`, `failed_removal_never_retried`,
  `ebpf_noretry_witness`).
-/
namespace Bng.Spec.C16Teardown
open Bng Bng.Teardown AMap

/-- what holds of every reachable state -/
structure Inv (s : TD) : Prop where
  /-- a session that was not torn down has had no Accounting-Stop and no map removal -/
  fresh : ∀ n o, AMap.lookup s.objs n = some o → o.tornDown = false →
      count s.stops n = 0 ∧ count s.ebpf n = 0
  /-- a torn-down session was cleaned up exactly once (ONE call of the eBPF-map callback, successful or not) and holds nothing -/
  done : ∀ n o, AMap.lookup s.objs n = some o → o.tornDown = true →
      count s.ebpf n + count s.efail n = 1 ∧ count s.stops n = (if s.radius && o.authed then 1 else 0) ∧
      n ∉ s.held ∧ ∀ id, AMap.lookup s.live id ≠ some n
  /-- names never used have no trace anywhere -/
  unused : ∀ n, AMap.lookup s.objs n = none →
      count s.stops n = 0 ∧ count s.ebpf n = 0 ∧ n ∉ s.held ∧ ∀ id, AMap.lookup s.live id ≠ some n
  /-- the session table points at session objects carrying that id -/
  tbl : ∀ id n, AMap.lookup s.live id = some n → ∃ o, AMap.lookup s.objs n = some o ∧ o.id = id
  /-- only sessions that were given an address have a pool entry -/
  heldIp : ∀ n, n ∈ s.held → ∃ o, AMap.lookup s.objs n = some o ∧ o.hasIp = true
  /-- a session that was not torn down has its fast-path entry, and the callback was never called for it -/
  freshFp : ∀ n o, AMap.lookup s.objs n = some o → o.tornDown = false → count s.efail n = 0 ∧ n ∈ s.fp
  /-- the fast-path entry of a torn-down session is gone iff its one removal succeeded -/
  doneFp : ∀ n o, AMap.lookup s.objs n = some o → o.tornDown = true →
      (count s.efail n = 0 → n ∉ s.fp) ∧ (count s.efail n = 1 → n ∈ s.fp)
  unusedFp : ∀ n, AMap.lookup s.objs n = none → count s.efail n = 0 ∧ n ∉ s.fp

theorem count_bump (m : AMap Nat Nat) (k k' : Nat) :
    count (bump m k) k' = if k' = k then count m k + 1 else count m k' := by
  unfold count bump
  rw [lookup_insert]
  by_cases e : k' = k
  · simp [e]
  · simp [e]

theorem inv_init (r : Bool) : Inv (init r) := by
  refine ⟨?_, ?_, ?_, ?_, ?_, ?_, ?_, ?_⟩ <;> intros <;> simp_all [init, count]

theorem removeSession_objs (s : TD) (id : Nat) : (removeSession s id).objs = s.objs := by
  unfold removeSession; split <;> rfl
theorem removeSession_stops (s : TD) (id : Nat) : (removeSession s id).stops = s.stops := by
  unfold removeSession; split <;> rfl
theorem removeSession_ebpf (s : TD) (id : Nat) : (removeSession s id).ebpf = s.ebpf := by
  unfold removeSession; split <;> rfl
theorem removeSession_held (s : TD) (id : Nat) : (removeSession s id).held = s.held := by
  unfold removeSession; split <;> rfl
theorem removeSession_radius (s : TD) (id : Nat) : (removeSession s id).radius = s.radius := by
  unfold removeSession; split <;> rfl
theorem removeSession_efail (s : TD) (id : Nat) : (removeSession s id).efail = s.efail := by
  unfold removeSession; split <;> rfl
theorem removeSession_fp (s : TD) (id : Nat) : (removeSession s id).fp = s.fp := by
  unfold removeSession; split <;> rfl
theorem removeSession_fault (s : TD) (id : Nat) : (removeSession s id).fault = s.fault := by
  unfold removeSession; split <;> rfl
theorem removeSession_live (s : TD) (id id' : Nat) :
    AMap.lookup (removeSession s id).live id' = if id' = id then none else AMap.lookup s.live id' := by
  unfold removeSession
  split
  · rename_i h; by_cases e : id' = id <;> simp [e, h]
  · simp [lookup_erase]

theorem inv_mk {s : TD} (hI : Inv s) (n m : Nat) (a i : Bool) : Inv (mk s n m a i).1 := by
  unfold mk
  split
  · exact hI
  · rename_i hn
    have hnone : AMap.lookup s.objs n = none := by
      cases e : AMap.lookup s.objs n <;> simp [e] at hn ⊢
    obtain ⟨u1, u2, u3, u4⟩ := hI.unused n hnone
    obtain ⟨u5, u6⟩ := hI.unusedFp n hnone
    refine ⟨?_, ?_, ?_, ?_, ?_, ?_, ?_, ?_⟩
    · intro n' o h ht
      simp only [lookup_insert] at h
      by_cases e : n' = n
      · subst e; exact ⟨u1, u2⟩
      · simp only [e, if_false] at h; exact hI.fresh n' o h ht
    · intro n' o h ht
      simp only [lookup_insert] at h
      by_cases e : n' = n
      · subst e; simp only [if_true, Option.some.injEq] at h; subst h; simp at ht
      · simp only [e, if_false] at h
        obtain ⟨d1, d2, d3, d4⟩ := hI.done n' o h ht
        refine ⟨d1, d2, ?_, ?_⟩
        · split
          · simp only [List.mem_cons, not_or]; exact ⟨e, d3⟩
          · exact d3
        · intro id hid
          simp only [lookup_insert] at hid
          split at hid
          · simp only [Option.some.injEq] at hid; exact e hid.symm
          · exact d4 id hid
    · intro n' h
      simp only [lookup_insert] at h
      by_cases e : n' = n
      · simp [e] at h
      · simp only [e, if_false] at h
        obtain ⟨a1, a2, a3, a4⟩ := hI.unused n' h
        refine ⟨a1, a2, ?_, ?_⟩
        · split
          · simp only [List.mem_cons, not_or]; exact ⟨e, a3⟩
          · exact a3
        · intro id hid
          simp only [lookup_insert] at hid
          split at hid
          · simp only [Option.some.injEq] at hid; exact e hid.symm
          · exact a4 id hid
    · intro id n' h
      simp only [lookup_insert] at h ⊢
      split at h
      · rename_i e
        simp only [Option.some.injEq] at h; subst h
        simp [e]
      · obtain ⟨o, ho, hid⟩ := hI.tbl id n' h
        by_cases e : n' = n
        · subst e; rw [hnone] at ho; simp at ho
        · simp only [e, if_false]; exact ⟨o, ho, hid⟩
    · intro n' hm
      simp only [lookup_insert]
      by_cases e : n' = n
      · subst e
        simp only [if_true]
        split at hm
        · rename_i hi; exact ⟨_, rfl, hi⟩
        · exact absurd hm u3
      · simp only [e, if_false]
        apply hI.heldIp n'
        split at hm
        · rcases List.mem_cons.mp hm with h | h
          · exact absurd h e
          · exact h
        · exact hm
    · intro n' o h ht
      simp only [lookup_insert] at h
      by_cases e : n' = n
      · subst e; exact ⟨u5, List.mem_cons_self⟩
      · simp only [e, if_false] at h
        obtain ⟨g1, g2⟩ := hI.freshFp n' o h ht
        exact ⟨g1, List.mem_cons_of_mem _ g2⟩
    · intro n' o h ht
      simp only [lookup_insert] at h
      by_cases e : n' = n
      · subst e; simp only [if_true, Option.some.injEq] at h; subst h; simp at ht
      · simp only [e, if_false] at h
        obtain ⟨g1, g2⟩ := hI.doneFp n' o h ht
        refine ⟨fun h0 => ?_, fun h1 => List.mem_cons_of_mem _ (g2 h1)⟩
        simp only [List.mem_cons, not_or]; exact ⟨e, g1 h0⟩
    · intro n' h
      simp only [lookup_insert] at h
      by_cases e : n' = n
      · simp [e] at h
      · simp only [e, if_false] at h
        obtain ⟨g1, g2⟩ := hI.unusedFp n' h
        refine ⟨g1, ?_⟩
        simp only [List.mem_cons, not_or]; exact ⟨e, g2⟩

theorem inv_cleanup {s : TD} (hI : Inv s) (n : Nat) : Inv (cleanup s n) := by
  unfold cleanup
  split
  · exact hI
  · rename_i o ho
    split
    · exact hI
    · rename_i ht
      have ht' : o.tornDown = false := by simpa using ht
      obtain ⟨f1, f2⟩ := hI.fresh n o ho ht'
      obtain ⟨f3, f4⟩ := hI.freshFp n o ho ht'
      -- whether the eBPF-map callback works this time
      generalize (s.fault == Fault.off) = ok
      refine ⟨?_, ?_, ?_, ?_, ?_, ?_, ?_, ?_⟩
      · intro n' o' h hto
        simp only [removeSession_objs, removeSession_stops, removeSession_ebpf, lookup_insert] at h ⊢
        by_cases e : n' = n
        · subst e; simp only [if_true, Option.some.injEq] at h; subst h; simp at hto
        · simp only [e, if_false] at h
          obtain ⟨g1, g2⟩ := hI.fresh n' o' h hto
          refine ⟨?_, ?_⟩
          · split
            · rw [count_bump]; simp [e, g1]
            · exact g1
          · split
            · rw [count_bump]; simp [e, g2]
            · exact g2
      · intro n' o' h hto
        simp only [removeSession_objs, removeSession_stops, removeSession_ebpf, removeSession_efail, removeSession_held,
          removeSession_radius, lookup_insert] at h ⊢
        by_cases e : n' = n
        · subst e
          simp only [if_true, Option.some.injEq] at h; subst h
          refine ⟨?_, ?_, ?_, ?_⟩
          · cases ok
            · simp only [Bool.false_eq_true, if_false]; rw [count_bump]; simp [f2, f3]
            · simp only [if_true]; rw [count_bump]; simp [f2, f3]
          · by_cases hr : (s.radius && o.authed) = true
            · simp only [hr, if_true]; rw [count_bump]; simp [f1]
            · simp only [hr]; simp [f1]
          · split
            · simp
            · rename_i hip
              intro hm
              obtain ⟨o2, ho2, hip2⟩ := hI.heldIp n' hm
              rw [ho] at ho2; simp only [Option.some.injEq] at ho2; subst ho2
              exact hip hip2
          · intro id hid
            rw [removeSession_live] at hid
            split at hid
            · simp at hid
            · rename_i hne
              obtain ⟨o2, ho2, hid2⟩ := hI.tbl id n' hid
              rw [ho] at ho2; simp only [Option.some.injEq] at ho2; subst ho2
              exact hne hid2.symm
        · simp only [e, if_false] at h
          obtain ⟨d1, d2, d3, d4⟩ := hI.done n' o' h hto
          refine ⟨?_, ?_, ?_, ?_⟩
          · cases ok
            · simp only [Bool.false_eq_true, if_false]; rw [count_bump]; simp [e, d1]
            · simp only [if_true]; rw [count_bump]; simp [e, d1]
          · split
            · rw [count_bump]; simp [e, d2]
            · exact d2
          · split
            · intro hm; exact d3 (List.mem_filter.mp hm).1
            · exact d3
          · intro id hid
            rw [removeSession_live] at hid
            split at hid
            · simp at hid
            · exact d4 id hid
      · intro n' h
        simp only [removeSession_objs, removeSession_stops, removeSession_ebpf, removeSession_held,
          lookup_insert] at h ⊢
        by_cases e : n' = n
        · simp [e] at h
        · simp only [e, if_false] at h
          obtain ⟨a1, a2, a3, a4⟩ := hI.unused n' h
          refine ⟨?_, ?_, ?_, ?_⟩
          · split
            · rw [count_bump]; simp [e, a1]
            · exact a1
          · split
            · rw [count_bump]; simp [e, a2]
            · exact a2
          · split
            · intro hm; exact a3 (List.mem_filter.mp hm).1
            · exact a3
          · intro id hid
            rw [removeSession_live] at hid
            split at hid
            · simp at hid
            · exact a4 id hid
      · intro id n' h
        rw [removeSession_live] at h
        simp only [removeSession_objs, lookup_insert]
        split at h
        · simp at h
        · obtain ⟨o2, ho2, hid2⟩ := hI.tbl id n' h
          by_cases e : n' = n
          · subst e
            rw [ho] at ho2; simp only [Option.some.injEq] at ho2; subst ho2
            exact ⟨{ o with tornDown := true }, by simp, hid2⟩
          · simp only [e, if_false]; exact ⟨o2, ho2, hid2⟩
      · intro n' hm
        simp only [removeSession_objs, removeSession_held, lookup_insert] at hm ⊢
        have hm' : n' ∈ s.held := by
          split at hm
          · exact (List.mem_filter.mp hm).1
          · exact hm
        obtain ⟨o2, ho2, hip2⟩ := hI.heldIp n' hm'
        by_cases e : n' = n
        · subst e
          rw [ho] at ho2; simp only [Option.some.injEq] at ho2; subst ho2
          exact ⟨{ o with tornDown := true }, by simp, hip2⟩
        · simp only [e, if_false]; exact ⟨o2, ho2, hip2⟩
      · -- freshFp: another session that is not torn down keeps its entry
        intro n' o' h hto
        simp only [removeSession_objs, removeSession_efail, removeSession_fp, lookup_insert] at h ⊢
        by_cases e : n' = n
        · subst e; simp only [if_true, Option.some.injEq] at h; subst h; simp at hto
        · simp only [e, if_false] at h
          obtain ⟨g1, g2⟩ := hI.freshFp n' o' h hto
          cases ok
          · simp only [Bool.false_eq_true, if_false]; rw [count_bump]; simp [e, g1, g2]
          · simp only [if_true]
            exact ⟨g1, List.mem_filter.mpr ⟨g2, by simpa using e⟩⟩
      · -- doneFp: this session's entry goes iff the callback worked; the others' entries are left alone
        intro n' o' h hto
        simp only [removeSession_objs, removeSession_efail, removeSession_fp, lookup_insert] at h ⊢
        by_cases e : n' = n
        · subst e
          cases ok
          · simp only [Bool.false_eq_true, if_false]; rw [count_bump]; simp [f3, f4]
          · simp only [if_true]
            refine ⟨fun _ hm => ?_, fun h1 => ?_⟩
            · have := (List.mem_filter.mp hm).2; simp at this
            · rw [f3] at h1; cases h1
        · simp only [e, if_false] at h
          obtain ⟨g1, g2⟩ := hI.doneFp n' o' h hto
          cases ok
          · simp only [Bool.false_eq_true, if_false]; rw [count_bump]; simp only [e, if_false]; exact ⟨g1, g2⟩
          · simp only [if_true]
            exact ⟨fun h0 hm => g1 h0 (List.mem_filter.mp hm).1,
                   fun h1 => List.mem_filter.mpr ⟨g2 h1, by simpa using e⟩⟩
      · intro n' h
        simp only [removeSession_objs, removeSession_efail, removeSession_fp, lookup_insert] at h ⊢
        by_cases e : n' = n
        · simp [e] at h
        · simp only [e, if_false] at h
          obtain ⟨g1, g2⟩ := hI.unusedFp n' h
          cases ok
          · simp only [Bool.false_eq_true, if_false]; rw [count_bump]; simp [e, g1, g2]
          · simp only [if_true]
            exact ⟨g1, fun hm => g2 (List.mem_filter.mp hm).1⟩

/-- claiming a session (TerminateSession's check-and-mark) and counting its PADT changes nothing the invariant is about -/
theorem inv_claimPadt {s : TD} (hI : Inv s) {n : Nat} {o : Obj} (ho : AMap.lookup s.objs n = some o) :
    Inv (claimPadt s n o) := by
  unfold claimPadt
  refine ⟨?_, ?_, ?_, ?_, ?_, ?_, ?_, ?_⟩
  · intro n' o' h hto
    simp only [lookup_insert] at h
    split at h
    · rename_i e; subst e
      simp only [Option.some.injEq] at h; subst h
      exact hI.fresh _ o ho hto
    · exact hI.fresh n' o' h hto
  · intro n' o' h hto
    simp only [lookup_insert] at h
    split at h
    · rename_i e; subst e
      simp only [Option.some.injEq] at h; subst h
      exact hI.done _ o ho hto
    · exact hI.done n' o' h hto
  · intro n' h
    simp only [lookup_insert] at h
    split at h
    · simp at h
    · exact hI.unused n' h
  · intro id n' h
    obtain ⟨o2, ho2, hid⟩ := hI.tbl id n' h
    simp only [lookup_insert]
    split
    · rename_i e; subst e
      rw [ho] at ho2; simp only [Option.some.injEq] at ho2; subst ho2
      exact ⟨_, rfl, hid⟩
    · exact ⟨o2, ho2, hid⟩
  · intro n' hm
    obtain ⟨o2, ho2, hip⟩ := hI.heldIp n' hm
    simp only [lookup_insert]
    split
    · rename_i e; subst e
      rw [ho] at ho2; simp only [Option.some.injEq] at ho2; subst ho2
      exact ⟨_, rfl, hip⟩
    · exact ⟨o2, ho2, hip⟩
  · intro n' o' h hto
    simp only [lookup_insert] at h
    split at h
    · rename_i e; subst e
      simp only [Option.some.injEq] at h; subst h
      exact hI.freshFp _ o ho hto
    · exact hI.freshFp n' o' h hto
  · intro n' o' h hto
    simp only [lookup_insert] at h
    split at h
    · rename_i e; subst e
      simp only [Option.some.injEq] at h; subst h
      exact hI.doneFp _ o ho hto
    · exact hI.doneFp n' o' h hto
  · intro n' h
    simp only [lookup_insert] at h
    split at h
    · simp at h
    · exact hI.unusedFp n' h

theorem inv_parked_congr {s : TD} (hI : Inv s) (p : AMap Nat Nat) : Inv { s with parked := p } :=
  ⟨hI.fresh, hI.done, hI.unused, hI.tbl, hI.heldIp, hI.freshFp, hI.doneFp, hI.unusedFp⟩

/-- arming or disarming the fault changes what the NEXT call of the callback does, nothing that has happened -/
theorem inv_fault_congr {s : TD} (hI : Inv s) (m : Fault) : Inv { s with fault := m } :=
  ⟨hI.fresh, hI.done, hI.unused, hI.tbl, hI.heldIp, hI.freshFp, hI.doneFp, hI.unusedFp⟩

theorem inv_terminate {s : TD} (hI : Inv s) (n : Nat) : Inv (terminate s n) := by
  unfold terminate
  split
  · rename_i o ho
    split
    · exact hI
    · exact inv_cleanup (inv_claimPadt hI ho) n
  · exact hI

theorem inv_foldl_terminate (l : List (Nat × Nat)) : ∀ {s : TD}, Inv s →
    Inv (l.foldl (fun st p => terminate st p.2) s) := by
  induction l with
  | nil => intro s h; exact h
  | cons p rest ih => intro s h; exact ih (inv_terminate h p.2)

theorem inv_step {s : TD} (hI : Inv s) (op : Op) : Inv (step s op) := by
  cases op with
  | mk n m a i => exact inv_mk hI n m a i
  | padt n m =>
    simp only [step]
    split
    · split
      · exact inv_cleanup hI n
      · exact hI
    · exact hI
  | term n =>
    simp only [step]
    split
    · exact inv_terminate hI n
    · exact hI
  | termId id =>
    simp only [step]
    split
    · exact inv_terminate hI _
    · exact hI
  | termMac m =>
    simp only [step]
    split
    · split
      · exact inv_terminate hI _
      · exact hI
    · exact hI
  | termUser u => exact inv_foldl_terminate _ hI
  | termAll => exact inv_foldl_terminate _ hI
  | tpark tag n =>
    simp only [step]
    split
    · exact hI
    · split
      · rename_i o ho
        split
        · exact hI
        · exact inv_parked_congr (inv_claimPadt hI ho) _
      · exact hI
  | tresume tag =>
    simp only [step]
    split
    · exact inv_cleanup (inv_parked_congr hI _) _
    · exact hI
  | authFail n =>
    simp only [step]
    split
    · rename_i o ho
      by_cases ht : o.tornDown = true
      · simp only [ht, if_true]; exact hI
      · have ht' : o.tornDown = false := by simpa using ht
        simp only [ht', Bool.false_eq_true, if_false]
        refine ⟨?_, ?_, ?_, ?_, ?_, ?_, ?_, ?_⟩
        · intro n' o' h hto
          simp only [lookup_insert] at h
          split at h
          · rename_i e; subst e; exact hI.fresh _ o ho ht'
          · exact hI.fresh n' o' h hto
        · intro n' o' h hto
          simp only [lookup_insert] at h
          split at h
          · simp only [Option.some.injEq] at h; subst h; simp [ht'] at hto
          · exact hI.done n' o' h hto
        · intro n' h
          simp only [lookup_insert] at h
          split at h
          · simp at h
          · exact hI.unused n' h
        · intro id n' h
          obtain ⟨o2, ho2, hid⟩ := hI.tbl id n' h
          simp only [lookup_insert]
          split
          · rename_i e; subst e
            rw [ho] at ho2; simp only [Option.some.injEq] at ho2; subst ho2
            exact ⟨_, rfl, hid⟩
          · exact ⟨o2, ho2, hid⟩
        · intro n' hm
          obtain ⟨o2, ho2, hip⟩ := hI.heldIp n' hm
          simp only [lookup_insert]
          split
          · rename_i e; subst e
            rw [ho] at ho2; simp only [Option.some.injEq] at ho2; subst ho2
            exact ⟨_, rfl, hip⟩
          · exact ⟨o2, ho2, hip⟩
        · intro n' o' h hto
          simp only [lookup_insert] at h
          split at h
          · rename_i e; subst e; exact hI.freshFp _ o ho ht'
          · exact hI.freshFp n' o' h hto
        · intro n' o' h hto
          simp only [lookup_insert] at h
          split at h
          · simp only [Option.some.injEq] at h; subst h; simp at hto
          · exact hI.doneFp n' o' h hto
        · intro n' h
          simp only [lookup_insert] at h
          split at h
          · simp at h
          · exact hI.unusedFp n' h
    · exact hI
  | fault m => exact inv_fault_congr hI m

theorem inv_run {s : TD} (hI : Inv s) (ops : List Op) : Inv (run s ops) := by
  induction ops generalizing s with
  | nil => exact hI
  | cons op ops ih => exact ih (inv_step hI op)

theorem cleanup_radius (t : TD) (k : Nat) : (cleanup t k).radius = t.radius := by
  unfold cleanup; split
  · rfl
  · split
    · rfl
    · rw [removeSession_radius]

theorem terminate_radius (t : TD) (k : Nat) : (terminate t k).radius = t.radius := by
  unfold terminate
  split
  · split
    · rfl
    · rw [cleanup_radius]; rfl
  · rfl

theorem foldl_terminate_radius (l : List (Nat × Nat)) : ∀ (t : TD),
    (l.foldl (fun st p => terminate st p.2) t).radius = t.radius := by
  induction l with
  | nil => intro t; rfl
  | cons p r ih => intro t; simp only [List.foldl_cons]; rw [ih, terminate_radius]

theorem step_radius (s : TD) (op : Op) : (step s op).radius = s.radius := by
  cases op with
  | mk n m a i => simp only [step, mk]; split <;> rfl
  | padt n m =>
    simp only [step]; split
    · split
      · exact cleanup_radius _ _
      · rfl
    · rfl
  | term n =>
    simp only [step]; split
    · exact terminate_radius _ _
    · rfl
  | termId id =>
    simp only [step]; split
    · exact terminate_radius _ _
    · rfl
  | termMac m =>
    simp only [step]; split
    · split
      · exact terminate_radius _ _
      · rfl
    · rfl
  | termUser u => exact foldl_terminate_radius _ _
  | termAll => exact foldl_terminate_radius _ _
  | authFail n =>
    simp only [step]; split
    · split <;> rfl
    · rfl
  | tpark tag n =>
    simp only [step]; split
    · rfl
    · split
      · split <;> rfl
      · rfl
  | tresume tag =>
    simp only [step]; split
    · rw [cleanup_radius]
    · rfl
  | fault m => rfl

theorem run_radius (s : TD) (ops : List Op) : (run s ops).radius = s.radius := by
  induction ops generalizing s with
  | nil => rfl
  | cons op ops ih =>
    simp only [run, List.foldl_cons]
    have h1 := ih (step s op)
    simp only [run] at h1
    rw [h1, step_radius]

/-! ## property theorems -/

/-- **At most one Accounting-Stop and one map removal per session**, whatever sequence of
    terminations (by any path, repeated any number of times) is applied and whether or not the eBPF-map callback
    fails: the callback is CALLED at most once per session (successful and failed calls together). -/
theorem stop_and_cleanup_at_most_once (radius : Bool) (ops : List Op) (n : Nat) :
    count (run (init radius) ops).stops n ≤ 1 ∧
    count (run (init radius) ops).ebpf n + count (run (init radius) ops).efail n ≤ 1 := by
  have hI := inv_run (inv_init radius) ops
  generalize run (init radius) ops = s at *
  cases ho : AMap.lookup s.objs n with
  | none =>
    obtain ⟨a, b, _, _⟩ := hI.unused n ho
    obtain ⟨c, _⟩ := hI.unusedFp n ho
    omega
  | some o =>
    cases ht : o.tornDown with
    | false =>
      obtain ⟨a, b⟩ := hI.fresh n o ho ht
      obtain ⟨c, _⟩ := hI.freshFp n o ho ht
      omega
    | true =>
      obtain ⟨a, b, _, _⟩ := hI.done n o ho ht
      constructor
      · rw [b]; split <;> omega
      · omega

/-- **A terminated session holds nothing**: after any history — with the eBPF-map callback failing or not — a session
    that has been torn down has no pool entry, is not in the session table, the eBPF-map callback was called for it
    exactly once, and exactly one Accounting-Stop was issued iff accounting applies to it (RADIUS configured and the
    session authenticated).  (Its fast-path entry: `fastpath_entry_removed_partial`.) -/
theorem terminated_holds_nothing (radius : Bool) (ops : List Op) (n : Nat) (o : Obj)
    (ho : AMap.lookup (run (init radius) ops).objs n = some o) (ht : o.tornDown = true) :
    n ∉ (run (init radius) ops).held ∧
    (∀ id, AMap.lookup (run (init radius) ops).live id ≠ some n) ∧
    count (run (init radius) ops).ebpf n + count (run (init radius) ops).efail n = 1 ∧
    count (run (init radius) ops).stops n = (if radius && o.authed then 1 else 0) := by
  have hI := inv_run (inv_init radius) ops
  have hr : (run (init radius) ops).radius = radius := run_radius _ ops
  obtain ⟨a, b, c, d⟩ := hI.done n o ho ht
  rw [hr] at b
  exact ⟨c, d, a, b⟩

/-- **No fast-path entry still answers for it — partial**: after any history, the fast-path entry of a torn-down
    session is gone and was removed exactly once, PROVIDED the eBPF-map callback did not return an error when it was
    called for this session (the negation of the exclusion clause of KF-pppoe-teardown-ebpf-noretry).  Missing for the
    full statement: a session whose one removal attempt failed — `failed_removal_never_retried`. -/
theorem fastpath_entry_removed_partial (radius : Bool) (ops : List Op) (n : Nat) (o : Obj)
    (ho : AMap.lookup (run (init radius) ops).objs n = some o) (ht : o.tornDown = true)
    (hok : count (run (init radius) ops).efail n = 0) :
    n ∉ (run (init radius) ops).fp ∧ count (run (init radius) ops).ebpf n = 1 := by
  have hI := inv_run (inv_init radius) ops
  obtain ⟨a, _, _, _⟩ := hI.done n o ho ht
  exact ⟨(hI.doneFp n o ho ht).1 hok, by omega⟩

/-- a session that is still up has its fast-path entry: teardown removes nobody else's entry -/
theorem live_session_keeps_entry (radius : Bool) (ops : List Op) (n : Nat) (o : Obj)
    (ho : AMap.lookup (run (init radius) ops).objs n = some o) (ht : o.tornDown = false) :
    n ∈ (run (init radius) ops).fp :=
  ((inv_run (inv_init radius) ops).freshFp n o ho ht).2

/-! ### the recorded finding KF-pppoe-teardown-ebpf-noretry: a failed removal is never tried again -/

/-- session `n` is torn down and the one call of the eBPF-map callback for it returned an error -/
def Stuck (n : Nat) (s : TD) : Prop :=
  ∃ o, AMap.lookup s.objs n = some o ∧ o.tornDown = true ∧ count s.efail n = 1

theorem stuck_cleanup {n : Nat} {s : TD} (h : Stuck n s) (k : Nat) : Stuck n (cleanup s k) := by
  obtain ⟨o, ho, ht, hf⟩ := h
  unfold cleanup
  split
  · exact ⟨o, ho, ht, hf⟩
  · rename_i ok hok
    split
    · exact ⟨o, ho, ht, hf⟩
    · rename_i hk
      have hne : n ≠ k := by
        intro e; subst e
        rw [ho] at hok; simp only [Option.some.injEq] at hok; subst hok
        exact hk ht
      refine ⟨o, ?_, ht, ?_⟩
      · rw [removeSession_objs]; simp only [lookup_insert, hne, if_false]; exact ho
      · rw [removeSession_efail]
        show count (if (s.fault == Fault.off) = true then s.efail else bump s.efail k) n = 1
        split
        · exact hf
        · rw [count_bump]; simp only [hne, if_false]; exact hf

theorem stuck_claimPadt {n : Nat} {s : TD} (h : Stuck n s) {k : Nat} {ok : Obj} (hok : AMap.lookup s.objs k = some ok) :
    Stuck n (claimPadt s k ok) := by
  obtain ⟨o, ho, ht, hf⟩ := h
  unfold claimPadt
  by_cases e : n = k
  · subst e
    rw [ho] at hok; simp only [Option.some.injEq] at hok; subst hok
    exact ⟨{ o with claimed := true }, by simp, ht, hf⟩
  · exact ⟨o, by simp only [lookup_insert, e, if_false]; exact ho, ht, hf⟩

theorem stuck_terminate {n : Nat} {s : TD} (h : Stuck n s) (k : Nat) : Stuck n (terminate s k) := by
  unfold terminate
  split
  · rename_i ok hok
    split
    · exact h
    · exact stuck_cleanup (stuck_claimPadt h hok) k
  · exact h

theorem stuck_foldl_terminate {n : Nat} (l : List (Nat × Nat)) : ∀ {s : TD}, Stuck n s →
    Stuck n (l.foldl (fun st p => terminate st p.2) s) := by
  induction l with
  | nil => intro s h; exact h
  | cons p rest ih => intro s h; exact ih (stuck_terminate h p.2)

theorem stuck_step {n : Nat} {s : TD} (h : Stuck n s) (op : Op) : Stuck n (step s op) := by
  cases op with
  | mk k m a i =>
    obtain ⟨o, ho, ht, hf⟩ := h
    simp only [step, mk]
    split
    · exact ⟨o, ho, ht, hf⟩
    · rename_i hk
      have hne : n ≠ k := by intro e; subst e; simp [ho] at hk
      exact ⟨o, by simp only [lookup_insert, hne, if_false]; exact ho, ht, hf⟩
  | padt k m =>
    simp only [step]; split
    · split
      · exact stuck_cleanup h k
      · exact h
    · exact h
  | term k => simp only [step]; split
              · exact stuck_terminate h k
              · exact h
  | termId id => simp only [step]; split
                 · exact stuck_terminate h _
                 · exact h
  | termMac m =>
    simp only [step]; split
    · split
      · exact stuck_terminate h _
      · exact h
    · exact h
  | termUser u => exact stuck_foldl_terminate _ h
  | termAll => exact stuck_foldl_terminate _ h
  | authFail k =>
    obtain ⟨o, ho, ht, hf⟩ := h
    simp only [step]
    split
    · rename_i ok hok
      split
      · exact ⟨o, ho, ht, hf⟩
      · rename_i hk
        have hne : n ≠ k := by
          intro e; subst e
          rw [ho] at hok; simp only [Option.some.injEq] at hok; subst hok
          exact hk ht
        exact ⟨o, by simp only [lookup_insert, hne, if_false]; exact ho, ht, hf⟩
    · exact ⟨o, ho, ht, hf⟩
  | tpark tag k =>
    simp only [step]; split
    · exact h
    · split
      · rename_i ok hok
        split
        · exact h
        · obtain ⟨o, ho, ht, hf⟩ := stuck_claimPadt h hok
          exact ⟨o, ho, ht, hf⟩
      · exact h
  | tresume tag =>
    simp only [step]; split
    · refine stuck_cleanup (s := { s with parked := AMap.erase s.parked tag }) ?_ _
      obtain ⟨o, ho, ht, hf⟩ := h
      exact ⟨o, ho, ht, hf⟩
    · exact h
  | fault m =>
    obtain ⟨o, ho, ht, hf⟩ := h
    exact ⟨o, ho, ht, hf⟩

theorem stuck_run {n : Nat} {s : TD} (h : Stuck n s) (ops : List Op) : Stuck n (run s ops) := by
  induction ops generalizing s with
  | nil => exact h
  | cons op ops ih => exact ih (stuck_step h op)

/-- **The recorded finding, in general**: once the eBPF-map callback has returned an error for a session (its cleanup
    went on and the session is torn down), NO later history — terminations by any path, repeated, with the callback
    working again — removes its fast-path entry: the entry is still there and no removal was ever counted.  The code
    marks the session torn down before it calls the callback, so every later termination returns at the tornDown check. -/
theorem failed_removal_never_retried (radius : Bool) (ops more : List Op) (n : Nat) (o : Obj)
    (ho : AMap.lookup (run (init radius) ops).objs n = some o) (ht : o.tornDown = true)
    (hf : count (run (init radius) ops).efail n = 1) :
    n ∈ (run (run (init radius) ops) more).fp ∧ count (run (run (init radius) ops) more).ebpf n = 0 := by
  have hI : Inv (run (run (init radius) ops) more) := inv_run (inv_run (inv_init radius) ops) more
  obtain ⟨o', ho', ht', hf'⟩ := stuck_run (n := n) ⟨o, ho, ht, hf⟩ more
  obtain ⟨a, _, _, _⟩ := hI.done n o' ho' ht'
  exact ⟨(hI.doneFp n o' ho' ht').2 hf', by omega⟩

/-- **The recorded finding, witnessed**: a client PADT while the callback fails tears the session down (address back,
    session gone, one Accounting-Stop) but leaves its fast-path entry; the callback works again, and termination by
    every other path changes nothing: the entry still answers for the ended session. -/
theorem ebpf_noretry_witness :
    let s := run (init true) [.mk 1 1 true true, .fault .on, .padt 1 1, .fault .off,
                              .term 1, .termMac 1, .termId 1, .termUser 1, .termAll, .padt 1 1]
    s.fp = [1] ∧ count s.ebpf 1 = 0 ∧ count s.efail 1 = 1 ∧ s.held = [] ∧ s.live = [] ∧ count s.stops 1 = 1 := by
  decide

theorem cleanup_tears_down (s : TD) (n : Nat) (o : Obj) (ho : AMap.lookup s.objs n = some o) :
    ∃ o', AMap.lookup (cleanup s n).objs n = some o' ∧ o'.tornDown = true := by
  unfold cleanup
  rw [ho]
  by_cases ht : o.tornDown = true
  · simp only [ht, if_true]; exact ⟨o, ho, ht⟩
  · have ht' : o.tornDown = false := by simpa using ht
    simp only [ht', Bool.false_eq_true, if_false]
    rw [removeSession_objs]; exact ⟨{ o with tornDown := true }, by simp, rfl⟩

/-- **Every termination path tears the session down**: directly after TerminateSession on a session object that no
    other TerminateSession call is at work on, it is marked torn down (so `terminated_holds_nothing` applies to it). -/
theorem terminate_tears_down (s : TD) (n : Nat) (o : Obj) (ho : AMap.lookup s.objs n = some o)
    (hc : o.claimed = false) :
    ∃ o', AMap.lookup (step s (.term n)).objs n = some o' ∧ o'.tornDown = true := by
  simp only [step, ho, Option.isSome_some, if_true, terminate]
  by_cases ht : o.tornDown = true
  · simp only [ht, Bool.true_or, if_true]; exact ⟨o, ho, ht⟩
  · have ht' : o.tornDown = false := by simpa using ht
    simp only [ht', hc, Bool.or_self, Bool.false_eq_true, if_false]
    exact cleanup_tears_down _ n { o with claimed := true } (by simp [claimPadt])

/-- **By two paths at once**: a TerminateSession call that finds another one already at work on the session does
    nothing at all — no second PADT, no state change (fix 58cbf8f); the call at work finishes the job
    (`parked_call_tears_down`). -/
theorem terminate_while_claimed_inert (s : TD) (n : Nat) (o : Obj) (ho : AMap.lookup s.objs n = some o)
    (hc : o.claimed = true) : step s (.term n) = s := by
  simp [step, ho, terminate, hc]

/-- a TerminateSession call held inside its PADT callback tears the session down when it goes on, whatever
    happened to the session in between -/
theorem parked_call_tears_down (s : TD) (tag n : Nat) (o : Obj) (hp : AMap.lookup s.parked tag = some n)
    (ho : AMap.lookup s.objs n = some o) :
    ∃ o', AMap.lookup (step s (.tresume tag)).objs n = some o' ∧ o'.tornDown = true := by
  simp only [step, hp]
  exact cleanup_tears_down _ n o ho

/-- a client PADT from the session's own MAC tears it down; from any other MAC it changes nothing -/
theorem padt_owner_only (s : TD) (n m : Nat) (o : Obj) (ho : AMap.lookup s.objs n = some o) :
    (o.mac = m → ∃ o', AMap.lookup (step s (.padt n m)).objs n = some o' ∧ o'.tornDown = true) ∧
    (o.mac ≠ m → step s (.padt n m) = s) := by
  constructor
  · intro hm
    subst hm
    simp only [step, ho, if_true, cleanup]
    split
    · rename_i ht; exact ⟨o, ho, ht⟩
    · rw [removeSession_objs]; exact ⟨{ o with tornDown := true }, by simp, rfl⟩
  · intro hm
    simp [step, ho, hm]

/-- helper: cleaning up a session that is already torn down is the identity -/
theorem cleanup_of_tornDown (s : TD) (n : Nat) (o : Obj) (ho : AMap.lookup s.objs n = some o)
    (ht : o.tornDown = true) : cleanup s n = s := by
  simp [cleanup, ho, ht]

/-- **Ending a session twice has no further effect**: a second cleanup of the same session object
    leaves the whole state (pool, session table, accounting, maps) unchanged. -/
theorem cleanup_idempotent (s : TD) (n : Nat) : cleanup (cleanup s n) n = cleanup s n := by
  cases ho : AMap.lookup s.objs n with
  | none =>
    have : cleanup s n = s := by simp [cleanup, ho]
    rw [this, this]
  | some o =>
    by_cases ht : o.tornDown = true
    · rw [cleanup_of_tornDown s n o ho ht, cleanup_of_tornDown s n o ho ht]
    · have h1 : AMap.lookup (cleanup s n).objs n = some { o with tornDown := true } := by
        simp [cleanup, ho, ht, removeSession_objs]
      exact cleanup_of_tornDown _ n _ h1 rfl

/-- **Ending a session twice through the API has no further effect**: a second TerminateSession on
    the same session object leaves the WHOLE state unchanged — no further PADT, Accounting-Stop, map
    removal, pool or table change (after the fix f4189e1). -/
theorem terminate_idempotent (s : TD) (n : Nat) : terminate (terminate s n) n = terminate s n := by
  cases ho : AMap.lookup s.objs n with
  | none =>
    have : terminate s n = s := by simp [terminate, ho]
    rw [this, this]
  | some o =>
    by_cases ht : (o.tornDown || o.claimed) = true
    · have : terminate s n = s := by simp only [terminate, ho, ht, if_true]
      rw [this, this]
    · have ht' : (o.tornDown || o.claimed) = false := by simpa using ht
      have h0 : terminate s n = cleanup (claimPadt s n o) n := by
        simp only [terminate, ho, ht', Bool.false_eq_true, if_false]
      obtain ⟨o', h1, h2⟩ := cleanup_tears_down (claimPadt s n o) n { o with claimed := true } (by simp [claimPadt])
      rw [h0]
      generalize cleanup (claimPadt s n o) n = t at h1 ⊢
      simp [terminate, h1, h2]

/-! ### exactly one PADT per session, also under concurrent terminations -/

/-- whether a TerminateSession call has claimed the session -/
def cl (s : TD) (n : Nat) : Option Bool := (AMap.lookup s.objs n).map (·.claimed)

/-- a server PADT was sent for exactly the sessions some TerminateSession call has claimed -/
def PInv (s : TD) : Prop := ∀ n, count s.padt n = (if cl s n = some true then 1 else 0)

theorem pinv_congr {s s' : TD} (h : PInv s) (hp : s'.padt = s.padt)
    (hc : ∀ k, cl s' k = some true ↔ cl s k = some true) : PInv s' := by
  intro k
  rw [hp, h k]
  by_cases e : cl s k = some true
  · rw [if_pos e, if_pos ((hc k).mpr e)]
  · rw [if_neg e, if_neg (fun e' => e ((hc k).mp e'))]

theorem removeSession_padt (s : TD) (id : Nat) : (removeSession s id).padt = s.padt := by
  unfold removeSession; split <;> rfl

theorem cleanup_padt (s : TD) (n : Nat) : (cleanup s n).padt = s.padt := by
  unfold cleanup
  split
  · rfl
  · split
    · rfl
    · rw [removeSession_padt]

theorem cleanup_cl (s : TD) (n k : Nat) : cl (cleanup s n) k = cl s k := by
  unfold cleanup cl
  split
  · rfl
  · rename_i o ho
    split
    · rfl
    · rw [removeSession_objs]
      simp only [lookup_insert]
      split
      · rename_i e; subst e; rw [ho]; rfl
      · rfl

theorem pinv_cleanup {s : TD} (h : PInv s) (n : Nat) : PInv (cleanup s n) := by
  intro k; rw [cleanup_padt, cleanup_cl]; exact h k

theorem pinv_claimPadt {s : TD} (h : PInv s) {n : Nat} {o : Obj} (ho : AMap.lookup s.objs n = some o)
    (hc : o.claimed = false) : PInv (claimPadt s n o) := by
  intro k
  show count (bump s.padt n) k = _
  rw [count_bump]
  have hk := h k
  by_cases e : k = n
  · subst e
    have : cl s k = some false := by simp [cl, ho, hc]
    rw [this] at hk
    simp only [if_true]
    have : cl (claimPadt s k o) k = some true := by simp [cl, claimPadt]
    rw [this]; simp at hk ⊢; omega
  · simp only [e, if_false]
    have : cl (claimPadt s n o) k = cl s k := by simp [cl, claimPadt, lookup_insert, e]
    rw [this]; exact hk

theorem pinv_terminate {s : TD} (h : PInv s) (n : Nat) : PInv (terminate s n) := by
  unfold terminate
  split
  · rename_i o ho
    split
    · exact h
    · rename_i hc
      have hc' : o.claimed = false := by
        cases e : o.claimed
        · rfl
        · simp [e] at hc
      exact pinv_cleanup (pinv_claimPadt h ho hc') n
  · exact h

theorem pinv_foldl_terminate (l : List (Nat × Nat)) : ∀ {s : TD}, PInv s →
    PInv (l.foldl (fun st p => terminate st p.2) s) := by
  induction l with
  | nil => intro s h; exact h
  | cons p rest ih => intro s h; exact ih (pinv_terminate h p.2)

theorem pinv_step {s : TD} (h : PInv s) (op : Op) : PInv (step s op) := by
  cases op with
  | mk n m a i =>
    simp only [step, mk]
    split
    · exact h
    · rename_i hnone
      have hn : AMap.lookup s.objs n = none := by
        cases e : AMap.lookup s.objs n
        · rfl
        · simp [e] at hnone
      refine pinv_congr h rfl ?_
      intro k
      simp only [cl, lookup_insert]
      split
      · rename_i e; subst e; simp [hn]
      · exact Iff.rfl
  | padt n m =>
    simp only [step]
    split
    · split
      · exact pinv_cleanup h n
      · exact h
    · exact h
  | term n =>
    simp only [step]
    split
    · exact pinv_terminate h n
    · exact h
  | termId id =>
    simp only [step]
    split
    · exact pinv_terminate h _
    · exact h
  | termMac m =>
    simp only [step]
    split
    · split
      · exact pinv_terminate h _
      · exact h
    · exact h
  | termUser u => exact pinv_foldl_terminate _ h
  | termAll => exact pinv_foldl_terminate _ h
  | authFail n =>
    simp only [step]
    split
    · rename_i o ho
      split
      · exact h
      · intro k
        have hk := h k
        show count s.padt k = _
        have : cl { s with objs := AMap.insert s.objs n { o with authed := false } } k = cl s k := by
          simp only [cl, lookup_insert]
          split
          · rename_i e; subst e; rw [ho]; rfl
          · rfl
        rw [this]; exact hk
    · exact h
  | tpark tag n =>
    simp only [step]
    split
    · exact h
    · split
      · rename_i o ho
        split
        · exact h
        · rename_i hc
          have hc' : o.claimed = false := by
            cases e : o.claimed
            · rfl
            · simp [e] at hc
          exact pinv_congr (pinv_claimPadt h ho hc') rfl (fun _ => Iff.rfl)
      · exact h
  | tresume tag =>
    simp only [step]
    split
    · have h' : PInv { s with parked := AMap.erase s.parked tag } := pinv_congr h rfl (fun _ => Iff.rfl)
      exact pinv_cleanup h' _
    · exact h
  | fault m => exact pinv_congr h rfl (fun _ => Iff.rfl)

theorem pinv_run {s : TD} (h : PInv s) (ops : List Op) : PInv (run s ops) := by
  induction ops generalizing s with
  | nil => exact h
  | cons op ops ih => exact ih (pinv_step h op)

/-- **Exactly one PADT**: whatever terminations are applied, in whatever order and however two TerminateSession
    calls interleave (`tpark`/`tresume`), the server sends at most one PADT per session, and exactly one iff a
    TerminateSession call took the session on. -/
theorem padt_at_most_once (radius : Bool) (ops : List Op) (n : Nat) :
    count (run (init radius) ops).padt n ≤ 1 ∧
    (count (run (init radius) ops).padt n = 1 ↔ cl (run (init radius) ops) n = some true) := by
  have h := pinv_run (s := init radius) (by intro k; simp [init, cl, count, AMap.lookup]) ops n
  rw [h]
  constructor
  · split <;> omega
  · split <;> simp_all

/-! non-vacuity: a concrete history with a double termination of an authenticated, addressed session -/
example : count (run (init true) [.mk 1 1 true true, .term 1, .term 1, .termAll]).stops 1 = 1 ∧
    count (run (init true) [.mk 1 1 true true, .term 1, .term 1, .termAll]).padt 1 = 1 ∧
    (run (init true) [.mk 1 1 true true, .term 1, .term 1]).held = [] := by decide

/-! non-vacuity: two terminations at once — A is held in its PADT, B (and a client PADT) arrive, A goes on -/
example : let s := run (init true) [.mk 1 1 true true, .tpark 0 1, .term 1, .padt 1 1, .tresume 0, .term 1]
    count s.padt 1 = 1 ∧ count s.stops 1 = 1 ∧ count s.ebpf 1 = 1 ∧ s.held = [] ∧ s.live = [] := by decide
example : (AMap.lookup (run (init true) [.mk 1 1 true true, .tpark 0 1]).objs 1).map (·.claimed) = some true := by
  decide

/-! non-vacuity of `fastpath_entry_removed_partial` (a torn-down session whose callback worked, next to one whose
    callback failed) and of `failed_removal_never_retried` (hypotheses hold after `fault once; termAll`) -/
example : let s := run (init false) [.mk 1 1 true true, .mk 2 2 true true, .fault .once, .term 1, .term 2]
    (AMap.lookup s.objs 2).map (·.tornDown) = some true ∧ count s.efail 2 = 0 ∧ s.fp = [1] ∧ count s.ebpf 2 = 1 ∧
    (AMap.lookup s.objs 1).map (·.tornDown) = some true ∧ count s.efail 1 = 1 := by decide

end Bng.Spec.C16Teardown
