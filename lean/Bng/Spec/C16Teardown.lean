import Bng.Model.Teardown
/-
  C16 (PPPoE teardown paths) — Ending a session by any path releases everything it held, exactly once.

  Theorems over the model of pkg/pppoe/teardown.go (SessionTeardown + the SessionManager/IPPool parts it
  uses), for ALL sequences of session creations and terminations by any path (client PADT, TerminateSession
  on a held pointer, TerminateByID/ByMAC/ByUsername/All), including repeated terminations of one session.
-/
namespace Bng.Spec.C16Teardown
open Bng Bng.Teardown AMap

/-- what holds of every reachable state -/
structure Inv (s : TD) : Prop where
  /-- a session that was not torn down has had no Accounting-Stop and no map removal -/
  fresh : ∀ n o, AMap.lookup s.objs n = some o → o.tornDown = false →
      count s.stops n = 0 ∧ count s.ebpf n = 0
  /-- a torn-down session was cleaned up exactly once and holds nothing -/
  done : ∀ n o, AMap.lookup s.objs n = some o → o.tornDown = true →
      count s.ebpf n = 1 ∧ count s.stops n = (if s.radius && o.authed then 1 else 0) ∧
      n ∉ s.held ∧ ∀ id, AMap.lookup s.live id ≠ some n
  /-- names never used have no trace anywhere -/
  unused : ∀ n, AMap.lookup s.objs n = none →
      count s.stops n = 0 ∧ count s.ebpf n = 0 ∧ n ∉ s.held ∧ ∀ id, AMap.lookup s.live id ≠ some n
  /-- the session table points at session objects carrying that id -/
  tbl : ∀ id n, AMap.lookup s.live id = some n → ∃ o, AMap.lookup s.objs n = some o ∧ o.id = id
  /-- only sessions that were given an address have a pool entry -/
  heldIp : ∀ n, n ∈ s.held → ∃ o, AMap.lookup s.objs n = some o ∧ o.hasIp = true

theorem count_bump (m : AMap Nat Nat) (k k' : Nat) :
    count (bump m k) k' = if k' = k then count m k + 1 else count m k' := by
  unfold count bump
  rw [lookup_insert]
  by_cases e : k' = k
  · simp [e]
  · simp [e]

theorem inv_init (r : Bool) : Inv (init r) := by
  refine ⟨?_, ?_, ?_, ?_, ?_⟩ <;> intros <;> simp_all [init, count]

theorem removeSession_objs (s : TD) (id : Nat) : (removeSession s id).objs = s.objs := by
  unfold removeSession; split <;> rfl
theorem removeSession_stops (s : TD) (id : Nat) : (removeSession s id).stops = s.stops := by
  unfold removeSession; split <;> rfl
theorem removeSession_ebpf (s : TD) (id : Nat) : (removeSession s id).ebpf = s.ebpf := by
  unfold removeSession; split <;> rfl
theorem removeSession_held (s : TD) (id : Nat) : (removeSession s id).held = s.held := by
  unfold removeSession; split <;> rfl
theorem removeSession_radius (s : TD) (id : Nat) : (removeSession s id).radius = s.radius := by
  unfold removeSession; split <;> rfl
theorem removeSession_live (s : TD) (id id' : Nat) :
    AMap.lookup (removeSession s id).live id' = if id' = id then none else AMap.lookup s.live id' := by
  unfold removeSession
  split
  · rename_i h; by_cases e : id' = id <;> simp [e, h]
  · simp [lookup_erase]

theorem inv_mk {s : TD} (hI : Inv s) (n m : Nat) (a i : Bool) : Inv (mk s n m a i).1 := by
  unfold mk
  split
  · exact hI
  · rename_i hn
    have hnone : AMap.lookup s.objs n = none := by
      cases e : AMap.lookup s.objs n <;> simp [e] at hn ⊢
    obtain ⟨u1, u2, u3, u4⟩ := hI.unused n hnone
    refine ⟨?_, ?_, ?_, ?_, ?_⟩
    · intro n' o h ht
      simp only [lookup_insert] at h
      by_cases e : n' = n
      · subst e; exact ⟨u1, u2⟩
      · simp only [e, if_false] at h; exact hI.fresh n' o h ht
    · intro n' o h ht
      simp only [lookup_insert] at h
      by_cases e : n' = n
      · subst e; simp only [if_true, Option.some.injEq] at h; subst h; simp at ht
      · simp only [e, if_false] at h
        obtain ⟨d1, d2, d3, d4⟩ := hI.done n' o h ht
        refine ⟨d1, d2, ?_, ?_⟩
        · split
          · simp only [List.mem_cons, not_or]; exact ⟨e, d3⟩
          · exact d3
        · intro id hid
          simp only [lookup_insert] at hid
          split at hid
          · simp only [Option.some.injEq] at hid; exact e hid.symm
          · exact d4 id hid
    · intro n' h
      simp only [lookup_insert] at h
      by_cases e : n' = n
      · simp [e] at h
      · simp only [e, if_false] at h
        obtain ⟨a1, a2, a3, a4⟩ := hI.unused n' h
        refine ⟨a1, a2, ?_, ?_⟩
        · split
          · simp only [List.mem_cons, not_or]; exact ⟨e, a3⟩
          · exact a3
        · intro id hid
          simp only [lookup_insert] at hid
          split at hid
          · simp only [Option.some.injEq] at hid; exact e hid.symm
          · exact a4 id hid
    · intro id n' h
      simp only [lookup_insert] at h ⊢
      split at h
      · rename_i e
        simp only [Option.some.injEq] at h; subst h
        simp [e]
      · obtain ⟨o, ho, hid⟩ := hI.tbl id n' h
        by_cases e : n' = n
        · subst e; rw [hnone] at ho; simp at ho
        · simp only [e, if_false]; exact ⟨o, ho, hid⟩
    · intro n' hm
      simp only [lookup_insert]
      by_cases e : n' = n
      · subst e
        simp only [if_true]
        split at hm
        · rename_i hi; exact ⟨_, rfl, hi⟩
        · exact absurd hm u3
      · simp only [e, if_false]
        apply hI.heldIp n'
        split at hm
        · rcases List.mem_cons.mp hm with h | h
          · exact absurd h e
          · exact h
        · exact hm

theorem inv_cleanup {s : TD} (hI : Inv s) (n : Nat) : Inv (cleanup s n) := by
  unfold cleanup
  split
  · exact hI
  · rename_i o ho
    split
    · exact hI
    · rename_i ht
      have ht' : o.tornDown = false := by simpa using ht
      obtain ⟨f1, f2⟩ := hI.fresh n o ho ht'
      refine ⟨?_, ?_, ?_, ?_, ?_⟩
      · intro n' o' h hto
        simp only [removeSession_objs, removeSession_stops, removeSession_ebpf, lookup_insert] at h ⊢
        by_cases e : n' = n
        · subst e; simp only [if_true, Option.some.injEq] at h; subst h; simp at hto
        · simp only [e, if_false] at h
          obtain ⟨g1, g2⟩ := hI.fresh n' o' h hto
          refine ⟨?_, ?_⟩
          · split
            · rw [count_bump]; simp [e, g1]
            · exact g1
          · rw [count_bump]; simp [e, g2]
      · intro n' o' h hto
        simp only [removeSession_objs, removeSession_stops, removeSession_ebpf, removeSession_held,
          removeSession_radius, lookup_insert] at h ⊢
        by_cases e : n' = n
        · subst e
          simp only [if_true, Option.some.injEq] at h; subst h
          refine ⟨?_, ?_, ?_, ?_⟩
          · rw [count_bump]; simp [f2]
          · by_cases hr : (s.radius && o.authed) = true
            · simp only [hr, if_true]; rw [count_bump]; simp [f1]
            · simp only [hr]; simp [f1]
          · split
            · simp
            · rename_i hip
              intro hm
              obtain ⟨o2, ho2, hip2⟩ := hI.heldIp n' hm
              rw [ho] at ho2; simp only [Option.some.injEq] at ho2; subst ho2
              exact hip hip2
          · intro id hid
            rw [removeSession_live] at hid
            split at hid
            · simp at hid
            · rename_i hne
              obtain ⟨o2, ho2, hid2⟩ := hI.tbl id n' hid
              rw [ho] at ho2; simp only [Option.some.injEq] at ho2; subst ho2
              exact hne hid2.symm
        · simp only [e, if_false] at h
          obtain ⟨d1, d2, d3, d4⟩ := hI.done n' o' h hto
          refine ⟨?_, ?_, ?_, ?_⟩
          · rw [count_bump]; simp [e, d1]
          · split
            · rw [count_bump]; simp [e, d2]
            · exact d2
          · split
            · intro hm; exact d3 (List.mem_filter.mp hm).1
            · exact d3
          · intro id hid
            rw [removeSession_live] at hid
            split at hid
            · simp at hid
            · exact d4 id hid
      · intro n' h
        simp only [removeSession_objs, removeSession_stops, removeSession_ebpf, removeSession_held,
          lookup_insert] at h ⊢
        by_cases e : n' = n
        · simp [e] at h
        · simp only [e, if_false] at h
          obtain ⟨a1, a2, a3, a4⟩ := hI.unused n' h
          refine ⟨?_, ?_, ?_, ?_⟩
          · split
            · rw [count_bump]; simp [e, a1]
            · exact a1
          · rw [count_bump]; simp [e, a2]
          · split
            · intro hm; exact a3 (List.mem_filter.mp hm).1
            · exact a3
          · intro id hid
            rw [removeSession_live] at hid
            split at hid
            · simp at hid
            · exact a4 id hid
      · intro id n' h
        rw [removeSession_live] at h
        simp only [removeSession_objs, lookup_insert]
        split at h
        · simp at h
        · obtain ⟨o2, ho2, hid2⟩ := hI.tbl id n' h
          by_cases e : n' = n
          · subst e
            rw [ho] at ho2; simp only [Option.some.injEq] at ho2; subst ho2
            exact ⟨{ o with tornDown := true }, by simp, hid2⟩
          · simp only [e, if_false]; exact ⟨o2, ho2, hid2⟩
      · intro n' hm
        simp only [removeSession_objs, removeSession_held, lookup_insert] at hm ⊢
        have hm' : n' ∈ s.held := by
          split at hm
          · exact (List.mem_filter.mp hm).1
          · exact hm
        obtain ⟨o2, ho2, hip2⟩ := hI.heldIp n' hm'
        by_cases e : n' = n
        · subst e
          rw [ho] at ho2; simp only [Option.some.injEq] at ho2; subst ho2
          exact ⟨{ o with tornDown := true }, by simp, hip2⟩
        · simp only [e, if_false]; exact ⟨o2, ho2, hip2⟩

theorem inv_terminate {s : TD} (hI : Inv s) (n : Nat) : Inv (terminate s n) := by
  unfold terminate
  split
  · split
    · exact hI
    · apply inv_cleanup
      exact ⟨hI.fresh, hI.done, hI.unused, hI.tbl, hI.heldIp⟩
  · exact hI

theorem inv_foldl_terminate (l : List (Nat × Nat)) : ∀ {s : TD}, Inv s →
    Inv (l.foldl (fun st p => terminate st p.2) s) := by
  induction l with
  | nil => intro s h; exact h
  | cons p rest ih => intro s h; exact ih (inv_terminate h p.2)

theorem inv_step {s : TD} (hI : Inv s) (op : Op) : Inv (step s op) := by
  cases op with
  | mk n m a i => exact inv_mk hI n m a i
  | padt n m =>
    simp only [step]
    split
    · split
      · exact inv_cleanup hI n
      · exact hI
    · exact hI
  | term n =>
    simp only [step]
    split
    · exact inv_terminate hI n
    · exact hI
  | termId id =>
    simp only [step]
    split
    · exact inv_terminate hI _
    · exact hI
  | termMac m =>
    simp only [step]
    split
    · split
      · exact inv_terminate hI _
      · exact hI
    · exact hI
  | termUser u => exact inv_foldl_terminate _ hI
  | termAll => exact inv_foldl_terminate _ hI
  | authFail n =>
    simp only [step]
    split
    · rename_i o ho
      by_cases ht : o.tornDown = true
      · simp only [ht, if_true]; exact hI
      · have ht' : o.tornDown = false := by simpa using ht
        simp only [ht', Bool.false_eq_true, if_false]
        refine ⟨?_, ?_, ?_, ?_, ?_⟩
        · intro n' o' h hto
          simp only [lookup_insert] at h
          split at h
          · rename_i e; subst e; exact hI.fresh _ o ho ht'
          · exact hI.fresh n' o' h hto
        · intro n' o' h hto
          simp only [lookup_insert] at h
          split at h
          · simp only [Option.some.injEq] at h; subst h; simp [ht'] at hto
          · exact hI.done n' o' h hto
        · intro n' h
          simp only [lookup_insert] at h
          split at h
          · simp at h
          · exact hI.unused n' h
        · intro id n' h
          obtain ⟨o2, ho2, hid⟩ := hI.tbl id n' h
          simp only [lookup_insert]
          split
          · rename_i e; subst e
            rw [ho] at ho2; simp only [Option.some.injEq] at ho2; subst ho2
            exact ⟨_, rfl, hid⟩
          · exact ⟨o2, ho2, hid⟩
        · intro n' hm
          obtain ⟨o2, ho2, hip⟩ := hI.heldIp n' hm
          simp only [lookup_insert]
          split
          · rename_i e; subst e
            rw [ho] at ho2; simp only [Option.some.injEq] at ho2; subst ho2
            exact ⟨_, rfl, hip⟩
          · exact ⟨o2, ho2, hip⟩
    · exact hI

theorem inv_run {s : TD} (hI : Inv s) (ops : List Op) : Inv (run s ops) := by
  induction ops generalizing s with
  | nil => exact hI
  | cons op ops ih => exact ih (inv_step hI op)

/-! ## property theorems -/

/-- **At most one Accounting-Stop and one map removal per session**, whatever sequence of
    terminations (by any path, repeated any number of times) is applied. -/
theorem stop_and_cleanup_at_most_once (radius : Bool) (ops : List Op) (n : Nat) :
    count (run (init radius) ops).stops n ≤ 1 ∧ count (run (init radius) ops).ebpf n ≤ 1 := by
  have hI := inv_run (inv_init radius) ops
  generalize run (init radius) ops = s at *
  cases ho : AMap.lookup s.objs n with
  | none => obtain ⟨a, b, _, _⟩ := hI.unused n ho; omega
  | some o =>
    cases ht : o.tornDown with
    | false => obtain ⟨a, b⟩ := hI.fresh n o ho ht; omega
    | true =>
      obtain ⟨a, b, _, _⟩ := hI.done n o ho ht
      constructor
      · rw [b]; split <;> omega
      · omega

/-- **A terminated session holds nothing**: after any history, a session that has been torn down has no
    pool entry, is not in the session table, had its map entry removed exactly once, and exactly one
    Accounting-Stop was issued iff accounting applies to it (RADIUS configured and the session authenticated). -/
theorem terminated_holds_nothing (radius : Bool) (ops : List Op) (n : Nat) (o : Obj)
    (ho : AMap.lookup (run (init radius) ops).objs n = some o) (ht : o.tornDown = true) :
    n ∉ (run (init radius) ops).held ∧
    (∀ id, AMap.lookup (run (init radius) ops).live id ≠ some n) ∧
    count (run (init radius) ops).ebpf n = 1 ∧
    count (run (init radius) ops).stops n = (if radius && o.authed then 1 else 0) := by
  have hI := inv_run (inv_init radius) ops
  have hr : (run (init radius) ops).radius = radius := by
    have : ∀ (s : TD) (ops : List Op), (run s ops).radius = s.radius := by
      intro s ops
      induction ops generalizing s with
      | nil => rfl
      | cons op ops ih =>
        simp only [run, List.foldl_cons]
        have h1 := ih (step s op)
        simp only [run] at h1
        rw [h1]
        have hcl : ∀ (t : TD) (k : Nat), (cleanup t k).radius = t.radius := by
          intro t k; unfold cleanup; split
          · rfl
          · split
            · rfl
            · rw [removeSession_radius]
        have hte : ∀ (t : TD) (k : Nat), (terminate t k).radius = t.radius := by
          intro t k; unfold terminate
          split
          · split
            · rfl
            · rw [hcl]
          · rfl
        have hfo : ∀ (l : List (Nat × Nat)) (t : TD),
            (l.foldl (fun st p => terminate st p.2) t).radius = t.radius := by
          intro l; induction l with
          | nil => intro t; rfl
          | cons p r ih2 => intro t; simp only [List.foldl_cons]; rw [ih2, hte]
        cases op with
        | mk n m a i => simp only [step, mk]; split <;> rfl
        | padt n m =>
          simp only [step]; split
          · split
            · exact hcl _ _
            · rfl
          · rfl
        | term n => simp only [step]; split
                    · exact hte _ _
                    · rfl
        | termId id => simp only [step]; split
                       · exact hte _ _
                       · rfl
        | termMac m =>
          simp only [step]; split
          · split
            · exact hte _ _
            · rfl
          · rfl
        | termUser u => exact hfo _ _
        | termAll => exact hfo _ _
        | authFail n =>
          simp only [step]; split
          · rename_i o _; cases ht : o.tornDown <;> simp
          · rfl
    exact this _ _
  obtain ⟨a, b, c, d⟩ := hI.done n o ho ht
  rw [hr] at b
  exact ⟨c, d, a, b⟩

/-- **Every termination path tears the session down**: directly after TerminateSession on a session
    object it is marked torn down (so `terminated_holds_nothing` applies to it). -/
theorem terminate_tears_down (s : TD) (n : Nat) (o : Obj) (ho : AMap.lookup s.objs n = some o) :
    ∃ o', AMap.lookup (step s (.term n)).objs n = some o' ∧ o'.tornDown = true := by
  simp only [step, ho, Option.isSome_some, if_true, terminate]
  by_cases ht : o.tornDown = true
  · simp only [ht, if_true]; exact ⟨o, ho, ht⟩
  · have ht' : o.tornDown = false := by simpa using ht
    simp only [ht', Bool.false_eq_true, if_false, cleanup, ho]
    rw [removeSession_objs]; exact ⟨{ o with tornDown := true }, by simp, rfl⟩

/-- a client PADT from the session's own MAC tears it down; from any other MAC it changes nothing -/
theorem padt_owner_only (s : TD) (n m : Nat) (o : Obj) (ho : AMap.lookup s.objs n = some o) :
    (o.mac = m → ∃ o', AMap.lookup (step s (.padt n m)).objs n = some o' ∧ o'.tornDown = true) ∧
    (o.mac ≠ m → step s (.padt n m) = s) := by
  constructor
  · intro hm
    subst hm
    simp only [step, ho, if_true, cleanup]
    split
    · rename_i ht; exact ⟨o, ho, ht⟩
    · rw [removeSession_objs]; exact ⟨{ o with tornDown := true }, by simp, rfl⟩
  · intro hm
    simp [step, ho, hm]

/-- helper: cleaning up a session that is already torn down is the identity -/
theorem cleanup_of_tornDown (s : TD) (n : Nat) (o : Obj) (ho : AMap.lookup s.objs n = some o)
    (ht : o.tornDown = true) : cleanup s n = s := by
  simp [cleanup, ho, ht]

/-- **Ending a session twice has no further effect**: a second cleanup of the same session object
    leaves the whole state (pool, session table, accounting, maps) unchanged. -/
theorem cleanup_idempotent (s : TD) (n : Nat) : cleanup (cleanup s n) n = cleanup s n := by
  cases ho : AMap.lookup s.objs n with
  | none =>
    have : cleanup s n = s := by simp [cleanup, ho]
    rw [this, this]
  | some o =>
    by_cases ht : o.tornDown = true
    · rw [cleanup_of_tornDown s n o ho ht, cleanup_of_tornDown s n o ho ht]
    · have h1 : AMap.lookup (cleanup s n).objs n = some { o with tornDown := true } := by
        simp [cleanup, ho, ht, removeSession_objs]
      exact cleanup_of_tornDown _ n _ h1 rfl

/-- **Ending a session twice through the API has no further effect**: a second TerminateSession on
    the same session object leaves the WHOLE state unchanged — no further PADT, Accounting-Stop, map
    removal, pool or table change (after the fix f4189e1). -/
theorem terminate_idempotent (s : TD) (n : Nat) : terminate (terminate s n) n = terminate s n := by
  cases ho : AMap.lookup s.objs n with
  | none =>
    have : terminate s n = s := by simp [terminate, ho]
    rw [this, this]
  | some o =>
    by_cases ht : o.tornDown = true
    · have : terminate s n = s := by simp [terminate, ho, ht]
      rw [this, this]
    · have ht' : o.tornDown = false := by simpa using ht
      have h1 : AMap.lookup (terminate s n).objs n = some { o with tornDown := true } := by
        simp [terminate, ho, ht', cleanup, removeSession_objs]
      generalize terminate s n = t at h1 ⊢
      simp [terminate, h1]

/-! non-vacuity: a concrete history with a double termination of an authenticated, addressed session -/
example : count (run (init true) [.mk 1 1 true true, .term 1, .term 1, .termAll]).stops 1 = 1 ∧
    count (run (init true) [.mk 1 1 true true, .term 1, .term 1, .termAll]).padt 1 = 1 ∧
    (run (init true) [.mk 1 1 true true, .term 1, .term 1]).held = [] := by decide

end Bng.Spec.C16Teardown
