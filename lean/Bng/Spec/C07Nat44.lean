import Bng.Proof.Nat44
/-
  C07 (nat44 part) — the three entry points of /repo/bpf/nat44.c stay inside the packet, return a defined
  verdict and leave traffic they are not specified to act on untouched.

  Model: `Bng.Nat44.egress / ingress / hairpin` (`Bng/Model/Nat44.lean`), byte-level, every packet load
  and store goes through the checked accesses of `Bng.CNat` (`Except.error (.oob …)` as soon as
  `off + n > size`).  All theorems quantify over
    * ALL frames `f : List UInt8` — every length 0, 1, 2, … (truncation at any byte is just a shorter
      frame) and every content (any VLAN stacking, IP header length, fragment field, protocol …),
    * ALL map contents `m : Maps` (hence all results of every lookup) and
    * ALL clock values `clk`.
  Termination of the programs is Lean's totality of the three functions (the 64-iteration port search is
  structural recursion on the iteration count).

  "Specified to act on" (`egressActsOn`, `ingressActsOn`, decidable, defined in the model file and used
  verbatim by the run-time monitor):
    * common (`natCandidate`): at least 34 bytes, ethertype 0x0800, IP version 4, IHL ≥ 5, fragment offset 0 (a
      later fragment has no L4 header: passed untouched since the fix of D-nat44-frag), protocol
      TCP/UDP/ICMP with the 20/8/8 bytes of L4 header the program uses inside the frame;
    * egress: additionally the source address is private (RFC1918 / 100.64/10) and has a `subscriber_nat`
      entry (a NAT allocation exists for the packet);
    * ingress: additionally `nat_reverse` has an entry for the frame's (src, dst, ports | ICMP id, proto)
      and `nat_sessions` has the session it points to (a NAT flow exists for the packet);
    * hairpin XDP: never (it is a pure classifier).
  `TC_ACT_OK` after the rewrite of such a frame is by specification.

  Finding D-nat44-ihl (fixed in /repo by the `fix:` commit named in known_findings.json): before the fix
  neither TC program looked at `ip->version` / `ip->ihl`, so for IHL < 5 the "L4 header" overlapped the IP
  header and the rewrite overwrote IP header bytes of a malformed frame and returned TC_ACT_OK; with the
  guard in place `nat44_*_pass_unmodified` hold at full strength with IHL ≥ 5 inside `natCandidate`.
-/
namespace Bng.Spec.C07Nat44
open Bng Bng.CNat Bng.Nat44

/-! ### nat44_egress (SEC "tc/egress") -/

/-- nat44_egress never reads or writes a byte outside `[0, size)` of the frame it was given, whatever the
    frame, the maps and the clock. -/
theorem nat44_egress_no_fault (m : Maps) (clk : UInt64) (f : Frame) : (egress m clk f).isOk = true := by
  obtain ⟨o, h, _⟩ := egress_spec m clk f
  rw [h]; rfl

/-- nat44_egress returns TC_ACT_OK or TC_ACT_SHOT, nothing else. -/
theorem nat44_egress_defined_verdict (m : Maps) (clk : UInt64) (f : Frame) (o : Out)
    (h : egress m clk f = .ok o) : o.verdict = TC_ACT_OK ∨ o.verdict = TC_ACT_SHOT := by
  obtain ⟨o', h', _, hv, _⟩ := egress_spec m clk f
  cases h.symm.trans h'
  exact hv

/-- when nat44_egress returns TC_ACT_OK it has left the frame byte-for-byte unchanged, unless the frame is
    one it is specified to act on (well-formed IPv4 TCP/UDP/ICMP from a private source holding a NAT
    allocation). -/
theorem nat44_egress_pass_unmodified (m : Maps) (clk : UInt64) (f : Frame) (o : Out)
    (h : egress m clk f = .ok o) (_hv : o.verdict = TC_ACT_OK) :
    o.frame = f ∨ egressActsOn m f = true := by
  obtain ⟨o', h', _, _, hm⟩ := egress_spec m clk f
  cases h.symm.trans h'
  exact hm.imp id (·.2)

/-- a dropped packet (TC_ACT_SHOT, port exhaustion) was not written to either. -/
theorem nat44_egress_shot_unmodified (m : Maps) (clk : UInt64) (f : Frame) (o : Out)
    (h : egress m clk f = .ok o) (hv : o.verdict = TC_ACT_SHOT) : o.frame = f := by
  obtain ⟨o', h', _, _, hm⟩ := egress_spec m clk f
  cases h.symm.trans h'
  rcases hm with hm | ⟨hok, _⟩
  · exact hm
  · rw [hv] at hok; cases hok

/-- nat44_egress never changes the length of the frame. -/
theorem nat44_egress_length (m : Maps) (clk : UInt64) (f : Frame) (o : Out)
    (h : egress m clk f = .ok o) : o.frame.length = f.length := by
  obtain ⟨o', h', hl, _⟩ := egress_spec m clk f
  cases h.symm.trans h'
  exact hl.1

/-- even in a frame it acts on, nat44_egress changes nothing but the IP header checksum and source address
    (offsets 24…29) and the first 18 bytes of the L4 header at `14 + 4·IHL` (source port / ICMP id and the
    TCP, UDP or ICMP checksum live there): every other byte of the frame is left as it was. -/
theorem nat44_egress_writes_confined (m : Maps) (clk : UInt64) (f : Frame) (o : Out)
    (h : egress m clk f = .ok o) (i : Nat)
    (hi : ¬ ((24 ≤ i ∧ i < 30) ∨ (l4Off f ≤ i ∧ i < l4Off f + 18))) : o.frame[i]? = f[i]? := by
  obtain ⟨o', h', hl, _⟩ := egress_spec m clk f
  cases h.symm.trans h'
  exact hl.2 i hi

/-- frames that are not well-formed IPv4 TCP/UDP/ICMP (too short, other ethertype — VLAN tagged, IPv6,
    ARP … —, IP version ≠ 4, IHL < 5, other protocol, L4 header cut off) leave nat44_egress untouched. -/
theorem nat44_egress_other_traffic_untouched (m : Maps) (clk : UInt64) (f : Frame) (o : Out)
    (h : egress m clk f = .ok o) (hc : natCandidate f = false) : o.frame = f := by
  obtain ⟨o', h', _, _, hm⟩ := egress_spec m clk f
  cases h.symm.trans h'
  rcases hm with hm | ⟨_, ha⟩
  · exact hm
  · simp [egressActsOn, hc] at ha

/-! ### nat44_ingress (SEC "tc/ingress") -/

/-- nat44_ingress never reads or writes a byte outside `[0, size)` of the frame. -/
theorem nat44_ingress_no_fault (m : Maps) (clk : UInt64) (f : Frame) : (ingress m clk f).isOk = true := by
  obtain ⟨o, h, _⟩ := ingress_spec m clk f
  rw [h]; rfl

/-- nat44_ingress returns TC_ACT_OK on every path. -/
theorem nat44_ingress_defined_verdict (m : Maps) (clk : UInt64) (f : Frame) (o : Out)
    (h : ingress m clk f = .ok o) : o.verdict = TC_ACT_OK := by
  obtain ⟨o', h', _, hv, _⟩ := ingress_spec m clk f
  cases h.symm.trans h'
  exact hv

/-- when nat44_ingress returns TC_ACT_OK (always) it has left the frame unchanged, unless a NAT flow exists
    for the frame (reverse entry for its 5-tuple and the session behind it). -/
theorem nat44_ingress_pass_unmodified (m : Maps) (clk : UInt64) (f : Frame) (o : Out)
    (h : ingress m clk f = .ok o) (_hv : o.verdict = TC_ACT_OK) :
    o.frame = f ∨ ingressActsOn m f = true := by
  obtain ⟨o', h', _, _, hm⟩ := ingress_spec m clk f
  cases h.symm.trans h'
  exact hm

/-- nat44_ingress never changes the length of the frame. -/
theorem nat44_ingress_length (m : Maps) (clk : UInt64) (f : Frame) (o : Out)
    (h : ingress m clk f = .ok o) : o.frame.length = f.length := by
  obtain ⟨o', h', hl, _⟩ := ingress_spec m clk f
  cases h.symm.trans h'
  exact hl.1

/-- even in a frame it acts on, nat44_ingress changes nothing but the IP header checksum (24, 25), the
    destination address (30…33) and the first 18 bytes of the L4 header at `14 + 4·IHL`. -/
theorem nat44_ingress_writes_confined (m : Maps) (clk : UInt64) (f : Frame) (o : Out)
    (h : ingress m clk f = .ok o) (i : Nat)
    (hi : ¬ ((24 ≤ i ∧ i < 26) ∨ (30 ≤ i ∧ i < 34) ∨ (l4Off f ≤ i ∧ i < l4Off f + 18))) :
    o.frame[i]? = f[i]? := by
  obtain ⟨o', h', hl, _⟩ := ingress_spec m clk f
  cases h.symm.trans h'
  exact hl.2 i hi

/-- frames that are not well-formed IPv4 TCP/UDP/ICMP leave nat44_ingress untouched. -/
theorem nat44_ingress_other_traffic_untouched (m : Maps) (clk : UInt64) (f : Frame) (o : Out)
    (h : ingress m clk f = .ok o) (hc : natCandidate f = false) : o.frame = f := by
  obtain ⟨o', h', _, _, hm⟩ := ingress_spec m clk f
  cases h.symm.trans h'
  rcases hm with hm | ha
  · exact hm
  · simp [ingressActsOn, hc] at ha

/-! ### nat44_hairpin_xdp (SEC "xdp") -/

/-- nat44_hairpin_xdp never reads a byte outside `[0, size)` of the frame (it never writes). -/
theorem nat44_hairpin_xdp_no_fault (m : Maps) (f : Frame) : (hairpin m f).isOk = true := by
  rw [hairpin_spec]; rfl

/-- nat44_hairpin_xdp returns XDP_PASS on every path. -/
theorem nat44_hairpin_xdp_defined_verdict (m : Maps) (f : Frame) (o : Out) (h : hairpin m f = .ok o) :
    o.verdict = XDP_PASS := by
  rw [hairpin_spec] at h; cases h; rfl

/-- nat44_hairpin_xdp passes every frame unmodified (`hairpinActsOn` is constantly `false`: this program is
    specified to act on no frame, so the left disjunct always holds — see the next theorem). -/
theorem nat44_hairpin_xdp_pass_unmodified (m : Maps) (f : Frame) (o : Out) (h : hairpin m f = .ok o)
    (_hv : o.verdict = XDP_PASS) : o.frame = f ∨ hairpinActsOn m f = true := by
  rw [hairpin_spec] at h; cases h; exact Or.inl rfl

/-- nat44_hairpin_xdp writes neither the frame nor any map the packet path depends on. -/
theorem nat44_hairpin_xdp_never_writes (m : Maps) (f : Frame) (o : Out) (h : hairpin m f = .ok o) :
    o.frame = f ∧ o.maps = m := by
  rw [hairpin_spec] at h; cases h; exact ⟨rfl, rfl⟩

/-! ### non-vacuity -/

/-- the checked accesses do fault: a 4-byte load at offset 26 of a 29-byte frame -/
example : (ld32 (List.replicate 29 0) 26).isOk = false := by decide

/-- an Ethernet + IPv4 (IHL 5) + UDP frame 10.0.0.1:1234 → 8.8.8.8:53 (42 bytes) -/
def udpFrame : Frame :=
  [0,0,0,0,0,0, 2,0,0,0,0,1, 8,0,
   0x45,0,0,28, 0,1,0,0, 64,17,0x12,0x34, 10,0,0,1, 8,8,8,8,
   0x04,0xd2, 0,0x35, 0,8, 0xbe,0xef]

/-- 10.0.0.1 holds the port block 203.0.113.1:2000-2063 -/
def mapsAlloc : Maps :=
  { subNat := [(0x0100000a, { publicIp := 0x017100cb, portStart := 2000, portEnd := 2063, nextPort := 2000 })] }

/-- a frame the egress program acts on exists, … -/
example : egressActsOn mapsAlloc udpFrame = true := by decide
/-- … the program then really rewrites it and returns TC_ACT_OK (the right disjunct of
    `nat44_egress_pass_unmodified` is needed), … -/
example : (egress mapsAlloc 0 udpFrame).toOption.map (fun o => (o.verdict, o.frame == udpFrame)) =
    some (TC_ACT_OK, false) := by decide
/-- … the same frame without an allocation is not acted on, and the same frame with IHL 4 is not either -/
example : egressActsOn {} udpFrame = false := by decide
example : egressActsOn mapsAlloc (udpFrame.set 14 0x44) = false := by decide
/-- port exhaustion (one-port block, every candidate taken) yields TC_ACT_SHOT -/
example : (egress { subNat := [(0x0100000a, { publicIp := 0x017100cb, portStart := 2000, portEnd := 2000, nextPort := 2000 })],
                    eim := [({ ip := 0x0100000a, port := 2000, proto := 17 }, { extIp := 0, extPort := 2000 })] }
            0 udpFrame).toOption.map (·.verdict) = some TC_ACT_SHOT := by decide

/-- the reply 8.8.8.8:53 → 203.0.113.1:2000 and the flow state that makes nat44_ingress act on it -/
def replyFrame : Frame :=
  [2,0,0,0,0,1, 0,0,0,0,0,0, 8,0,
   0x45,0,0,28, 0,1,0,0, 64,17,0x12,0x34, 8,8,8,8, 203,0,113,1,
   0,0x35, 0x07,0xd0, 0,8, 0xbe,0xef]

def mapsFlow : Maps :=
  let orig : NatKey := { srcIp := 0x0100000a, dstIp := 0x08080808, srcPort := 0xd204, dstPort := 0x3500, proto := 17 }
  { reverse := [({ srcIp := 0x08080808, dstIp := 0x017100cb, srcPort := 0x3500, dstPort := 0xd007, proto := 17 }, orig)],
    sessions := [(orig, { natIp := 0x017100cb, natPort := 0xd007, origPort := 0xd204, origIp := 0x0100000a })] }

example : ingressActsOn mapsFlow replyFrame = true := by decide
example : (ingress mapsFlow 0 replyFrame).toOption.map (fun o => (o.verdict, o.frame == replyFrame)) =
    some (TC_ACT_OK, false) := by decide
example : ingressActsOn {} replyFrame = false := by decide

end Bng.Spec.C07Nat44
