import Bng.Gen.Layout
import Bng.Proof.KeyEnc
/-
  C06 — userspace and eBPF programs agree on every map layout and key encoding.

  Three kinds of statement:

  (A) over the REGENERATED tables (`Bng.Gen.Layout`, written by harness/cmd/extractlayout from /repo's working
      tree immediately before this file is elaborated): finite, closed by `decide`.  When the tree changes so
      that a Go image and a C record disagree, the `decide` fails and the check goes red naming the theorem.
  (B) what agreement MEANS: two agreeing layouts produce the same bytes for every assignment of field contents.
  (C) the key derivations / field encodings of both sides (`Bng.KeyEnc`), proved equal for ALL inputs — or,
      for IPv4 and port fields, proved DIFFERENT (findings D10, KF-C06-port-order) with the affected
      (map, field) tuples listed and tied to the generated table.

  Known findings (known_findings.json) with their exclusion clauses:
    KF-C06-percpu-scalar  `kfPercpuMaps`             Lookup of a per-CPU map into a single struct
    D10                   `KeyEnc.d10Fields`         IPv4 byte order (computed from the convention table `KeyEnc.ipFields`;
                                                     since /repo ac77db8 also the three leaves `purgeSubscriberState` compares)
    KF-C06-port-order     `KeyEnc.portOrderFields`   transport ports in NAT map keys
  Fixed in /repo during this work (the full theorems of part (A) hold only with the fixes):
    D22  nat.PortBlock NextPort/PortsInUse uint16 vs __u32 (60 vs 64 bytes)      /repo f681642
    D22b nat.NATSession without the alignment padding of nat_session (72 vs 80)  /repo 01e1cec
-/
namespace Bng.Spec.C06
open Bng.Layout Bng.KeyEnc Bng.Gen.Layout Bng.Proof.KeyEnc

/-! ## (A) the generated tables -/

/-- **Every Go call on a named kernel map marshals a key and a value whose image agrees with the C
    declaration**: same total size, the same data leaves at the same offsets with the same widths and
    integer kind / byte-array length. -/
theorem every_use_agrees :
    ∀ u ∈ mapUses, agrees u.goKey u.cKey = true ∧ agreesOpt u.goVal u.cVal = true := by
  decide

/-- cilium/ebpf refuses a Put/Lookup whose marshalled size differs from the map's key/value size: every
    static Go type used on a map has exactly the size the C declaration creates the map with. -/
theorem every_use_fits_map :
    ∀ u ∈ mapUses, u.goKey.size = u.cKeySize ∧ ∀ v, u.goVal = some v → v.size = u.cValSize := by
  decide

/-- Beyond offsets: the data leaves carry the same (case/underscore-normalised) names in the same order,
    so two same-width fields cannot have been swapped on one side. -/
theorem every_use_names_agree :
    ∀ u ∈ mapUses, namesAgree (named u.goKey.fields) (named u.cKey.fields) = true ∧
      ∀ v, u.goVal = some v → namesAgree (named v.fields) (named u.cVal.fields) = true := by
  decide

/-- Padding is recognised narrowly (blank Go fields; C members named `_pad…`/`reserved…` exactly) and a leaf
    dropped from the comparison on one side lies over padding on the other side too — it overlaps no data leaf. -/
theorem every_use_padding_is_padding :
    ∀ u ∈ mapUses, padsClear u.goKey u.cKey = true ∧ padsClearOpt u.goVal u.cVal = true := by
  decide

/-- The kernel programs access every map THROUGH the key/value types its declaration names: the helpers take
    `void *`, so the compiler would accept `struct other *v = bpf_map_lookup_elem(&m, &k)`; the translator types
    every lookup/update/delete call site (and dies on a form it cannot type) and lists the disagreements. -/
theorem programs_access_maps_through_declared_types : cAccessMismatches = [] := by decide

/-- The only data leaf where Go holds a byte array for a C integer is the LPM-trie address of
    `allowed_ranges_v4` (`IP [4]byte` for `__u32 ip`, /repo 61ee199: network byte order on purpose).  Any
    other such leaf would be accepted by `agrees` as a layout but needs its byte order looked at: it breaks
    this theorem. -/
theorem byte_array_for_integer_leaves :
    ∀ u ∈ mapUses, (u.map ≠ "allowed_ranges_v4" →
        bytesForInt (named u.goKey.fields) (named u.cKey.fields) = [] ∧
        ∀ v, u.goVal = some v → bytesForInt (named v.fields) (named u.cVal.fields) = []) ∧
      (u.map = "allowed_ranges_v4" →
        bytesForInt (named u.goKey.fields) (named u.cKey.fields) = [("IP", "ip")] ∧
        ∀ v, u.goVal = some v → bytesForInt (named v.fields) (named u.cVal.fields) = []) := by
  decide

/-- every record of either side is laid out sensibly: leaves in increasing order, inside the record,
    without overlap (so that reading a leaf back returns what was written, `image_read` below) -/
theorem every_record_wellformed : ∀ s ∈ cStructs ++ goStructs, s.wellFormed = true := by
  decide

/-- the Go code asks the loaded collection only for maps that the C sources declare -/
theorem no_missing_maps : missingMaps = [] := by decide

/-- the map handles that are never bound to a kernel map name are exactly the walled-garden ones: bpf/
    contains no walled-garden program, so for these there is no C declaration to agree with (they are
    outside the property's quantifier "maps shared with a kernel program"); any OTHER unbound handle
    would be a map whose layout nothing checks and breaks this theorem. -/
theorem unbound_handles_are_walledgarden :
    ∀ u ∈ unboundUses, u.handle ∈ ["walledgarden.Manager.subscriberMap", "walledgarden.Manager.allowedDestsMap",
      "walledgarden.subscriberMap"] := by
  decide

def useTypes (us : List MapUse) : List String :=
  us.flatMap fun u => u.goKey.name :: (match u.goVal with | some v => [v.name] | none => [])

/-- **Every fixed-size struct/array type of pkg/{ebpf,nat,qos,antispoof,walledgarden}** (the candidates for
    "mirrors the eBPF struct") is accounted for: it is the key/value of a named map (covered by
    `every_use_agrees`), or the mirror of an event record (`every_event_agrees`), or a member of such a type,
    or used only on the unbound walled-garden handles. -/
theorem every_mirror_covered :
    ∀ t ∈ mirrorStructs, t ∈ useTypes mapUses ∨ t ∈ eventStructs.map (·.goName) ∨ t ∈ nestedStructs ∨
      t ∈ useTypes unboundUses := by
  decide

/-- records the programs emit to user space (ring buffer / perf buffer): every Go data leaf is where the
    C program writes it, names agree; the C record may only be longer by tail padding -/
theorem every_event_agrees :
    ∀ e ∈ eventStructs, agreesPrefix e.go e.c = true ∧ namesAgree (named e.go.fields) (named e.c.fields) = true := by
  decide

def isPerCPU (t : String) : Bool := t == "PERCPU_ARRAY" || t == "PERCPU_HASH" || t == "LRU_PERCPU_HASH"

/-- exclusion clause of finding KF-C06-percpu-scalar: the three statistics maps -/
def kfPercpuMaps : List String := ["nat_stats_map", "qos_stats_map", "antispoof_stats"]

/-- A per-CPU map returns one value PER CPU; cilium/ebpf rejects a Lookup into anything but a slice.
    Proved for every use outside the finding's clause.  On the current tree the three excluded maps are the
    ONLY per-CPU maps the Go code touches, so this statement constrains future uses only (it is vacuous
    today; `KF_percpu_witness` is the informative half). -/
theorem percpu_reads_use_slices_partial :
    ∀ u ∈ mapUses, u.map ∉ kfPercpuMaps → isPerCPU u.mapType = true → u.goVal ≠ none → u.goValSlice = true := by
  decide

/-- the defect: each of the three `GetStats` reads a per-CPU array into a single struct -/
theorem KF_percpu_witness :
    ∀ m ∈ kfPercpuMaps, ∃ u ∈ mapUses, u.map = m ∧ isPerCPU u.mapType = true ∧ u.op = "Lookup" ∧
      u.goVal ≠ none ∧ u.goValSlice = false := by
  decide

/-! ## (B) what agreement means -/

/-- **If a Go type agrees with a C record, then for EVERY assignment of contents to the data leaves the
    bytes Go writes are exactly the bytes of the C record holding those contents** (and hence what Go
    decodes from C-written bytes is what C stored). -/
theorem agrees_image (g c : Struct) (h : agrees g c = true) :
    ∀ vals : List (List UInt8), image g vals = image c vals := by
  intro vals
  simp only [agrees, Bool.and_eq_true, beq_iff_eq] at h
  simp only [image, Struct.places, h.1, places_eq_of_fieldsAgree _ _ h.2]

/-- …and in the other direction: whatever bytes are in the map (e.g. written by the kernel program), a
    reader using the Go layout extracts for every data leaf exactly the bytes a reader using the C record
    extracts — Go decodes what C stored. -/
theorem agrees_read (g c : Struct) (h : agrees g c = true) :
    ∀ (i : Nat) (bs : List UInt8), readField g i bs = readField c i bs := by
  intro i bs
  simp only [agrees, Bool.and_eq_true, beq_iff_eq] at h
  have hp := places_eq_of_fieldsAgree _ _ h.2
  have hi : ((named g.fields).map fun f => (f.off, f.width))[i]? = ((named c.fields).map fun f => (f.off, f.width))[i]? := by
    rw [hp]
  simp only [List.getElem?_map] at hi
  unfold readField
  cases hg : (named g.fields)[i]? <;> cases hc : (named c.fields)[i]? <;> simp [hg, hc] at hi ⊢
  obtain ⟨h1, h2⟩ := hi
  rw [h1, h2]


example : agrees go_nat_SubscriberNAT c_subscriber_nat = true := by decide

/-! ## (C) key derivations, all inputs -/

/-- **MAC → u64: all four implementations agree for every MAC** — Go `ebpf.MACToUint64` /
    `walledgarden.macToUint64` (loop), C `mac_to_u64` of dhcp_fastpath.c (loop), C `mac_to_u64` of antispoof.c
    and Go `antispoof.macToUint64` (shifts) — and the value is the MAC read as a 48-bit big-endian number. -/
theorem mac_u64_go_eq_c (b0 b1 b2 b3 b4 b5 : UInt8) :
    macU64GoLoop [b0, b1, b2, b3, b4, b5] = macU64CLoop b0 b1 b2 b3 b4 b5 ∧
    macU64CLoop b0 b1 b2 b3 b4 b5 = macU64Shift b0 b1 b2 b3 b4 b5 ∧
    macU64Shift b0 b1 b2 b3 b4 b5 = macVal b0 b1 b2 b3 b4 b5 := by
  refine ⟨rfl, ?_, macU64Shift_val ..⟩
  rw [macU64CLoop_val, macU64Shift_val]

/-- a longer hardware address: Go takes the first six bytes, exactly the bytes the C code reads -/
theorem mac_u64_go_prefix (b0 b1 b2 b3 b4 b5 : UInt8) (rest : List UInt8) :
    macU64GoLoop ([b0, b1, b2, b3, b4, b5] ++ rest) = macU64CLoop b0 b1 b2 b3 b4 b5 := by
  simp only [macU64GoLoop, macU64CLoop, List.length_append, List.length_cons, List.length_nil]
  rw [if_neg (by omega)]
  rfl

/-- **Every hardware address of six or more bytes** (6 = Ethernet, 8 = EUI-64, 16 = a full chaddr, 20 = IPoIB …):
    all Go conversions — the guarded loop of `ebpf.MACToUint64` / `walledgarden.macToUint64` and the indexed shifts of
    `antispoof.macToUint64` — and the kernel's `mac_to_u64` over the six bytes it has produce THE SAME key, the
    big-endian number of the FIRST six bytes; nothing beyond the sixth byte influences it. -/
theorem mac_u64_first_six (mac : List UInt8) (h : 6 ≤ mac.length) :
    macU64GoLoop mac = macKey6 mac ∧ macU64ShiftL mac = some (macKey6 mac) ∧ macU64COf mac = macKey6 mac := by
  match mac, h with
  | b0 :: b1 :: b2 :: b3 :: b4 :: b5 :: rest, _ =>
    have e1 := mac_u64_go_prefix b0 b1 b2 b3 b4 b5 rest
    simp only [List.cons_append, List.nil_append] at e1
    refine ⟨?_, ?_, ?_⟩
    · rw [e1, macU64CLoop_val, macKey6_cons]
    · simp only [macU64ShiftL, macU64Shift_val, macKey6_cons]
    · simp only [macU64COf, List.getD_cons_zero, List.getD_cons_succ, macU64CLoop_val, macKey6_cons]

/-- …and the reverse conversion (`Uint64ToMAC`, `uint64ToMAC`) gives back exactly those first six bytes -/
theorem mac_u64_roundtrip (mac : List UInt8) (h : 6 ≤ mac.length) :
    u64ToMac (macU64GoLoop mac) = mac.take 6 := by
  match mac, h with
  | b0 :: b1 :: b2 :: b3 :: b4 :: b5 :: rest, h' =>
    rw [(mac_u64_first_six _ h').1, macKey6_cons, u64ToMac_macVal]
    rfl

example : macU64GoLoop [0, 0x11, 0x22, 0x33, 0x44, 0x55, 0x66, 0x77] = 0x001122334455 := by decide

/-- below six bytes there is no Ethernet address: the guarded loops answer key 0, the indexed shifts panic -/
theorem mac_u64_short_behaviour (mac : List UInt8) (h : mac.length < 6) :
    macU64GoLoop mac = 0 ∧ macU64ShiftL mac = none := by
  refine ⟨by simp [macU64GoLoop, h], ?_⟩
  match mac, h with
  | [], _ => rfl
  | [_], _ => rfl
  | [_, _], _ => rfl
  | [_, _, _], _ => rfl
  | [_, _, _, _], _ => rfl
  | [_, _, _, _, _], _ => rfl
  | _ :: _ :: _ :: _ :: _ :: _ :: _, h => exact absurd h (by simp only [List.length_cons]; omega)

/-- the MAC conversions of the repository, enumerated by the translator over every Go file: exactly these.  A new
    `func(net.HardwareAddr) uint64` / `func(uint64) net.HardwareAddr` anywhere in the module breaks this theorem (and
    stops the harness, whose table must match) until it is put under the byte-level comparison. -/
theorem mac_conversions_enumerated :
    macToU64Funcs = ["pkg/antispoof.macToUint64", "pkg/ebpf.MACToUint64", "pkg/walledgarden.macToUint64"] ∧
    u64ToMacFuncs = ["pkg/ebpf.Uint64ToMAC", "pkg/walledgarden.uint64ToMAC"] := by
  decide

/-- a short hardware address: Go yields key 0 (no C counterpart: the C code always has six bytes) -/
theorem mac_u64_go_short (mac : List UInt8) (h : mac.length < 6) : macU64GoLoop mac = 0 := by
  simp [macU64GoLoop, h]

/-- the eight bytes of the `__u64` map key both sides present to the kernel for a MAC -/
theorem mac_u64_key_bytes (b0 b1 b2 b3 b4 b5 : UInt8) :
    u64KeyBytes (macU64GoLoop [b0, b1, b2, b3, b4, b5]) = [b5, b4, b3, b2, b1, b0, 0, 0] ∧
    u64KeyBytes (macU64Shift b0 b1 b2 b3 b4 b5) = [b5, b4, b3, b2, b1, b0, 0, 0] := by
  have e : macU64GoLoop [b0, b1, b2, b3, b4, b5] = macVal b0 b1 b2 b3 b4 b5 :=
    (mac_u64_go_eq_c b0 b1 b2 b3 b4 b5).1.trans (macU64CLoop_val b0 b1 b2 b3 b4 b5)
  rw [e, macU64Shift_val]
  have key : u64KeyBytes (macVal b0 b1 b2 b3 b4 b5) = [b5, b4, b3, b2, b1, b0, 0, 0] := by
    rw [macVal_horner, u64KeyBytes]
    rw [leBytes_cons _ _ _ b5.toNat_lt, leBytes_cons _ _ _ b4.toNat_lt, leBytes_cons _ _ _ b3.toNat_lt,
      leBytes_cons _ _ _ b2.toNat_lt, leBytes_cons _ _ _ b1.toNat_lt, leBytes_cons _ _ _ b0.toNat_lt]
    simp only [UInt8.ofNat_toNat]
    rfl
  exact ⟨key, key⟩

/-- **VLAN pair: for every S-tag/C-tag (12 bits each) and every priority/DEI bits on the wire, the key the
    XDP program builds from the frame's two TCI fields is byte-for-byte the key Go's `VLANKey{STag, CTag}`
    marshals**; a single-tagged frame is looked up as (tag, 0). -/
theorem vlanKey_agree (s c pcp1 dei1 pcp2 dei2 : Nat) (hs : s < 4096) (hc : c < 4096)
    (h1 : pcp1 < 8) (h2 : dei1 < 2) (h3 : pcp2 < 8) (h4 : dei2 < 2) :
    vlanKeyC (tciBytes pcp1 dei1 s) (some (tciBytes pcp2 dei2 c)) = vlanKeyGo s c ∧
    vlanKeyC (tciBytes pcp1 dei1 s) none = vlanKeyGo s 0 := by
  simp only [vlanKeyC, vlanKeyGo, vidOfTci_tciBytes _ _ _ h1 h2 hs, vidOfTci_tciBytes _ _ _ h3 h4 hc, and_self]

example : vlanKeyC (tciBytes 5 0 100) (some (tciBytes 3 0 200)) = vlanKeyGo 100 200 := by decide

/-- **Circuit-id key: whenever the XDP program's fixed-position parser finds the circuit-id `cid`
    (1–32 bytes, Option 82 directly after the message type, option length `l ≥ 4`), the 32-byte key it
    looks up is exactly Go's `MakeCircuitIDKey(cid)`** (zero padded). -/
theorem circuitKey_agree (t : UInt8) (l : Nat) (cid rest : List UInt8)
    (hn0 : 0 < cid.length) (hn : cid.length ≤ 32) (hl4 : 4 ≤ l) (hl : l < 256)
    (hlen : 64 ≤ (opts82 t l cid rest).length) (hfit : 5 + l ≤ (opts82 t l cid rest).length) :
    circuitKeyC (opts82 t l cid rest) = some (circuitKeyGo cid) :=
  circuitKeyC_opts82 t l cid rest hn0 hn hl4 hl hlen hfit

example : circuitKeyC (opts82 1 6 [0x61, 0x62, 0x63, 0x64] (List.replicate 60 0)) =
    some (circuitKeyGo [0x61, 0x62, 0x63, 0x64]) := by decide

/-- Go's key always has 32 bytes and depends only on the first 32 bytes of the circuit-id: two circuit-ids
    with a common 32-byte prefix share one `circuit_id_subscribers` entry (C20 looks at the consequence);
    the C parser never produces a key for a circuit-id longer than 32 bytes at all (`cid_len <= 32` guard) -/
theorem circuitKey_go_truncates (cid : List UInt8) :
    (circuitKeyGo cid).length = 32 ∧ circuitKeyGo cid = circuitKeyGo (cid.take 32) := by
  constructor
  · simp [circuitKeyGo]
  · simp only [circuitKeyGo]
    by_cases h : cid.length ≤ 32
    · rw [List.take_of_length_le h]
    · have h' : 32 ≤ cid.length := by omega
      rw [List.take_append_of_le_length h', List.take_append_of_le_length (by simp; omega), List.take_take]
      simp

/-- FNV-1a as Go computes it (`HashCircuitID`) on the reference vectors of the algorithm.  There is NO
    kernel-side implementation to compare with: see `circuit_id_map_has_no_kernel_reader`. -/
theorem fnv1a_go_vectors :
    fnv1aGo [] = 0xcbf29ce484222325 ∧ fnv1aGo [0x61] = 0xaf63dc4c8601ec8c ∧
    fnv1aGo [0x66, 0x6f, 0x6f, 0x62, 0x61, 0x72] = 0x85944171f73967e8 := by
  decide

/-- `circuit_id_map` (FNV-1a hash of the circuit-id → MAC) is declared in maps.h and written by Go, but no
    kernel program references it: the C side does not hash (Issue #56 replaced it by the fixed-size key), so
    `fnv1a_go = fnv1a_c` has no C side to be stated about. -/
theorem circuit_id_map_has_no_kernel_reader :
    ∀ m ∈ cMaps, m.name = "circuit_id_map" → m.refs = 0 := by decide

/-- **ALG trigger key: for every destination port (two header bytes) and protocol, the key the TC program
    looks up equals the key `ConfigureALG` stores for the logical port number.** -/
theorem algKey_agree (p0 p1 : UInt8) (proto : Nat) (hq : proto < 256) :
    algKeyC p0 p1 proto = algKeyGo (p0.toNat * 256 + p1.toNat) proto ∧
    algKeyGo (p0.toNat * 256 + p1.toNat) proto = (p0.toNat * 256 + p1.toNat) * 2 ^ 16 + proto := by
  have h0 := p0.toNat_lt; have h1 := p1.toNat_lt
  refine ⟨?_, algKeyGo_val _ _ (by omega) (by omega)⟩
  simp only [algKeyC, algKeyGo, bswap16_loadLE]

example : algKeyC 0 53 17 = algKeyGo 53 17 ∧ algKeyGo 53 17 = 0x00350011 := by decide

/-- Walled-garden allowed-destination key (Go only — bpf/ contains no walled-garden program): the eight
    key bytes are `[0, proto, port lo, port hi, d, c, b, a]` for destination a.b.c.d. -/
theorem allowedDestKey_bytes (a b c d : UInt8) (port proto : Nat) (hp : port < 2 ^ 16) (hq : proto < 2 ^ 8) :
    leBytes 8 (allowedDestKeyGo a b c d port proto) =
      [0, UInt8.ofNat proto, UInt8.ofNat (port % 256), UInt8.ofNat (port / 256), d, c, b, a] := by
  have ha := a.toNat_lt; have hb := b.toNat_lt; have hc := c.toNat_lt; have hd := d.toNat_lt
  rw [allowedDestKeyGo_val a b c d port proto hp hq]
  have e : (a.toNat * 2 ^ 24 + b.toNat * 2 ^ 16 + c.toNat * 2 ^ 8 + d.toNat) * 2 ^ 32 + port * 2 ^ 16 + proto * 2 ^ 8 =
      0 + 256 * (proto + 256 * (port % 256 + 256 * (port / 256 + 256 * (d.toNat + 256 * (c.toNat + 256 *
        (b.toNat + 256 * (a.toNat + 256 * 0))))))) := by omega
  rw [e, leBytes_cons _ _ _ (by omega), leBytes_cons _ _ _ (by omega), leBytes_cons _ _ _ (by omega),
    leBytes_cons _ _ _ (by omega), leBytes_cons _ _ _ hd, leBytes_cons _ _ _ hc, leBytes_cons _ _ _ hb,
    leBytes_cons _ _ _ ha]
  simp only [UInt8.ofNat_toNat]
  rfl

/-! ## IPv4 fields and ports: the two sides do NOT agree (findings D10, KF-C06-port-order) -/

/-- **What each side believes an IPv4 field/key holds**, for every address a.b.c.d: Go stores the
    host-order integer `BigEndian.Uint32(ip)`, whose little-endian image is `d c b a`; the C programs move
    the field to and from the packet untouched, i.e. expect the wire bytes `a b c d`. -/
theorem ipField_wire (a b c d : UInt8) :
    ipFieldGo a b c d = [d, c, b, a] ∧ ipFieldC a b c d = [a, b, c, d] := by
  refine ⟨?_, rfl⟩
  rw [ipFieldGo, beUint32_val, leBytes4_be]

/-- the two images coincide exactly for palindromic addresses -/
theorem ipField_agree_iff (a b c d : UInt8) : ipFieldGo a b c d = ipFieldC a b c d ↔ a = d ∧ b = c := by
  rw [(ipField_wire a b c d).1, (ipField_wire a b c d).2]
  constructor
  · intro h; injection h with h1 h; injection h with h2 h; exact ⟨h1.symm, h2.symm⟩
  · rintro ⟨rfl, rfl⟩; rfl

/-- D10 as a theorem: 10.0.1.5 is stored by Go as the bytes of 5.1.0.10 -/
theorem D10_witness :
    ipFieldGo 10 0 1 5 = [5, 1, 0, 10] ∧ ipFieldC 10 0 1 5 = [10, 0, 1, 5] ∧
    ipFieldGo 10 0 1 5 ≠ ipFieldC 10 0 1 5 := by
  refine ⟨(ipField_wire ..).1, rfl, ?_⟩
  rw [(ipField_wire 10 0 1 5).1]; decide

/-- the leaf `leaf` of the key or value side of the C declaration of a use -/
def cLeaf (u : MapUse) (side leaf : String) : Option Field :=
  (if side == "key" then u.cKey.fields else u.cVal.fields).find? (fun f => f.name == leaf)

/-- the hand-derived D10 exclusion list is tied to the generated tables: every listed tuple names a
    4-byte integer leaf of the C declaration of a map the Go code uses (a renamed field or map makes
    this fail instead of silently exempting nothing / something else) -/
theorem d10Fields_are_u32_leaves :
    ∀ p ∈ d10Fields, ∃ u ∈ mapUses, u.map = p.1 ∧
      ∃ f, cLeaf u p.2.1 p.2.2 = some f ∧ f.width = 4 ∧ f.kind = Kind.int := by
  decide

/-- the whole convention table (agreeing leaves included) names 4-byte leaves of maps the Go code uses -/
theorem ipFields_are_u32_leaves :
    ∀ p ∈ ipFields, ∃ u ∈ mapUses, u.map = p.map ∧ ∃ f, cLeaf u p.side p.leaf = some f ∧ f.width = 4 := by
  decide

/-- the D10 exclusion list, spelled out (it is COMPUTED from the convention table: the leaves on which the
    two sides differ) -/
theorem d10Fields_eq : d10Fields = [
    ("subscriber_pools", "value", "allocated_ip"), ("vlan_subscriber_pools", "value", "allocated_ip"),
    ("circuit_id_subscribers", "value", "allocated_ip"), ("ip_pools", "value", "gateway"),
    ("ip_pools", "value", "dns_primary"), ("ip_pools", "value", "dns_secondary"),
    ("server_config", "value", "server_ip"), ("subscriber_nat", "key", ""),
    ("subscriber_nat", "value", "block.public_ip"), ("hairpin_ips", "key", ""),
    ("eim_table", "key", "internal_ip"), ("nat_sessions", "key", "src_ip"), ("nat_sessions", "key", "dst_ip"),
    ("nat_sessions", "value", "orig_ip"), ("nat_sessions", "value", "dest_ip"), ("nat_reverse", "value", "src_ip")] := by
  decide

/-- a transport port `p`: Go marshals the number (low byte first), the NAT program stores the header
    bytes (high byte first) -/
theorem portField_wire (p : Nat) (h : p < 2 ^ 16) :
    portFieldGo p = [UInt8.ofNat (p % 256), UInt8.ofNat (p / 256)] ∧
    portFieldC p = [UInt8.ofNat (p / 256), UInt8.ofNat (p % 256)] := by
  refine ⟨?_, rfl⟩
  have e : p = p % 256 + 256 * (p / 256 + 256 * 0) := by omega
  rw [portFieldGo, e, leBytes_cons _ _ _ (by omega), leBytes_cons _ _ _ (by omega)]
  have e1 : (p % 256 + 256 * (p / 256 + 256 * 0)) % 256 = p % 256 := by omega
  have e2 : (p % 256 + 256 * (p / 256 + 256 * 0)) / 256 = p / 256 := by omega
  simp only [e1, e2]
  rfl

/-- KF-C06-port-order as a theorem: port 5000 (0x1388) -/
theorem KF_port_order_witness : portFieldGo 5000 = [0x88, 0x13] ∧ portFieldC 5000 = [0x13, 0x88] := by
  decide

/-- the KF-C06-port-order exclusion list, spelled out (computed from the port convention table) -/
theorem portOrderFields_eq : portOrderFields = [
    ("eim_table", "key", "internal_port"), ("nat_sessions", "key", "src_port"), ("nat_sessions", "key", "dst_port"),
    ("nat_sessions", "value", "nat_port"), ("nat_sessions", "value", "orig_port"), ("nat_sessions", "value", "dest_port")] := by
  decide

/-- the whole port table names 2-byte integer leaves of maps the Go code uses -/
theorem portFields_are_u16_leaves :
    ∀ p ∈ portFields, ∃ u ∈ mapUses, u.map = p.map ∧ ∃ f, cLeaf u p.side p.leaf = some f ∧ f.width = 2 ∧ f.kind = Kind.int := by
  decide

/-- **Coverage of the convention tables** (no name heuristics): EVERY 4-byte and every 2-byte integer leaf of a
    C record used by a map the Go code touches is classified — an IPv4 leaf Go writes, looks up, compares or presents
    (`ipFields`), a port leaf (`portFields`), one of the explicitly listed plain integers (`plainLeaves`: ids,
    counters, flags, lengths), or an address/port leaf of an entry that Go only carries from `Next` to `Delete`
    (`carriedLeaves`, kept honest by `carried_leaves_only_iterated`).
    A new or renamed 4- or 2-byte leaf breaks this theorem until somebody decides which it is. -/
theorem convention_tables_cover_all_u32_u16_leaves :
    ∀ u ∈ mapUses, ∀ sf ∈ (u.cKey.fields.map fun f => ("key", f)) ++ (u.cVal.fields.map fun f => ("value", f)),
      sf.2.kind = Kind.int → sf.2.norm ≠ "_" → (sf.2.width = 4 ∨ sf.2.width = 2) →
        (ipFields.any fun r => r.map == u.map && r.side == sf.1 && r.leaf == sf.2.name) = true ∨
        (portFields.any fun r => r.map == u.map && r.side == sf.1 && r.leaf == sf.2.name) = true ∨
        (plainLeaves.contains (u.map, sf.1, sf.2.name)) = true ∨
        (carriedLeaves.any fun r => r.map == u.map && r.side == sf.1 && r.leaf == sf.2.name) = true := by
  decide

/-- the four classes are disjoint: no leaf is classified twice (a carried leaf in particular is in none of the
    tables that carry a Go-side convention) -/
theorem convention_tables_disjoint :
    (∀ r ∈ carriedLeaves, ipField? r.map r.side r.leaf = none ∧
        (portFields.any fun q => q.map == r.map && q.side == r.side && q.leaf == r.leaf) = false ∧
        plainLeaves.contains (r.map, r.side, r.leaf) = false) ∧
    (∀ r ∈ ipFields, (portFields.any fun q => q.map == r.map && q.side == r.side && q.leaf == r.leaf) = false ∧
        plainLeaves.contains (r.map, r.side, r.leaf) = false) ∧
    (∀ r ∈ portFields, plainLeaves.contains (r.map, r.side, r.leaf) = false) := by
  decide

/-- **A carried leaf really is only carried**: on every map that has one, the Go code performs nothing but
    `MapIterator.Next` and `Delete` (today: nat_reverse, by `purgeSubscriberState`) — it never builds a key or a value
    for it from an address or a port number.  A future `Lookup`/`Put` on such a map breaks this theorem, and its leaves
    must then be given a Go-side convention in `ipFields` / `portFields`. -/
theorem carried_leaves_only_iterated :
    ∀ r ∈ carriedLeaves, ∀ u ∈ mapUses, u.map = r.map → u.op = "Next" ∨ u.op = "Delete" := by
  decide

/-- every carried leaf names an integer leaf of the C record of a map the Go code uses: 2 bytes for a port, 4 for an address -/
theorem carried_are_leaves :
    ∀ r ∈ carriedLeaves, ∃ u ∈ mapUses, u.map = r.map ∧
      ∃ f, cLeaf u r.side r.leaf = some f ∧ f.kind = Kind.int ∧ f.width = (if r.port then 2 else 4) := by
  decide

theorem portOrderFields_are_u16_leaves :
    ∀ p ∈ portOrderFields, ∃ u ∈ mapUses, u.map = p.1 ∧
      ∃ f, cLeaf u p.2.1 p.2.2 = some f ∧ f.width = 2 ∧ f.kind = Kind.int := by
  decide

/-! ## DeallocateNAT → purgeSubscriberState (/repo ac77db8): Go READS and deletes entries the program wrote -/

/-- **The purge's reads and deletes are in the generated table, with the types the source uses, and they agree with
    the C declarations**: for each of nat_sessions, nat_reverse and eim_table the translator found the
    `MapIterator.Next(&k, &v)` of `purgeSubscriberState` and its `Delete(&k)`; the Go key/value types
    (`natSessionKey` ↔ `struct nat_key`, `NATSession` ↔ `struct nat_session`, `EIMKey` ↔ `struct eim_key`,
    `EIMMapping` ↔ `struct eim_mapping`) have the size, offsets, widths and leaf names of the C records.
    (`every_use_agrees` states agreement for ALL uses; this theorem states that THESE uses are among them — if the
    translator stopped seeing the iteration, or the purge changed its types, it fails.) -/
theorem purge_iteration_is_covered :
    ∀ p ∈ [("nat_sessions", "nat.natSessionKey", "nat.NATSession", "nat_key", "nat_session"),
           ("nat_reverse", "nat.natSessionKey", "nat.natSessionKey", "nat_key", "nat_key"),
           ("eim_table", "nat.EIMKey", "nat.EIMMapping", "eim_key", "eim_mapping")],
      (∃ u ∈ mapUses, u.map = p.1 ∧ u.op = "Next" ∧ u.goKey.name = p.2.1 ∧ u.goVal.map (·.name) = some p.2.2.1 ∧
          u.cKey.name = p.2.2.2.1 ∧ u.cVal.name = p.2.2.2.2 ∧
          agrees u.goKey u.cKey = true ∧ agreesOpt u.goVal u.cVal = true ∧
          namesAgree (named u.goKey.fields) (named u.cKey.fields) = true ∧
          u.goKey.size = u.cKeySize ∧ (u.goVal.map (·.size)) = some u.cValSize) ∧
      (∃ u ∈ mapUses, u.map = p.1 ∧ u.op = "Delete" ∧ u.goKey.name = p.2.1 ∧ u.cKey.name = p.2.2.2.1 ∧
          agrees u.goKey u.cKey = true) := by
  decide

/-- each of the two Go mirrors of `struct nat_key` (the function-local `natKey` of `LookupSession`, the package-level
    `natSessionKey` of the purge) agrees with the C record: size 16, same offsets, widths and kinds -/
theorem nat_key_mirrors_agree :
    ∀ g ∈ goStructs, g.name = "nat.natSessionKey" ∨ g.name = "nat.LookupSession.natKey" →
      ∀ c ∈ cStructs, c.name = "nat_key" → agrees g c = true := by
  decide

/-- **Both Go mirrors of `struct nat_key`** — the function-local `natKey` of `LookupSession` and the package-level
    `natSessionKey` of the purge — **lay every content out exactly as the C record does** (hence as each other): a key
    read by the iteration and a key built by the lookup are the same 16 bytes for the same field contents. -/
theorem nat_key_mirrors_same_image :
    ∀ g ∈ goStructs, g.name = "nat.natSessionKey" ∨ g.name = "nat.LookupSession.natKey" →
      ∀ c ∈ cStructs, c.name = "nat_key" → ∀ vals : List (List UInt8), image g vals = image c vals :=
  fun g hg hn c hc hcn => agrees_image g c (nat_key_mirrors_agree g hg hn c hc hcn)

example : (∃ g ∈ goStructs, g.name = "nat.natSessionKey") ∧ (∃ g ∈ goStructs, g.name = "nat.LookupSession.natKey") ∧
    (∃ c ∈ cStructs, c.name = "nat_key") := by decide

/-- **What the purge selects**: `k.SrcIP == ipToKey(a.b.c.d)` holds for four stored bytes exactly when they are the
    bytes Go itself writes for a.b.c.d into a `uint32` key — in particular the `subscriber_nat` key it wrote when it
    allocated NAT for a.b.c.d. -/
theorem purge_selects_iff_go_key_bytes (a b c d s0 s1 s2 s3 : UInt8) :
    purgeSelects a b c d [s0, s1, s2, s3] = true ↔ [s0, s1, s2, s3] = ipFieldGo a b c d := by
  rw [purgeSelects_iff, (ipField_wire a b c d).1]
  constructor
  · rintro ⟨rfl, rfl, rfl, rfl⟩; rfl
  · intro h; injection h with h0 h; injection h with h1 h; injection h with h2 h; injection h with h3 _
    exact ⟨h0, h1, h2, h3⟩

/-- **The purge is consistent with the entry it belongs to — whatever the byte order.**  nat44_egress copies the raw
    `ip->saddr` (wire bytes w0 w1 w2 w3) BOTH into the key it looks `subscriber_nat` up with AND into the three leaves
    the purge compares (`nat_key.src_ip` of the session key and of the reverse value, `eim_key.internal_ip`).  So for
    every subscriber address a.b.c.d and every wire source: `DeallocateNAT(a.b.c.d)` selects an entry **iff** the
    flow that created it hit the `subscriber_nat` entry Go wrote for a.b.c.d — the fix of ac77db8 removes exactly the
    state created through the allocation being released. -/
theorem purge_follows_subscriber_nat_entry (a b c d w0 w1 w2 w3 : UInt8) :
    ∀ p ∈ purgeLeaves, (purgeSelects a b c d (ipC p.1 p.2.1 p.2.2 w0 w1 w2 w3) = true ↔
      ipC "subscriber_nat" "key" "" w0 w1 w2 w3 = ipGo "subscriber_nat" "key" "" a b c d) := by
  have e0 : ipField? "subscriber_nat" "key" "" = some ⟨"subscriber_nat", "key", "", .host, .wire⟩ := by decide
  have e1 : ipField? "nat_sessions" "key" "src_ip" = some ⟨"nat_sessions", "key", "src_ip", .host, .wire⟩ := by decide
  have e2 : ipField? "nat_reverse" "value" "src_ip" = some ⟨"nat_reverse", "value", "src_ip", .host, .wire⟩ := by decide
  have e3 : ipField? "eim_table" "key" "internal_ip" = some ⟨"eim_table", "key", "internal_ip", .host, .wire⟩ := by decide
  intro p hp
  simp only [purgeLeaves, List.mem_cons, List.mem_nil_iff, or_false] at hp
  rcases hp with rfl | rfl | rfl <;>
    simp only [ipC, ipGo, e0, e1, e2, e3, ordOf, ipFieldC] <;>
    exact purge_selects_iff_go_key_bytes a b c d w0 w1 w2 w3

/-- the leaves the purge compares are in the D10 table (Go: host-order integer, program: wire bytes) -/
theorem purgeLeaves_in_d10Fields : ∀ p ∈ purgeLeaves, p ∈ d10Fields := by decide

/-- …and the D10 consequence for the purge: the sessions of the flows whose source address ON THE WIRE is a.b.c.d are
    selected by `DeallocateNAT(a.b.c.d)` only for palindromic addresses (in a kernel, those flows never reached the
    subscriber's `subscriber_nat` entry in the first place: the same finding at the `subscriber_nat` key). -/
theorem purge_misses_own_wire_address (a b c d : UInt8) :
    purgeSelects a b c d (ipFieldC a b c d) = true ↔ a = d ∧ b = c := by
  rw [ipFieldC, purge_selects_iff_go_key_bytes, ← ipFieldC, eq_comm, ipField_agree_iff]

/-- 10.0.1.5: releasing 10.0.1.5 leaves the entries with wire source 10.0.1.5; releasing 5.1.0.10 removes them -/
theorem purge_D10_witness :
    purgeSelects 10 0 1 5 (ipFieldC 10 0 1 5) = false ∧ purgeSelects 5 1 0 10 (ipFieldC 10 0 1 5) = true := by
  decide

end Bng.Spec.C06
