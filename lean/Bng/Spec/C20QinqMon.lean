import Bng.Proof.QinqMonitor
/-
  C20 — the key monitor and the QinQ mapper model (refinement).

  The `qinq` component judges the real qinq.Mapper with the executable specification `KeySpec` (a partial injective map
  subscriber ↦ key reconstructed from API answers; clauses dup-key, range, fwd-rev, release-frame).  The driver feeds it
  through `Qinq.eventOf` (Model/QinqMonitor.lean).  Here: fed the MODEL's own answers, the monitor never fires — for
  every configuration of 16-bit ranges and every history of operations on 16-bit tags.  So (1) the model of the mapper
  satisfies the specification the implementation is judged against (every clause, every history), and (2) a verdict on
  the implementation can only come from an answer the model would not have given, never from the monitor itself.
  The string layer (printing / parsing of answers in the driver) is outside the theorem.
-/
namespace Bng.Spec.C20QinqMon
open Bng Bng.Qinq

/-- Along every history of Register / Unregister / UnregisterSubscriber / GetSubscriber / GetVLAN / Stats on the model,
    from the empty mapper, the key monitor raises no verdict: no pair is ever given to two subscribers, every pair
    handed out lies in the configured ranges, a refusal "held by another subscriber" is only given when another
    subscriber does hold the pair, and every forward and reverse lookup agrees with what was handed out, also right
    after a release.  Hypotheses: the configured ranges end below 2^16 and the tags named in operations are below 2^16
    (they are uint16 in the code). -/
theorem monitor_silent_on_model (c : Cfg) (hc : Cfg16 c) (ops : List Op) (hw : ∀ op ∈ ops, WFOp op) :
    monRun (init c) {} ops = [] :=
  monRun_silent (J_init c hc) ops hw

/-- the hypotheses are satisfiable by a history that exercises a conflict, a move and a release -/
example : Cfg16 { sRanges := [(100, 200)], cS := 10, cE := 20 } ∧
    (∀ op ∈ [Op.register (100, 10) 1, .register (100, 10) 2, .register (101, 11) 1, .getSubscriber (100, 10),
              .unregister (101, 11), .getVLAN 1], WFOp op) := by
  refine ⟨⟨by simp, by decide⟩, ?_⟩
  intro op h
  simp only [List.mem_cons, List.mem_nil_iff, or_false] at h
  rcases h with rfl | rfl | rfl | rfl | rfl | rfl <;> simp [WFOp, Pair16]

/-- the monitor is not vacuous: an answer the model would not give (a pair handed to a second subscriber) fires it -/
example : (KeySpec.check { held := [(1, keyOf (100, 10))] } (eventOf { sRanges := [(100, 200)], cS := 10, cE := 20 }
    (.register (100, 10) 2) .ok)).2 ≠ [] := by decide

end Bng.Spec.C20QinqMon
