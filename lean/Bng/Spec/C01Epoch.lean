import Bng.Proof.Epoch
/-
  C01 — No address or prefix is ever held by two subscribers at once.
  Component: the epoch / lease allocator (pkg/allocator/epoch_bitmap.go, EpochBitmapAllocator).

  Property statements only (helper lemmas live in Bng/Proof/Epoch.lean).  Every theorem quantifies
  over ALL operation sequences — allocate, renew, release, lookups, serialise/restore and arbitrarily
  many epoch advances (far beyond the wrap of the 2-bit generation tag) — and over all pool
  geometries and grace periods.
-/
namespace Bng.Spec.C01Epoch
open Bng Bng.Epoch AMap

/-- what NewEpochBitmapAllocator accepts: an IPv4 network (32 bits), the base address masked to its
    prefix length (net.ParseCIDR does that), `ones ≤ PrefixLength ≤ 32` -/
def GoodCfg (c : Cfg) : Prop :=
  c.ones ≤ c.plen ∧ c.plen ≤ 32 ∧ c.base < 2 ^ 32 ∧ c.base % 2 ^ (32 - c.ones) = 0

/-- Uniqueness: after any history, two subscribers never hold the same slot. -/
theorem epoch_unique (c : Cfg) (ops : List Op) (k₁ k₂ i : Nat)
    (h₁ : (run (init c) ops).subs.lookup k₁ = some i)
    (h₂ : (run (init c) ops).subs.lookup k₂ = some i) : k₁ = k₂ :=
  pinv_unique (inv_run (inv_init c) ops).p h₁ h₂

/-- a held slot lies strictly inside the pool: it is neither the network nor the broadcast slot -/
theorem epoch_slot_usable (c : Cfg) (ops : List Op) (k i : Nat)
    (h : (run (init c) ops).subs.lookup k = some i) : 1 ≤ i ∧ i + 1 < 2 ^ (c.plen - c.ones) := by
  have := (inv_run (inv_init c) ops).p.slot k i h
  rw [run_cfg] at this
  exact this

/-- In range: the address of every held slot (computed octet by octet as the code does) is
    `base + slot`, strictly between the network address and the last address of the base network. -/
theorem epoch_in_range (c : Cfg) (hc : GoodCfg c) (ops : List Op) (k i : Nat)
    (h : (run (init c) ops).subs.lookup k = some i) :
    indexToIP c i = c.base + i ∧ c.base < indexToIP c i ∧ indexToIP c i + 1 < c.base + 2 ^ (32 - c.ones) := by
  obtain ⟨h1, h2⟩ := epoch_slot_usable c ops k i h
  obtain ⟨g1, g2, g3, g4⟩ := hc
  have hle : 2 ^ (c.plen - c.ones) ≤ 2 ^ (32 - c.ones) := Nat.pow_le_pow_right (by omega) (by omega)
  have e := indexToIP_eq c i g3 (by omega) g4 (by omega)
  rw [e]
  refine ⟨rfl, by omega, by omega⟩

/-- Uniqueness at the level the API reports: the addresses two different subscribers look up differ. -/
theorem epoch_unique_addr (c : Cfg) (hc : GoodCfg c) (ops : List Op) (k₁ k₂ a : Nat)
    (h₁ : Epoch.lookup (run (init c) ops) k₁ = .addr a)
    (h₂ : Epoch.lookup (run (init c) ops) k₂ = .addr a) : k₁ = k₂ := by
  unfold Epoch.lookup at h₁ h₂
  split at h₁; · simp at h₁
  rename_i i hi
  split at h₂; · simp at h₂
  rename_i j hj
  split at h₁; · simp at h₁
  split at h₂; · simp at h₂
  simp only [Obs.addr.injEq] at h₁ h₂
  have hic : (init c).cfg = c := rfl
  rw [run_cfg, hic] at h₁ h₂
  have e1 := (epoch_in_range c hc ops k₁ i hi).1
  have e2 := (epoch_in_range c hc ops k₂ j hj).1
  have : i = j := by omega
  subst this
  exact epoch_unique c ops k₁ k₂ i hi hj

/-- Idempotence: a subscriber that asks again while holding a lease gets the same address; nobody's
    holding changes (only the generation of its own slot is refreshed, i.e. the lease is renewed). -/
theorem epoch_idempotent (s : State) (k i : Nat) (h : s.subs.lookup k = some i) :
    (alloc s k).2 = .okAddr (indexToIP s.cfg i) ∧ (alloc s k).1.subs = s.subs ∧
      (alloc s k).1.ip2sub = s.ip2sub ∧ (alloc s k).1.epoch = s.epoch := by
  unfold alloc
  simp [h]

/-- … and that address is the one Lookup reports in every reachable state (a holder is never "expired":
    lapsed holders are removed when the epoch changes). -/
theorem epoch_lookup_reports_holding (c : Cfg) (ops : List Op) (k i : Nat)
    (h : (run (init c) ops).subs.lookup k = some i) :
    Epoch.lookup (run (init c) ops) k = .addr (indexToIP c i) := by
  have hI := inv_run (inv_init c) ops
  unfold Epoch.lookup
  rw [h]
  simp only
  have := hI.live k i h
  unfold isFree genOf
  rw [this, run_cfg]
  rfl

/-- Forward and reverse lookups agree in every reachable state. -/
theorem epoch_lookups_agree (c : Cfg) (ops : List Op) (k i : Nat) :
    (run (init c) ops).subs.lookup k = some i ↔ (run (init c) ops).ip2sub.lookup i = some k :=
  ⟨(inv_run (inv_init c) ops).p.fwd k i, (inv_run (inv_init c) ops).p.bwd k i⟩

/-! non-vacuity: a concrete configuration satisfies the hypotheses; a concrete history (with seven epoch
    advances, beyond the generation wrap) ends with a subscriber holding a slot -/
example : GoodCfg { base := 0x0a0000f0, ones := 28, plen := 32, grace := 1 } := by
  unfold GoodCfg; decide
example : (run (init { base := 0x0a000000, ones := 29, plen := 32, grace := 1 })
    [.advance, .advance, .alloc 1, .alloc 2, .advance, .renew 2, .advance, .advance, .renew 2, .advance,
     .advance, .alloc 3]).subs.lookup 3 = some 1 := by decide

end Bng.Spec.C01Epoch
