import Bng.Proof.Dhcp6
/-
  C01 / C02 / C05 — what the DHCPv6 pool CONSTRUCTORS build (pkg/dhcpv6/server.go NewPrefixPool, NewAddressPool).

  The free list a pool starts with must not contain one value twice — otherwise two clients are handed the same
  delegated prefix / address although every allocation step is correct — and must lie inside the configured pool.
  Statements only; for ALL pool geometries the constructors accept (base prefix length < delegation length ≤ 128 for
  prefixes; any prefix length for addresses), not only the ones the sequence generators use.

  Model (Bng.Dhcp6): `Cfg.pcount` is the code's `numPrefixes` (1000, or 2^indexBits when indexBits < 10),
  `Cfg.prefixAt i` is the base with the low `indexBits` bits of `i` placed, bit by bit, at [pplen, dlen).
  The tie to the code is the `newpool` / `newapool` operation of the dhcp6 harness over all legal geometries.
-/
namespace Bng.Spec.C01V6
open Bng Bng.Dhcp6

/-- The bit-placing loop only looks at the low `indexBits` bits of the index: entry `i + 2^indexBits` IS entry `i`.
    (This is why the number of entries must not exceed 2^indexBits.) -/
theorem prefix_entry_wraps (c : Cfg) (i : Nat) : c.prefixAt (i + 2 ^ c.indexBits) = c.prefixAt i := by
  rw [prefixAt_eq, prefixAt_eq, Nat.add_mod_right]

/-- The constructor never generates more entries than there are distinct index values. -/
theorem prefix_count_le_index_space (c : Cfg) : c.pcount ≤ 2 ^ c.indexBits := pcount_le c

/-- Below 2^indexBits the map index ↦ prefix is injective. -/
theorem prefix_entry_injective (c : Cfg) (i j : Nat) (hi : i < 2 ^ c.indexBits) (hj : j < 2 ^ c.indexBits)
    (h : c.prefixAt i = c.prefixAt j) : i = j := prefixAt_injective c hi hj h

/-- The free list NewPrefixPool builds contains no delegated prefix twice — for every base length and delegation
    length (no hypothesis at all is needed for distinctness). -/
theorem prefix_pool_distinct (c : Cfg) : c.initialPrefixes.Nodup := initialPrefixes_nodup c

/-- … and has exactly `numPrefixes` entries. -/
theorem prefix_pool_length (c : Cfg) : c.initialPrefixes.length = c.pcount := by
  simp [Cfg.initialPrefixes]

/-- Every entry, with the whole delegated prefix it stands for, lies inside the base prefix
    (for every geometry the constructor accepts: pplen < dlen ≤ 128). -/
theorem prefix_pool_inside_base (c : Cfg) (h1 : c.pplen < c.dlen) (h2 : c.dlen ≤ 128) (p : Nat)
    (hp : p ∈ c.initialPrefixes) : c.pbase ≤ p ∧ p + c.pstep ≤ c.pbase + 2 ^ (128 - c.pplen) := by
  unfold Cfg.initialPrefixes at hp
  simp only [List.mem_map, List.mem_range] at hp
  obtain ⟨i, hi, rfl⟩ := hp
  have hlt : i < 2 ^ c.indexBits := Nat.lt_of_lt_of_le hi (pcount_le c)
  rw [prefixAt_small c hlt]
  refine ⟨Nat.le_add_right _ _, ?_⟩
  have hpow : 2 ^ c.indexBits * c.pstep = 2 ^ (128 - c.pplen) := by
    unfold Cfg.indexBits Cfg.pstep
    rw [← Nat.pow_add]
    congr 1
    omega
  have : (i + 1) * c.pstep ≤ 2 ^ c.indexBits * c.pstep := Nat.mul_le_mul_right _ hlt
  rw [hpow] at this
  have e : (i + 1) * c.pstep = i * c.pstep + c.pstep := by rw [Nat.add_mul, Nat.one_mul]
  omega

/-- Every entry is aligned to the delegation length when the base is masked (what net.ParseCIDR returns). -/
theorem prefix_pool_aligned (c : Cfg) (h1 : c.pplen ≤ c.dlen) (h2 : c.dlen ≤ 128)
    (hb : c.pbase % 2 ^ (128 - c.pplen) = 0) (p : Nat) (hp : p ∈ c.initialPrefixes) : p % c.pstep = 0 := by
  unfold Cfg.initialPrefixes at hp
  simp only [List.mem_map, List.mem_range] at hp
  obtain ⟨i, hi, rfl⟩ := hp
  rw [prefixAt_eq]
  have hd : c.pstep ∣ 2 ^ (128 - c.pplen) := by
    unfold Cfg.pstep
    exact Nat.pow_dvd_pow 2 (by omega)
  have hb' : c.pbase % c.pstep = 0 :=
    Nat.mod_eq_zero_of_dvd (Nat.dvd_trans hd (Nat.dvd_of_mod_eq_zero hb))
  rw [Nat.add_mul_mod_self_right]
  exact hb'

/-- The free list NewAddressPool builds contains no address twice … -/
theorem addr_pool_distinct (c : Cfg) : c.initialAddrs.Nodup := initialAddrs_nodup c

/-- … has at most 1000 entries, and every entry is an address of the network other than its first address. -/
theorem addr_pool_inside (c : Cfg) (a : Nat) (ha : a ∈ c.initialAddrs) :
    c.abase < a ∧ a < c.abase + c.asize ∧ c.initialAddrs.length ≤ 1000 := by
  unfold Cfg.initialAddrs at ha ⊢
  simp only [List.mem_map, List.mem_range] at ha
  obtain ⟨i, hi, rfl⟩ := ha
  unfold Cfg.acount at hi ⊢
  simp only [List.length_map, List.length_range]
  omega

/-! non-vacuity: /46 → /56 (10 index bits) gives 1000 distinct entries; with a cap of 4096 entries 0 and 1024 would
    be the same prefix -/
def c46 : Cfg := { hasAddr := false, abase := 0, aplen := 128, hasPfx := true,
                   pbase := 0x20010db8000000000000000000000000, pplen := 46, dlen := 56, valid := 300 }
example : c46.pcount = 1000 ∧ c46.indexBits = 10 := by decide
example : c46.prefixAt 1024 = c46.prefixAt 0 := prefix_entry_wraps c46 0

end Bng.Spec.C01V6
