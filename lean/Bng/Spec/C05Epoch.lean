import Bng.Proof.Epoch
/-
  C05 — Address pools neither leak nor miscount.
  Component: the epoch / lease allocator (pkg/allocator/epoch_bitmap.go, EpochBitmapAllocator).

  Property statements only.  Every theorem quantifies over ALL operation histories, including
  arbitrarily many epoch advances (beyond the wrap of the 2-bit generation tag), and over all pool
  geometries; the grace period is arbitrary except where a hypothesis says otherwise.
-/
namespace Bng.Spec.C05Epoch
open Bng Bng.Epoch AMap

/-- `Stats()` after any history: allocated = the number of subscribers holding a lease, total = the number
    of usable addresses (all slots but the network and broadcast ones), for every pool with at least two
    slots that NewEpochBitmapAllocator accepts. -/
theorem epoch_stats_true (c : Cfg) (h2 : c.ones < c.plen) (h32 : c.plen ≤ 32) (ops : List Op) :
    stats (run (init c) ops) = .stats (run (init c) ops).subs.length (2 ^ (c.plen - c.ones) - 2) ∧
      NodupKeys (run (init c) ops).subs := by
  refine ⟨?_, (inv_run (inv_init c) ops).p.nd⟩
  unfold stats
  rw [run_cfg]
  show Obs.stats _ c.usable = _
  unfold Cfg.usable Cfg.total
  have hlo : 2 ^ 1 ≤ 2 ^ (c.plen - c.ones) := Nat.pow_le_pow_right (by omega) (by omega)
  have hhi : 2 ^ (c.plen - c.ones) ≤ 2 ^ 32 := Nat.pow_le_pow_right (by omega) (by omega)
  generalize 2 ^ (c.plen - c.ones) = T at *
  have e64 : (2 : Nat) ^ 64 = 18446744073709551616 := by decide
  have e32 : (2 : Nat) ^ 32 = 4294967296 := by decide
  rw [e64]
  rw [e32] at hhi
  have : (T + 18446744073709551616 - 2) % 18446744073709551616 = T - 2 := by omega
  rw [this]

/-- Exhaustion is reported exactly when every usable slot is held by a live subscriber (and the caller
    holds nothing): a slot nobody holds can always be obtained, however many epochs have passed. -/
theorem epoch_exhausted_iff_full (c : Cfg) (ops : List Op) (k : Nat) :
    (alloc (run (init c) ops) k).2 = .exhausted ↔
      ((run (init c) ops).subs.lookup k = none ∧
        ∀ i, 1 ≤ i → i + 1 < 2 ^ (c.plen - c.ones) → ∃ k', (run (init c) ops).subs.lookup k' = some i) := by
  have hI := inv_run (inv_init c) ops
  have hc : (run (init c) ops).cfg = c := run_cfg _ _
  generalize run (init c) ops = s at *
  constructor
  · intro h
    unfold alloc at h
    split at h
    · simp at h
    · rename_i hk
      split at h
      · rename_i hf
        refine ⟨hk, ?_⟩
        intro i h1 h2
        have := findFree_none hf i h1 (by rw [hc]; exact h2)
        cases e : AMap.lookup s.ip2sub i with
        | none => simp [e] at this
        | some k' => exact ⟨k', hI.p.bwd k' i e⟩
      · simp at h
  · intro ⟨hk, hall⟩
    unfold alloc
    rw [hk]
    simp only
    split
    · rfl
    · rename_i i hf
      obtain ⟨h1, h2, h3, _⟩ := findFree_some hI.p hf
      obtain ⟨k', hk'⟩ := hall i h1 (by rw [hc] at h2; exact h2)
      rw [hI.p.fwd k' i hk'] at h3
      simp at h3

/-- "Free" means "not held": a new subscriber is given the LOWEST usable slot that nobody holds. -/
theorem epoch_alloc_lowest_unheld (c : Cfg) (ops : List Op) (k i : Nat)
    (hk : (run (init c) ops).subs.lookup k = none)
    (h : (alloc (run (init c) ops) k).1.subs.lookup k = some i) :
    (run (init c) ops).ip2sub.lookup i = none ∧
      ∀ j, 1 ≤ j → j < i → ∃ k', (run (init c) ops).subs.lookup k' = some j := by
  have hI := inv_run (inv_init c) ops
  generalize run (init c) ops = s at *
  unfold alloc at h
  rw [hk] at h
  simp only at h
  split at h
  · rw [hk] at h; simp at h
  · rename_i i' hf
    have h' : AMap.lookup (AMap.insert s.subs k i') k = some i := h
    simp only [lookup_insert_self, Option.some.injEq] at h'
    subst h'
    obtain ⟨_, _, h3, h4⟩ := findFree_some hI.p hf
    refine ⟨h3, ?_⟩
    intro j h1 h2
    have := h4 j h1 h2
    cases e : AMap.lookup s.ip2sub j with
    | none => simp [e] at this
    | some k' => exact ⟨k', hI.p.bwd k' j e⟩

/-- A released address is back in circulation at once, whatever the grace period: right after a release
    that removed a holding, a subscriber that holds nothing is not told "exhausted". -/
theorem epoch_release_returns (c : Cfg) (ops : List Op) (k k' i : Nat)
    (hheld : (run (init c) ops).subs.lookup k = some i)
    (hnew : (release (run (init c) ops) k).1.subs.lookup k' = none) :
    (alloc (release (run (init c) ops) k).1 k').2 ≠ .exhausted := by
  have hI := inv_run (inv_init c) ops
  generalize run (init c) ops = s at *
  have hI' := inv_release hI k
  have hslot := hI.p.slot k i hheld
  intro hex
  unfold alloc at hex
  rw [hnew] at hex
  simp only at hex
  split at hex
  · rename_i hf
    have hcfg : (release s k).1.cfg = s.cfg := by unfold release; split <;> rfl
    have := findFree_none hf i hslot.1 (by rw [hcfg]; exact hslot.2)
    have hnone : AMap.lookup (release s k).1.ip2sub i = none := by
      unfold release; rw [hheld]
      show AMap.lookup (AMap.erase s.ip2sub i) i = none
      simp
    rw [hnone] at this; simp at this
  · simp at hex

/-- A lease renewed within its grace period is never reclaimed: after ANY history in which k holds slot i,
    once k renews, every continuation that does not release k and advances the epoch at most `grace`
    times leaves k on the same slot — and Lookup still answers its address.
    PARTIAL: for grace periods below 256; the code compares with byte(gracePeriod), so a grace period of
    256 or more is truncated and the lease is dropped early (finding D20, `D20_truncation_witness`). -/
theorem epoch_renewed_never_reclaimed_partial (c : Cfg) (hg : c.grace < 256) (pre ops : List Op) (k i : Nat)
    (hheld : (run (init c) pre).subs.lookup k = some i)
    (hno : ∀ op ∈ ops, op ≠ .release k)
    (hadv : advCount ops ≤ c.grace) :
    (run (renew (run (init c) pre) k).1 ops).subs.lookup k = some i ∧
      Epoch.lookup (run (renew (run (init c) pre) k).1 ops) k = .addr (indexToIP c i) := by
  have hgb : c.graceB = c.grace := Nat.mod_eq_of_lt hg
  rw [← hgb] at hadv
  have hI := inv_run (inv_init c) pre
  have hc : (run (init c) pre).cfg = c := run_cfg _ _
  generalize run (init c) pre = s at *
  have hI' := inv_renew hI k
  have hr : (renew s k).1 = { s with gens := AMap.insert s.gens i (curGen s) } := by
    unfold renew; rw [hheld]
  have hk' : AMap.lookup (renew s k).1.subs k = some i := by rw [hr]; exact hheld
  have hd : dist (renew s k).1.epoch (genAt (renew s k).1.gens i) ≤ 0 := by
    rw [hr]
    show dist s.epoch (genAt (AMap.insert s.gens i (curGen s)) i) ≤ 0
    rw [genAt_insert]; simp only [if_true]
    unfold dist curGen; omega
  have hcfg : (renew s k).1.cfg = c := by rw [hr]; exact hc
  have hkept := lease_kept k i ops (renew s k).1 0 hI' hk' hd (by rw [hcfg]; omega) hno
  refine ⟨hkept, ?_⟩
  have hI'' := inv_run hI' ops
  unfold Epoch.lookup
  rw [hkept]
  simp only
  have := hI''.live k i hkept
  unfold isFree genOf
  rw [this, run_cfg, hcfg]
  rfl

/-- the same for a lease that was just granted or re-requested (Allocate refreshes the generation too) -/
theorem epoch_granted_kept_through_grace_partial (c : Cfg) (hg : c.grace < 256) (pre ops : List Op) (k i : Nat)
    (hgot : (alloc (run (init c) pre) k).1.subs.lookup k = some i)
    (hno : ∀ op ∈ ops, op ≠ .release k)
    (hadv : advCount ops ≤ c.grace) :
    (run (alloc (run (init c) pre) k).1 ops).subs.lookup k = some i := by
  have hgb : c.graceB = c.grace := Nat.mod_eq_of_lt hg
  rw [← hgb] at hadv
  have hI := inv_run (inv_init c) pre
  have hc : (run (init c) pre).cfg = c := run_cfg _ _
  generalize run (init c) pre = s at *
  have hI' := inv_alloc hI k
  have hcfg : (alloc s k).1.cfg = c := by
    have := step_cfg s (.alloc k); simp only [step] at this; rw [this]; exact hc
  have hd : dist (alloc s k).1.epoch (genAt (alloc s k).1.gens i) ≤ 0 := by
    cases e : AMap.lookup s.subs k with
    | some i' =>
      have hr : (alloc s k).1 = { s with gens := AMap.insert s.gens i' (curGen s) } := by
        unfold alloc; rw [e]
      rw [hr] at hgot ⊢
      have h' : AMap.lookup s.subs k = some i := hgot
      rw [e] at h'
      simp only [Option.some.injEq] at h'
      subst h'
      show dist s.epoch (genAt (AMap.insert s.gens i' (curGen s)) i') ≤ 0
      rw [genAt_insert]; simp only [if_true]; unfold dist curGen; omega
    | none =>
      cases f : findFree s with
      | none =>
        have hr : (alloc s k).1 = s := by unfold alloc; rw [e]; simp only; rw [f]
        rw [hr, e] at hgot; simp at hgot
      | some i' =>
        have hsubs : (alloc s k).1.subs = AMap.insert s.subs k i' := by
          unfold alloc; rw [e]; simp only; rw [f]
        have hgens : (alloc s k).1.gens = AMap.insert s.gens i' (curGen s) := by
          unfold alloc; rw [e]; simp only; rw [f]
        have hep : (alloc s k).1.epoch = s.epoch := by
          unfold alloc; rw [e]; simp only; rw [f]
        rw [hsubs] at hgot
        simp only [lookup_insert_self, Option.some.injEq] at hgot
        subst hgot
        rw [hgens, hep, genAt_insert]; simp only [if_true]; unfold dist curGen; omega
  exact lease_kept k i ops (alloc s k).1 0 hI' hgot hd (by rw [hcfg]; omega) hno

/-- Expiry without renewal puts the address back into circulation — for grace periods the 2-bit
    generation tag can represent (grace ≤ 2; see finding D20 for the rest): after ANY history, if
    k neither renews nor re-requests during a continuation with at least grace+1 epoch advances,
    k's lease is gone at the end, whatever else happened in between. -/
theorem epoch_expiry_returns_partial (c : Cfg) (hg' : c.grace ≤ 2) (pre ops : List Op) (k : Nat)
    (hno : ∀ op ∈ ops, op ≠ .alloc k ∧ op ≠ .renew k)
    (hadv' : c.grace + 1 ≤ advCount ops) :
    (run (run (init c) pre) ops).subs.lookup k = none := by
  have hgb : c.graceB = c.grace := Nat.mod_eq_of_lt (by omega)
  have hg : c.graceB ≤ 2 := by rw [hgb]; exact hg'
  have hadv : c.graceB + 1 ≤ advCount ops := by rw [hgb]; exact hadv'
  have hI := inv_run (inv_init c) pre
  have hc : (run (init c) pre).cfg = c := run_cfg _ _
  generalize run (init c) pre = s at *
  apply lease_lapses k ops s hI (by rw [hc]; exact hg) hno
  cases e : AMap.lookup s.subs k with
  | none => exact Or.inl rfl
  | some i => exact Or.inr ⟨i, rfl, by rw [hc]; omega⟩

/-- … and the slot of a lapsed lease has no holder, so (by `epoch_exhausted_iff_full`) it can be obtained. -/
theorem epoch_lapsed_slot_unheld (c : Cfg) (ops : List Op) (k i : Nat)
    (hheld : (run (init c) ops).subs.lookup k = some i)
    (hgone : (advance (run (init c) ops)).1.subs.lookup k = none) :
    (advance (run (init c) ops)).1.ip2sub.lookup i = none := by
  have hI := inv_run (inv_init c) ops
  generalize run (init c) ops = s at *
  obtain ⟨_, _, hkeep, hdrop⟩ := advance_lease hI hheld
  cases hf : freeGen (s.epoch + 1) s.cfg.graceB (genAt s.gens i) with
  | true => exact (hdrop hf).2
  | false => rw [hkeep hf] at hgone; simp at hgone

/-- Utilisation (the third Stats() figure) is 0 when nothing is held or the pool has no usable address and the
    fraction allocated/usable otherwise — never NaN, never a percentage (after fix be2192d).
    The BITMAP allocator reports a percentage instead: finding KF-util-units (DistributedStats.Utilization
    changes unit with the pool mode); the classification is observed on the real code by the `util` op. -/
theorem epoch_util_is_fraction (c : Cfg) (ops : List Op) :
    (utilKind (run (init c) ops) = "zero" ↔
        ((run (init c) ops).cfg.usable = 0 ∨ (run (init c) ops).subs.length = 0)) ∧
    (utilKind (run (init c) ops) = "zero" ∨ utilKind (run (init c) ops) = "ratio") := by
  unfold utilKind
  constructor
  · constructor
    · intro h; split at h
      · assumption
      · simp at h
    · intro h; rw [if_pos h]
  · split
    · exact Or.inl rfl
    · exact Or.inr rfl

/-! ### recorded finding D20 (remaining part): a grace period of 3 or more epochs cannot be represented by
    the 2-bit generation tag — the distance of a generation from the current one is at most 3, so no
    lease ever lapses.  `epoch_expiry_returns_partial` excludes exactly this (`graceB ≤ 2`). -/
def c3 : Cfg := { base := 0x0a000000, ones := 29, plen := 32, grace := 3 }

theorem D20_witness :
    ¬ c3.grace ≤ 2 ∧
    ∀ n, (run (init c3) (.alloc 1 :: List.replicate n .advance)).subs.lookup 1 = some 1 := by
  refine ⟨by decide, ?_⟩
  intro n
  rw [run_cons]
  have hI : Epoch.Inv (step (init c3) (.alloc 1)).1 := inv_step (inv_init c3) _
  apply lease_immortal 1 1 _ _ hI (by decide) (by decide)
  intro op hop
  rw [List.eq_of_mem_replicate hop]
  intro h; cases h

/-- D20, truncation: with GracePeriod 256 the comparison uses byte(256) = 0, so a lease granted at epoch e is
    gone after ONE epoch advance although its grace period is 256 epochs. -/
theorem D20_truncation_witness :
    let c : Cfg := { base := 0x0a000000, ones := 29, plen := 32, grace := 256 }
    ¬ c.grace < 256 ∧ (run (init c) [.alloc 1]).subs.lookup 1 = some 1 ∧
      (run (init c) [.alloc 1, .advance]).subs.lookup 1 = none := by
  decide

/-! ### recorded finding KF-epoch-tiny: a one-address pool reports 2^64-1 usable addresses
    (`totalIPs - 2` wraps); `epoch_stats_true` excludes it by `ones < plen`. -/
theorem KF_epoch_tiny_witness :
    stats (init { base := 0x0a090909, ones := 32, plen := 32, grace := 1 }) = .stats 0 (2 ^ 64 - 1) := by
  decide

/-! non-vacuity -/
example : (alloc (run (init { base := 0x0a000000, ones := 30, plen := 32, grace := 1 })
    [.advance, .advance, .alloc 1, .alloc 2]) 3).2 = .exhausted := by decide
example : c3.grace < 256 ∧ advCount [Op.alloc 2, .advance, .lookup 1] ≤ c3.grace ∧
    ∀ op ∈ [Op.alloc 2, .advance, .lookup 1], op ≠ .release 1 := by decide
example : (1 : Nat) + 1 ≤ advCount [Op.advance, .alloc 2, .advance] ∧
    ∀ op ∈ [Op.advance, .alloc 2, .advance], op ≠ .alloc 1 ∧ op ≠ .renew 1 := by decide

end Bng.Spec.C05Epoch
