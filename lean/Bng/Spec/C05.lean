import Bng.Proof.Bitmap
/-
  C05 — Address pools neither leak nor miscount.

  Property statements only.  All theorems quantify over every operation history and pool geometry.
-/
namespace Bng.Spec.C05
open Bng Bng.Bitmap AMap

/-! ## bitmap allocator (pkg/allocator/bitmap.go) -/

def GoodCfg (c : Cfg) : Prop :=
  c.poolPrefix ≤ c.plen ∧ c.plen ≤ c.famBits ∧ c.plen - c.poolPrefix < 64

/-- The figures `Stats()` reports are the true ones after any history: allocated = number of
    subscribers holding a unit, total = number of units. -/
theorem bitmap_stats_true (c : Cfg) (hc : GoodCfg c) (ops : List Op) :
    stats (run (init c) ops) =
      .stats (run (init c) ops).allocated.length (2 ^ (c.plen - c.poolPrefix)) := by
  have hI := inv_run (inv_init c hc.2.2) ops
  have hle := length_le_total hI
  have hc' : (run (init c) ops).cfg = c := run_cfg _ _
  unfold stats
  rw [hI.cnt, hc', total_eq hc.2.2]
  rw [hc'] at hle
  simp only [uint64OfInt, Int.natAbs_natCast, Cfg.totalBig]
  congr 1
  apply Nat.mod_eq_of_lt
  have : c.total < 2 ^ 64 := Nat.mod_lt _ (by decide)
  omega

/-- Exhaustion is reported only when every unit of the pool is held by a live subscriber. -/
theorem bitmap_exhausted_only_when_full (c : Cfg) (hc : GoodCfg c) (ops : List Op) (k : Nat)
    (h : (alloc (run (init c) ops) k).2 = .exhausted) :
    ∀ i, i < 2 ^ (c.plen - c.poolPrefix) →
      ∃ k', (run (init c) ops).allocated.lookup k' = some i := by
  have hI := inv_run (inv_init c hc.2.2) ops
  have hc' : (run (init c) ops).cfg = c := run_cfg _ _
  intro i hi
  unfold alloc at h
  split at h
  · simp at h
  · split at h
    · rename_i hf
      have hb := findFree_none hf i (by rw [hc', total_eq hc.2.2]; exact hi)
      have := (hI.bit i).mp hb
      cases e : (run (init c) ops).idx2sub.lookup i with
      | none => simp [e] at this
      | some k' => exact ⟨k', hI.bwd k' i e⟩
    · simp at h

/-- A released unit is back in circulation: right after a successful release a subscriber that
    holds nothing is not told "exhausted". -/
theorem bitmap_release_returns (c : Cfg) (hc : GoodCfg c) (ops : List Op) (k k' : Nat)
    (hrel : (release (run (init c) ops) k).2 = .ok)
    (hnew : (release (run (init c) ops) k).1.allocated.lookup k' = none) :
    (alloc (release (run (init c) ops) k).1 k').2 ≠ .exhausted := by
  have hI := inv_run (inv_init c hc.2.2) ops
  generalize run (init c) ops = s at *
  cases hk : s.allocated.lookup k with
  | none => simp [release, hk] at hrel
  | some i =>
    have e : (release s k).1 = take s k i (hintAfterRelease s i) := by simp [release, hk]
    rw [e] at hnew ⊢
    intro hex
    unfold alloc at hex
    rw [hnew] at hex
    simp only at hex
    split at hex
    · rename_i hf
      have hb := findFree_none hf i (hI.lt k i hk)
      simp [take, mem_clearBit] at hb
    · simp at hex

/-- A failed or repeated operation never changes the figures: every reachable state satisfies the
    counting invariant (the counter equals the number of holders, never negative). -/
theorem bitmap_count_is_holders (c : Cfg) (hc : GoodCfg c) (ops : List Op) :
    (run (init c) ops).count = ((run (init c) ops).allocated.length : Int) :=
  (inv_run (inv_init c hc.2.2) ops).cnt

/-! ### recorded finding KF-bitmap-wide: a pool with 2^64 or more units reports exhaustion at once
    (the unit count is truncated by `Uint64()`); the theorems above exclude it by `GoodCfg`. -/
def wide : Cfg := { famBits := 128, poolPrefix := 48, plen := 128, base := 0 }

theorem KF_bitmap_wide_witness : (alloc (init wide) 1).2 = .exhausted ∧ ¬ GoodCfg wide := by
  constructor
  · decide
  · unfold GoodCfg wide; simp

/-! non-vacuity -/
example : GoodCfg { famBits := 128, poolPrefix := 56, plen := 64, base := 0 } := by unfold GoodCfg; decide
example : (alloc (run (init { famBits := 32, poolPrefix := 31, plen := 32, base := 0 })
    [.alloc 1, .alloc 2]) 3).2 = .exhausted := by decide

end Bng.Spec.C05
