import Bng.Proof.Antispoof
/-
  C18 — A subscriber can only source traffic from its bound address.

  Property statements only.  The model (`Bng.Antispoof`) is `antispoof_ingress` of bpf/antispoof.c at byte
  level (frame = byte list, every load behind the length test the C makes, maps = byte tables, the allowed
  ranges an LPM trie with the kernel's semantics) and pkg/antispoof/manager.go as a writer of map bytes.

  Frame model of the statements: `V4Frame frame mac src` / `V6Frame frame mac src` — an Ethernet II frame
  from `mac` whose ethertype field at offset 12 is IPv4 / IPv6 and which carries a complete IP header with
  source `src`; quantification is over ALL such frames (any length, any other content) and all map contents.
  Frames with an 802.1Q/802.1ad tag at offset 12 are not of this form: the program treats them as non-IP
  (finding D51, `D51_witness`).

  `modeInForce m mac` is the binding's mode if the MAC has a binding, else the configured default mode.
-/
namespace Bng.Spec.C18
open Bng Bng.Antispoof
open Bng.TokenBucket (Bytes leBytes leNat)

/-! ## strict -/

instance (frame mac src : Bytes) : Decidable (V4Frame frame mac src) := by unfold V4Frame; exact inferInstance
instance (frame mac src : Bytes) : Decidable (V6Frame frame mac src) := by unfold V6Frame; exact inferInstance

/-- **Strict, IPv4.**  When strict validation is in force for the sender's MAC, a frame with a complete IPv4
    header is forwarded if and only if the MAC has a binding whose IPv4 part is valid and whose address —
    read as the program reads it, `b.addr4.reverse` being the address in wire order — equals the source. -/
theorem strict_iff (m : Maps) (frame mac src : Bytes) (hf : V4Frame frame mac src)
    (hm : modeInForce m mac = STRICT) :
    (run m frame).ret = TC_ACT_OK ↔
      ∃ b, bindingOf m mac = some b ∧ b.valid4 ≠ 0 ∧ b.addr4.reverse = src := by
  rw [run_v4 m frame mac src hf]
  have hs := src4_length hf
  simp only [hm]
  cases hb : bindingOf m mac with
  | none => simp [STRICT, DISABLED, LOOSE, LOG_ONLY, TC_ACT_OK, TC_ACT_SHOT]
  | some b =>
    have hl := (bindingOf_lengths hb).1
    have key : leNat src.reverse = leNat b.addr4 ↔ b.addr4.reverse = src := by
      constructor
      · intro e
        have := leNat_inj src.reverse b.addr4 (by simp [hs, hl]) e
        rw [← this, List.reverse_reverse]
      · intro e; rw [← e, List.reverse_reverse]
    simp only [STRICT, DISABLED, LOOSE, LOG_ONLY, TC_ACT_OK, TC_ACT_SHOT]
    by_cases hv : b.valid4 = 0
    · simp [hv]
    · by_cases he : leNat src.reverse = leNat b.addr4
      · have := key.mp he; simp [hv, he, this]
      · have : ¬ b.addr4.reverse = src := fun h => he (key.mpr h)
        simp [hv, he, this]

/-- **Strict, IPv6.**  Likewise for a complete IPv6 header: forwarded iff the binding's IPv6 part is valid and
    its 16 bytes equal the source. -/
theorem strict_iff_v6 (m : Maps) (frame mac src : Bytes) (hf : V6Frame frame mac src)
    (hm : modeInForce m mac = STRICT) :
    (run m frame).ret = TC_ACT_OK ↔
      ∃ b, bindingOf m mac = some b ∧ b.valid6 ≠ 0 ∧ b.addr6 = src := by
  rw [run_v6 m frame mac src hf]
  simp only [hm]
  cases hb : bindingOf m mac with
  | none => simp [STRICT, DISABLED, LOOSE, LOG_ONLY, TC_ACT_OK, TC_ACT_SHOT]
  | some b =>
    simp only [STRICT, DISABLED, LOOSE, LOG_ONLY, TC_ACT_OK, TC_ACT_SHOT]
    by_cases hv : b.valid6 = 0
    · simp [hv]
    · by_cases he : src = b.addr6
      · simp [hv, he]
      · have : ¬ b.addr6 = src := fun h => he h.symm
        simp [hv, he, this]

/-! ## log-only, disabled, non-IP -/

/-- **Log-only.**  With log-only in force for the sender's MAC EVERY frame is forwarded (complete header or
    not, IP or not). -/
theorem logonly_forwards (m : Maps) (frame mac : Bytes) (hmac : (frame.drop 6).take 6 = mac)
    (hm : modeInForce m mac = LOG_ONLY) : (run m frame).ret = TC_ACT_OK := by
  by_cases hlen : frame.length < 14
  · unfold run; simp [hlen]
  · rw [run_of_mac m frame mac hmac (by omega), hm]
    unfold runBody
    simp only [LOG_ONLY, DISABLED, LOOSE, STRICT, TC_ACT_OK, TC_ACT_SHOT]
    split_ifs <;> simp_all

/-- **Disabled.**  With validation disabled for the sender's MAC every frame is forwarded. -/
theorem disabled_forwards (m : Maps) (frame mac : Bytes) (hmac : (frame.drop 6).take 6 = mac)
    (hm : modeInForce m mac = DISABLED) : (run m frame).ret = TC_ACT_OK := by
  by_cases hlen : frame.length < 14
  · unfold run; simp [hlen]
  · rw [run_of_mac m frame mac hmac (by omega), hm]
    unfold runBody
    simp

/-- **Non-IP.**  A frame whose ethertype field at offset 12 is neither IPv4 nor IPv6 is forwarded in every mode,
    whatever the maps hold; so is a frame too short for an Ethernet header.  NOTE: "non-IP" is the program's
    notion.  Frames that carry an IP packet behind a VLAN tag (0x8100/0x88a8/0x9100/0x9200) or a PPPoE session
    header (0x8864) fall under this theorem too and are therefore never validated: finding D51
    (`excl_D51`, `D51_frames_forwarded`, `D51_witness`). -/
theorem nonip_forwards (m : Maps) (frame : Bytes)
    (h : frame.length < 14 ∨ ((frame.drop 12).take 2 ≠ [0x08, 0x00] ∧ (frame.drop 12).take 2 ≠ [0x86, 0xdd])) :
    (run m frame).ret = TC_ACT_OK := by
  unfold run
  rcases h with h | ⟨h4, h6⟩
  · simp [h]
  · unfold runBody
    simp only [h4, h6, if_false]
    split_ifs <;> rfl

/-- A frame announcing IPv4 / IPv6 whose IP header is cut short is forwarded (the statements above are about
    frames with a complete header; this is what happens to the others). -/
theorem incomplete_forwards (m : Maps) (frame : Bytes)
    (h : ((frame.drop 12).take 2 = [0x08, 0x00] ∧ frame.length < 34) ∨
         ((frame.drop 12).take 2 = [0x86, 0xdd] ∧ frame.length < 54)) :
    (run m frame).ret = TC_ACT_OK := by
  unfold run runBody
  have hne : ¬ ([0x86, 0xdd] : Bytes) = [0x08, 0x00] := by decide
  rcases h with ⟨h4, hl⟩ | ⟨h6, hl⟩
  · simp only [h4, hl, if_true]
    split_ifs <;> rfl
  · simp only [h6, hne, hl, if_true, if_false]
    split_ifs <;> rfl

/-! ## loose -/

/-- **Loose, IPv4.**  With loose validation in force a frame with a complete IPv4 header is forwarded if and
    only if its source lies in one of the ranges stored in the allowed-ranges trie — whether or not the MAC
    has a binding (before fix 75bea27 a subscriber WITH a binding was always dropped: D50). -/
theorem loose_iff (m : Maps) (frame mac src : Bytes) (hf : V4Frame frame mac src)
    (hm : modeInForce m mac = LOOSE) :
    (run m frame).ret = TC_ACT_OK ↔ inRanges m src := by
  rw [run_v4 m frame mac src hf, ← inAllowedRange_iff]
  simp only [hm]
  cases inAllowedRange m src <;> simp [STRICT, DISABLED, LOOSE, LOG_ONLY, TC_ACT_OK, TC_ACT_SHOT]

/-- **Loose, IPv6 — as coded (finding KF-loose-v6).**  There is no IPv6 range table; in loose mode an IPv6
    frame is forwarded iff the MAC has no valid IPv6 binding or the source equals it. -/
theorem loose_v6_as_coded (m : Maps) (frame mac src : Bytes) (hf : V6Frame frame mac src)
    (hm : modeInForce m mac = LOOSE) :
    (run m frame).ret = TC_ACT_OK ↔
      ∀ b, bindingOf m mac = some b → b.valid6 ≠ 0 → b.addr6 = src := by
  rw [run_v6 m frame mac src hf]
  simp only [hm]
  cases hb : bindingOf m mac with
  | none => simp [STRICT, DISABLED, LOOSE, LOG_ONLY, TC_ACT_OK, TC_ACT_SHOT]
  | some b =>
    simp only [STRICT, DISABLED, LOOSE, LOG_ONLY, TC_ACT_OK, TC_ACT_SHOT]
    by_cases hv : b.valid6 = 0
    · simp [hv]
    · by_cases he : src = b.addr6
      · simp [hv, he]
      · have : ¬ b.addr6 = src := fun h => he h.symm
        simp [hv, he, this]

/-! ## bindings take effect exactly as written -/

/-- **AddBinding as written.**  After `AddBinding(mac, a.b.c.d)` the program's view of `mac`'s binding is the
    previous one (a zero record if there was none) with exactly what was written changed: IPv4 valid, address
    `a.b.c.d` in wire order, the manager's current mode.  An IPv6 binding stays (before fix c607b4f it was erased). -/
theorem binding_as_written (g : Mgr) (m : Maps) (mac : Bytes) (a b c d : UInt8) :
    bindingOf (addBinding g m mac (some [a, b, c, d])) mac =
      some { ((bindingOf m mac).getD {}) with addr4 := [d, c, b, a], valid4 := 1, mode := g.mode } ∧
    ([d, c, b, a] : Bytes).reverse = [a, b, c, d] := by
  refine ⟨?_, rfl⟩
  unfold bindingOf addBinding
  simp only [AMap.lookup_insert_self, Option.bind_some]
  rw [leBytes4_beNat]
  exact Binding.decode_encode _ rfl (existing_lengths m mac).2

/-- **AddBindingV6 as written.**  It sets the IPv6 part and the mode and keeps the IPv4 part of an existing
    binding. -/
theorem binding_v6_as_written (g : Mgr) (m : Maps) (mac ip6 : Bytes) (h6 : ip6.length = 16) :
    bindingOf (addBindingV6 g m mac (some ip6)) mac =
      some { ((bindingOf m mac).getD {}) with addr6 := ip6, valid6 := 1, mode := g.mode } := by
  unfold bindingOf addBindingV6
  simp only [AMap.lookup_insert_self, Option.bind_some]
  exact Binding.decode_encode _ (existing_lengths m mac).1 h6

/-- **Dual stack.**  `AddBindingV6` then `AddBinding` (or the other way round) leaves both addresses bound. -/
theorem dual_stack_as_written (g : Mgr) (m : Maps) (mac ip6 : Bytes) (h6 : ip6.length = 16) (a b c d : UInt8) :
    (∃ x, bindingOf (addBinding g (addBindingV6 g m mac (some ip6)) mac (some [a, b, c, d])) mac = some x ∧
      x.valid4 = 1 ∧ x.addr4 = [d, c, b, a] ∧ x.valid6 = 1 ∧ x.addr6 = ip6) ∧
    (∃ x, bindingOf (addBindingV6 g (addBinding g m mac (some [a, b, c, d])) mac (some ip6)) mac = some x ∧
      x.valid4 = 1 ∧ x.addr4 = [d, c, b, a] ∧ x.valid6 = 1 ∧ x.addr6 = ip6) := by
  constructor
  · refine ⟨_, (binding_as_written g _ mac a b c d).1, rfl, rfl, ?_, ?_⟩ <;>
      rw [binding_v6_as_written g m mac ip6 h6] <;> rfl
  · refine ⟨_, binding_v6_as_written g _ mac ip6 h6, ?_, ?_, rfl, rfl⟩ <;>
      rw [(binding_as_written g m mac a b c d).1] <;> rfl

/-- **RemoveBinding as written**, and neither operation touches another MAC's record (6-byte MAC addresses: the
    manager refuses every other length). -/
theorem unbinding_as_written (g : Mgr) (m : Maps) (mac mac' : Bytes) (ip : Option Bytes)
    (_hm : mac.length = 6) (_hm' : mac'.length = 6) (hne : macKey mac' ≠ macKey mac) :
    bindingOf (removeBinding m mac) mac = none ∧
    bindingOf (removeBinding m mac) mac' = bindingOf m mac' ∧
    bindingOf (addBinding g m mac ip) mac' = bindingOf m mac' ∧
    bindingOf (addBindingV6 g m mac ip) mac' = bindingOf m mac' := by
  unfold bindingOf removeBinding addBinding addBindingV6
  simp [AMap.lookup_erase, AMap.lookup_insert, hne]

/-- Distinct MAC addresses have distinct keys (so "another MAC" above means just that). -/
theorem mac_keys_distinct (a b c d e f a' b' c' d' e' f' : UInt8)
    (h : ([a, b, c, d, e, f] : Bytes) ≠ [a', b', c', d', e', f']) :
    macKey [a, b, c, d, e, f] ≠ macKey [a', b', c', d', e', f'] :=
  fun hk => h (macKey_inj a b c d e f a' b' c' d' e' f' hk)

/-- **SetMode as written**: the mode set is the mode in force for EVERY MAC — bound or not — and it is the mode
    later bindings get; nothing else of a binding changes.  (Before fix 789ff35 bound subscribers kept the mode
    they were added with.) -/
theorem setmode_as_written (g : Mgr) (m : Maps) (mode : UInt8) (mac : Bytes) :
    modeInForce (setMode g m mode).2 mac = mode ∧ (setMode g m mode).1.mode = mode ∧
    bindingOf (setMode g m mode).2 mac = (bindingOf m mac).map fun b => { b with mode := mode } := by
  refine ⟨?_, rfl, bindingOf_setMode g m mode mac⟩
  unfold modeInForce
  rw [bindingOf_setMode]
  cases bindingOf m mac with
  | none => rfl
  | some b => rfl

/-- A network whose mask is not a prefix mask is refused (before fix c709cde it installed 0.0.0.0/0). -/
theorem range_mask_refused (m : Maps) (ip mask : Bytes) (h : maskLen mask = none) :
    addAllowedRangeMask m ip mask = none := by
  unfold addAllowedRangeMask; rw [h]; rfl

/-- **AddAllowedRange as written.**  After adding `net/len` the sources the program finds in an allowed range
    are exactly those it found before plus the addresses of `net/len`. -/
theorem range_as_written (m : Maps) (net : Bytes) (len : Nat) (hn : net.length = 4) (hl : len ≤ 32) (src : Bytes) :
    inRanges (addAllowedRange m net len) src ↔ inRanges m src ∨ inNet src net len = true :=
  inRanges_addAllowedRange m net len hn hl src

/-- **End to end, strict.**  With the manager in strict mode, after `AddBinding(mac, ip)` a complete IPv4 frame
    from `mac` is forwarded iff its source is `ip` — for every earlier map content.  (Before fix 66ece4c it was
    forwarded iff the source was `ip` byte-reversed: D49.) -/
theorem strict_end_to_end (g : Mgr) (m : Maps) (mac : Bytes) (a b c d : UInt8) (frame src : Bytes)
    (hg : g.mode = STRICT) (hf : V4Frame frame mac src) :
    (run (addBinding g m mac (some [a, b, c, d])) frame).ret = TC_ACT_OK ↔ src = [a, b, c, d] := by
  have hb := (binding_as_written g m mac a b c d).1
  have hm : modeInForce (addBinding g m mac (some [a, b, c, d])) mac = STRICT := by
    unfold modeInForce; rw [hb]; exact hg
  rw [strict_iff _ frame mac src hf hm, hb]
  constructor
  · rintro ⟨x, hx, _, he⟩
    injection hx with hx
    rw [← hx] at he
    exact he.symm
  · intro h
    exact ⟨_, rfl, by simp, by rw [h]; rfl⟩

/-- **End to end, loose.**  With loose in force, after `AddAllowedRange(net/len)` every complete IPv4 frame whose
    source lies in `net/len` is forwarded.  (Before fix 61ee199 the key was written in host byte order: D49.) -/
theorem loose_end_to_end (m : Maps) (net : Bytes) (len : Nat) (hn : net.length = 4) (hl : len ≤ 32)
    (frame mac src : Bytes) (hf : V4Frame frame mac src)
    (hm : modeInForce (addAllowedRange m net len) mac = LOOSE) (hin : inNet src net len = true) :
    (run (addAllowedRange m net len) frame).ret = TC_ACT_OK := by
  rw [loose_iff _ frame mac src hf hm, range_as_written m net len hn hl]
  exact Or.inr hin

/-! ### finding D51: a VLAN tag hides the IP header -/

/-- 02:00:00:00:00:01, 802.1Q tag (VLAN 100), IPv4 10.0.0.6 → 8.8.8.8 -/
def w51 : Bytes :=
  [0xff,0xff,0xff,0xff,0xff,0xff, 0x02,0,0,0,0,0x01, 0x81,0x00, 0x00,0x64, 0x08,0x00,
   0x45,0,0,28, 0,0,0,0, 64,17,0,0, 10,0,0,6, 8,8,8,8, 1,2,3,4,5,6,7,8]

/-- exclusion clause of D51: where the program expects the ethertype of the IP payload the frame carries a VLAN
    tag (TPID 0x8100, 0x88a8, 0x9100, 0x9200) or a PPPoE session header (0x8864) — the IP header, if any, lies
    deeper and the program never looks at it.  (The driver attributes a verdict to D51 only if, in addition, the
    frame was FORWARDED although its inner source should have been refused.) -/
def excl_D51 (frame : Bytes) : Bool :=
  let e := (frame.drop 12).take 2
  decide (e = [0x81, 0x00] ∨ e = [0x88, 0xa8] ∨ e = [0x91, 0x00] ∨ e = [0x92, 0x00] ∨ e = [0x88, 0x64])

/-- Every frame the clause describes is forwarded in every mode (it is "non-IP" for the program). -/
theorem D51_frames_forwarded (m : Maps) (frame : Bytes) (h : excl_D51 frame = true) :
    (run m frame).ret = TC_ACT_OK := by
  apply nonip_forwards
  right
  unfold excl_D51 at h
  simp only [decide_eq_true_eq] at h
  constructor <;> intro he <;> rw [he] at h <;> simp at h

/-- **D51, witness.**  Strict mode, 02:00:00:00:00:01 bound to 10.0.0.5: the tagged frame sourced from
    10.0.0.6 is forwarded (the same frame without the tag is dropped).  Tagged frames are not `V4Frame`s, which
    is why `strict_iff` does not speak about them. -/
theorem D51_witness :
    let m := addBinding (newManager 1) (setMode (newManager 1) {} 1).2 [0x02,0,0,0,0,0x01] (some [10,0,0,5])
    (run m w51).ret = TC_ACT_OK ∧ excl_D51 w51 = true ∧
    (run m (w51.take 12 ++ w51.drop 16)).ret = TC_ACT_SHOT ∧ excl_D51 (w51.take 12 ++ w51.drop 16) = false := by
  decide

/-- **KF-loose-v6, witness.**  Loose mode, no range configured at all: an IPv6 frame from an unbound MAC is
    forwarded. -/
theorem KF_loose_v6_witness :
    let m := (setMode (newManager 2) {} 2).2
    (run m ([0xff,0xff,0xff,0xff,0xff,0xff, 0x02,0,0,0,0,0x01, 0x86,0xdd, 0x60,0,0,0, 0,0,17,64] ++
       [0x20,0x01,0x0d,0xb8,0,0,0,0,0,0,0,0,0,0,0,1] ++ [0x20,0x01,0x0d,0xb8,0,0,0,0,0,0,0,0,0,0,0,2])).ret = TC_ACT_OK ∧
    m.ranges = [] := by
  decide

/-! non-vacuity -/
example : V4Frame (w51.take 12 ++ w51.drop 16) [0x02,0,0,0,0,0x01] [10,0,0,6] := by decide
example : modeInForce (addBinding (newManager 0) {} [2,0,0,0,0,1] (some [10,0,0,5])) [2,0,0,0,0,1] = STRICT := by decide
example : modeInForce (setMode (newManager 2) {} 2).2 [2,0,0,0,0,1] = LOOSE := by decide
example : modeInForce (setMode (newManager 3) {} 3).2 [2,0,0,0,0,1] = LOG_ONLY := by decide
example : inNet [10,0,0,77] [10,0,0,0] 24 = true := by decide
example : macKey [2,0,0,0,0,2] ≠ macKey [2,0,0,0,0,1] := by decide

end Bng.Spec.C18
