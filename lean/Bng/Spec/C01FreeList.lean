import Bng.Proof.FreeList
import Bng.Proof.FreeListGen
/-
  C01 — No address or prefix is ever held by two subscribers at once: the five free-list pools
  (dhcp.Pool, dhcpv6.AddressPool, dhcpv6.PrefixPool, pppoe.IPPool, pool.LocalPool).

  Property statements only.  The generic theorems quantify over ALL operation sequences `ops` of the
  generic model `Bng.FreeList` (which has the operations of all five pools, so each pool's histories are
  among them) and over every configuration whose constructor generates no value twice; the per-pool
  theorems discharge that hypothesis from the constructor's arithmetic for every pool geometry and state
  the range in terms of the configured network.
-/
namespace Bng.Spec.C01FreeList
open Bng Bng.FreeList AMap

/-- the two facts about a configuration the generic theorems need: the constructor generated no value
    twice, and Allocate looks up an existing holding first (true of all five pools, see `good_*`) -/
def GoodCfg (c : Cfg) : Prop := c.univ.Nodup ∧ c.lookupFirst = true

theorem reachable_inv (c : Cfg) (hc : GoodCfg c) (ops : List Op) : Inv (run (init c) ops) :=
  inv_run (inv_init c hc.1 hc.2) ops

/-! ## generic theorems (all five pools) -/

/-- Uniqueness: after any history, no value is held by two different keys. -/
theorem freelist_unique (c : Cfg) (hc : GoodCfg c) (ops : List Op) (k₁ k₂ a : Nat)
    (h₁ : (run (init c) ops).held.lookup k₁ = some a)
    (h₂ : (run (init c) ops).held.lookup k₂ = some a) : k₁ = k₂ :=
  (reachable_inv c hc ops).unique h₁ h₂

/-- Uniqueness at the moment of allocation: the value Allocate hands to a key that held nothing is
    held by nobody else and is no longer on the free list. -/
theorem freelist_alloc_fresh (c : Cfg) (hc : GoodCfg c) (ops : List Op) (k a : Nat)
    (hk : (run (init c) ops).held.lookup k = none)
    (h : (alloc (run (init c) ops) k).2 = .okAddr a) :
    (∀ k', (run (init c) ops).held.lookup k' ≠ some a) ∧ a ∉ (alloc (run (init c) ops) k).1.avail := by
  have hI := reachable_inv c hc ops
  generalize run (init c) ops = s at *
  unfold alloc at h ⊢
  simp only [hI.lf, if_true, hk] at h ⊢
  cases hav : s.avail with
  | nil => simp [hav] at h
  | cons x rest =>
    simp only [hav, Obs.okAddr.injEq] at h ⊢
    subst h
    refine ⟨fun k' => hI.avail_not_held (by rw [hav]; exact List.mem_cons_self) k', ?_⟩
    have := hI.avail_nodup
    rw [hav, List.nodup_cons] at this
    exact this.1

/-- Reserve (dhcp.Pool.Reserve, "give this key this specific address"): it succeeds only for an address
    the key already holds or one that stood on the free list — so never for an address another key holds —
    and after a success the key holds exactly that address; a refusal changes nothing. -/
theorem freelist_reserve_sound (c : Cfg) (hc : GoodCfg c) (ops : List Op) (k a : Nat) :
    let s := run (init c) ops
    ((reserve s k a).2 = .bool true →
        (reserve s k a).1.held.lookup k = some a ∧ (∀ k', k' ≠ k → s.held.lookup k' ≠ some a) ∧ a ∈ c.univ) ∧
    ((reserve s k a).2 = .bool false → (reserve s k a).1 = s) := by
  have hI := reachable_inv c hc ops
  have hcfg : (run (init c) ops).cfg = c := run_cfg _ _
  generalize run (init c) ops = s at *
  have huniv : ∀ x, x ∈ s.avail → x ∈ c.univ := by
    intro x hx
    rw [← hcfg]
    apply hI.perm.subset
    simp only [List.mem_append]
    exact Or.inl (Or.inr hx)
  show ((reserve s k a).2 = .bool true →
        (reserve s k a).1.held.lookup k = some a ∧ (∀ k', k' ≠ k → s.held.lookup k' ≠ some a) ∧ a ∈ c.univ) ∧
    ((reserve s k a).2 = .bool false → (reserve s k a).1 = s)
  cases hcur : s.held.lookup k with
  | some cur =>
    by_cases e : cur = a
    · subst e
      have hr : reserve s k cur = (s, .bool true) := by simp [reserve, hcur]
      rw [hr]
      refine ⟨fun _ => ⟨hcur, fun k' hk' h => hk' (hI.unique h hcur), ?_⟩, fun h => by simp at h⟩
      have := hI.held_in_univ hcur
      rwa [hcfg] at this
    · by_cases ha : a ∈ s.avail
      · have hr : reserve s k a = ({ s with avail := s.avail.erase a ++ [cur], held := AMap.insert s.held k a, rev := if s.cfg.hasRev then AMap.insert (AMap.erase s.rev cur) a k else s.rev }, .bool true) := by
          simp [reserve, hcur, e, ha]
        rw [hr]
        exact ⟨fun _ => ⟨by simp, fun k' _ => hI.avail_not_held ha k', huniv a ha⟩, fun h => by simp at h⟩
      · have hr : reserve s k a = (s, .bool false) := by simp [reserve, hcur, e, ha]
        rw [hr]
        exact ⟨fun h => by simp at h, fun _ => rfl⟩
  | none =>
    by_cases ha : a ∈ s.avail
    · have hr : reserve s k a = ({ s with avail := s.avail.erase a, held := AMap.insert s.held k a, rev := if s.cfg.hasRev then AMap.insert s.rev a k else s.rev }, .bool true) := by
        simp [reserve, hcur, ha]
      rw [hr]
      exact ⟨fun _ => ⟨by simp, fun k' _ => hI.avail_not_held ha k', huniv a ha⟩, fun h => by simp at h⟩
    · have hr : reserve s k a = (s, .bool false) := by simp [reserve, hcur, ha]
      rw [hr]
      exact ⟨fun h => by simp at h, fun _ => rfl⟩

/-- In range: every held value was generated by the pool's constructor. -/
theorem freelist_held_generated (c : Cfg) (hc : GoodCfg c) (ops : List Op) (k a : Nat)
    (h : (run (init c) ops).held.lookup k = some a) : a ∈ c.univ := by
  have := (reachable_inv c hc ops).held_in_univ h
  rwa [run_cfg] at this

/-- Idempotence: a key that asks again while holding a value gets the same value and nothing changes. -/
theorem freelist_idempotent (s : State) (hl : s.cfg.lookupFirst = true) (k a : Nat)
    (h : s.held.lookup k = some a) : alloc s k = (s, .okAddr a) := by
  unfold alloc
  simp [hl, h]

/-- Concurrent callers.  Every Allocate runs under the pool's mutex, so a BURST of n+1 concurrent requests
    of one key is some sequence of n+1 calls (`allocN`).  That sequence is indistinguishable from ONE
    allocate: the state after the burst is the state after a single call, and every caller of the burst
    receives the answer of that single call (the same address, or "exhausted" for all). -/
theorem burst_equals_single_allocate (s : State) (hl : s.cfg.lookupFirst = true) (k n : Nat) :
    (allocN s k (n + 1)).1 = (alloc s k).1 ∧ ∀ o, o ∈ (allocN s k (n + 1)).2 → o = (alloc s k).2 := by
  -- once a call leaves the state unchanged, every further call does the same and answers the same
  have fix : ∀ (t : State) (o : Obs), alloc t k = (t, o) → ∀ m,
      (allocN t k m).1 = t ∧ ∀ o', o' ∈ (allocN t k m).2 → o' = o := by
    intro t o ht m
    induction m with
    | zero => simp [allocN]
    | succ m ih =>
      simp only [allocN, ht]
      refine ⟨ih.1, ?_⟩
      intro o' ho'
      rcases List.mem_cons.mp ho' with e | e
      · exact e
      · exact ih.2 o' e
  -- the first call reaches such a state
  have again : alloc (alloc s k).1 k = ((alloc s k).1, (alloc s k).2) := by
    cases hk : s.held.lookup k with
    | some a =>
      have e := freelist_idempotent s hl k a hk
      rw [e]; exact e
    | none =>
      cases hav : s.avail with
      | nil =>
        have e : alloc s k = (s, .exhausted) := by simp [alloc, hl, hk, hav]
        rw [e]; exact e
      | cons a rest =>
        have e : alloc s k = ({ s with avail := rest, held := AMap.insert s.held k a, rev := if s.cfg.hasRev then AMap.insert s.rev a k else s.rev }, .okAddr a) := by
          simp [alloc, hl, hk, hav]
        rw [e]
        exact freelist_idempotent
          { s with avail := rest, held := AMap.insert s.held k a, rev := if s.cfg.hasRev then AMap.insert s.rev a k else s.rev }
          hl k a (AMap.lookup_insert_self _ _ _)
  have h := fix (alloc s k).1 (alloc s k).2 again n
  simp only [allocN]
  refine ⟨h.1, ?_⟩
  intro o ho
  rcases List.mem_cons.mp ho with e | e
  · exact e
  · exact h.2 o e

/-- Forward map and reverse index (pool.LocalPool.ipToSub) agree in every reachable state. -/
theorem freelist_lookups_agree (c : Cfg) (hc : GoodCfg c) (hr : c.hasRev = true) (ops : List Op) (k a : Nat) :
    (run (init c) ops).held.lookup k = some a ↔ (run (init c) ops).rev.lookup a = some k := by
  have hI := reachable_inv c hc ops
  exact hI.revOK (by rw [run_cfg]; exact hr) k a

/-! ## the five constructors satisfy `GoodCfg` for every geometry -/

theorem good_dhcp (c : V4Cfg) (hc : GoodV4 c) : GoodCfg (dhcpCfg c) := ⟨genDhcp_nodup hc, rfl⟩
theorem good_local (c : V4Cfg) (hc : GoodV4 c) : GoodCfg (localCfg c) := ⟨genLocal_nodup hc, rfl⟩
theorem good_pppoe (c : V4Cfg) (hc : GoodV4 c) (h1 : 1 ≤ c.ones) : GoodCfg (pppoeCfg c) :=
  ⟨genPppoe_nodup hc h1, rfl⟩
theorem good_v6addr (c : V6Cfg) (hc : GoodV6 c) : GoodCfg (v6AddrCfg c) := ⟨genV6Addr_nodup hc, rfl⟩
theorem good_v6prefix (c : V6Cfg) (hc : GoodPD c) : GoodCfg (v6PrefixCfg c) := ⟨genV6Prefix_nodup hc, rfl⟩

/-! ## dhcp.Pool (pkg/dhcp/pool.go) -/

theorem dhcppool_unique (c : V4Cfg) (hc : GoodV4 c) (ops : List Op) (k₁ k₂ a : Nat)
    (h₁ : (run (init (dhcpCfg c)) ops).held.lookup k₁ = some a)
    (h₂ : (run (init (dhcpCfg c)) ops).held.lookup k₂ = some a) : k₁ = k₂ :=
  freelist_unique _ (good_dhcp c hc) ops k₁ k₂ a h₁ h₂

/-- every address a MAC holds is a host address of the configured network — neither the network
    address nor the broadcast address —, outside the reserved head and tail, and not the gateway -/
theorem dhcppool_in_range (c : V4Cfg) (hc : GoodV4 c) (ops : List Op) (k a : Nat)
    (h : (run (init (dhcpCfg c)) ops).held.lookup k = some a) :
    c.net + c.rs < a ∧ a + c.re ≤ c.net + c.numHosts ∧ a ≠ c.gw ∧
      c.net < a ∧ a + 1 < c.net + 2 ^ c.hostBits := by
  have hg := mem_genDhcp hc (freelist_held_generated _ (good_dhcp c hc) ops k a h)
  refine ⟨hg.1, hg.2.1, hg.2.2, by omega, ?_⟩
  have := hg.2.1
  unfold V4Cfg.numHosts at this
  have hp : 0 < 2 ^ c.hostBits := Nat.pow_pos (by decide)
  omega

/-- `generateAvailableIPs` adds the host number byte by byte without carry; on the masked network
    address `net.ParseCIDR` delivers this IS numeric addition. -/
theorem dhcppool_bytewise_is_numeric (c : V4Cfg) (hc : GoodV4 c) (i : Nat) (hi : i < 2 ^ c.hostBits) :
    IPArith.addBytes4 c.net i = c.net + i :=
  IPArith.addBytes4_eq c.net i c.hostBits c.hostBits_le hc.lt hc.aligned hi

/-! ## dhcpv6.AddressPool and dhcpv6.PrefixPool (pkg/dhcpv6/server.go) -/

theorem v6addr_unique (c : V6Cfg) (hc : GoodV6 c) (ops : List Op) (k₁ k₂ a : Nat)
    (h₁ : (run (init (v6AddrCfg c)) ops).held.lookup k₁ = some a)
    (h₂ : (run (init (v6AddrCfg c)) ops).held.lookup k₂ = some a) : k₁ = k₂ :=
  freelist_unique _ (good_v6addr c hc) ops k₁ k₂ a h₁ h₂

/-- every address a client holds lies inside the configured network and is not the network address -/
theorem v6addr_in_range (c : V6Cfg) (hc : GoodV6 c) (ops : List Op) (k a : Nat)
    (h : (run (init (v6AddrCfg c)) ops).held.lookup k = some a) :
    c.base < a ∧ a < c.base + 2 ^ (128 - c.ones) :=
  mem_genV6Addr hc (freelist_held_generated _ (good_v6addr c hc) ops k a h)

theorem v6prefix_unique (c : V6Cfg) (hc : GoodPD c) (ops : List Op) (k₁ k₂ a : Nat)
    (h₁ : (run (init (v6PrefixCfg c)) ops).held.lookup k₁ = some a)
    (h₂ : (run (init (v6PrefixCfg c)) ops).held.lookup k₂ = some a) : k₁ = k₂ :=
  freelist_unique _ (good_v6prefix c hc) ops k₁ k₂ a h₁ h₂

/-- every delegated prefix is `base + i·2^(128-dl)` for an index i below the pool size: aligned to the
    delegation length and, whole, inside the pool prefix.  Two different clients hold different indices,
    hence disjoint prefixes. -/
theorem v6prefix_in_range (c : V6Cfg) (hc : GoodPD c) (ops : List Op) (k a : Nat)
    (h : (run (init (v6PrefixCfg c)) ops).held.lookup k = some a) :
    ∃ i, i < 2 ^ c.indexBits ∧ a = c.base + i * 2 ^ (128 - c.dl) ∧
      c.base ≤ a ∧ a + 2 ^ (128 - c.dl) ≤ c.base + 2 ^ (128 - c.ones) := by
  obtain ⟨i, h1, _, h3, h4⟩ := mem_genV6Prefix hc (freelist_held_generated _ (good_v6prefix c hc) ops k a h)
  exact ⟨i, h1, h3, by omega, h4⟩

/-- the bit-by-bit placement of the index in NewPrefixPool is `base + i·2^(128-dl)` -/
theorem v6prefix_bit_placement (c : V6Cfg) (hc : GoodPD c) (i : Nat) (hi : i < 2 ^ c.indexBits) :
    IPArith.placeBits c.base (128 - c.dl) i c.indexBits = c.base + i * 2 ^ (128 - c.dl) :=
  v6prefix_closed hc hi

/-! ## pppoe.IPPool (pkg/pppoe/server.go) — after the repair of D2 -/

theorem pppoepool_unique (c : V4Cfg) (hc : GoodV4 c) (h1 : 1 ≤ c.ones) (ops : List Op) (k₁ k₂ a : Nat)
    (h₁ : (run (init (pppoeCfg c)) ops).held.lookup k₁ = some a)
    (h₂ : (run (init (pppoeCfg c)) ops).held.lookup k₂ = some a) : k₁ = k₂ :=
  freelist_unique _ (good_pppoe c hc h1) ops k₁ k₂ a h₁ h₂

/-- every address a session holds lies inside the configured network and is not the network address,
    the gateway, 255.255.255.255 or — for a network with more than two addresses — the network's
    broadcast address -/
theorem pppoepool_in_range (c : V4Cfg) (hc : GoodV4 c) (h1 : 1 ≤ c.ones) (ops : List Op) (k a : Nat)
    (h : (run (init (pppoeCfg c)) ops).held.lookup k = some a) :
    c.net < a ∧ a < c.net + 2 ^ c.hostBits ∧ a ≠ c.gw ∧ a ≠ 4294967295 ∧
      (2 ≤ c.hostBits → a + 1 < c.net + 2 ^ c.hostBits) := by
  have hg := mem_genPppoe hc h1 (freelist_held_generated _ (good_pppoe c hc h1) ops k a h)
  refine ⟨hg.1, hg.2.1, hg.2.2.1, hg.2.2.2.1, ?_⟩
  intro h2
  have := hg.2.2.2.2 h2
  have := hg.2.1
  omega

/-- NewIPPool's address walk has no bound in the code.  It terminates, and the model's fuel of
    2^hostBits steps is enough: any amount of extra fuel yields the same list. -/
theorem pppoepool_walk_terminates (c : V4Cfg) (hc : GoodV4 c) (h1 : 1 ≤ c.ones) (extra : Nat) :
    IPArith.walk 32 (IPArith.containsNet c.net c.hostBits) (pppoeKeep c)
      (2 ^ c.hostBits + extra) c.net = genPppoe c := by
  have hh : c.hostBits < 32 := by unfold V4Cfg.hostBits; omega
  have := IPArith.walk_fuel_enough hh hc.lt hc.aligned (pppoeKeep c)
    (2 ^ c.hostBits) 0 (Nat.pow_pos (by decide)) (by omega) extra
  simpa [genPppoe] using this

/-- D2 (repaired by fdea3a7): the same pool WITHOUT the lookup at the top of Allocate hands a session
    that already holds an address a second one, and the first is lost — neither held nor free. -/
theorem D2_witness :
    let s := run (init { univ := [1, 2, 3], lookupFirst := false }) [.alloc 7, .alloc 7]
    s.held.lookup 7 = some 2 ∧ 1 ∉ s.avail ∧ 1 ∉ vals s.held := by decide

/-! ## pool.LocalPool (pkg/pool/peer.go) -/

theorem localpool_unique (c : V4Cfg) (hc : GoodV4 c) (ops : List Op) (k₁ k₂ a : Nat)
    (h₁ : (run (init (localCfg c)) ops).held.lookup k₁ = some a)
    (h₂ : (run (init (localCfg c)) ops).held.lookup k₂ = some a) : k₁ = k₂ :=
  freelist_unique _ (good_local c hc) ops k₁ k₂ a h₁ h₂

/-- host addresses only (neither network nor broadcast address), never the gateway -/
theorem localpool_in_range (c : V4Cfg) (hc : GoodV4 c) (ops : List Op) (k a : Nat)
    (h : (run (init (localCfg c)) ops).held.lookup k = some a) :
    c.net < a ∧ a + 1 < c.net + 2 ^ c.hostBits ∧ a ≠ c.gw := by
  have hg := mem_genLocal hc (freelist_held_generated _ (good_local c hc) ops k a h)
  refine ⟨hg.1, ?_, hg.2.2⟩
  have := hg.2.1
  unfold V4Cfg.numHosts at this
  have hp : 0 < 2 ^ c.hostBits := Nat.pow_pos (by decide)
  omega

/-- the reverse index `ipToSub` names exactly the holder -/
theorem localpool_reverse_index (c : V4Cfg) (hc : GoodV4 c) (ops : List Op) (k a : Nat) :
    (run (init (localCfg c)) ops).held.lookup k = some a ↔
      (run (init (localCfg c)) ops).rev.lookup a = some k :=
  freelist_lookups_agree _ (good_local c hc) rfl ops k a

/-! non-vacuity: concrete geometries satisfy the hypotheses, concrete histories hold values -/
example : GoodV4 { net := 0x0a000000, ones := 29, gw := 0x0a000001, rs := 1, re := 1 } :=
  ⟨by decide, by decide, by decide⟩
example : GoodV6 { base := 0x20010db8000000000000000000000000, ones := 64 } :=
  ⟨by decide, by decide, by decide, by decide⟩
example : GoodPD { base := 0x20010db8000000000000000000000000, ones := 48, dl := 56 } :=
  ⟨by decide, by decide, by decide, by decide⟩
example : (run (init (dhcpCfg { net := 0x0a000000, ones := 29, gw := 0x0a000001 }))
    [.alloc 1, .alloc 2, .releaseVal 0x0a000002, .alloc 3]).held.lookup 3 = some 0x0a000004 := by decide
example : (run (init (dhcpCfg { net := 0x0a000000, ones := 29, gw := 0x0a000001 }))
    [.alloc 1, .alloc 2, .reserve 1 0x0a000003, .reserve 1 0x0a000005, .alloc 3]).held.lookup 3 = some 0x0a000004 := by decide
example : (run (init (v6PrefixCfg { base := 0x20010db8000000000000000000000000, ones := 62, dl := 64 }))
    [.alloc 1, .alloc 2]).held.lookup 2 = some 0x20010db8000000010000000000000000 := by decide

end Bng.Spec.C01FreeList
