import Bng.Proof.Dhcp6Int
/-
  C05 / C16 / C02 — the DHCPv6 server with the INTEGRATED allocators (allocator.PoolAllocator for addresses and for
  delegated prefixes, a store whose calls can fail): a release puts the value back into circulation or keeps the
  binding, never neither.

  Theorems over Bng/Model/Dhcp6Int.lean for ALL histories of messages (SOLICIT, REQUEST, RENEW, REBIND, CONFIRM,
  RELEASE, DECLINE, time) and fault switches (the store's RemoveAllocation of either pool, its SaveAllocation),
  from any pool configuration with fewer than 2^64 units per pool (GoodCfg: the width of the allocator's index).
-/
namespace Bng.Spec.C05Dhcp6Int
open Bng Bng.Dhcp6Int AMap
open Bng.Dhcp6 (Lease)

/-- **Every lease is backed by the allocator**: after any history, the address and the delegated prefix a lease
    records are exactly what the address / prefix allocator holds for that client. -/
theorem lease_backed_by_allocator (c : Cfg) (hc : GoodCfg c) (ops : List Op) (d : Nat) (l : Lease)
    (h : AMap.lookup (run (init c) ops).leases d = some l) :
    (∀ a, l.addr = some a → heldBy (run (init c) ops).aa d = some a) ∧
    (∀ p, l.pfx = some p → heldBy (run (init c) ops).pa d = some p) := by
  have hI := inv_run ops _ (inv_init c hc)
  exact ⟨fun a ha => hI.backedA d l a h ha, fun p hp => hI.backedP d l p h hp⟩

/-- **No value is bound twice** (C02 in this mode): after any history two leases that record the same address, or the
    same delegated prefix, belong to the same client. -/
theorem no_double_binding (c : Cfg) (hc : GoodCfg c) (ops : List Op) (d d' : Nat) (l l' : Lease)
    (h : AMap.lookup (run (init c) ops).leases d = some l) (h' : AMap.lookup (run (init c) ops).leases d' = some l') :
    (∀ a, l.addr = some a → l'.addr = some a → d = d') ∧ (∀ p, l.pfx = some p → l'.pfx = some p → d = d') := by
  have hI := inv_run ops _ (inv_init c hc)
  exact ⟨fun a ha ha' => heldBy_inj hI.sa (hI.backedA d l a h ha) (hI.backedA d' l' a h' ha'),
         fun p hp hp' => heldBy_inj hI.sp (hI.backedP d l p h hp) (hI.backedP d' l' p h' hp')⟩

/-- **A release that fails keeps the binding** (finding G7, fixed): after any history, when the store refuses to
    remove the client's address record, the RELEASE is answered UnspecFail (1), the lease stays in the table, still
    records the address, and the allocator still holds it for that client — the client (or an operator) can release
    again; nothing is stranded without a binding. -/
theorem release_failure_keeps_binding (c : Cfg) (hc : GoodCfg c) (ops : List Op) (d : Nat) (l : Lease) (a : Nat)
    (hd : d ≠ 0) (h : AMap.lookup (run (init c) ops).leases d = some l) (ha : l.addr = some a)
    (hf : (run (init c) ops).failRelA = true) :
    (step (run (init c) ops) (.msg (.release d))).2 = some { kind := .reply, status := some 1 } ∧
    (∃ l', AMap.lookup (step (run (init c) ops) (.msg (.release d))).1.leases d = some l' ∧ l'.addr = some a) ∧
    heldBy (step (run (init c) ops) (.msg (.release d))).1.aa d = some a := by
  have hI := inv_run ops _ (inv_init c hc)
  generalize run (init c) ops = s at *
  have hheld := hI.backedA d l a h ha
  -- the address half of the release fails and changes nothing
  have hA : relPart s.aa d s.failRelA l.addr.isSome = (s.aa, false) := by
    unfold relPart relVal Dist.Session.release Dist.Session.holds
    unfold heldBy at hheld
    cases hk : AMap.lookup s.aa.a.allocated d with
    | none => rw [hk] at hheld; simp at hheld
    | some i => simp [ha, hf]
  simp only [step, stepMsg, release, hd, if_false, h, hA, finishRelease, Bool.false_and, Bool.false_eq_true]
  refine ⟨trivial, ⟨_, by simp only [lookup_insert_self]; rfl, ?_⟩, hheld⟩
  simp [ha]

/-- the same for the delegated prefix -/
theorem release_failure_keeps_prefix_binding (c : Cfg) (hc : GoodCfg c) (ops : List Op) (d : Nat) (l : Lease) (p : Nat)
    (hd : d ≠ 0) (h : AMap.lookup (run (init c) ops).leases d = some l) (hp : l.pfx = some p)
    (hf : (run (init c) ops).failRelP = true) :
    (step (run (init c) ops) (.msg (.release d))).2 = some { kind := .reply, status := some 1 } ∧
    (∃ l', AMap.lookup (step (run (init c) ops) (.msg (.release d))).1.leases d = some l' ∧ l'.pfx = some p) ∧
    heldBy (step (run (init c) ops) (.msg (.release d))).1.pa d = some p := by
  have hI := inv_run ops _ (inv_init c hc)
  generalize run (init c) ops = s at *
  have hheld := hI.backedP d l p h hp
  have hP : relPart s.pa d s.failRelP l.pfx.isSome = (s.pa, false) := by
    unfold relPart relVal Dist.Session.release Dist.Session.holds
    unfold heldBy at hheld
    cases hk : AMap.lookup s.pa.a.allocated d with
    | none => rw [hk] at hheld; simp at hheld
    | some i => simp [hp, hf]
  simp only [step, stepMsg, release, hd, if_false, h, hP, finishRelease, Bool.and_false, Bool.false_eq_true]
  refine ⟨trivial, ⟨_, by simp only [lookup_insert_self]; rfl, ?_⟩, hheld⟩
  simp [hp]

/-- **A release answered Success puts everything back into circulation** (C05 "a release puts the address back into
    circulation", C16 "its address is back in the pool"): after any history, if the RELEASE (or DECLINE) of a client
    is answered Success, the client has no lease any more, and every address and prefix its lease recorded is held by
    NO client in the allocator afterwards — the unit is free for the next request. -/
theorem release_success_frees (c : Cfg) (hc : GoodCfg c) (ops : List Op) (d : Nat) (l : Lease)
    (h : AMap.lookup (run (init c) ops).leases d = some l)
    (hok : (step (run (init c) ops) (.msg (.release d))).2 = some { kind := .reply, status := some 0 }) :
    AMap.lookup (step (run (init c) ops) (.msg (.release d))).1.leases d = none ∧
    (∀ a d', l.addr = some a → heldBy (step (run (init c) ops) (.msg (.release d))).1.aa d' ≠ some a) ∧
    (∀ p d', l.pfx = some p → heldBy (step (run (init c) ops) (.msg (.release d))).1.pa d' ≠ some p) := by
  have hI := inv_run ops _ (inv_init c hc)
  generalize run (init c) ops = s at *
  have hd : d ≠ 0 := by
    intro e; subst e
    simp [step, stepMsg, release] at hok
  obtain ⟨hAe, _, _, hAt, _⟩ := relPart_facts s.aa d s.failRelA l.addr.isSome
  obtain ⟨hPe, _, _, hPt, _⟩ := relPart_facts s.pa d s.failRelP l.pfx.isSome
  simp only [step, stepMsg, release, hd, if_false, h] at hok ⊢
  generalize relPart s.aa d s.failRelA l.addr.isSome = A at *
  generalize relPart s.pa d s.failRelP l.pfx.isSome = P at *
  unfold finishRelease at hok ⊢
  split at hok
  · rename_i hb
    simp only [Bool.and_eq_true] at hb
    rw [if_pos (by simp [hb.1, hb.2])]
    refine ⟨by simp, ?_, ?_⟩
    · intro a d' ha hh
      have hh' : heldBy A.1 d' = some a := hh
      by_cases e : d' = d
      · subst e
        rw [hAt hb.1 (by simp [ha])] at hh'; simp at hh'
      · rw [heldBy_other hAe e] at hh'
        exact e (heldBy_inj hI.sa hh' (hI.backedA d l a h ha))
    · intro p d' hp hh
      have hh' : heldBy P.1 d' = some p := hh
      by_cases e : d' = d
      · subst e
        rw [hPt hb.2 (by simp [hp])] at hh'; simp at hh'
      · rw [heldBy_other hPe e] at hh'
        exact e (heldBy_inj hI.sp hh' (hI.backedP d l p h hp))
  · simp at hok

/-- **No allocation without a lease** (partial: histories in which no SOLICIT is answered by an Advertise; the
    complement is the recorded finding D8, `D8_integrated_witness`): whatever an allocator holds for a client is
    recorded by that client's lease — so every allocated unit can be released by a RELEASE of its holder, and by the
    theorems above either is, or stays bound. -/
theorem no_allocation_without_lease_partial (c : Cfg) (hc : GoodCfg c) (ops : List Op)
    (hna : ∀ op ∈ ops, noAdvertise op = true) (d : Nat) :
    (∀ a, heldBy (run (init c) ops).aa d = some a → ∃ l, AMap.lookup (run (init c) ops).leases d = some l ∧ l.addr = some a) ∧
    (∀ p, heldBy (run (init c) ops).pa d = some p → ∃ l, AMap.lookup (run (init c) ops).leases d = some l ∧ l.pfx = some p) := by
  have hR := rec_run ops _ (inv_init c hc) (rec_init c) hna
  exact ⟨hR.recA d, hR.recP d⟩

/-! ### concrete histories: non-vacuity, the repaired finding, the recorded finding -/

/-- one address (2001:db8:1::ff/128), no prefix allocator -/
def c1 : Cfg :=
  { hasAddr := true, acfg := { famBits := 128, poolPrefix := 128, plen := 128, base := 0x20010db80001000000000000000000ff },
    hasPfx := false, pcfg := { famBits := 128, poolPrefix := 128, plen := 128, base := 0 }, valid := 300 }

example : GoodCfg c1 := by unfold GoodCfg c1; decide

/-- G7 on the model of the repaired code: with the store refusing the removal, RELEASE is answered UnspecFail and
    the lease stays; once the store works again the same RELEASE frees the address and the next client gets it. -/
theorem G7_release_failure_then_retry :
    let a := 0x20010db80001000000000000000000ff
    let s1 := run (init c1) [.msg (.request 1 .ok [1] []), .fault .relA true]
    let r1 := step s1 (.msg (.release 1))
    let r2 := step (step r1.1 (.fault .relA false)).1 (.msg (.release 1))
    let r3 := step r2.1 (.msg (.request 2 .ok [1] []))
    r1.2 = some { kind := .reply, status := some 1 } ∧ heldBy r1.1.aa 1 = some a ∧
    (AMap.lookup r1.1.leases 1).map (·.addr) = some (some a) ∧
    r2.2 = some { kind := .reply, status := some 0 } ∧ heldBy r2.1.aa 1 = none ∧ AMap.lookup r2.1.leases 1 = none ∧
    r3.2 = some { kind := .reply, nas := [(1, some a)], status := some 0 } := by
  decide

/-- D8 in this mode (recorded finding): a SOLICIT answered by an Advertise allocates from the allocator without
    creating a lease; the client's RELEASE finds no lease, answers Success and frees nothing — the address stays
    allocated to a client without a binding and the next client is refused. -/
theorem D8_integrated_witness :
    let ops := [Op.msg (.solicit 1 false [1] []), .msg (.release 1)]
    let s := run (init c1) ops
    (step (run (init c1) [.msg (.solicit 1 false [1] [])]) (.msg (.release 1))).2 = some { kind := .reply, status := some 0 } ∧
    heldBy s.aa 1 = some 0x20010db80001000000000000000000ff ∧ AMap.lookup s.leases 1 = none ∧
    (step s (.msg (.request 2 .ok [1] []))).2 = some { kind := .reply, nas := [(1, none)], status := some 0 } ∧
    ¬ (∀ op ∈ ops, noAdvertise op = true) := by
  refine ⟨by decide, by decide, by decide, by decide, ?_⟩
  intro h
  have := h (.msg (.solicit 1 false [1] [])) (by simp)
  simp [noAdvertise] at this

/-- non-vacuity of `no_allocation_without_lease_partial`: a history without Advertise that allocates -/
example : (∀ op ∈ [Op.msg (.request 1 .ok [1] []), .msg (.renew 1 [1] [])], noAdvertise op = true) ∧
    heldBy (run (init c1) [.msg (.request 1 .ok [1] []), .msg (.renew 1 [1] [])]).aa 1 = some 0x20010db80001000000000000000000ff := by
  refine ⟨by intro op h; simp at h; rcases h with h | h <;> subst h <;> rfl, by decide⟩

/-- non-vacuity of the release theorems: a lease with an address exists, with the fault switch on / off -/
example : (AMap.lookup (run (init c1) [.msg (.request 1 .ok [1] []), .fault .relA true]).leases 1).map (·.addr) =
      some (some 0x20010db80001000000000000000000ff) ∧
    (run (init c1) [.msg (.request 1 .ok [1] []), .fault .relA true]).failRelA = true := by
  decide

end Bng.Spec.C05Dhcp6Int
