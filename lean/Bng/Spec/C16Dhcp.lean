import Bng.Proof.DhcpTerm
/-
  C16 (DHCPv4 paths) — ending a DHCPv4 session by any path releases everything it held, exactly once.

  Theorems over Bng.DhcpTerm, the model of pkg/dhcp/server.go with everything a session holds (lease, pool binding,
  NAT block, QoS policy, fast-path cache keys by MAC / VLAN pair / circuit-id, RADIUS accounting), for ALL histories
  of DISCOVER / REQUEST (new session, renewal, renewal under another circuit-id, NAK) / RELEASE / DECLINE / clock
  ticks / cleanup passes / cleanup passes with a termination inside their unlock window / two terminations at once /
  shutdown, by any number of clients (`∀ ops : List Op`).  "Every establishment prefix" is the case distinction on the
  state a history leaves a MAC in: a lease (reached by REQUEST with or without DISCOVER, any number of renewals,
  circuit-id changes, expired-but-not-yet-cleaned), a pool binding without a lease (DISCOVER only), or nothing.

  PROVEN / FINDING matrix (path x resource), on the code as it is after ff76ae1 and 35938e6:

                           address   NAT block  QoS policy  cache mac  cache vlan  cache circuit  Acct-Stop      twice / at once
    RELEASE     (lease)    proved    proved     proved      proved     proved (*)  proved         exactly one    identity
    DECLINE     (lease)    proved(q) proved  F  proved  F   proved     proved (*)  proved         exactly one F  identity
    expiry+cleanup (lease) proved    proved  F  proved  F   proved     proved (*)  proved         exactly one F  identity
    cleanup with RELEASE/DECLINE/cleanup in its unlock window   — as the row of whichever ends the session (residue_free_gap)
    two of RELEASE/DECLINE/cleanup at once (split)              — as the row of whichever ends the session (residue_free_split)
    any path, DISCOVER only  KNOWN KF-dhcp4-offer-pinned: the pool binding stays for ever (offer_only_binding_persists);
                             nothing else exists at that prefix, so nothing else can be left
    any path, nothing held   identity (second_termination_identity)
    any termination INSIDE the unlock window of the client's own REQUEST (establishment is not atomic)
                             KNOWN KF-dhcp4-establish-race: NAT block, QoS policy, cache mac + circuit stay for ever, the
                             Accounting-Stop precedes the Start (KF_dhcp4_establish_race_witness, _renewal_witness);
                             residue_free_partial: everything is proved for histories without such a race;
                             KNOWN KF-dhcp4-stale-index-revival: what the stale index entry does to the client's next
                             relayed REQUEST (KF_dhcp4_establish_race_aftereffect_witness)
    shutdown                 KNOWN KF-dhcp4-shutdown-residue: Server.Start only closes the socket; every live session
                             keeps all of its resources and gets no Accounting-Stop (KF_dhcp4_shutdown_witness)
    an install that FAILS    (`Op.fault`: QoS egress / ingress, subscriber_nat, subscriber_pools, circuit_id_map or
                             circuit_id_subscribers has no free slot; handleRequest logs the error and carries on): the
                             session lives with a partial set of entries and every row above holds all the same - the
                             fault ops are operations of `Op`, every theorem quantifies over them (partial_cache_install)
    a removal that FAILS     (`OpX.wfault`: every write through the Loader's handle of a cache map fails)
                             KNOWN KF-cache-delete-ignored: handleRelease logs the error, removeFromFastPathCache and the
                             renewal under another circuit-id do not even look at it - the entry outlives its session
                             and the fast path keeps answering from it (KF_cache_delete_ignored_witness,
                             _renewal_witness); residue_free_partial: everything is proved while no map is write-protected

    F   = was finding D46 (the cell was residue on the unfixed code: D46_decline_witness / D46_expiry_witness), fixed in
          /repo by ff76ae1 (DECLINE) and 35938e6 (expiry): both now call releaseSessionResources like RELEASE
    (q) = after a DECLINE the address is quarantined (pool.unavailable), not free: that is what DECLINE is for
    (*) = no code path of pkg/dhcp sets Lease.STag/CTag: the server never writes vlan_subscriber_pools (kVlan = [] is
          part of the invariant), its removal branch is dead code

  What is NOT covered: circuit-ids shared between MACs (finding D9 of C02), Nexus/HTTP allocator and peer-pool modes,
  several pools, a RADIUS server that does not answer (C08's subject), the order of Start and Stop on the wire (both
  are sent from goroutines of their own), an ESTABLISHMENT racing the TAIL of a termination of the same MAC (the
  converse - a termination inside the establishment's unlock window - is finding KF-dhcp4-establish-race above).
-/
namespace Bng.Spec.C16Dhcp
open Bng Bng.DhcpTerm AMap

/-- the state a history leaves the server in -/
abbrev after (radius : Bool) (lt : Nat) (ops : List Op) : State := run (init radius lt) ops

/-! ### residue_free -/

/-- RELEASE, DECLINE of the held address, or a cleanup pass after the lease ran out: whichever termination ends the
    session of `m` (`endsFlag = some d`), afterwards NOTHING of it is left — no lease, no pool binding, the address on
    the free list (quarantined after DECLINE), no NAT block, no QoS entry, no cache key by MAC / VLAN pair /
    circuit-id, and its accounting session closed with exactly one Stop.  After every history, for every client,
    whatever establishment sequence (renewals, circuit-id changes, …) produced the lease. -/
theorem residue_free (radius : Bool) (lt : Nat) (ops : List Op) (m : Nat) (l : Lease)
    (hl : lookup (after radius lt ops).leases m = some l) (t : Term) (d : Bool)
    (hf : t.endsFlag (after radius lt ops).now m l = some d) :
    Ended (t.run (after radius lt ops)) m l d :=
  term_ends (inv_reachable radius lt ops) hl t hf

/-- RELEASE -/
theorem residue_free_release (radius : Bool) (lt : Nat) (ops : List Op) (m : Nat) (l : Lease)
    (hl : lookup (after radius lt ops).leases m = some l) :
    Ended (release (after radius lt ops) m) m l false :=
  residue_free radius lt ops m l hl (.rel m) false (by simp [Term.endsFlag])

/-- DECLINE of the held address: everything goes, the address is quarantined -/
theorem residue_free_decline (radius : Bool) (lt : Nat) (ops : List Op) (m : Nat) (l : Lease)
    (hl : lookup (after radius lt ops).leases m = some l) :
    Ended (decline (after radius lt ops) m l.ip) m l true :=
  residue_free radius lt ops m l hl (.dec m l.ip) true (by simp [Term.endsFlag])

/-- lease expiry: one cleanup pass after the lease ran out, whatever order it visits the leases in -/
theorem residue_free_expiry (radius : Bool) (lt : Nat) (ops : List Op) (m : Nat) (l : Lease)
    (hl : lookup (after radius lt ops).leases m = some l) (ht : (after radius lt ops).now > l.exp) (order : List Nat) :
    Ended (cleanup (after radius lt ops) order) m l false :=
  residue_free radius lt ops m l hl (.cleanup order) false (by simp [Term.endsFlag, ht])

/-- a cleanup pass with ANY termination handled between its scan and its removal loop (the point where it drops the
    lease lock): an expired session is ended all the same, by whichever of the two gets to it first -/
theorem residue_free_gap (radius : Bool) (lt : Nat) (ops : List Op) (m : Nat) (l : Lease)
    (hl : lookup (after radius lt ops).leases m = some l) (ht : (after radius lt ops).now > l.exp)
    (order : List Nat) (inner : Term) :
    Ended (gap (after radius lt ops) order inner).1 m l ((inner.endsFlag (after radius lt ops).now m l).getD false) :=
  gap_ends (inv_reachable radius lt ops) hl ht order inner

/-- two terminations AT ONCE (the second runs after the first has taken its lease out of the table and dropped the
    lock, before the first one's tail): whichever of them ends the session, nothing of it is left -/
theorem residue_free_split (radius : Bool) (lt : Nat) (ops : List Op) (m : Nat) (l : Lease) (d : Bool)
    (hl : lookup (after radius lt ops).leases m = some l) (first second : Term)
    (h : first.endsFlag (after radius lt ops).now m l = some d ∨
         (first.endsFlag (after radius lt ops).now m l = none ∧ second.endsFlag (after radius lt ops).now m l = some d)) :
    Ended (split (after radius lt ops) first second) m l d :=
  split_ends (inv_reachable radius lt ops) hl first second h

/-- once ended, a session stays ended through every later termination of anybody (nothing of it comes back, its
    accounting record is not touched again) -/
theorem ended_stays_ended (radius : Bool) (lt : Nat) (ops : List Op) (m : Nat) (l : Lease) (d : Bool)
    (hE : Ended (after radius lt ops) m l d) (t : Term) : Ended (t.run (after radius lt ops)) m l d :=
  ended_term (inv_reachable radius lt ops) hE t

/-- the converse direction, as a state invariant over all histories: NOTHING exists that no live lease owns — every
    QoS entry and NAT block is on the address of a lease, every cache key belongs to a lease (circuit-id keys to
    the lease's current circuit-id), the VLAN map is empty -/
theorem no_orphans (radius : Bool) (lt : Nat) (ops : List Op) :
    let s := after radius lt ops
    (∀ a, a ∈ s.qos → ∃ m l, lookup s.leases m = some l ∧ l.ip = a) ∧
    (∀ a, a ∈ s.nat → ∃ m l, lookup s.leases m = some l ∧ l.ip = a) ∧
    (∀ m, m ∈ s.kMac → (lookup s.leases m).isSome) ∧
    (∀ m c, (m, c) ∈ s.kCid ∨ (m, c) ∈ s.kHash → ∃ l, lookup s.leases m = some l ∧ l.cid = some c) ∧
    s.kVlan = [] := by
  intro s
  have hI := inv_reachable radius lt ops
  refine ⟨?_, ?_, ?_, ?_, hI.kVlan⟩
  · intro a h; obtain ⟨m, l, h1, h2⟩ := hI.qos a h; exact ⟨m, l, owner_nil.mp h1, h2⟩
  · intro a h; obtain ⟨m, l, h1, h2⟩ := hI.nat a h; exact ⟨m, l, owner_nil.mp h1, h2⟩
  · intro m h; obtain ⟨l, h1⟩ := hI.kMac m h; rw [owner_nil.mp h1]; rfl
  · intro m c h
    rcases h with h | h
    · obtain ⟨l, h1, h2⟩ := hI.kCid m c h; exact ⟨l, owner_nil.mp h1, h2⟩
    · obtain ⟨l, h1, h2⟩ := hI.kHash m c h; exact ⟨l, owner_nil.mp h1, h2⟩

/-! ### exactly_one_stop_if_started -/

/-- whichever termination ends a session: if a Start was issued for it (a RADIUS client is configured) its accounting
    session now has exactly one Start and exactly one Stop; without a RADIUS client no record exists at all -/
theorem exactly_one_stop_if_started (radius : Bool) (lt : Nat) (ops : List Op) (m : Nat) (l : Lease)
    (hl : lookup (after radius lt ops).leases m = some l) (t : Term) (d : Bool)
    (hf : t.endsFlag (after radius lt ops).now m l = some d) :
    (radius = true → startsOf (t.run (after radius lt ops)).acct l.sess = 1 ∧
                     stopsOf (t.run (after radius lt ops)).acct l.sess = 1) ∧
    (radius = false → (t.run (after radius lt ops)).acct = []) := by
  have hE := (residue_free radius lt ops m l hl t d hf).stop
  have hr : (t.run (after radius lt ops)).radius = radius := by
    rw [term_radius, run_radius]; rfl
  rw [hr] at hE
  constructor
  · intro h; subst h
    simp only [if_true] at hE
    simp [startsOf, stopsOf, hE]
  · intro h; subst h
    simpa using hE

/-- over ALL histories (second terminations, interleavings, re-establishment included): no accounting session ever
    has a second Stop, a Stop without its Start, or a second Start -/
theorem never_two_stops (radius : Bool) (lt : Nat) (ops : List Op) (k : Nat) :
    stopsOf (after radius lt ops).acct k ≤ 1 ∧ startsOf (after radius lt ops).acct k ≤ 1 ∧
    (stopsOf (after radius lt ops).acct k = 1 → startsOf (after radius lt ops).acct k = 1) := by
  have hI := inv_reachable radius lt ops
  unfold stopsOf startsOf
  cases h : lookup (after radius lt ops).acct k with
  | none => simp
  | some r =>
    obtain ⟨_, h2, h3, _⟩ := hI.acctRec k r h
    simp [h2, h3]

/-- … and no session is left open: a session with a Start and no Stop belongs to a lease that is still in the table -/
theorem no_missing_stop (radius : Bool) (lt : Nat) (ops : List Op) (k : Nat) (r : Sess)
    (h : lookup (after radius lt ops).acct k = some r) (h0 : r.stops = 0) :
    ∃ l, lookup (after radius lt ops).leases r.mac = some l ∧ l.sess = k := by
  obtain ⟨_, _, _, h4⟩ := (inv_reachable radius lt ops).acctRec k r h
  obtain ⟨l, h5, h6⟩ := h4 h0
  exact ⟨l, owner_nil.mp h5, h6⟩

/-! ### idempotent -/

/-- a RELEASE or DECLINE from a client that has no lease (its session has already ended by any path, or it never had
    one) changes NOTHING, in any state -/
theorem second_termination_identity (s : State) (m : Nat) (h : lookup s.leases m = none) (ip : Nat) :
    release s m = s ∧ decline s m ip = s :=
  ⟨release_no_lease h, decline_no_lease h ip⟩

/-- ending a session twice: after ANY termination that ended the session of `m`, a second RELEASE or DECLINE (of any
    address) from `m` is the identity on the whole state -/
theorem idempotent (radius : Bool) (lt : Nat) (ops : List Op) (m : Nat) (l : Lease)
    (hl : lookup (after radius lt ops).leases m = some l) (first : Term) (d : Bool)
    (hf : first.endsFlag (after radius lt ops).now m l = some d) (ip : Nat) :
    release (first.run (after radius lt ops)) m = first.run (after radius lt ops) ∧
    decline (first.run (after radius lt ops)) m ip = first.run (after radius lt ops) :=
  second_termination_identity _ m (residue_free radius lt ops m l hl first d hf).noLease ip

/-- a second cleanup pass (same clock, any visiting order) is the identity, in any state -/
theorem idempotent_cleanup (s : State) (o o' : List Nat) : cleanup (cleanup s o) o' = cleanup s o :=
  cleanup_idem s o o'

/-- a cleanup pass when no lease has run out is the identity (in particular after a RELEASE or DECLINE ended the only
    expired session) -/
theorem cleanup_identity_when_nothing_expired (s : State)
    (h : ∀ m l, lookup s.leases m = some l → ¬ s.now > l.exp) (o : List Nat) : cleanup s o = s :=
  cleanup_nothing_expired h o

/-- by two paths at once: a RELEASE (or a DECLINE of the held address) with a second RELEASE or DECLINE from the same
    client inside it - after the first one has dropped the lease lock, before its tail - is exactly one RELEASE
    (exactly one DECLINE): the second one has no effect of its own -/
theorem at_once_is_once (s : State) (m : Nat) (l : Lease) (hl : lookup s.leases m = some l) (second : Term)
    (h2 : second = .rel m ∨ ∃ x, second = .dec m x) :
    split s (.rel m) second = release s m ∧ split s (.dec m l.ip) second = decline s m l.ip := by
  have herase : lookup (({ s with leases := erase s.leases m } : State)).leases m = none := by simp
  have hid : second.run { s with leases := erase s.leases m } = { s with leases := erase s.leases m } := by
    rcases h2 with rfl | ⟨x, rfl⟩
    · exact release_no_lease herase
    · exact decline_no_lease herase x
  constructor
  · simp only [split, takeRelease, hl, hid, release]
  · simp only [split, takeDecline, hl, if_true, hid, decline]

/-! ### the cells that were finding D46 (fixed by ff76ae1 and 35938e6) -/

/-- DECLINE as it was before ff76ae1 (`declinePre`): the lease and the cache entries go, the NAT block and the QoS
    entry of the address stay and the accounting session keeps its Start without a Stop -/
theorem D46_decline_witness :
    let s' := declinePre (after true 300 [.req 1 2 (some 1)]) 1 2
    lookup s'.leases 1 = none ∧ 2 ∈ s'.nat ∧ 2 ∈ s'.qos ∧ startsOf s'.acct 1 = 1 ∧ stopsOf s'.acct 1 = 0 := by
  decide

/-- lease expiry as it was before 35938e6 (`cleanupPre`): the same residue -/
theorem D46_expiry_witness :
    let s' := cleanupPre (after true 300 [.req 1 2 (some 1), .tick 301]) []
    lookup s'.leases 1 = none ∧ 2 ∈ s'.nat ∧ 2 ∈ s'.qos ∧ startsOf s'.acct 1 = 1 ∧ stopsOf s'.acct 1 = 0 := by
  decide

/-! ### known finding KF-dhcp4-offer-pinned (C02), seen from C16: the DISCOVER-only prefix -/

/-- A client that was OFFERed an address and never got a lease holds a pool binding that NO termination by anybody
    ever undoes: its own RELEASE or DECLINE finds no lease and returns, a cleanup pass only looks at leases.  The
    address is not back in the pool after the "session" ended. -/
theorem offer_only_binding_persists (radius : Bool) (lt : Nat) (ops : List Op) (m a : Nat)
    (h : Pinned (after radius lt ops) m a) (t : Term) : Pinned (t.run (after radius lt ops)) m a :=
  pinned_term (inv_reachable radius lt ops) h t

theorem KF_dhcp4_offer_pinned_witness :
    Pinned (after true 300 [.disc 1]) 1 2 ∧
    ∀ t : Term, Pinned (t.run (after true 300 [.disc 1, .term (.rel 1), .term (.dec 1 2), .tick 1000])) 1 2 := by
  constructor
  · exact ⟨by decide, by decide⟩
  · intro t
    exact offer_only_binding_persists true 300 _ 1 2 ⟨by decide, by decide⟩ t

/-- what IS proved about the address at full generality: unless the client is in the offer-only state (the clause
    of KF-dhcp4-offer-pinned), after its RELEASE it holds no pool binding -/
theorem addr_returned_partial (radius : Bool) (lt : Nat) (ops : List Op) (m : Nat)
    (hno : ∀ a, ¬ Pinned (after radius lt ops) m a) :
    lookup (release (after radius lt ops) m).pool.allocated m = none := by
  cases hl : lookup (after radius lt ops).leases m with
  | some l => exact (residue_free_release radius lt ops m l hl).noBinding
  | none =>
    rw [release_no_lease hl]
    cases hb : lookup (after radius lt ops).pool.allocated m with
    | none => rfl
    | some a => exact absurd ⟨hl, hb⟩ (hno a)

/-! ### known finding KF-dhcp4-shutdown-residue -/

/-- Shutdown (Server.Start returning on ctx.Done) closes the socket and touches nothing else: it is the identity on
    every lease, NAT block, QoS entry, cache key and accounting session.  `residue_free` and
    `exactly_one_stop_if_started` are stated for the paths RELEASE / DECLINE / expiry only (`Term`). -/
theorem KF_dhcp4_shutdown_witness :
    (∀ s : State, (step s .shutdown).1 = s) ∧
    (let s' := after true 300 [.req 1 2 (some 1), .shutdown]
     (lookup s'.leases 1).isSome ∧ 2 ∈ s'.nat ∧ 2 ∈ s'.qos ∧ 1 ∈ s'.kMac ∧ (1, 1) ∈ s'.kCid ∧ stopsOf s'.acct 1 = 0) := by
  exact ⟨fun _ => rfl, by decide⟩

/-! ### known finding KF-dhcp4-establish-race: establishment is not atomic

  handleRequest puts the lease into the table, drops the lease lock and only THEN writes the cache entries, installs
  QoS and NAT and sends the Accounting-Start, never looking at the table again; server4 runs one goroutine per packet.
  All theorems above are about histories of `Op`, in which a REQUEST is one step.  `OpX.estGap` is the REQUEST with a
  termination inside that window (the real code is driven there through the hook c2c1600). -/

/-- the split is faithful: begin + finish with nothing in between is the atomic REQUEST of the theorems, in every
    reachable state -/
theorem establishment_split_is_request (radius : Bool) (lt : Nat) (ops : List Op) (mac r : Nat) (cid : Option Nat) :
    match requestBegin (after radius lt ops) mac r cid with
    | (s1, some p) => request (after radius lt ops) mac r cid = (requestFinish s1 mac p, .ack r)
    | (s1, none) => request (after radius lt ops) mac r cid = (after radius lt ops, .nak) ∧ s1 = after radius lt ops :=
  request_split (inv_reachable radius lt ops) mac r cid

/-- histories without a raced establishment and without a write-protected cache map -/
def noRace (ops : List OpX) : Bool := ops.all fun o => match o with
  | .op _ => true
  | .disc _ _ => true
  | .estGap _ _ _ _ => false
  | .wfault _ _ => false

/-- without a raced establishment the real server's operations (`OpX`, which consult the circuit-id index) are the
    operations of the theorems: the index never holds anything the lease table does not -/
theorem noRace_is_atomic (s : State) (hs : s.stale = []) (ops : List OpX) (hn : noRace ops = true) :
    ∃ ops' : List Op, runX s ops = run s ops' := by
  induction ops generalizing s with
  | nil => exact ⟨[], rfl⟩
  | cons o rest ih =>
    have h' : noRace rest = true := by
      cases o <;> simp_all [noRace]
    cases o with
    | op o =>
      have e := (stepX_of_nil hs).1 o
      obtain ⟨ops', he⟩ := ih (stepX s (.op o)).1 (by rw [e, step_stale]; exact hs) h'
      refine ⟨o :: ops', ?_⟩
      show runX (stepX s (.op o)).1 rest = run (step s o).1 ops'
      rw [he, e]
    | disc m cid =>
      have e := (stepX_of_nil hs).2 m cid
      obtain ⟨ops', he⟩ := ih (stepX s (.disc m cid)).1 (by rw [e, step_stale]; exact hs) h'
      refine ⟨.disc m :: ops', ?_⟩
      show runX (stepX s (.disc m cid)).1 rest = run (step s (.disc m)).1 ops'
      rw [he, e]
    | estGap a b c d => simp [noRace] at hn
    | wfault a b => simp [noRace] at hn

/-- what IS proved at full generality: in every history in which no REQUEST is raced by a termination and no cache map
    is write-protected (the negation of the two findings' clauses) the state is one the theorems above speak about - so whichever termination ends a
    session leaves nothing of it and closes its accounting session with exactly one Stop -/
theorem residue_free_partial (radius : Bool) (lt : Nat) (ops : List OpX) (hn : noRace ops = true) (m : Nat) (l : Lease)
    (hl : lookup (runX (init radius lt) ops).leases m = some l) (t : Term) (d : Bool)
    (hf : t.endsFlag (runX (init radius lt) ops).now m l = some d) :
    Ended (t.run (runX (init radius lt) ops)) m l d := by
  obtain ⟨ops', he⟩ := noRace_is_atomic (init radius lt) rfl ops hn
  rw [he] at hl hf ⊢
  exact residue_free radius lt ops' m l hl t d hf

/-- THE DEFECT.  A RELEASE that is handled inside the window of the client's own first REQUEST: it takes the lease,
    finds nothing to remove yet, sends the Accounting-Stop and returns the address to the pool; the REQUEST then
    installs the QoS policy, the NAT block and three cache entries and sends the Accounting-Start - for a lease that
    no longer exists.  Nothing ever removes them (the address is free and will be given to somebody else), and the
    RADIUS server is left with a session whose Stop came before its Start. -/
theorem KF_dhcp4_establish_race_witness :
    let s' := runX (init true 300) [.estGap 1 2 (some 1) (.rel 1)]
    lookup s'.leases 1 = none ∧ lookup s'.pool.allocated 1 = none ∧ 2 ∈ s'.pool.avail ∧
    2 ∈ s'.nat ∧ 2 ∈ s'.qos ∧ 1 ∈ s'.kMac ∧ (1, 1) ∈ s'.kCid ∧ (1, 1) ∈ s'.kHash ∧
    lookup s'.acct 1 = some ⟨1, 1, 1⟩ ∧ 1 ∈ s'.early ∧ (lookup s'.stale (1, 1)).isSome := by
  decide

/-- known finding KF-dhcp4-stale-index-revival: the after-effect of the index entry a raced establishment leaves (the
    slow path trusts `leasesByCircuitID` without looking at the lease table): the client's next relayed REQUEST under that circuit-id is
    taken for a renewal of the dead lease - it gets a lease on an address the pool has on its FREE list, no pool
    binding, no new Accounting-Start, and its RELEASE sends a second Stop for the old session -/
theorem KF_dhcp4_establish_race_aftereffect_witness :
    let s' := runX (init true 300) [.estGap 1 2 (some 1) (.rel 1), .op (.req 1 2 (some 1))]
    let s'' := runX s' [.op (.term (.rel 1))]
    (lookup s'.leases 1).isSome ∧ lookup s'.pool.allocated 1 = none ∧ 2 ∈ s'.pool.avail ∧ s'.nextSess = 2 ∧
    lookup s''.acct 1 = some ⟨1, 1, 2⟩ := by
  decide

/-- the same window in a RENEWAL: the DECLINE ends the session completely, the renewal then writes the cache
    entries again - the fast path keeps answering for an address that is quarantined -/
theorem KF_dhcp4_establish_race_renewal_witness :
    let s' := runX (init true 300) [.op (.req 1 2 (some 1)), .op (.tick 100), .estGap 1 2 (some 2) (.dec 1 2)]
    lookup s'.leases 1 = none ∧ 2 ∈ s'.pool.unavailable ∧ 2 ∉ s'.nat ∧ 2 ∉ s'.qos ∧
    1 ∈ s'.kMac ∧ (1, 2) ∈ s'.kCid ∧ (1, 2) ∈ s'.kHash ∧ lookup s'.acct 1 = some ⟨1, 1, 1⟩ := by
  decide

/-! ### installs and removals that fail -/

/-- An install that fails half-way (C3): with subscriber_pools full the new session is ACKed without its MAC key, with
    circuit_id_map full without its hash key, … - a PARTIAL cache set.  The fault ops are operations of `Op`, so
    `residue_free`, `no_orphans`, `idempotent`, … hold for these histories as for all others; here the instance: the
    RELEASE of such a session leaves nothing, and a renewal once the map has room again completes the set. -/
theorem partial_cache_install :
    (let s := after true 300 [.fault 3 true, .fault 4 true, .req 1 2 (some 1)]
     (lookup s.leases 1).isSome ∧ 1 ∉ s.kMac ∧ (1, 1) ∈ s.kCid ∧ (1, 1) ∉ s.kHash ∧
     (let s' := release s 1
      s'.kMac = [] ∧ s'.kCid = [] ∧ s'.kHash = [] ∧ s'.qos = [] ∧ s'.nat = [] ∧ lookup s'.pool.allocated 1 = none) ∧
     (let s'' := (step (step s (.fault 3 false)).1 (.req 1 2 (some 1))).1
      1 ∈ s''.kMac ∧ (1, 1) ∉ s''.kHash)) ∧
    -- a renewal under another circuit-id while circuit_id_subscribers is full: the Delete of the old entry leaves the
    -- slot the Put of the new one takes
    (let s := after true 300 [.req 1 2 (some 1), .fault 5 true, .req 1 2 (some 2)]
     s.kCid = [(1, 2)] ∧ s.kHash = [(1, 2)]) := by
  decide

/-- known finding KF-cache-delete-ignored.  THE DEFECT: while the Loader's handle of a cache map is write-protected
    every Delete fails; handleRelease only logs that, removeFromFastPathCache (DECLINE, expiry) and the renewal that
    drops the old circuit-id's entries do not look at the result.  The session ends - lease gone, address free, QoS /
    NAT removed, Accounting-Stop sent - and its subscriber_pools and circuit_id_subscribers entries stay: the fast
    path keeps answering that client from them.  Nothing removes them later: not the map becoming writable again,
    not a cleanup pass, not a second RELEASE or DECLINE of the client (it has no lease any more). -/
theorem KF_cache_delete_ignored_witness :
    let s' := runX (init true 300) [.op (.req 1 2 (some 1)), .wfault 3 true, .wfault 5 true, .op (.term (.rel 1))]
    let s'' := runX s' [.wfault 3 false, .wfault 5 false, .op (.tick 1000), .op (.term (.cleanup [])),
                        .op (.term (.rel 1)), .op (.term (.dec 1 2))]
    lookup s'.leases 1 = none ∧ lookup s'.pool.allocated 1 = none ∧ 2 ∈ s'.pool.avail ∧ s'.qos = [] ∧ s'.nat = [] ∧
    lookup s'.acct 1 = some ⟨1, 1, 1⟩ ∧
    1 ∈ s'.kMac ∧ (1, 1) ∈ s'.kCid ∧ (1, 1) ∉ s'.kHash ∧
    1 ∈ s''.kMac ∧ (1, 1) ∈ s''.kCid := by
  decide

/-- the same in a renewal under another circuit-id (the old circuit-id's entries are never looked at again), and by
    DECLINE and expiry -/
theorem KF_cache_delete_ignored_renewal_witness :
    (let s' := runX (init true 300) [.op (.req 1 2 (some 1)), .wfault 4 true, .op (.req 1 2 (some 2)), .wfault 4 false,
                                     .op (.term (.rel 1))]
     lookup s'.leases 1 = none ∧ s'.kMac = [] ∧ s'.kCid = [] ∧ s'.kHash = [(1, 1)]) ∧
    (let s' := runX (init true 300) [.op (.req 1 2 none), .wfault 3 true, .op (.term (.dec 1 2))]
     lookup s'.leases 1 = none ∧ 2 ∈ s'.pool.unavailable ∧ 1 ∈ s'.kMac) ∧
    (let s' := runX (init true 300) [.op (.req 1 2 none), .wfault 3 true, .op (.tick 301), .op (.term (.cleanup []))]
     lookup s'.leases 1 = none ∧ 2 ∈ s'.pool.avail ∧ 1 ∈ s'.kMac) := by
  decide

/-- write-protecting a map and lifting the protection again while nothing is written is the identity: the fault op has
    no effect of its own -/
theorem wfault_alone_is_identity (radius : Bool) (lt : Nat) (ops : List Op) (w : Nat) :
    runX (run (init radius lt) ops) [.wfault w true, .wfault w false] = run (init radius lt) ops := by
  have hI := inv_reachable radius lt ops
  have hst : (run (init radius lt) ops).stale = [] := by
    have : ∀ (ops : List Op) (s : State), s.stale = [] → (run s ops).stale = [] := by
      intro ops
      induction ops with
      | nil => intro s h; exact h
      | cons o rest ih => intro s h; exact ih _ ((step_stale s o).trans h)
    exact this ops _ rfl
  generalize run (init radius lt) ops = s at hI hst
  have h1 : fixStale (setRo s w true) = setRo s w true := fixStale_nil hst
  have h2 : fixStale (setRo (setRo s w true) w false) = setRo (setRo s w true) w false := fixStale_nil hst
  simp only [runX, List.foldl, stepX, h1, h2]
  have hro := hI.ro
  cases s
  simp only [setRo] at hro ⊢
  subst hro
  simp [rm, ins]

/-! ### non-vacuity: the hypotheses are reachable -/

/-- a lease reached through DISCOVER, REQUEST, a renewal and a renewal under another circuit-id -/
example : ∃ l, lookup (after true 300 [.disc 1, .req 1 2 (some 1), .tick 100, .req 1 2 none, .req 1 2 (some 2)]).leases 1 = some l ∧
    l.cid = some 2 ∧ l.sess = 1 := ⟨⟨2, 400, some 2, 1⟩, by decide, by decide, by decide⟩

/-- … that has run out -/
example : ∃ l, lookup (after true 300 [.req 1 3 none, .tick 301]).leases 1 = some l ∧
    (after true 300 [.req 1 3 none, .tick 301]).now > l.exp := ⟨⟨3, 300, none, 1⟩, by decide, by decide⟩

/-- each termination kind ends a session / leaves it alone -/
example : (Term.rel 1).endsFlag 0 1 ⟨2, 300, none, 1⟩ = some false ∧ (Term.dec 1 2).endsFlag 0 1 ⟨2, 300, none, 1⟩ = some true ∧
    (Term.dec 1 5).endsFlag 0 1 ⟨2, 300, none, 1⟩ = none ∧ (Term.cleanup []).endsFlag 301 1 ⟨2, 300, none, 1⟩ = some false ∧
    (Term.cleanup []).endsFlag 300 1 ⟨2, 300, none, 1⟩ = none := by decide

/-- the whole life of two sessions of one client: after the second RELEASE both accounting sessions are closed -/
example : (after true 300 [.disc 1, .req 1 2 (some 1), .term (.dec 1 2), .req 1 3 none, .tick 301, .gap [] (.rel 1),
    .term (.rel 1), .term (.cleanup [])]).acct = [(2, ⟨1, 1, 1⟩), (1, ⟨1, 1, 1⟩)] := by decide

end Bng.Spec.C16Dhcp
