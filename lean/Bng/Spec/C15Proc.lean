import Bng.Proof.CoaProc
import Bng.Spec.C15
/-
  C15 — the session-changing handlers behind the CoA/Disconnect listener (pkg/radius/coa_handler.go).

  Property statements only.  The model (`Bng/Model/CoaProc.lean`) is `CoAProcessor.HandleCoA` / `HandleDisconnect`
  (`findSession`, `findSessionFromDisconnect`, `buildPolicyUpdate`, `applyPolicyUpdate`, `terminateSession`) installed as
  the handlers of the listener of `Spec.C15` (`Bng/Model/Coa.lean`); `CoaProc.step` is what ONE datagram does:
  `receive` ∘ `parseFields` ∘ `process` ∘ `respond`.  The processor's callbacks are a session table (`State.tbl`) with
  three fault switches; a callback that is not configured (`State.cfg`) is nil in the code and is skipped by it.

  The statements quantify over ALL datagrams, ALL states (tables, fault settings, callback configurations, secrets)
  and EVERY hash function `H` with 16-byte digests.  The `handler_…` theorems quantify over ALL requests a handler can
  be called with (a superset of what the listener's parser produces: QoS rates, and an Acct-Session-Id that differs
  from the Session-Id, exist only there).
-/
namespace Bng.Spec.C15Proc
open Bng Bng.Go Bng.Coa Bng.CoaProc

/-- the listener accepts datagram `buf` as a request of kind `k` whose attributes parse to the fields `f` -/
def ParsedAs (H : Bytes → Bytes) (secret buf : Bytes) (k : Kind) (f : Fields) : Prop :=
  ∃ req n, receive H secret buf = .ok (some req, n) ∧ req.kind = k ∧ parseFields k req.attrs {} = .ok f

/-- the identifying attributes of a parsed request in the code's order of precedence: Acct-Session-Id, Framed-IP-Address,
    Calling-Station-Id (each only when non-empty / 4 bytes long and when the respective lookup is configured) -/
def keysOf (cfg : Cfg) : Kind → Fields → List Key
  | .coa, f => coaKeys cfg (coaReqOf f)
  | .dm, f => dmKeys cfg (dmReqOf f)

/-- the `PolicyUpdate` a CoA request asks for: Filter-Id, rates in bit/s, timeouts as durations -/
def requested (r : CoaReq) : Update :=
  { filter := r.filterID, down := r.qosDown * 1000, up := r.qosUp * 1000,
    sessT := r.sessionTimeout * 1000000000, idleT := r.idleTimeout * 1000000000 }

/-- some change is requested -/
def changeRequested (r : CoaReq) : Prop :=
  r.filterID ≠ [] ∨ r.qosDown > 0 ∨ r.qosUp > 0 ∨ r.sessionTimeout > 0 ∨ r.idleTimeout > 0

/-- what an acknowledged CoA request `r` that identified session `s` makes of the table entry `x` of that session:
    the policy updater (when configured) records exactly the requested fields, and the eBPF updater (when
    configured, a rate is requested, and it does not fail) is given the new rates -/
def afterCoa (st : State) (s : Sess) (r : CoaReq) (x : Sess) : Sess :=
  let y := if st.cfg.hasPol then x.withUpdate (requested r) else x
  if st.cfg.hasEbpf = true ∧ (r.qosDown > 0 ∨ r.qosUp > 0) ∧ st.failEbpf = false then
    { y with eDown := if r.qosDown = 0 then s.down else r.qosDown * 1000,
             eUp := if r.qosUp = 0 then s.up else r.qosUp * 1000 }
  else y

/-! ## one datagram at the listener -/

/-- A datagram that is not authentic (`Coa.authentic`, the predicate of `Spec.C15.acted_iff_authentic`) has no
    effect whatever: no callback of the processor is invoked (no lookup, no terminator, no updater), the session
    table and the fault state are unchanged, nothing is sent, and the listener does not panic. -/
theorem unauthentic_no_effect (H : Bytes → Bytes) (hH : ∀ x, (H x).length = 16) (st : State) (buf : Bytes)
    (h : authentic H st.secret buf = false) : step H st buf = .ok (st, none) :=
  step_unauthentic H hH st buf h

/-- An authentic datagram gets exactly one response (the step returns one datagram, never panics), and that response
    verifies against the request: it carries the request's identifier, the ACK or NAK code of the request's kind,
    a Response Authenticator H(code ‖ id ‖ length ‖ RequestAuth ‖ attributes ‖ secret), a length field equal to its
    size and a well-formed attribute area — whatever the table, the faults and the Reply-Message text are. -/
theorem authentic_one_response (H : Bytes → Bytes) (hH : ∀ x, (H x).length = 16) (st : State) (buf : Bytes)
    (h : authentic H st.secret buf = true) :
    ∃ st' resp calls, step H st buf = .ok (st', some (resp, calls)) ∧
      resp[1]? = buf[1]? ∧
      (buf.head? = some 43 ∧ (resp[0]? = some 44 ∨ resp[0]? = some 45) ∨
       buf.head? = some 40 ∧ (resp[0]? = some 41 ∨ resp[0]? = some 42)) ∧
      (resp.take 20).drop 4 = H (resp.take 4 ++ (buf.take 20).drop 4 ++ resp.drop 20 ++ st.secret) ∧
      lengthField resp = resp.length ∧ attrsWF_strict (resp.drop 20) = true := by
  obtain ⟨req, n, f, hr, _, hs⟩ := step_authentic H hH st buf h
  obtain ⟨h1, h0, hk, ha, hl, hw⟩ := Spec.C15.response_verifies H hH st.secret buf req n hr
    (process st req.kind f).2.1 _ rfl
  refine ⟨_, _, _, hs, h1, ?_, ha, hl, hw⟩
  generalize (process st req.kind f).2.1.success = b at h0
  rcases hk with ⟨hk, hb⟩ | ⟨hk, hb⟩
  · refine Or.inl ⟨hb, ?_⟩
    rw [h0, hk]
    cases b
    · exact Or.inr rfl
    · exact Or.inl rfl
  · refine Or.inr ⟨hb, ?_⟩
    rw [h0, hk]
    cases b
    · exact Or.inr rfl
    · exact Or.inl rfl

/-- A callback is invoked or a response is sent IF AND ONLY IF the datagram is authentic. -/
theorem effect_iff_authentic (H : Bytes → Bytes) (hH : ∀ x, (H x).length = 16) (st : State) (buf : Bytes) :
    (∃ st' o, step H st buf = .ok (st', some o)) ↔ authentic H st.secret buf = true := by
  constructor
  · rintro ⟨st', o, hs⟩
    cases ha : authentic H st.secret buf with
    | true => rfl
    | false =>
      rw [step_unauthentic H hH st buf ha] at hs
      injection hs with hs; injection hs with _ h2; cases h2
  · intro h
    obtain ⟨st', resp, calls, hs, _⟩ := authentic_one_response H hH st buf h
    exact ⟨st', (resp, calls), hs⟩

/-! ## Disconnect -/

/-- `HandleDisconnect`, for EVERY request and state.  The answer is an ACK if and only if the request identifies a
    session (`Identified`: some identifying attribute — Session-Id, then Acct-Session-Id, then Framed-IP, then
    Calling-Station-Id — names a session of the table, and no attribute of higher precedence names any) and the
    terminator, if one is configured, succeeded.  After an ACK the state is the state before with exactly the
    identified session's id taken out of the table (nothing, if no terminator is configured: the code then
    acknowledges without doing anything); after a NAK the state is unchanged, and the Error-Cause is 503 when no
    session is identified and 504 when the terminator failed. -/
theorem handler_disconnect_ack_iff_terminated (st : State) (r : DmReq) :
    ((processDm st r).2.1.success = true ↔
      ∃ s, Identified st.tbl (dmKeys st.cfg r) s ∧ (st.cfg.hasTerm = true → st.failTerm = false)) ∧
    ((processDm st r).2.1.success = true → ∀ s, Identified st.tbl (dmKeys st.cfg r) s →
      (processDm st r).1 = { st with tbl := if st.cfg.hasTerm then removeSid st.tbl s.sid else st.tbl } ∧
      (processDm st r).2.1.errorCause = 0) ∧
    ((processDm st r).2.1.success = false → (processDm st r).1 = st ∧
      ((∃ s, Identified st.tbl (dmKeys st.cfg r) s) → (processDm st r).2.1.errorCause = 504) ∧
      ((¬ ∃ s, Identified st.tbl (dmKeys st.cfg r) s) → (processDm st r).2.1.errorCause = 503)) := by
  cases hi : identify st.tbl (dmKeys st.cfg r) with
  | none =>
    have hno : ¬ ∃ s, Identified st.tbl (dmKeys st.cfg r) s := by
      rintro ⟨s, hs⟩
      rw [(identify_some_iff _ _ _).mpr hs] at hi; cases hi
    rw [processDm_none st r hi]
    refine ⟨⟨(fun h => by cases h), fun ⟨s, hs, _⟩ => absurd ⟨s, hs⟩ hno⟩, (fun h => by cases h), fun _ => ⟨rfl, fun h => absurd h hno, fun _ => rfl⟩⟩
  | some s =>
    have hs : Identified st.tbl (dmKeys st.cfg r) s := (identify_some_iff _ _ _).mp hi
    rw [processDm_some st r s hi]
    by_cases hc : st.cfg.hasTerm = true ∧ st.failTerm = true
    · rw [if_pos hc]
      refine ⟨⟨(fun h => by cases h), fun ⟨_, _, h⟩ => ?_⟩, (fun h => by cases h), fun _ => ⟨rfl, fun _ => rfl, fun h => absurd ⟨s, hs⟩ h⟩⟩
      have := h hc.1
      rw [hc.2] at this; cases this
    · rw [if_neg hc]
      refine ⟨⟨fun _ => ⟨s, hs, fun ht => ?_⟩, fun _ => rfl⟩, fun _ s' hs' => ?_, (fun h => by cases h)⟩
      · cases hf : st.failTerm with
        | false => rfl
        | true => exact absurd ⟨ht, hf⟩ hc
      · rw [Identified.unique hs' hs]
        exact ⟨rfl, rfl⟩

/-- With unique session ids (an invariant of every history, `unique_sids_invariant`) an acknowledged Disconnect
    with a terminator configured leaves the table MINUS EXACTLY THE IDENTIFIED SESSION: every other session is
    still there, that one is gone, nothing is added. -/
theorem disconnect_removes_exactly_the_identified_session (st : State) (r : DmReq) (s : Sess)
    (hu : UniqueSids st.tbl) (hid : Identified st.tbl (dmKeys st.cfg r) s)
    (hack : (processDm st r).2.1.success = true) (ht : st.cfg.hasTerm = true) :
    ∀ x, x ∈ (processDm st r).1.tbl ↔ x ∈ st.tbl ∧ x ≠ s := by
  intro x
  rw [((handler_disconnect_ack_iff_terminated st r).2.1 hack s hid).1]
  simp only [ht, if_true]
  exact mem_removeSid hu hid.mem x

/-- Session ids stay unique in the table along every history of operations (sessions added by the harness,
    faults switched, datagrams of any content, direct handler calls) from a freshly configured processor. -/
theorem unique_sids_invariant (H : Bytes → Bytes) (secret : Bytes) (cfg : Cfg) (ops : List Op) :
    UniqueSids (run H (init secret cfg) ops).tbl :=
  unique_run H ops _ List.nodup_nil

/-- On the wire: for a Disconnect-Request (code 40) the listener acted on, the response is a Disconnect-ACK (41)
    if and only if the request the listener parsed identifies a session and the terminator (if configured)
    succeeded; then the state afterwards is the state before minus exactly that session id; a Disconnect-NAK (42)
    leaves the state unchanged. -/
theorem disconnect_ack_iff_terminated (H : Bytes → Bytes) (hH : ∀ x, (H x).length = 16) (st : State) (buf : Bytes)
    (st' : State) (resp : Bytes) (calls : List Call) (hd : buf.head? = some 40)
    (hstep : step H st buf = .ok (st', some (resp, calls))) :
    ∃ f, ParsedAs H st.secret buf .dm f ∧ (resp[0]? = some 41 ∨ resp[0]? = some 42) ∧
      (resp[0]? = some 41 ↔
        ∃ s, Identified st.tbl (keysOf st.cfg .dm f) s ∧ (st.cfg.hasTerm = true → st.failTerm = false)) ∧
      (resp[0]? = some 41 → ∀ s, Identified st.tbl (keysOf st.cfg .dm f) s →
        st' = { st with tbl := if st.cfg.hasTerm then removeSid st.tbl s.sid else st.tbl }) ∧
      (resp[0]? = some 42 → st' = st) := by
  rcases step_inv H st buf st' _ hstep with ⟨h, _⟩ | ⟨req, n, f, hr, hf, hst, ho⟩
  · cases h
  · have hk : req.kind = .dm := by
      obtain ⟨r, m, e, _, _, hreq⟩ := receive_spec H hH st.secret buf
      rw [e] at hr
      injection hr with hr; injection hr with hr _
      rcases (hreq req hr).2.2 with ⟨_, hb⟩ | ⟨hk, _⟩
      · rw [hd] at hb; cases hb
      · exact hk
    injection ho with ho; injection ho with h1 h2
    rw [hk] at hf hst h1
    have hp : process st .dm f = processDm st (dmReqOf f) := rfl
    rw [hp] at hst h1
    have h0 : resp[0]? = some (respCode .dm (processDm st (dmReqOf f)).2.1.success) := by
      rw [h1, respond_head, hk]
    obtain ⟨a1, a2, a3⟩ := handler_disconnect_ack_iff_terminated st (dmReqOf f)
    refine ⟨f, ⟨req, n, hr, hk, hf⟩, ?_⟩
    show _ ∧ (_ ↔ ∃ s, Identified st.tbl (dmKeys st.cfg (dmReqOf f)) s ∧ _) ∧
      (_ → ∀ s, Identified st.tbl (dmKeys st.cfg (dmReqOf f)) s → _) ∧ _
    rw [h0, hst]
    cases hsucc : (processDm st (dmReqOf f)).2.1.success with
    | true =>
      refine ⟨Or.inl rfl, ⟨fun _ => a1.mp hsucc, fun _ => rfl⟩, fun _ s hs => (a2 hsucc s hs).1, fun h => ?_⟩
      injection h with h; cases h
    | false =>
      refine ⟨Or.inr rfl, ⟨fun h => ?_, fun h => ?_⟩, fun h => ?_, fun _ => (a3 hsucc).1⟩
      · injection h with h; cases h
      · rw [a1.mpr h] at hsucc; cases hsucc
      · injection h with h; cases h

/-! ## Change of Authorization -/

/-- `buildPolicyUpdate` hands over exactly the requested update, and does so iff some change is requested. -/
theorem update_is_the_requested_one (r : CoaReq) :
    (changeRequested r → buildPolicyUpdate r = some (requested r)) ∧
    (¬ changeRequested r → buildPolicyUpdate r = none) := by
  unfold buildPolicyUpdate changeRequested requested
  constructor
  · intro h; rw [if_pos h]
  · intro h; rw [if_neg h]

/-- `HandleCoA`, for EVERY request and state.  The answer is an ACK if and only if the request identifies a session
    (`Identified`: Session-Id, then Framed-IP, then Calling-Station-Id), some change is requested, and the policy
    updater, if one is configured, succeeded.  After an ACK the table is the table before with the identified
    session's entry (and no other) replaced by `afterCoa`: exactly the requested fields recorded, and the requested
    rates pushed to the eBPF updater.  After a NAK the state is unchanged — no session attribute changed — and the
    Error-Cause is 503 (no session identified), 402 (no change requested) or 506 (policy updater failed). -/
theorem handler_coa_ack_iff_applied (st : State) (r : CoaReq) :
    ((processCoa st r).2.1.success = true ↔
      ∃ s, Identified st.tbl (coaKeys st.cfg r) s ∧ changeRequested r ∧ (st.cfg.hasPol = true → st.failPol = false)) ∧
    ((processCoa st r).2.1.success = true → ∀ s, Identified st.tbl (coaKeys st.cfg r) s →
      (processCoa st r).1 = { st with tbl := st.tbl.map fun x => if x.sid = s.sid then afterCoa st s r x else x } ∧
      (processCoa st r).2.1.errorCause = 0) ∧
    ((processCoa st r).2.1.success = false → (processCoa st r).1 = st ∧
      ((¬ ∃ s, Identified st.tbl (coaKeys st.cfg r) s) → (processCoa st r).2.1.errorCause = 503) ∧
      ((∃ s, Identified st.tbl (coaKeys st.cfg r) s) → ¬ changeRequested r → (processCoa st r).2.1.errorCause = 402) ∧
      ((∃ s, Identified st.tbl (coaKeys st.cfg r) s) → changeRequested r → (processCoa st r).2.1.errorCause = 506)) := by
  cases hi : identify st.tbl (coaKeys st.cfg r) with
  | none =>
    have hno : ¬ ∃ s, Identified st.tbl (coaKeys st.cfg r) s := by
      rintro ⟨s, hs⟩
      rw [(identify_some_iff _ _ _).mpr hs] at hi; cases hi
    rw [processCoa_none st r hi]
    refine ⟨⟨(fun h => by cases h), fun ⟨s, hs, _⟩ => absurd ⟨s, hs⟩ hno⟩, (fun h => by cases h),
      fun _ => ⟨rfl, fun _ => rfl, fun h => absurd h hno, fun h => absurd h hno⟩⟩
  | some s =>
    have hs : Identified st.tbl (coaKeys st.cfg r) s := (identify_some_iff _ _ _).mp hi
    by_cases hch : changeRequested r
    · have hu := (update_is_the_requested_one r).1 hch
      rw [processCoa_change st r s _ hi hu]
      by_cases hc : st.cfg.hasPol = true ∧ st.failPol = true
      · rw [if_pos hc]
        refine ⟨⟨(fun h => by cases h), fun ⟨_, _, _, h⟩ => ?_⟩, (fun h => by cases h),
          fun _ => ⟨rfl, fun h => absurd ⟨s, hs⟩ h, fun _ h => absurd hch h, fun _ _ => rfl⟩⟩
        have := h hc.1
        rw [hc.2] at this; cases this
      · rw [if_neg hc]
        refine ⟨⟨fun _ => ⟨s, hs, hch, fun ht => ?_⟩, fun _ => rfl⟩, fun _ s' hs' => ?_, (fun h => by cases h)⟩
        · cases hf : st.failPol with
          | false => rfl
          | true => exact absurd ⟨ht, hf⟩ hc
        · rw [Identified.unique hs' hs]
          refine ⟨?_, rfl⟩
          show ({ st with tbl := appliedTbl st s (requested r) } : State) = _
          congr 1
          unfold appliedTbl afterCoa
          have hd : ((requested r).down > 0 ∨ (requested r).up > 0) ↔ (r.qosDown > 0 ∨ r.qosUp > 0) := by
            unfold requested; simp only []; omega
          have hr1 : (ebpfRates s (requested r)).1 = if r.qosDown = 0 then s.down else r.qosDown * 1000 := by
            unfold ebpfRates requested; simp only []
            by_cases hq : r.qosDown = 0
            · simp [hq]
            · rw [if_neg hq, if_neg (by omega)]
          have hr2 : (ebpfRates s (requested r)).2 = if r.qosUp = 0 then s.up else r.qosUp * 1000 := by
            unfold ebpfRates requested; simp only []
            by_cases hq : r.qosUp = 0
            · simp [hq]
            · rw [if_neg hq, if_neg (by omega)]
          rw [hr1, hr2]
          simp only [hd]
          cases hp : st.cfg.hasPol
          · simp only [Bool.false_eq_true, if_false]
            split
            · unfold modifySid
              apply List.map_congr_left
              intro x _
              rfl
            · conv => lhs; rw [← List.map_id st.tbl]
              apply List.map_congr_left
              intro x _
              split <;> rfl
          · simp only [if_true]
            split
            · rw [modifySid_modifySid st.tbl s.sid (fun x => x.withUpdate (requested r)) _ (fun x => rfl)]
              rfl
            · rfl
    · have hu := (update_is_the_requested_one r).2 hch
      rw [processCoa_nochange st r s hi hu]
      refine ⟨⟨(fun h => by cases h), fun ⟨_, _, h, _⟩ => absurd h hch⟩, (fun h => by cases h),
        fun _ => ⟨rfl, fun h => absurd ⟨s, hs⟩ h, fun _ _ => rfl, fun _ h => absurd h hch⟩⟩

/-- The update handed to the policy updater is exactly the requested one (Filter-Id as sent, rates × 1000, timeouts
    in seconds as durations), and the eBPF updater is called only with the requested rates (the identified session's
    current rate where the request names none) — for every request and state, whether or not the callbacks succeed. -/
theorem callbacks_get_the_requested_update (st : State) (r : CoaReq) (s : Sess)
    (hid : Identified st.tbl (coaKeys st.cfg r) s) :
    (∀ sid u ok, Call.pol sid u ok ∈ (processCoa st r).2.2 → u = requested r) ∧
    (∀ sid d up ok, Call.ebpf sid d up ok ∈ (processCoa st r).2.2 →
      d = (if r.qosDown = 0 then s.down else r.qosDown * 1000) ∧ up = (if r.qosUp = 0 then s.up else r.qosUp * 1000)) := by
  have hi := (identify_some_iff _ _ _).mpr hid
  have hlook : ∀ c ∈ (runKeys st.tbl (coaKeys st.cfg r)).2, c.target = none := runKeys_calls _ _
  have hr1 : (ebpfRates s (requested r)).1 = if r.qosDown = 0 then s.down else r.qosDown * 1000 := by
    unfold ebpfRates requested; simp only []
    by_cases hq : r.qosDown = 0
    · simp [hq]
    · rw [if_neg hq, if_neg (by omega)]
  have hr2 : (ebpfRates s (requested r)).2 = if r.qosUp = 0 then s.up else r.qosUp * 1000 := by
    unfold ebpfRates requested; simp only []
    by_cases hq : r.qosUp = 0
    · simp [hq]
    · rw [if_neg hq, if_neg (by omega)]
  by_cases hch : changeRequested r
  · have hu := (update_is_the_requested_one r).1 hch
    rw [processCoa_change st r s _ hi hu]
    constructor
    · intro sid u ok hc
      split at hc
      · simp only [List.mem_append, List.mem_cons, List.not_mem_nil, or_false] at hc
        rcases hc with hc | hc
        · have := hlook _ hc; cases this
        · cases hc; rfl
      · unfold appliedCalls at hc
        simp only [List.mem_append] at hc
        rcases hc with hc | hc | hc
        · have := hlook _ hc; cases this
        · split at hc
          · simp only [List.mem_cons, List.not_mem_nil, or_false] at hc
            cases hc; rfl
          · cases hc
        · split at hc
          · simp only [List.mem_cons, List.not_mem_nil, or_false] at hc
            cases hc
          · cases hc
    · intro sid d up ok hc
      split at hc
      · simp only [List.mem_append, List.mem_cons, List.not_mem_nil, or_false] at hc
        rcases hc with hc | hc
        · have := hlook _ hc; cases this
        · cases hc
      · unfold appliedCalls at hc
        simp only [List.mem_append] at hc
        rcases hc with hc | hc | hc
        · have := hlook _ hc; cases this
        · split at hc
          · simp only [List.mem_cons, List.not_mem_nil, or_false] at hc
            cases hc
          · cases hc
        · split at hc
          · simp only [List.mem_cons, List.not_mem_nil, or_false] at hc
            injection hc with _ h2 h3 _
            rw [h2, h3, hr1, hr2]
            exact ⟨rfl, rfl⟩
          · cases hc
  · have hu := (update_is_the_requested_one r).2 hch
    rw [processCoa_nochange st r s hi hu]
    constructor
    · intro sid u ok hc
      have := hlook _ hc; cases this
    · intro sid d up ok hc
      have := hlook _ hc; cases this

/-- An acknowledged CoA touches no other session: every table entry with a different session id is still there,
    unchanged, at its place (the table after is a position-wise image of the table before). -/
theorem coa_ack_leaves_other_sessions (st : State) (r : CoaReq) (s : Sess)
    (hid : Identified st.tbl (coaKeys st.cfg r) s) (hack : (processCoa st r).2.1.success = true) :
    (processCoa st r).1.tbl.length = st.tbl.length ∧
    ∀ i (h : i < st.tbl.length), st.tbl[i].sid ≠ s.sid → (processCoa st r).1.tbl[i]? = some st.tbl[i] := by
  rw [((handler_coa_ack_iff_applied st r).2.1 hack s hid).1]
  refine ⟨by simp, fun i h hne => ?_⟩
  simp only [List.getElem?_map, List.getElem?_eq_getElem h, Option.map_some, if_neg hne]

/-- On the wire: for a CoA-Request (code 43) the listener acted on, the response is a CoA-ACK (44) if and only if the
    request the listener parsed identifies a session, requests some change (a non-empty Filter-Id, a non-zero
    Session-Timeout or Idle-Timeout; the listener's parser never produces QoS rates) and the policy updater (if
    configured) succeeded; then the identified session's entry — and no other — is replaced by `afterCoa`; a
    CoA-NAK (45) leaves the state unchanged. -/
theorem coa_ack_iff_applied (H : Bytes → Bytes) (hH : ∀ x, (H x).length = 16) (st : State) (buf : Bytes)
    (st' : State) (resp : Bytes) (calls : List Call) (hd : buf.head? = some 43)
    (hstep : step H st buf = .ok (st', some (resp, calls))) :
    ∃ f, ParsedAs H st.secret buf .coa f ∧ (resp[0]? = some 44 ∨ resp[0]? = some 45) ∧
      (resp[0]? = some 44 ↔
        ∃ s, Identified st.tbl (keysOf st.cfg .coa f) s ∧ changeRequested (coaReqOf f) ∧
          (st.cfg.hasPol = true → st.failPol = false)) ∧
      (resp[0]? = some 44 → ∀ s, Identified st.tbl (keysOf st.cfg .coa f) s →
        st' = { st with tbl := st.tbl.map fun x => if x.sid = s.sid then afterCoa st s (coaReqOf f) x else x }) ∧
      (resp[0]? = some 45 → st' = st) := by
  rcases step_inv H st buf st' _ hstep with ⟨h, _⟩ | ⟨req, n, f, hr, hf, hst, ho⟩
  · cases h
  · have hk : req.kind = .coa := by
      obtain ⟨r, m, e, _, _, hreq⟩ := receive_spec H hH st.secret buf
      rw [e] at hr
      injection hr with hr; injection hr with hr _
      rcases (hreq req hr).2.2 with ⟨hk, _⟩ | ⟨_, hb⟩
      · exact hk
      · rw [hd] at hb; cases hb
    injection ho with ho; injection ho with h1 h2
    rw [hk] at hf hst h1
    have hp : process st .coa f = processCoa st (coaReqOf f) := rfl
    rw [hp] at hst h1
    have h0 : resp[0]? = some (respCode .coa (processCoa st (coaReqOf f)).2.1.success) := by
      rw [h1, respond_head, hk]
    obtain ⟨a1, a2, a3⟩ := handler_coa_ack_iff_applied st (coaReqOf f)
    refine ⟨f, ⟨req, n, hr, hk, hf⟩, ?_⟩
    show _ ∧ (_ ↔ ∃ s, Identified st.tbl (coaKeys st.cfg (coaReqOf f)) s ∧ _) ∧
      (_ → ∀ s, Identified st.tbl (coaKeys st.cfg (coaReqOf f)) s → _) ∧ _
    rw [h0, hst]
    cases hsucc : (processCoa st (coaReqOf f)).2.1.success with
    | true =>
      refine ⟨Or.inl rfl, ⟨fun _ => a1.mp hsucc, fun _ => rfl⟩, fun _ s hs => (a2 hsucc s hs).1, fun h => ?_⟩
      injection h with h; cases h
    | false =>
      refine ⟨Or.inr rfl, ⟨fun h => ?_, fun h => ?_⟩, fun h => ?_, fun _ => (a3 hsucc).1⟩
      · injection h with h; cases h
      · rw [a1.mpr h] at hsucc; cases hsucc
      · injection h with h; cases h

/-! ## who is acted on -/

/-- Whatever session a session-changing callback (terminator, policy updater, eBPF updater) is invoked for by
    `HandleDisconnect` / `HandleCoA` is THE session the request identifies: it is named by one of the request's
    identifying attributes, and no attribute of higher precedence names any session.  (The lookups that find
    nothing on the way are not session-changing.) -/
theorem handler_target_identified_by_request (st : State) :
    (∀ (r : DmReq), ∀ c ∈ (processDm st r).2.2, ∀ sid, c.target = some sid →
      ∃ s, Identified st.tbl (dmKeys st.cfg r) s ∧ s.sid = sid) ∧
    (∀ (r : CoaReq), ∀ c ∈ (processCoa st r).2.2, ∀ sid, c.target = some sid →
      ∃ s, Identified st.tbl (coaKeys st.cfg r) s ∧ s.sid = sid) := by
  constructor
  · intro r c hc sid ht
    cases hi : identify st.tbl (dmKeys st.cfg r) with
    | none =>
      rw [processDm_none st r hi] at hc
      rw [runKeys_calls _ _ c hc] at ht; cases ht
    | some s =>
      have hs : Identified st.tbl (dmKeys st.cfg r) s := (identify_some_iff _ _ _).mp hi
      rw [processDm_some st r s hi] at hc
      refine ⟨s, hs, ?_⟩
      split at hc
      · simp only [List.mem_append, List.mem_cons, List.not_mem_nil, or_false] at hc
        rcases hc with hc | hc
        · rw [runKeys_calls _ _ c hc] at ht; cases ht
        · subst hc; injection ht
      · simp only [List.mem_append] at hc
        rcases hc with hc | hc
        · rw [runKeys_calls _ _ c hc] at ht; cases ht
        · split at hc
          · simp only [List.mem_cons, List.not_mem_nil, or_false] at hc
            subst hc; injection ht
          · cases hc
  · intro r c hc sid ht
    cases hi : identify st.tbl (coaKeys st.cfg r) with
    | none =>
      rw [processCoa_none st r hi] at hc
      rw [runKeys_calls _ _ c hc] at ht; cases ht
    | some s =>
      have hs : Identified st.tbl (coaKeys st.cfg r) s := (identify_some_iff _ _ _).mp hi
      refine ⟨s, hs, ?_⟩
      cases hu : buildPolicyUpdate r with
      | none =>
        rw [processCoa_nochange st r s hi hu] at hc
        rw [runKeys_calls _ _ c hc] at ht; cases ht
      | some u =>
        rw [processCoa_change st r s u hi hu] at hc
        split at hc
        · simp only [List.mem_append, List.mem_cons, List.not_mem_nil, or_false] at hc
          rcases hc with hc | hc
          · rw [runKeys_calls _ _ c hc] at ht; cases ht
          · subst hc; injection ht
        · simp only [List.mem_append] at hc
          rcases hc with hc | hc
          · rw [runKeys_calls _ _ c hc] at ht; cases ht
          · unfold appliedCalls at hc
            simp only [List.mem_append] at hc
            rcases hc with hc | hc
            · split at hc
              · simp only [List.mem_cons, List.not_mem_nil, or_false] at hc
                subst hc; injection ht
              · cases hc
            · split at hc
              · simp only [List.mem_cons, List.not_mem_nil, or_false] at hc
                subst hc; injection ht
              · cases hc

/-- On the wire: whatever session a session-changing callback is invoked for while ONE datagram is handled is the
    session identified by the attributes of the request the listener parsed from that datagram. -/
theorem target_identified_by_request (H : Bytes → Bytes) (st : State) (buf : Bytes)
    (st' : State) (resp : Bytes) (calls : List Call)
    (hstep : step H st buf = .ok (st', some (resp, calls))) :
    ∃ k f, ParsedAs H st.secret buf k f ∧
      ∀ c ∈ calls, ∀ sid, c.target = some sid → ∃ s, Identified st.tbl (keysOf st.cfg k f) s ∧ s.sid = sid := by
  rcases step_inv H st buf st' _ hstep with ⟨h, _⟩ | ⟨req, n, f, hr, hf, _, ho⟩
  · cases h
  · injection ho with ho; injection ho with _ h2
    refine ⟨req.kind, f, ⟨req, n, hr, rfl, hf⟩, ?_⟩
    rw [h2]
    cases hk : req.kind with
    | coa => exact (handler_target_identified_by_request st).2 (coaReqOf f)
    | dm => exact (handler_target_identified_by_request st).1 (dmReqOf f)

/-! ## recorded behaviour: the eBPF failure that is swallowed -/

/-- RECORDED BEHAVIOUR (`applyPolicyUpdate`: "Don't fail the CoA - the session policy was updated"): when the eBPF
    QoS updater fails, the CoA is still ACKNOWLEDGED, the session's policy rate is the requested one, and the rate the
    fast path enforces is still the old one.  Concretely: session s1 at 1 Mbit/s down (policy and enforced), request
    "2000 kbit/s down" with the eBPF updater failing: ACK, policy 2 Mbit/s, enforced 1 Mbit/s.  Not reachable
    from the wire today (the listener's parser never sets `QoSDownload` / `QoSUpload`), only by a direct call of
    `HandleCoA`.  C15 does not forbid it (the request is authentic and is answered); it is the "policy set through the
    control plane is the one enforced" clause of C19 that it bears on. -/
theorem ebpf_failure_still_acks_witness :
    let s1 : Sess := { sid := [115, 49], ip := [10, 0, 0, 1], mac := [], down := 1000000, up := 0, eDown := 1000000 }
    let st : State := { secret := [1], failEbpf := true, tbl := [s1] }
    let r : CoaReq := { sessionID := [115, 49], qosDown := 2000 }
    (processCoa st r).2.1.success = true ∧
    (processCoa st r).1.tbl = [{ s1 with down := 2000000 }] ∧
    Call.ebpf [115, 49] 2000000 0 false ∈ (processCoa st r).2.2 := by
  intro s1 st r
  have hid : identify st.tbl (coaKeys st.cfg r) = some s1 := by decide
  have hu : buildPolicyUpdate r = some (requested r) := (update_is_the_requested_one r).1 (by
    unfold changeRequested; right; left; decide)
  rw [processCoa_change st r s1 _ hid hu]
  refine ⟨by decide, by decide, by decide⟩

/-! ## non-vacuity -/

/-- `Identified` is satisfiable, also through the fall-back: the Session-Id names nobody, the address does -/
example : Identified [{ sid := [1], ip := [10, 0, 0, 1], mac := [], down := 0, up := 0 }]
    (dmKeys {} { sessionID := [9], acctSessionID := [9], framedIP := [10, 0, 0, 1] })
    { sid := [1], ip := [10, 0, 0, 1], mac := [], down := 0, up := 0 } :=
  (identify_some_iff _ _ _).mp (by decide)

/-- the hypotheses of the wire theorems are satisfiable: with a constant 16-byte "hash" the all-zero-authenticator
    Disconnect-Request is authentic, so the step answers it -/
example : ∃ st' o, step (fun _ => zeros16) (init [1] {}) ([40, 7, 0, 20] ++ zeros16) = .ok (st', some o) :=
  (effect_iff_authentic (fun _ => zeros16) (fun _ => rfl) (init [1] {}) _).mpr (by
    simp [authentic, lengthField, packetOf, zeros16, beNat, attrsWF_strict])

/-- and some datagram is not authentic -/
example : authentic (fun _ => zeros16) [1] [] = false := by simp [authentic]

/-- `UniqueSids` holds of a non-empty table; `changeRequested` is satisfiable -/
example : UniqueSids [{ sid := [1], ip := [], mac := [], down := 0, up := 0 }, { sid := [2], ip := [], mac := [], down := 0, up := 0 }] := by
  unfold UniqueSids; decide
example : changeRequested { filterID := [103] } := Or.inl (by decide)

end Bng.Spec.C15Proc
