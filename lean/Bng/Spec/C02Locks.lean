import Bng.Proof.LockFacts
/-
  C02 / C16 — lock discipline of the DHCPv4 lease table and of dhcp.Pool (structural part).

  `Bng.Gen.Locks.locks` is REGENERATED on every run by harness/cmd/extractlocks from the repository's working tree.
  The Lean models of the DHCPv4 server (Model/Dhcp4.lean, Model/DhcpTerm.lean) execute RELEASE, DECLINE and the removal
  half of the expiry sweep as ONE atomic step each — lease-table entry, circuit-id index entry and pool binding leave
  together — and a REQUEST as "read, decide, re-check-and-write".  That is sound only while the code really performs those
  effects inside one critical section of `leasesMu`.  Here the kernel decides on the regenerated table that it does: a
  change that drops the lock before the address is given back (so that a packet handler can run in between) breaks an
  obligation at once, whatever interleavings the harnesses produce.  Presence and position, not behaviour.
-/
namespace Bng.Spec.C02Locks
open Bng.LockFacts

/-- The expiry sweep is a shared-lock scan followed by ONE exclusive section (the model's `scan` / `removal` steps). -/
theorem sweep_is_scan_then_one_exclusive_section :
    known "dhcp.Server.cleanupExpiredLeases" = true ∧
    acqOf "dhcp.Server.cleanupExpiredLeases" "s.leasesMu" = ["R", "W"] := by decide

/-- Everything the sweep's removal step does for an expired lease — lease-table delete, circuit-id index delete, giving
    the address back to the pool, removing the fast-path entries, ending the session (accounting Stop, QoS, NAT) —
    happens while `leasesMu` is held exclusively: no packet handler can observe an expired lease half torn down. -/
theorem sweep_teardown_inside_lease_lock :
    underW "dhcp.Server.cleanupExpiredLeases" "w" "s.leases" "s.leasesMu" = true ∧
    underW "dhcp.Server.cleanupExpiredLeases" "w" "s.leasesByCircuitID" "s.leasesMu" = true ∧
    underW "dhcp.Server.cleanupExpiredLeases" "c" "pool.Release" "s.leasesMu" = true ∧
    underW "dhcp.Server.cleanupExpiredLeases" "c" "s.removeFromFastPathCache" "s.leasesMu" = true ∧
    underW "dhcp.Server.cleanupExpiredLeases" "c" "s.releaseSessionResources" "s.leasesMu" = true := by decide

/-- RELEASE: one exclusive section in which the lease leaves the table and its address goes back to the pool
    (fix 1f47870 — before it the address was freed after the lock had been dropped). -/
theorem release_frees_address_inside_lease_lock :
    known "dhcp.Server.handleRelease" = true ∧
    acqOf "dhcp.Server.handleRelease" "s.leasesMu" = ["W"] ∧
    underW "dhcp.Server.handleRelease" "w" "s.leases" "s.leasesMu" = true ∧
    underW "dhcp.Server.handleRelease" "w" "s.leasesByCircuitID" "s.leasesMu" = true ∧
    underW "dhcp.Server.handleRelease" "c" "pool.Release" "s.leasesMu" = true := by decide

/-- DECLINE: one exclusive section in which the lease leaves the table and the address is taken out of circulation. -/
theorem decline_quarantines_address_inside_lease_lock :
    known "dhcp.Server.handleDecline" = true ∧
    acqOf "dhcp.Server.handleDecline" "s.leasesMu" = ["W"] ∧
    underW "dhcp.Server.handleDecline" "w" "s.leases" "s.leasesMu" = true ∧
    underW "dhcp.Server.handleDecline" "c" "pool.Release" "s.leasesMu" = true ∧
    underW "dhcp.Server.handleDecline" "c" "pool.MarkUnavailable" "s.leasesMu" = true := by decide

/-- REQUEST: the lease is read under the shared lock and written under the exclusive lock (the model's read / re-check
    and write halves, fix 207289c); every write of the lease table is under the exclusive lock. -/
theorem request_writes_lease_under_exclusive_lock :
    known "dhcp.Server.handleRequest" = true ∧
    acqOf "dhcp.Server.handleRequest" "s.leasesMu" = ["R", "W"] ∧
    underW "dhcp.Server.handleRequest" "w" "s.leases" "s.leasesMu" = true ∧
    accessesUnder "dhcp.Server.handleRequest" ["s.leases"] "s.leasesMu" = true := by decide

/-- dhcp.Pool: Allocate, Reserve, Release and MarkUnavailable are each ONE critical section of the pool mutex that
    covers every access to the free list, the binding map and the quarantine set (the pool model's atomic steps). -/
theorem pool_methods_are_one_critical_section :
    oneDeferredSection "dhcp.Pool.Allocate" "p.mu" ["p.available", "p.allocated", "p.unavailable"] = true ∧
    oneDeferredSection "dhcp.Pool.Reserve" "p.mu" ["p.available", "p.allocated", "p.unavailable"] = true ∧
    oneDeferredSection "dhcp.Pool.Release" "p.mu" ["p.available", "p.allocated", "p.unavailable"] = true ∧
    oneDeferredSection "dhcp.Pool.MarkUnavailable" "p.mu" ["p.available", "p.allocated", "p.unavailable"] = true := by
  decide

/-- non-vacuity: the predicates do discriminate — the sweep's fast-path removal is NOT outside the lock, and a method
    that is not in the table satisfies nothing -/
example : outside "dhcp.Server.cleanupExpiredLeases" "c" "pool.Release" = false ∧
    known "dhcp.Server.noSuchMethod" = false ∧
    underW "dhcp.Server.handleRelease" "c" "s.releaseSessionResources" "s.leasesMu" = false := by decide

end Bng.Spec.C02Locks
