import Bng.Model.SubMgr
/-
  C16 (subscriber.Manager path) — terminating a subscriber session, by one caller or by two callers
  interleaved at the points where the manager drops its lock, releases the session's address exactly once,
  only ever the session's OWN address, and ends the session exactly once.

  Theorems over Bng/Model/SubMgr.lean for ALL operation sequences, where a concurrent TerminateSession is
  the pair `tbegin tag n … tresume tag` with arbitrary operations of other callers in between, and a concurrent
  AssignAddress is the pair `abegin tag n … aresume tag` (the call is held inside the allocator call, between its two
  critical sections), again with arbitrary operations — terminations included — in the window.
-/
namespace Bng.Spec.C16SubMgr
open Bng Bng.SubMgr AMap

structure Inv (s : M) : Prop where
  /-- a session's address is recorded by the allocator as handed to that session -/
  own : ∀ n x a, AMap.lookup s.sessions n = some x → x.ip = some a → AMap.lookup s.owner a = some n
  /-- a parked call belongs to a live, Terminating session and is about to release that session's address -/
  parked : ∀ tag n a, AMap.lookup s.calls tag = some (n, a) →
      ∃ x, AMap.lookup s.sessions n = some x ∧ x.terminating = true ∧ x.ip = some a
  /-- at most one call is parked per session -/
  one : ∀ t t' n a a', AMap.lookup s.calls t = some (n, a) → AMap.lookup s.calls t' = some (n, a') → t = t'
  /-- a live session has not ended; an ended one ended once -/
  live : ∀ n x, AMap.lookup s.sessions n = some x → count s.ended n = 0
  once : ∀ n, count s.ended n ≤ 1
  /-- releases never outnumber allocations; an address currently handed out has one allocation to spare -/
  bal : ∀ a, count s.rel a + (if (AMap.lookup s.owner a).isSome then 1 else 0) ≤ count s.allocs a
  /-- every address the allocator has handed out is the current address of a live session -/
  owned : ∀ a n, AMap.lookup s.owner a = some n → ∃ x, AMap.lookup s.sessions n = some x ∧ x.ip = some a

theorem count_bump (m : AMap Nat Nat) (k k' : Nat) :
    count (bump m k) k' = if k' = k then count m k + 1 else count m k' := by
  unfold count bump
  rw [lookup_insert]
  by_cases e : k' = k <;> simp [e]

theorem inv_init : Inv init := by
  refine ⟨?_, ?_, ?_, ?_, ?_, ?_, ?_⟩ <;> intros <;> simp_all [init, count]

theorem firstFree_spec {owner : AMap Nat Nat} {a : Nat} (h : firstFree owner = some a) :
    AMap.lookup owner a = none := by
  unfold firstFree at h
  have := List.find?_some h
  simpa using this

theorem inv_create {s : M} (hI : Inv s) (n mac : Nat) : Inv (create s n mac).1 := by
  unfold create
  split
  · exact hI
  · rename_i hfresh
    split
    · exact hI
    · have hn : AMap.lookup s.sessions n = none := by
        cases e : AMap.lookup s.sessions n <;> simp [e] at hfresh ⊢
      have he : count s.ended n = 0 := by
        simp only [Bool.or_eq_true, decide_eq_true_eq, not_or] at hfresh; omega
      refine ⟨?_, ?_, hI.one, ?_, hI.once, hI.bal, ?_⟩
      rotate_right
      · intro a n' h
        obtain ⟨x, hx, hip⟩ := hI.owned a n' h
        refine ⟨x, ?_, hip⟩
        simp only [lookup_insert]
        split
        · rename_i e; subst e; rw [hn] at hx; simp at hx
        · exact hx
      · intro n' x a h hip
        simp only [lookup_insert] at h
        split at h
        · simp only [Option.some.injEq] at h; subst h; simp at hip
        · exact hI.own n' x a h hip
      · intro tag n' a h
        obtain ⟨x, hx, ht, hip⟩ := hI.parked tag n' a h
        refine ⟨x, ?_, ht, hip⟩
        simp only [lookup_insert]
        split
        · rename_i e; subst e; rw [hn] at hx; simp at hx
        · exact hx
      · intro n' x h
        simp only [lookup_insert] at h
        split at h
        · rename_i e; subst e; exact he
        · exact hI.live n' x h

theorem inv_bounce {s : M} (hI : Inv s) (a : Nat) : Inv (bounce s a) := by
  refine ⟨hI.own, hI.parked, hI.one, hI.live, hI.once, ?_, hI.owned⟩
  intro b
  have := hI.bal b
  show count (bump s.rel a) b + (if (AMap.lookup s.owner b).isSome then 1 else 0) ≤ count (bump s.allocs a) b
  rw [count_bump, count_bump]
  by_cases e : b = a
  · simp only [e, if_true] at this ⊢; omega
  · simp only [e, if_false]; exact this

theorem bounceCall_ok {s : M} (h : s.relFails = false) (a n : Nat) : bounceCall s a n = bounce s a := by
  unfold bounceCall; simp [h]

theorem releaseCall_ok (s : M) (a : Nat) (h : s.relFails = false) : releaseCall s a = release s a := by
  unfold releaseCall; simp [h]

theorem inv_assignLate {s : M} (hI : Inv s) (n : Nat) (hno : reassigns s n = false)
    (hrf : bounces s n = true → s.relFails = false) : Inv (assignLate s n).1 := by
  unfold assignLate
  split
  · exact hI
  · rename_i a hf
    have hfree := firstFree_spec hf
    split
    · rename_i hgone
      rw [bounceCall_ok (hrf (by simp [bounces, hf, hgone]))]
      exact inv_bounce hI a
    · rename_i x hx
      split
      · rename_i hterm
        rw [bounceCall_ok (hrf (by simp [bounces, hf, hx, hterm]))]
        exact inv_bounce hI a
      · rename_i hterm
        have hxip : x.ip = none := by
          unfold reassigns at hno; rw [hx] at hno
          cases e : x.ip <;> simp [e, hterm] at hno ⊢
        -- no call can be parked for a session without an address
        have hnopark : ∀ t b, AMap.lookup s.calls t ≠ some (n, b) := by
          intro t b h
          obtain ⟨y, hy, _, hip⟩ := hI.parked t n b h
          rw [hx] at hy; simp only [Option.some.injEq] at hy; subst hy
          rw [hxip] at hip; simp at hip
        refine ⟨?_, ?_, hI.one, ?_, hI.once, ?_, ?_⟩
        · intro n' y b h hip
          simp only [lookup_insert] at h ⊢
          split at h
          · rename_i e
            simp only [Option.some.injEq] at h; subst h
            simp only at hip
            simp only [Option.some.injEq] at hip; subst hip; subst e; simp
          · rename_i e
            have := hI.own n' y b h hip
            split
            · rename_i e2; subst e2; rw [hfree] at this; simp at this
            · exact this
        · intro tag n' b h
          obtain ⟨y, hy, ht, hip⟩ := hI.parked tag n' b h
          have hne : n' ≠ n := by intro e; subst e; exact hnopark tag b h
          exact ⟨y, by simp [lookup_insert, hne, hy], ht, hip⟩
        · intro n' y h
          simp only [lookup_insert] at h
          split at h
          · rename_i e; subst e; exact hI.live _ x hx
          · exact hI.live n' y h
        · intro b
          have := hI.bal b
          simp only [lookup_insert]
          rw [count_bump]
          by_cases e : b = a
          · subst e
            simp only [if_true, Option.isSome_some]
            rw [hfree] at this
            simp at this
            omega
          · simp only [e, if_false]; exact this
        · intro b n' h
          simp only [lookup_insert] at h ⊢
          split at h
          · rename_i e
            simp only [Option.some.injEq] at h; subst h; subst e
            exact ⟨{ x with ip := some b }, by simp, rfl⟩
          · rename_i e
            obtain ⟨y, hy, hip⟩ := hI.owned b n' h
            by_cases e2 : n' = n
            · subst e2
              rw [hx] at hy; simp only [Option.some.injEq] at hy; subst hy
              rw [hxip] at hip; simp at hip
            · exact ⟨y, by simp [e2, hy], hip⟩


theorem inv_assign {s : M} (hI : Inv s) (n : Nat) (hno : reassigns s n = false)
    (hrf : relCalled s (.assign n) = true → s.relFails = false) : Inv (assign s n).1 := by
  unfold assign
  split
  · exact hI
  · rename_i x hx
    exact inv_assignLate hI n hno (fun hb => hrf (by simp [relCalled, hx, hb]))

/-- the state after `tBegin` (the session is marked Terminating) -/
theorem inv_tBegin {s s1 : M} {x : Sess} (_hI : Inv s) {n : Nat} (h : tBegin s n = .ok (s1, x)) :
    AMap.lookup s.sessions n = some x ∧ x.terminating = false ∧
    s1 = { s with sessions := AMap.insert s.sessions n { x with terminating := true } } := by
  unfold tBegin at h
  split at h
  · simp at h
  · rename_i y hy
    split at h
    · simp at h
    · rename_i ht
      simp only [Except.ok.injEq, Prod.mk.injEq] at h
      obtain ⟨h1, h2⟩ := h
      subst h2
      exact ⟨hy, by simpa using ht, h1.symm⟩

/-- releasing the session's own address and finishing: used by `term`, and by `tresume` -/
theorem inv_release_finish {s : M} (hI : Inv s) {n : Nat} {x : Sess}
    (hx : AMap.lookup s.sessions n = some x)
    (hnocall : ∀ t b, AMap.lookup s.calls t ≠ some (n, b)) :
    Inv (tFinish (match x.ip with | some a => release s a | none => s) n x) := by
  have hended := hI.live n x hx
  refine ⟨?_, ?_, ?_, ?_, ?_, ?_, ?_⟩
  rotate_right
  · -- owned
    intro b n' h
    have hb : AMap.lookup s.owner b = some n' ∧ (x.ip ≠ some b) := by
      cases hxi : x.ip with
      | none => exact ⟨by simpa [tFinish, hxi] using h, by simp⟩
      | some a =>
        have : AMap.lookup (AMap.erase s.owner a) b = some n' := by simpa [tFinish, hxi, release] using h
        rw [lookup_erase] at this
        split at this
        · simp at this
        · rename_i e; exact ⟨this, by simpa using fun e2 => e e2.symm⟩
    obtain ⟨y, hy, hip⟩ := hI.owned b n' hb.1
    have hne : n' ≠ n := by
      intro e; subst e
      rw [hx] at hy; simp only [Option.some.injEq] at hy; subst hy
      exact hb.2 hip
    refine ⟨y, ?_, hip⟩
    cases hxi : x.ip <;> simp [tFinish, hxi, release, lookup_erase, hne, hy]
  · intro n' y b h hip
    cases hxi : x.ip with
    | none =>
      simp only [tFinish, hxi, lookup_erase] at h ⊢
      split at h
      · simp at h
      · exact hI.own n' y b h hip
    | some a =>
      simp only [tFinish, hxi, release, lookup_erase] at h ⊢
      split at h
      · simp at h
      · rename_i e
        have hb := hI.own n' y b h hip
        have ha := hI.own n x a hx hxi
        split
        · rename_i e2; subst e2; rw [ha] at hb; simp only [Option.some.injEq] at hb; exact absurd hb.symm e
        · exact hb
  · intro tag n' b h
    have hc : AMap.lookup s.calls tag = some (n', b) := by
      cases hxi : x.ip <;> simpa [tFinish, hxi, release] using h
    obtain ⟨y, hy, ht, hip⟩ := hI.parked tag n' b hc
    have hne : n' ≠ n := by
      intro e; subst e; exact hnocall tag b hc
    refine ⟨y, ?_, ht, hip⟩
    cases hxi : x.ip <;> simp [tFinish, hxi, release, lookup_erase, hne, hy]
  · intro t t' n' b b' h h'
    have hc : AMap.lookup s.calls t = some (n', b) := by
      cases hxi : x.ip <;> simpa [tFinish, hxi, release] using h
    have hc' : AMap.lookup s.calls t' = some (n', b') := by
      cases hxi : x.ip <;> simpa [tFinish, hxi, release] using h'
    exact hI.one t t' n' b b' hc hc'
  · intro n' y h
    have hs : AMap.lookup (AMap.erase s.sessions n) n' = some y := by
      cases hxi : x.ip <;> simpa [tFinish, hxi, release] using h
    rw [lookup_erase] at hs
    split at hs
    · simp at hs
    · rename_i e
      have := hI.live n' y hs
      have hcnt : count (tFinish (match x.ip with | some a => release s a | none => s) n x).ended n' =
          count s.ended n' := by
        cases hxi : x.ip <;> simp [tFinish, hxi, release, count_bump, e]
      rw [hcnt]; exact this
  · intro n'
    have hcnt : count (tFinish (match x.ip with | some a => release s a | none => s) n x).ended n' =
        if n' = n then count s.ended n + 1 else count s.ended n' := by
      cases hxi : x.ip <;> simp [tFinish, hxi, release, count_bump]
    rw [hcnt]
    split
    · omega
    · exact hI.once n'
  · intro b
    have hb := hI.bal b
    cases hxi : x.ip with
    | none => simpa [tFinish, hxi] using hb
    | some a =>
      have ha := hI.own n x a hx hxi
      simp only [tFinish, hxi, release, lookup_erase]
      rw [count_bump]
      by_cases e : b = a
      · subst e
        simp only [if_true]
        rw [ha] at hb
        simp at hb ⊢
        omega
      · simp only [e, if_false]; exact hb

theorem tFinish_congr (s : M) (n : Nat) (x y : Sess) (h1 : x.mac = y.mac) (h2 : x.ip = y.ip) :
    tFinish s n x = tFinish s n y := by
  unfold tFinish; rw [h1, h2]

theorem inv_mark {s : M} (hI : Inv s) {n : Nat} {x : Sess} (hx : AMap.lookup s.sessions n = some x) :
    Inv { s with sessions := AMap.insert s.sessions n { x with terminating := true } } := by
  refine ⟨?_, ?_, hI.one, ?_, hI.once, hI.bal, ?_⟩
  rotate_right
  · intro a n' h
    obtain ⟨y, hy, hip⟩ := hI.owned a n' h
    simp only [lookup_insert]
    split
    · rename_i e; subst e
      rw [hx] at hy; simp only [Option.some.injEq] at hy; subst hy
      exact ⟨_, rfl, hip⟩
    · exact ⟨y, hy, hip⟩
  · intro n' y a h hip
    simp only [lookup_insert] at h
    split at h
    · rename_i e
      simp only [Option.some.injEq] at h; subst h; subst e
      exact hI.own _ x a hx hip
    · exact hI.own n' y a h hip
  · intro tag n' a h
    obtain ⟨y, hy, ht, hip⟩ := hI.parked tag n' a h
    simp only [lookup_insert]
    split
    · rename_i e; subst e
      rw [hx] at hy; simp only [Option.some.injEq] at hy; subst hy
      exact ⟨_, rfl, rfl, hip⟩
    · exact ⟨y, hy, ht, hip⟩
  · intro n' y h
    simp only [lookup_insert] at h
    split at h
    · rename_i e; subst e; exact hI.live _ x hx
    · exact hI.live n' y h

theorem inv_step {s : M} (hI : Inv s) (op : Op) (hok : okOp s op) : Inv (step s op).1 := by
  cases op with
  | create n mac => exact inv_create hI n mac
  | assign n => exact inv_assign hI n hok.1 hok.2
  | touch n => simp only [step]; split <;> exact hI
  | fault on => exact ⟨hI.own, hI.parked, hI.one, hI.live, hI.once, hI.bal, hI.owned⟩
  | abegin tag n =>
    simp only [step]
    split
    · exact hI
    · split
      · exact hI
      · exact ⟨hI.own, hI.parked, hI.one, hI.live, hI.once, hI.bal, hI.owned⟩
  | aresume tag =>
    simp only [step]
    split
    · exact hI
    · rename_i n hc
      have hI0 : Inv { s with acalls := AMap.erase s.acalls tag } :=
        ⟨hI.own, hI.parked, hI.one, hI.live, hI.once, hI.bal, hI.owned⟩
      have hno : reassigns s n = false := by have := hok.1; simpa [hc] using this
      exact inv_assignLate hI0 n hno (fun hb => hok.2 (by simp only [relCalled, hc]; exact hb))
  | term n =>
    simp only [step]
    split
    · exact hI
    · rename_i hc
      have hcalls : s.calls = [] := by
        cases h : s.calls with
        | nil => rfl
        | cons p r => simp [h] at hc
      split
      · exact hI
      · rename_i s1 x hb
        obtain ⟨hx, ht, hs1⟩ := inv_tBegin hI hb
        subst hs1
        have hI1 := inv_mark hI hx
        have hx1 : AMap.lookup ({ s with sessions := AMap.insert s.sessions n { x with terminating := true } } : M).sessions n
            = some { x with terminating := true } := by simp
        have := inv_release_finish hI1 hx1 (by intro t b; simp [hcalls])
        -- `tFinish` only reads mac and ip of the session object, which the mark does not change
        rw [tFinish_congr _ n x { x with terminating := true } rfl rfl]
        cases hxi : x.ip with
        | none => simp only [hxi] at this ⊢; exact this
        | some a =>
          -- the release call does not fail (Valid)
          have hrf : s.relFails = false := hok.2 (by simp [relCalled, hcalls, hb, hxi])
          simp only [hxi] at this ⊢
          rw [releaseCall_ok]
          · exact this
          · exact hrf
  | tbegin tag n =>
    simp only [step]
    split
    · exact hI
    · rename_i htag
      have htagn : AMap.lookup s.calls tag = none := by
        cases e : AMap.lookup s.calls tag <;> simp [e] at htag ⊢
      split
      · exact hI
      · rename_i s1 x hb
        obtain ⟨hx, ht, hs1⟩ := inv_tBegin hI hb
        subst hs1
        have hI1 := inv_mark hI hx
        have hnocall : ∀ t b, AMap.lookup s.calls t ≠ some (n, b) := by
          intro t b h
          obtain ⟨y, hy, hty, _⟩ := hI.parked t n b h
          rw [hx] at hy; simp only [Option.some.injEq] at hy; subst hy
          rw [ht] at hty; simp at hty
        cases hxi : x.ip with
        | none =>
          simp only
          have hx1 : AMap.lookup ({ s with sessions := AMap.insert s.sessions n { x with terminating := true } } : M).sessions n
              = some { x with terminating := true } := by simp
          have := inv_release_finish hI1 hx1 hnocall
          rw [tFinish_congr _ n x { x with terminating := true } rfl rfl]
          simp only [hxi] at this ⊢
          exact this
        | some a =>
          simp only
          simp only [hxi] at hI1
          refine ⟨hI1.own, ?_, ?_, hI1.live, hI1.once, hI1.bal, hI1.owned⟩
          · intro t n' b h
            simp only [lookup_insert] at h
            split at h
            · simp only [Option.some.injEq, Prod.mk.injEq] at h
              obtain ⟨h1, h2⟩ := h; subst h1; subst h2
              exact ⟨{ mac := x.mac, ip := some a, terminating := true }, by simp, rfl, rfl⟩
            · exact hI1.parked t n' b h
          · intro t t' n' b b' h h'
            simp only [lookup_insert] at h h'
            split at h
            · rename_i e
              simp only [Option.some.injEq, Prod.mk.injEq] at h
              split at h'
              · rename_i e'; rw [e, e']
              · exact absurd h' (by rw [← h.1]; exact hnocall t' b')
            · split at h'
              · simp only [Option.some.injEq, Prod.mk.injEq] at h'
                exact absurd h (by rw [← h'.1]; exact hnocall t b)
              · exact hI.one t t' n' b b' h h'
  | tresume tag =>
    simp only [step]
    split
    · exact hI
    · rename_i n a hc
      obtain ⟨x, hx, ht, hip⟩ := hI.parked tag n a hc
      -- the call is removed from the parked set first
      have hI0 : Inv { s with calls := AMap.erase s.calls tag } := by
        refine ⟨hI.own, ?_, ?_, hI.live, hI.once, hI.bal, hI.owned⟩
        · intro t n' b h
          simp only [lookup_erase] at h
          split at h
          · simp at h
          · exact hI.parked t n' b h
        · intro t t' n' b b' h h'
          simp only [lookup_erase] at h h'
          split at h
          · simp at h
          · split at h'
            · simp at h'
            · exact hI.one t t' n' b b' h h'
      have hnocall : ∀ t b, AMap.lookup ({ s with calls := AMap.erase s.calls tag } : M).calls t ≠ some (n, b) := by
        intro t b h
        simp only [lookup_erase] at h
        split at h
        · simp at h
        · rename_i e
          exact e (hI.one t tag n b a h hc)
      have hx0 : AMap.lookup ({ s with calls := AMap.erase s.calls tag } : M).sessions n = some x := hx
      have := inv_release_finish hI0 hx0 hnocall
      simp only [hip] at this
      have hrf : s.relFails = false := hok.2 (by simp [relCalled, hc])
      rw [releaseCall_ok _ _ (show ({ s with calls := AMap.erase s.calls tag } : M).relFails = false from hrf)]
      have hl : AMap.lookup (release { s with calls := AMap.erase s.calls tag } a).sessions n = some x := by
        simpa [release] using hx
      simp only [hl]
      exact this

theorem inv_run {s : M} (hI : Inv s) (ops : List Op) (hv : Valid s ops) : Inv (run s ops) := by
  induction ops generalizing s with
  | nil => exact hI
  | cons op ops ih =>
    simp only [run, List.foldl_cons]
    obtain ⟨h1, h2⟩ := hv
    exact ih (inv_step hI op h1) h2

/-! ## property theorems

All of them are `_partial` in two respects: they quantify over the histories `Valid init ops`, in which
(1) AssignAddress never hands a second address to a LIVE session that holds one (judged when the allocator call returns)
— the complement is the recorded finding KF-submgr-reassign-leak — and (2) no release call the manager makes to the
allocator fails — the complement is the recorded finding KF-submgr-release-failed (witness theorems at the end);
assignments racing a termination, in either order and at either unlock window, are inside `Valid`, and so is a failing
allocator while no release call is made. -/

/-- **A session ends exactly once**, whatever interleaving of terminations is applied. -/
theorem ended_at_most_once_partial (ops : List Op) (hv : Valid init ops) (n : Nat) :
    count (run init ops).ended n ≤ 1 :=
  (inv_run inv_init ops hv).once n

/-- **Releases never outnumber allocations**: no address is released twice for one allocation. -/
theorem released_at_most_allocated_partial (ops : List Op) (hv : Valid init ops) (a : Nat) :
    count (run init ops).rel a ≤ count (run init ops).allocs a := by
  have := (inv_run inv_init ops hv).bal a
  omega

/-- **A termination only ever releases the terminating session's own address**: whenever a
    TerminateSession call is parked at the allocator, the address it is about to release is recorded
    as handed to that very session (so it cannot free an address that now belongs to someone else). -/
theorem release_only_own_address_partial (ops : List Op) (hv : Valid init ops) (tag n a : Nat)
    (h : AMap.lookup (run init ops).calls tag = some (n, a)) :
    AMap.lookup (run init ops).owner a = some n := by
  have hI := inv_run inv_init ops hv
  obtain ⟨x, hx, _, hip⟩ := hI.parked tag n a h
  exact hI.own n x a hx hip

/-- **No address is shared**: two live sessions never have the same address. -/
theorem sessions_have_distinct_addresses_partial (ops : List Op) (hv : Valid init ops)
    (n n' : Nat) (x x' : Sess) (a : Nat)
    (h : AMap.lookup (run init ops).sessions n = some x) (h' : AMap.lookup (run init ops).sessions n' = some x')
    (hi : x.ip = some a) (hi' : x'.ip = some a) : n = n' := by
  have hI := inv_run inv_init ops hv
  have a1 := hI.own n x a h hi
  have a2 := hI.own n' x' a h' hi'
  rw [a1] at a2; simpa using a2

/-- **Everything a terminated session held is released**: once a session has ended, the allocator
    records no address as handed to it, it is not in the session table, and no call is parked for it. -/
theorem ended_holds_nothing_partial (ops : List Op) (hv : Valid init ops) (n : Nat)
    (he : count (run init ops).ended n = 1) :
    AMap.lookup (run init ops).sessions n = none ∧
    (∀ a, AMap.lookup (run init ops).owner a ≠ some n) ∧
    (∀ tag a, AMap.lookup (run init ops).calls tag ≠ some (n, a)) := by
  have hI := inv_run inv_init ops hv
  have hgone : AMap.lookup (run init ops).sessions n = none := by
    cases e : AMap.lookup (run init ops).sessions n with
    | none => rfl
    | some x => have := hI.live n x e; omega
  refine ⟨hgone, ?_, ?_⟩
  · intro a h
    obtain ⟨x, hx, _⟩ := hI.owned a n h
    rw [hgone] at hx; simp at hx
  · intro tag a h
    obtain ⟨x, hx, _, _⟩ := hI.parked tag n a h
    rw [hgone] at hx; simp at hx

/-- **A second, concurrent TerminateSession is refused**: while a call for the session is parked, another
    `tbegin` for it changes nothing. -/
theorem concurrent_terminate_refused_partial (ops : List Op) (hv : Valid init ops) (tag tag' n a : Nat)
    (h : AMap.lookup (run init ops).calls tag = some (n, a)) :
    (step (run init ops) (.tbegin tag' n)).1 = run init ops := by
  have hI := inv_run inv_init ops hv
  obtain ⟨x, hx, ht, _⟩ := hI.parked tag n a h
  simp only [step]
  split
  · rfl
  · simp [tBegin, hx, ht]

/-! ### the recorded finding, proved on the model -/

/-- KF-submgr-reassign-leak: a second AssignAddress gives the session a second address; when the session
    ends only the latest one is released — the first stays recorded as handed to a session that no longer exists. -/
theorem KF_submgr_reassign_leak_witness :
    let s := run init [.create 1 1, .assign 1, .assign 1, .term 1]
    AMap.lookup s.sessions 1 = none ∧ count s.ended 1 = 1 ∧ AMap.lookup s.owner 2 = some 1 ∧
    ¬ Valid init [.create 1 1, .assign 1, .assign 1, .term 1] := by
  refine ⟨by decide, by decide, by decide, by decide⟩

/-! ### assignments racing a termination (fixed: the former finding KF-submgr-assign-race and its mirror image) -/

/-- **An AssignAddress whose allocator call returns after the session was terminated (or while its termination is in
    progress) strands nothing**: from ANY state in which the allocator's release works, the held call reports failure
    and leaves the allocator's hand-outs, the session table and the address index exactly as they were — the address
    it was given went straight back.  (With a FAILING release the hand-back is only logged: finding
    KF-submgr-release-failed, `KF_submgr_release_failed_bounce_witness`.) -/
theorem late_assign_strands_nothing (s : M) (tag n : Nat) (hc : AMap.lookup s.acalls tag = some n)
    (hrf : s.relFails = false)
    (hgone : AMap.lookup s.sessions n = none ∨ ∃ x, AMap.lookup s.sessions n = some x ∧ x.terminating = true) :
    (step s (.aresume tag)).1.owner = s.owner ∧ (step s (.aresume tag)).1.sessions = s.sessions ∧
    (step s (.aresume tag)).1.byIp = s.byIp ∧
    ((step s (.aresume tag)).2 = .gone ∨ (step s (.aresume tag)).2 = .exhausted) := by
  simp only [step, hc, assignLate]
  cases hf : firstFree s.owner with
  | none => simp
  | some a =>
    rcases hgone with h | ⟨x, hx, ht⟩
    · simp [h, bounce, bounceCall, hrf]
    · simp [hx, ht, bounce, bounceCall, hrf]

/-- the same for a whole AssignAddress call issued while the session's termination is parked at the allocator -/
theorem assign_during_termination_strands_nothing (s : M) (n : Nat) (x : Sess)
    (hx : AMap.lookup s.sessions n = some x) (ht : x.terminating = true) (hrf : s.relFails = false) :
    (step s (.assign n)).1.owner = s.owner ∧ (step s (.assign n)).1.sessions = s.sessions ∧
    (step s (.assign n)).1.byIp = s.byIp := by
  simp only [step, assign, hx, assignLate]
  cases hf : firstFree s.owner with
  | none => simp
  | some a => simp [ht, bounce, bounceCall, hrf]

/-- the two interleavings that used to strand an address are ordinary (Valid) histories now and leave nothing behind:
    an assignment while the termination is parked, and a termination while the assignment is held in the allocator -/
theorem assign_race_fixed :
    let ops := [Op.create 1 1, .assign 1, .tbegin 0 1, .assign 1, .tresume 0]
    let ops' := [Op.create 1 1, .abegin 3 1, .term 1, .aresume 3]
    Valid init ops ∧ (run init ops).owner = [] ∧ AMap.lookup (run init ops).sessions 1 = none ∧
    Valid init ops' ∧ (run init ops').owner = [] ∧ AMap.lookup (run init ops').sessions 1 = none ∧
    count (run init ops').allocs 2 = 1 ∧ count (run init ops').rel 2 = 1 ∧
    (step (run init [.create 1 1, .abegin 3 1, .term 1]) (.aresume 3)).2 = .gone := by
  refine ⟨by decide, by decide, by decide, by decide, by decide, by decide, by decide, by decide, by decide⟩

/-! ### a release that FAILS (recorded finding KF-submgr-release-failed, review item G8) -/

/-- **TerminateSession forgets an address whose release failed**: from ANY state, when the allocator's release call
    fails (it then keeps the address as handed out), the termination still reports success, deletes the session and
    leaves the allocator's hand-outs exactly as they were: the address stays allocated to a session that no longer
    exists, and no later call can release it (the session that knew it is gone). -/
theorem failed_release_is_forgotten (s : M) (n : Nat) (x : Sess) (a : Nat)
    (hx : AMap.lookup s.sessions n = some x) (hnt : x.terminating = false) (hip : x.ip = some a)
    (hcalls : s.calls = []) (hf : s.relFails = true) :
    (step s (.term n)).2 = .ok ∧ AMap.lookup (step s (.term n)).1.sessions n = none ∧
    (step s (.term n)).1.owner = s.owner ∧ count (step s (.term n)).1.rel a = count s.rel a ∧
    (step (step s (.term n)).1 (.term n)).2 = .notfound := by
  have hb : tBegin s n = .ok ({ s with sessions := AMap.insert s.sessions n { x with terminating := true } }, x) := by
    simp [tBegin, hx, hnt]
  have hs : step s (.term n) =
      (tFinish (releaseCall { s with sessions := AMap.insert s.sessions n { x with terminating := true } } a) n x, .ok) := by
    simp only [step, hcalls, List.isEmpty_nil, Bool.not_true, Bool.false_eq_true, if_false, hb, hip]
  rw [hs]
  refine ⟨rfl, ?_, ?_, ?_, ?_⟩
  · simp [tFinish]
  · simp [tFinish, releaseCall, hf]
  · simp [tFinish, releaseCall, hf]
  · simp [step, tFinish, releaseCall, hf, hcalls, tBegin]

/-- KF-submgr-release-failed on a concrete history: the allocator fails the release of s1's address 2; s1 ends
    (one terminate event, no release counted), address 2 stays handed to s1 for ever, the next session gets address 3,
    a second termination of s1 finds nothing — and the history is outside `Valid`. -/
theorem KF_submgr_release_failed_witness :
    let ops := [Op.create 1 1, .assign 1, .fault true, .term 1]
    let s := run init ops
    AMap.lookup s.sessions 1 = none ∧ count s.ended 1 = 1 ∧ AMap.lookup s.owner 2 = some 1 ∧ count s.rel 2 = 0 ∧
    count s.relf 2 = 1 ∧ (step s (.term 1)).2 = .notfound ∧
    AMap.lookup (run s [.fault false, .create 2 2, .assign 2]).owner 3 = some 2 ∧ ¬ Valid init ops := by
  decide

/-- the same through the hand-back path of AssignAddress (the allocator call returns after the session was
    terminated; the manager gives the address back, the allocator refuses): stranded as well -/
theorem KF_submgr_release_failed_bounce_witness :
    let ops := [Op.create 1 1, .abegin 3 1, .term 1, .fault true, .aresume 3]
    let s := run init ops
    (step (run init [.create 1 1, .abegin 3 1, .term 1, .fault true]) (.aresume 3)).2 = .gone ∧
    AMap.lookup s.sessions 1 = none ∧ AMap.lookup s.owner 2 = some 1 ∧ count s.relf 2 = 1 ∧ ¬ Valid init ops := by
  decide

/-- a fault switch that is on while the manager makes no release call is harmless: such histories are inside `Valid`
    (non-vacuity of its second condition) — a session without an address is terminated, the switch goes off again,
    a session with an address is terminated -/
example : Valid init [.create 1 1, .fault true, .term 1, .create 2 2, .assign 2, .fault false, .term 2] ∧
    (run init [.create 1 1, .fault true, .term 1, .create 2 2, .assign 2, .fault false, .term 2]).owner = [] := by
  decide

/-- non-vacuity of `failed_release_is_forgotten` -/
example : let s := run init [.create 1 1, .assign 1, .fault true]
    AMap.lookup s.sessions 1 = some { mac := 1, ip := some 2, terminating := false } ∧ s.calls = [] ∧ s.relFails = true := by
  decide

/-! non-vacuity: a concrete interleaving — A parks, B is refused, A finishes, the address is reused -/
example : Valid init [.create 1 1, .assign 1, .tbegin 0 1, .tbegin 1 1, .tresume 0, .create 2 2, .assign 2] := by
  decide
example : (step (run init [.create 1 1, .assign 1, .tbegin 0 1]) (.tbegin 1 1)).2 = .busy := by decide
example : count (run init [.create 1 1, .assign 1, .tbegin 0 1, .tbegin 1 1, .tresume 0, .create 2 2, .assign 2]).rel 2 = 1 ∧
    AMap.lookup (run init [.create 1 1, .assign 1, .tbegin 0 1, .tbegin 1 1, .tresume 0, .create 2 2, .assign 2]).owner 2 = some 2 := by
  decide

end Bng.Spec.C16SubMgr
