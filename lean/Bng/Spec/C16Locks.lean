import Bng.Proof.LockFacts
/-
  C16 / C20 — lock discipline of subscriber.Manager (structural part).

  `Bng.Gen.Locks.locks` is REGENERATED on every run by harness/cmd/extractlocks.  Model/SubMgr.lean and Model/Index.lean
  execute TerminateSession as its TWO critical sections with the allocator releases between them
  (`tbegin`/`tresume`, `tpark`/`tresume`) and AssignAddress with the allocator call outside the lock
  (`abegin`/`aresume`).  Here the kernel decides on the regenerated table that the code has exactly this shape.
-/
namespace Bng.Spec.C16Locks
open Bng.LockFacts

/-- TerminateSession: two exclusive sections; the address releases are made with NO lock held (between them); the
    index entries (by MAC, by IP, the session table) are removed under the lock -/
theorem terminate_is_two_sections_with_releases_between :
    known "subscriber.Manager.TerminateSession" = true ∧
    acqOf "subscriber.Manager.TerminateSession" "m.mu" = ["W", "W"] ∧
    outside "subscriber.Manager.TerminateSession" "c" "m.allocator.ReleaseIPv4" = true ∧
    outside "subscriber.Manager.TerminateSession" "c" "m.allocator.ReleaseIPv6" = true ∧
    writesUnderW "subscriber.Manager.TerminateSession" ["m.byMAC", "m.byIP", "m.sessions"] "m.mu" = true := by decide

/-- CreateSession: one exclusive section in which the session and its MAC index entry are written -/
theorem create_is_one_section :
    known "subscriber.Manager.CreateSession" = true ∧
    acqOf "subscriber.Manager.CreateSession" "m.mu" = ["W"] ∧
    writesUnderW "subscriber.Manager.CreateSession" ["m.sessions", "m.byMAC"] "m.mu" = true ∧
    accessesUnder "subscriber.Manager.CreateSession" ["m.sessions", "m.byMAC", "m.byIP"] "m.mu" = true := by decide

/-- AssignAddress: the allocator is called with no lock held, the IP index is written under the lock -/
theorem assign_calls_allocator_outside_lock :
    known "subscriber.Manager.AssignAddress" = true ∧
    outside "subscriber.Manager.AssignAddress" "c" "m.allocator.AllocateIPv4" = true ∧
    outside "subscriber.Manager.AssignAddress" "c" "m.allocator.ReleaseIPv4" = true ∧
    writesUnderW "subscriber.Manager.AssignAddress" ["m.byIP"] "m.mu" = true ∧
    accessesUnder "subscriber.Manager.AssignAddress" ["m.sessions", "m.byMAC", "m.byIP"] "m.mu" = true := by decide

end Bng.Spec.C16Locks
