import Bng.Model.PppoeServer
/-
  C04 — No PPPoE session gets IP service without successful authentication.

  Property statements about the model of pkg/pppoe/server.go (Bng/Model/PppoeServer.lean), for ALL
  frame sequences, MACs, session ids and RADIUS outcomes.  `everAuthed` is a ghost field of a session;
  `ghost_set_only_by_accepted_pap` states the only way it can become true.
-/
namespace Bng.Spec.C04
open Bng Bng.PppoeServer AMap

/-- a session is consistent when every sign of IP service implies an accepted PAP exchange -/
def SessOK (x : Sess) : Prop :=
  (x.authed = true → x.everAuthed = true) ∧
  (x.state = .est → x.everAuthed = true) ∧
  (x.ip.isSome = true → x.everAuthed = true)

def Inv (s : Srv) : Prop := ∀ sid x, AMap.lookup s.sessions sid = some x → SessOK x

theorem inv_init (r : Bool) (b : Nat) : Inv (init r b) := by
  intro sid x h; simp [init] at h

theorem ownerGate_some {s : Srv} {m sid : Nat} {x : Sess} (h : ownerGate s m sid = some x) :
    AMap.lookup s.sessions sid = some x ∧ x.mac = m := by
  unfold ownerGate at h
  split at h
  · rename_i y hy
    split at h
    · simp only [Option.some.injEq] at h; subst h; exact ⟨hy, by assumption⟩
    · simp at h
  · simp at h

theorem inv_setSess {s : Srv} (hI : Inv s) (k : Nat) {x : Sess} (hx : SessOK x) : Inv (setSess s k x) := by
  intro sid y h
  simp only [setSess, lookup_insert] at h
  by_cases e : sid = k
  · simp only [e, if_true, Option.some.injEq] at h; subst h; exact hx
  · simp only [e, if_false] at h; exact hI sid y h

theorem inv_of_sessions_eq {s s' : Srv} (hI : Inv s) (h : s'.sessions = s.sessions) : Inv s' := by
  intro sid x hx; rw [h] at hx; exact hI sid x hx

theorem inv_erase {s : Srv} (hI : Inv s) (sid : Nat) {s' : Srv}
    (h : s'.sessions = AMap.erase s.sessions sid) : Inv s' := by
  intro sid' x hx
  rw [h, lookup_erase] at hx
  by_cases e : sid' = sid
  · simp [e] at hx
  · simp only [e, if_false] at hx; exact hI sid' x hx

theorem poolAllocate_sessions (s : Srv) (k : Nat) : (poolAllocate s k).1.sessions = s.sessions := by
  unfold poolAllocate
  split
  · rfl
  · split <;> rfl

theorem poolRelease_sessions (s : Srv) (k : Nat) : (poolRelease s k).sessions = s.sessions := by
  unfold poolRelease
  split <;> rfl

/-- looking a key up in a table filtered by a predicate on keys -/
theorem lookup_filter_key {ν : Type} (f : Nat → Bool) (m : AMap Nat ν) (k : Nat) :
    lookup (m.filter (fun p => f p.1)) k = if f k then lookup m k else none := by
  induction m with
  | nil => simp [lookup]
  | cons p rest ih =>
    obtain ⟨a, b⟩ := p
    rw [List.filter_cons]
    by_cases hf : f a = true
    · simp only [hf, if_true]
      rw [lookup_cons, lookup_cons, ih]
      by_cases e : a = k
      · subst e; simp [hf]
      · simp [e]
    · have hf' : f a = false := by simpa using hf
      simp only [hf', Bool.false_eq_true, if_false]
      rw [lookup_cons, ih]
      by_cases e : a = k
      · subst e; simp [hf']
      · simp [e]

/-- a session found after a sweep pass was there before it, unchanged -/
theorem lookup_sweep {s : Srv} {keep : List Nat} {sid : Nat} {x : Sess}
    (h : lookup (step s (.sweep keep)).1.sessions sid = some x) : lookup s.sessions sid = some x := by
  simp only [step] at h
  rw [lookup_filter_key (fun k => keep.contains k)] at h
  split at h
  · exact h
  · simp at h

theorem inv_step {s : Srv} (hI : Inv s) (i : In) : Inv (step s i).1 := by
  cases i with
  | padi m => exact hI
  | padr m cookie =>
    simp only [step]
    split
    · exact hI
    · split
      · intro sid x h
        simp only [lookup_insert] at h
        split at h
        · simp only [Option.some.injEq] at h; subst h
          exact ⟨by simp, by simp, by simp⟩
        · exact hI sid x h
      · exact hI
  | padt m sid =>
    simp only [step]
    split
    · exact hI
    · exact inv_erase (inv_of_sessions_eq hI (poolRelease_sessions s _)) sid rfl
  | lcp m sid k =>
    simp only [step]
    split
    · exact hI
    · rename_i x hg
      obtain ⟨hx, _⟩ := ownerGate_some hg
      have hok := hI sid x hx
      cases k with
      | creq => exact hI
      | cack =>
        apply inv_setSess hI _
        exact ⟨hok.1, by simp, hok.2.2⟩
      | cnak => exact hI
      | echo => exact hI
      | term => exact inv_erase (inv_of_sessions_eq hI (poolRelease_sessions s _)) sid rfl
  | pap m sid g r =>
    simp only [step]
    split
    · exact hI
    · rename_i x hg
      obtain ⟨hx, _⟩ := ownerGate_some hg
      have hok := hI sid x hx
      split
      · apply inv_setSess (inv_of_sessions_eq hI (poolAllocate_sessions s _)) _
        exact ⟨fun _ => rfl, fun _ => rfl, fun _ => rfl⟩
      · exact inv_erase (inv_of_sessions_eq hI (poolRelease_sessions s _)) sid rfl
  | ipcp m sid k =>
    simp only [step]
    split
    · exact hI
    · rename_i x hg
      obtain ⟨hx, _⟩ := ownerGate_some hg
      have hok := hI sid x hx
      split
      · exact hI
      · rename_i ha
        have hauth : x.authed = true := by simpa using ha
        cases k with
        | creqIp => exact hI
        | creqDns => exact hI
        | creqNone => exact hI
        | cack =>
          apply inv_setSess hI _
          exact ⟨hok.1, fun _ => hok.1 hauth, hok.2.2⟩
  | ip m sid => exact hI
  | sweep keep =>
    intro sid x h; exact hI sid x (lookup_sweep h)

theorem inv_run {s : Srv} (hI : Inv s) (ins : List In) : Inv (run s ins) := by
  induction ins generalizing s with
  | nil => exact hI
  | cons i ins ih =>
    simp only [run, List.foldl_cons]
    exact ih (inv_step hI i)

/-- **Service requires authentication.**  After ANY sequence of frames from any set of peers, a
    session that is reported established or holds a client address has had its own PAP exchange
    accepted. -/
theorem service_requires_auth (radius : Bool) (bits : Nat) (ins : List In) (sid : Nat) (x : Sess)
    (h : AMap.lookup (run (init radius bits) ins).sessions sid = some x)
    (hs : x.state = .est ∨ x.ip.isSome = true) : x.everAuthed = true := by
  have := inv_run (inv_init radius bits) ins sid x h
  rcases hs with hs | hs
  · exact this.2.1 hs
  · exact this.2.2 hs

/-- **IP-layer negotiation is acknowledged only after authentication**: an IPCP Configure-Ack, or a
    Configure-Nak that assigns the client address, is emitted only for a session whose PAP exchange
    was accepted. -/
theorem ipcp_ack_requires_auth (radius : Bool) (bits : Nat) (ins : List In) (i : In) (sid m : Nat)
    (ip : Nat) (o : Out)
    (ho : o ∈ (step (run (init radius bits) ins) i).2)
    (hk : o = .ipcpack sid m ∨ o = .ipcpnak (some ip) sid m) :
    ∃ x, AMap.lookup (run (init radius bits) ins).sessions sid = some x ∧ x.everAuthed = true := by
  have hI := inv_run (inv_init radius bits) ins
  generalize run (init radius bits) ins = s at *
  cases i with
  | ipcp m' sid' k =>
    simp only [step] at ho
    split at ho
    · simp at ho
    · rename_i x hg
      obtain ⟨hx, _⟩ := ownerGate_some hg
      have hok := hI sid' x hx
      split at ho
      · simp at ho
      · rename_i ha
        have hauth : x.authed = true := by simpa using ha
        have hsid : sid = sid' := by
          cases k <;> simp at ho <;> rcases hk with hk | hk <;> subst hk
          all_goals first
            | (split at ho <;> simp at ho <;> omega)
            | (simp at ho; omega)
            | (simp at ho)
        subst hsid
        exact ⟨x, hx, hok.1 hauth⟩
  | padi m' => rcases hk with hk | hk <;> subst hk <;> simp [step] at ho
  | padr m' c =>
    simp only [step] at ho
    split at ho
    · simp at ho
    · split at ho
      · rcases hk with hk | hk <;> subst hk <;> simp at ho
      · simp at ho
  | padt m' sid' =>
    simp only [step] at ho
    split at ho <;> simp at ho
  | lcp m' sid' k =>
    simp only [step] at ho
    split at ho
    · simp at ho
    · cases k <;> rcases hk with hk | hk <;> subst hk <;> simp at ho
  | pap m' sid' g r =>
    simp only [step] at ho
    split at ho
    · simp at ho
    · split at ho
      · split at ho <;> rcases hk with hk | hk <;> subst hk <;> simp at ho
      · rcases hk with hk | hk <;> subst hk <;> simp at ho
  | ip m' sid' => simp [step] at ho
  | sweep keep => simp [step] at ho

/-- the (source MAC, session id) a frame is addressed with, for frames that target an existing session -/
def target : In → Option (Nat × Nat)
  | .padt m sid => some (m, sid)
  | .lcp m sid _ => some (m, sid)
  | .pap m sid _ _ => some (m, sid)
  | .ipcp m sid _ => some (m, sid)
  | .ip m sid => some (m, sid)
  | _ => none

/-- **Foreign frames are inert.**  A frame whose source MAC is not the session's owner changes nothing
    (no session, no pool entry) and makes the server send nothing. -/
theorem foreign_mac_inert (s : Srv) (i : In) (m sid : Nat) (x : Sess)
    (ht : target i = some (m, sid))
    (hx : AMap.lookup s.sessions sid = some x) (hne : x.mac ≠ m) :
    step s i = (s, []) := by
  have hg : ownerGate s m sid = none := by
    unfold ownerGate; rw [hx]; simp [hne]
  cases i with
  | padi _ => simp [target] at ht
  | padr _ _ => simp [target] at ht
  | sweep keep => simp [target] at ht
  | padt m' sid' =>
    simp only [target, Option.some.injEq, Prod.mk.injEq] at ht
    obtain ⟨h1, h2⟩ := ht; subst h1; subst h2; simp [step, hg]
  | lcp m' sid' k =>
    simp only [target, Option.some.injEq, Prod.mk.injEq] at ht
    obtain ⟨h1, h2⟩ := ht; subst h1; subst h2; simp [step, hg]
  | pap m' sid' g r =>
    simp only [target, Option.some.injEq, Prod.mk.injEq] at ht
    obtain ⟨h1, h2⟩ := ht; subst h1; subst h2; simp [step, hg]
  | ipcp m' sid' k =>
    simp only [target, Option.some.injEq, Prod.mk.injEq] at ht
    obtain ⟨h1, h2⟩ := ht; subst h1; subst h2; simp [step, hg]
  | ip m' sid' => simp [step]

/-- **The ghost is honest.**  `everAuthed` of a session becomes true in exactly one way: a PAP
    request for that session id arriving from the session's own MAC whose RADIUS outcome was accept
    (or with no RADIUS configured).  Otherwise it is inherited from the same session unchanged. -/
theorem ghost_set_only_by_accepted_pap (s : Srv) (i : In) (sid : Nat) (x' : Sess)
    (h : AMap.lookup (step s i).1.sessions sid = some x') (ha : x'.everAuthed = true) :
    (∃ x, AMap.lookup s.sessions sid = some x ∧ x.everAuthed = true) ∨
    (∃ m g r x, i = .pap m sid g r ∧ AMap.lookup s.sessions sid = some x ∧ x.mac = m ∧
        (s.radius = true → r = .accept ∧ g ≠ .empty)) := by
  -- a session updated in place keeps its ghost unless the update is the accepted-PAP branch
  have keep : ∀ (k : Nat) (x y : Sess), AMap.lookup s.sessions k = some x →
      AMap.lookup (AMap.insert s.sessions k y) sid = some x' → y.everAuthed = x.everAuthed →
      ∃ x, AMap.lookup s.sessions sid = some x ∧ x.everAuthed = true := by
    intro k x y hx hl hy
    rw [lookup_insert] at hl
    split at hl
    · rename_i e
      simp only [Option.some.injEq] at hl; subst hl; subst e
      exact ⟨x, hx, by rw [← hy]; exact ha⟩
    · exact ⟨x', hl, ha⟩
  cases i with
  | padi m => exact Or.inl ⟨x', h, ha⟩
  | padr m cookie =>
    simp only [step] at h
    split at h
    · exact Or.inl ⟨x', h, ha⟩
    · split at h
      · simp only [lookup_insert] at h
        split at h
        · simp only [Option.some.injEq] at h; subst h; simp at ha
        · exact Or.inl ⟨x', h, ha⟩
      · exact Or.inl ⟨x', h, ha⟩
  | padt m sid' =>
    simp only [step] at h
    split at h
    · exact Or.inl ⟨x', h, ha⟩
    · simp only [lookup_erase, poolRelease_sessions] at h
      split at h
      · simp at h
      · exact Or.inl ⟨x', h, ha⟩
  | lcp m sid' k =>
    simp only [step] at h
    split at h
    · exact Or.inl ⟨x', h, ha⟩
    · rename_i x hg
      obtain ⟨hx, hm⟩ := ownerGate_some hg
      cases k <;> simp only at h
      · exact Or.inl ⟨x', h, ha⟩
      · (simp only [setSess] at h; exact Or.inl (keep sid' x _ hx h rfl))
      · exact Or.inl ⟨x', h, ha⟩
      · simp only [lookup_erase, poolRelease_sessions] at h
        split at h
        · simp at h
        · exact Or.inl ⟨x', h, ha⟩
      · exact Or.inl ⟨x', h, ha⟩
  | pap m sid' g r =>
    simp only [step] at h
    split at h
    · exact Or.inl ⟨x', h, ha⟩
    · rename_i x hg
      obtain ⟨hx, hm⟩ := ownerGate_some hg
      split at h
      · rename_i hok
        simp only [setSess, lookup_insert, poolAllocate_sessions] at h
        split at h
        · rename_i e
          subst e
          refine Or.inr ⟨m, g, r, x, rfl, hx, hm, ?_⟩
          intro hr
          simp only [papOk, hr, if_true, Bool.and_eq_true, decide_eq_true_eq] at hok
          exact ⟨hok.2, hok.1⟩
        · exact Or.inl ⟨x', h, ha⟩
      · simp only [lookup_erase, poolRelease_sessions] at h
        split at h
        · simp at h
        · exact Or.inl ⟨x', h, ha⟩
  | ipcp m sid' k =>
    simp only [step] at h
    split at h
    · exact Or.inl ⟨x', h, ha⟩
    · rename_i x hg
      obtain ⟨hx, hm⟩ := ownerGate_some hg
      split at h
      · exact Or.inl ⟨x', h, ha⟩
      · cases k <;> simp only at h
        · exact Or.inl ⟨x', h, ha⟩
        · exact Or.inl ⟨x', h, ha⟩
        · exact Or.inl ⟨x', h, ha⟩
        · (simp only [setSess] at h; exact Or.inl (keep sid' x _ hx h rfl))
  | ip m sid' => exact Or.inl ⟨x', h, ha⟩
  | sweep keep => exact Or.inl ⟨x', lookup_sweep h, ha⟩

/-! non-vacuity: a concrete history reaches an established, addressed session (so the theorems are not
    about an empty set of states), and a foreign frame really is ignored -/
example : (AMap.lookup (run (init true 30)
    [.padr 1 true, .lcp 1 1 .cack, .pap 1 1 .good .accept, .ipcp 1 1 .cack]).sessions 1).map
      (fun x => (x.state, x.ip, x.everAuthed)) = some (.est, some 2, true) := by decide
example : (run (init true 30) [.padr 1 true, .ipcp 1 1 .cack, .pap 2 1 .good .accept]).sessions =
    (run (init true 30) [.padr 1 true]).sessions := by decide

end Bng.Spec.C04
