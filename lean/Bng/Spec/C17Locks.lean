import Bng.Proof.LockFacts
/-
  C17 — lock discipline of the peer ring (structural part).

  `Bng.Gen.Locks.locks` is REGENERATED on every run by harness/cmd/extractlocks from the repository's working tree.
  Model/Rendezvous.lean treats AddPeer / RemovePeer as atomic steps on the ring: every lookup sees the ring before or
  after a membership change, never a half-shifted list.
-/
namespace Bng.Spec.C17Locks
open Bng.LockFacts

/-- the peer ring: AddPeer and RemovePeer change `peerNodes` inside one exclusive section -/
theorem ring_changes_are_one_critical_section :
    oneDeferredSection "pool.PeerPool.AddPeer" "p.mu" ["p.peerNodes", "p.peers"] = true ∧
    oneDeferredSection "pool.PeerPool.RemovePeer" "p.mu" ["p.peerNodes", "p.peers"] = true ∧
    writesUnderW "pool.PeerPool.AddPeer" ["p.peerNodes"] "p.mu" = true ∧
    writesUnderW "pool.PeerPool.RemovePeer" ["p.peerNodes"] "p.mu" = true := by decide

end Bng.Spec.C17Locks
