import Bng.Proof.Nat
import Bng.Proof.NatMonitor
import Bng.Proof.NatKMap
/-
  C10 — CGNAT port blocks never overlap and are always attributable (pkg/nat/manager.go, logging.go).

  Configurations: `newManager` is NewManager on Go ints (defaults, then the validation of port range and
  block size).  `accepted_is_valid` shows that EVERY configuration the constructor accepts satisfies
  `ValidCfg`, the hypothesis of the theorems below; `blocks_disjoint_accepted` / `block_in_range_accepted`
  restate the two block theorems directly for all accepted configurations.

  Property statements only (helper lemmas: Bng/Proof/Nat.lean).  Every theorem quantifies over ALL
  configurations satisfying `ValidCfg` and ALL histories `ops : List Op` from the empty manager.  A
  history is a sequence of the code's critical sections: `addIp`, `allocPre` (the lookup of AllocateNAT
  under the read lock), `allocCommit` (the part of AllocateNAT under the pool lock), `alloc` (both, back
  to back), `dealloc`, and the read-only calls — so every interleaving of concurrent callers of
  AllocateNAT/DeallocateNAT/AddPublicIP is one of the histories quantified over.  Histories also contain the calls
  whose write to the kernel subscriber_nat map FAILS (`commitFail` / `allocFail`: the Put of AllocateNAT,
  `deallocFail`: the Delete of DeallocateNAT) and `poke` (the caller writes through what it was handed): the
  theorems above hold for them as for any other history; what is particular to them is stated at the end.
-/
namespace Bng.Spec.C10
open Bng Bng.Cgnat AMap

/-- Every configuration NewManager accepts (any Go ints for ports-per-subscriber, range start and range end
    that pass its defaults and validation) is a configuration the theorems cover. -/
theorem accepted_is_valid (pps rs re : Int) (logOn bulk : Bool) (c : Cfg)
    (h : newManager pps rs re logOn bulk = some c) : ValidCfg c :=
  newManager_valid h

/-- …and the constructor rejects exactly the port ranges and block sizes that do not fit 16-bit ports. -/
theorem rejected_iff (pps rs re : Int) (logOn bulk : Bool) :
    newManager pps rs re logOn bulk = none ↔
      ((if rs = 0 then 1024 else rs) < 1 ∨ (if re = 0 then 65535 else re) > 65535 ∨
       (if pps = 0 then 1024 else pps) < 1 ∨ (if pps = 0 then 1024 else pps) > 65535) := by
  unfold newManager
  simp only
  generalize (if pps = 0 then (1024 : Int) else pps) = p
  generalize (if rs = 0 then (1024 : Int) else rs) = r
  generalize (if re = 0 then (65535 : Int) else re) = e
  by_cases h1 : r < 1 ∨ e > 65535 <;> by_cases h2 : p < 1 ∨ p > 65535 <;> simp [h1, h2] <;> omega

/-- No overlap: after any history, two different subscribers that hold blocks on the same public
    address hold disjoint port ranges. -/
theorem blocks_disjoint (c : Cfg) (hv : ValidCfg c) (ops : List Op) (k₁ k₂ : Nat) (a₁ a₂ : Alloc)
    (h₁ : AMap.lookup (run (init c) ops).allocs k₁ = some a₁)
    (h₂ : AMap.lookup (run (init c) ops).allocs k₂ = some a₂)
    (hk : k₁ ≠ k₂) (hpub : a₁.pub = a₂.pub) :
    a₁.portEnd.toNat < a₂.portStart.toNat ∨ a₂.portEnd.toNat < a₁.portStart.toNat := by
  have hI := inv_run (s := init c) hv (inv_init c) ops
  have hc : (run (init c) ops).cfg = c := run_cfg _ _
  generalize run (init c) ops = s at *
  subst hc
  exact disjoint_of_inv hv hI h₁ h₂ hk hpub

/-- In range, right size, no uint16 wrap: every held block lies inside the configured port range and
    has exactly the configured number of ports (also for non-dividing sizes and rangeEnd = 65535). -/
theorem block_in_range (c : Cfg) (hv : ValidCfg c) (ops : List Op) (k : Nat) (a : Alloc)
    (h : AMap.lookup (run (init c) ops).allocs k = some a) :
    c.rangeStart ≤ a.portStart.toNat ∧ a.portStart.toNat ≤ a.portEnd.toNat ∧
    a.portEnd.toNat ≤ c.rangeEnd ∧ a.portEnd.toNat - a.portStart.toNat + 1 = c.pps := by
  have hI := inv_run (s := init c) hv (inv_init c) ops
  have hc : (run (init c) ops).cfg = c := run_cfg _ _
  generalize run (init c) ops = s at *
  subst hc
  have w := hI.wf _ (mem_of_lookup h)
  have e1 : a.portStart.toNat = s.cfg.rangeStart + a.slot * s.cfg.pps := (WF.hi_eq hv w).1
  have e2 : a.portEnd.toNat = s.cfg.rangeStart + a.slot * s.cfg.pps + s.cfg.pps - 1 := (WF.hi_eq hv w).2
  have hle : s.cfg.rangeStart + (a.slot + 1) * s.cfg.pps ≤ s.cfg.rangeEnd + 1 := slot_end_le s.cfg hv w.slot
  have em : (a.slot + 1) * s.cfg.pps = a.slot * s.cfg.pps + s.cfg.pps := by rw [Nat.add_mul, Nat.one_mul]
  have := hv.1
  generalize a.slot * s.cfg.pps = x at *
  omega

/-- No overlap, for every configuration the constructor accepts. -/
theorem blocks_disjoint_accepted (pps rs re : Int) (logOn bulk : Bool) (c : Cfg)
    (hc : newManager pps rs re logOn bulk = some c) (ops : List Op) (k₁ k₂ : Nat) (a₁ a₂ : Alloc)
    (h₁ : AMap.lookup (run (init c) ops).allocs k₁ = some a₁)
    (h₂ : AMap.lookup (run (init c) ops).allocs k₂ = some a₂)
    (hk : k₁ ≠ k₂) (hpub : a₁.pub = a₂.pub) :
    a₁.portEnd.toNat < a₂.portStart.toNat ∨ a₂.portEnd.toNat < a₁.portStart.toNat :=
  blocks_disjoint c (newManager_valid hc) ops k₁ k₂ a₁ a₂ h₁ h₂ hk hpub

/-- In range with the configured size and no uint16 wrap, for every configuration the constructor accepts. -/
theorem block_in_range_accepted (pps rs re : Int) (logOn bulk : Bool) (c : Cfg)
    (hc : newManager pps rs re logOn bulk = some c) (ops : List Op) (k : Nat) (a : Alloc)
    (h : AMap.lookup (run (init c) ops).allocs k = some a) :
    c.rangeStart ≤ a.portStart.toNat ∧ a.portStart.toNat ≤ a.portEnd.toNat ∧
    a.portEnd.toNat ≤ c.rangeEnd ∧ a.portEnd.toNat - a.portStart.toNat + 1 = c.pps :=
  block_in_range c (newManager_valid hc) ops k a h

/-- Stable until released: in ANY state, an operation other than the subscriber's own `dealloc` leaves
    the subscriber's block exactly as it was (in particular a second, concurrent `allocCommit` for the
    same private address does not replace it). -/
theorem block_stable (s : State) (op : Op) (k : Nat) (a : Alloc)
    (h : AMap.lookup s.allocs k = some a) (hop : op ≠ .dealloc k) :
    AMap.lookup (step s op).1.allocs k = some a :=
  lookup_step_stable s op k a h hop

/-- Stable along histories: a block handed out stays the subscriber's block through every continuation
    of the history that does not release it. -/
theorem block_stable_run (s : State) (ops : List Op) (k : Nat) (a : Alloc)
    (h : AMap.lookup s.allocs k = some a) (hops : Op.dealloc k ∉ ops) :
    AMap.lookup (run s ops).allocs k = some a := by
  induction ops generalizing s with
  | nil => exact h
  | cons op ops ih =>
    simp only [List.mem_cons, not_or] at hops
    show AMap.lookup (run (step s op).1 ops).allocs k = some a
    exact ih _ (lookup_step_stable s op k a h (fun e => hops.1 e.symm)) hops.2

/-- …and every answer the API gives that subscriber meanwhile is that block. -/
theorem answers_stable (s : State) (k : Nat) (a : Alloc) (h : AMap.lookup s.allocs k = some a) :
    (allocPre s k).2 = .alloc a ∧ (allocCommit s k).2 = .alloc a ∧ (alloc s k).2 = .alloc a ∧
    getAllocation s k = .alloc a := by
  refine ⟨?_, ?_, ?_, ?_⟩
  · simp [allocPre, h]
  · simp [allocCommit, h]
  · rw [alloc_eq]; simp [h]
  · simp [getAllocation, h]

/-- Attributable, at most one answer: replaying the log records written by any history (using only the
    logged fields; the traditional format's block end is reconstructed from the configured block size)
    names at most one subscriber for any (public address, port). -/
theorem attribution_unique (c : Cfg) (hv : ValidCfg c) (hlog : c.logOn = true) (ops : List Op) (ip port : Nat) :
    (whoHeld c (run (init c) ops).log ip port).length ≤ 1 := by
  have hI := inv_run (s := init c) hv (inv_init c) ops
  have hc : (run (init c) ops).cfg = c := run_cfg _ _
  generalize run (init c) ops = s at *
  subst hc
  exact whoHeld_length_le hv hI hlog ip port

/-- Attributable, the right answer: the log names subscriber `k` for (ip, port) exactly when `k`
    currently holds a block on `ip` containing `port`.  Because this holds after EVERY history it holds
    at every instant of a history (apply it to the prefix up to that instant). -/
theorem attribution_is_holder (c : Cfg) (hv : ValidCfg c) (hlog : c.logOn = true) (ops : List Op)
    (ip port k : Nat) :
    k ∈ whoHeld c (run (init c) ops).log ip port ↔
      ∃ a, AMap.lookup (run (init c) ops).allocs k = some a ∧ a.pub = ip ∧
           a.portStart.toNat ≤ port ∧ port ≤ a.portEnd.toNat := by
  have hI := inv_run (s := init c) hv (inv_init c) ops
  have hc : (run (init c) ops).cfg = c := run_cfg _ _
  generalize run (init c) ops = s at *
  subst hc
  exact mem_whoHeld_iff hI hlog ip port k

/-- Every allocation and every release is recorded: a step that changes who holds what appends the
    record from which `holders` reconstructs exactly the new table. -/
theorem log_tracks_table (c : Cfg) (hv : ValidCfg c) (hlog : c.logOn = true) (ops : List Op) :
    holders c (run (init c) ops).log = (run (init c) ops).allocs.map heldOf := by
  have hI := inv_run (s := init c) hv (inv_init c) ops
  have hc : (run (init c) ops).cfg = c := run_cfg _ _
  generalize run (init c) ops = s at *
  subst hc
  exact hI.lg hlog

/-- The monitor that judges the real code is the specification these theorems are about: fed with the
    model's own answers and log records (`eventsOf`: per call the API answer, the records it wrote, then
    "returned") along ANY history, `Cgnat.Spec.check` — the clauses overlap, range, stable, attrib — never
    emits a verdict.  (For a batch of queued callers the driver feeds all answers, then all records, then
    one "returned"; the answer clauses and the record clauses use disjoint parts of the monitor state, so
    that order gives a subset of the checks made here.) -/
theorem monitor_silent_on_model (c : Cfg) (hv : ValidCfg c) (ops : List Op) :
    monRun c {} (init c) ops = [] :=
  monRun_silent (s := init c) hv (inv_init c) (mi_init c) ops

/-- Every allocation and every release is recorded exactly once: the record ledger of the monitor (each
    observed new allocation owes one assignment record, each observed release one release record; a record
    nobody owes — a duplicate or stray one — and a debt left when the log has been flushed are failures)
    never emits a verdict along any history of the model.  The ledger matches records to calls regardless
    of how late the logger writes them, so the same holds when records only become visible at a later flush. -/
theorem ledger_silent_on_model (c : Cfg) (hv : ValidCfg c) (ops : List Op) :
    ledgerRun c {} (init c) ops = [] :=
  ledgerRun_silent (s := init c) hv (inv_init c) (li_init c) ops

/-! ### kernel-map failures, the kernel map itself, caller writes -/

/-- A release whose kernel Delete fails releases nothing (finding C10-delete-failure-frees-block, fixed): the call
    reports the error, the subscriber still holds exactly its block after it and through every continuation of the
    history that does not release it successfully, and all that time no other subscriber holds a port of that
    block — the kernel goes on translating with it, so it must not be handed to anybody else. -/
theorem failed_delete_keeps_block (c : Cfg) (hv : ValidCfg c) (ops more : List Op) (k : Nat) (a : Alloc)
    (h : AMap.lookup (run (init c) ops).allocs k = some a) (hmore : Op.dealloc k ∉ more) :
    (step (run (init c) ops) (.deallocFail k)).2 = .kernErr ∧
    AMap.lookup (run (init c) (ops ++ .deallocFail k :: more)).allocs k = some a ∧
    ∀ k₂ a₂, k₂ ≠ k → AMap.lookup (run (init c) (ops ++ .deallocFail k :: more)).allocs k₂ = some a₂ →
      a₂.pub = a.pub → a.portEnd.toNat < a₂.portStart.toNat ∨ a₂.portEnd.toNat < a.portStart.toNat := by
  have hk : AMap.lookup (run (init c) (ops ++ .deallocFail k :: more)).allocs k = some a := by
    rw [run_append]
    show AMap.lookup (run (step (run (init c) ops) (.deallocFail k)).1 more).allocs k = some a
    apply block_stable_run _ _ _ _ _ hmore
    simp only [step]; rw [deallocFail_state]; exact h
  refine ⟨by simp [step, deallocFail, h], hk, ?_⟩
  intro k₂ a₂ hne h₂ hpub
  exact blocks_disjoint c hv _ k k₂ a a₂ hk h₂ (fun e => hne e.symm) hpub.symm

/-- An allocation whose kernel Put fails allocates nothing: table, pool counts and log are as before (only the
    subscriber id stays taken), so no block is in force that the kernel does not know and no record names one. -/
theorem failed_put_allocates_nothing (s : State) (k : Nat) :
    (step s (.allocFail k)).1.allocs = s.allocs ∧ (step s (.allocFail k)).1.pool = s.pool ∧
    (step s (.allocFail k)).1.log = s.log ∧
    (step s (.commitFail k)).1.allocs = s.allocs ∧ (step s (.commitFail k)).1.pool = s.pool ∧
    (step s (.commitFail k)).1.log = s.log :=
  ⟨(allocFail_same s k).2.2.1, (allocFail_same s k).2.1, (allocFail_same s k).2.2.2,
   (commitFail_same s k).2.2.1, (commitFail_same s k).2.1, (commitFail_same s k).2.2.2⟩

/-- The kernel map mirrors the table: after ANY history (failed Puts and Deletes included) the subscriber_nat map
    holds an entry for exactly the subscribers that hold an allocation, and it is that allocation's block. -/
theorem kernel_mirrors_table (c : Cfg) (ops : List Op) (k : Nat) :
    AMap.lookup (krun (kinit c) ops).kern k = (AMap.lookup (run (init c) ops).allocs k).map kblkOf := by
  have h := mirror_run (mirror_init c) ops k
  rw [krun_s] at h
  exact h

/-- …hence the blocks the kernel translates with never overlap: two kernel entries of different subscribers on one
    public address have disjoint port ranges, after any history. -/
theorem kernel_blocks_disjoint (c : Cfg) (hv : ValidCfg c) (ops : List Op) (k₁ k₂ : Nat) (b₁ b₂ : KBlk)
    (h₁ : AMap.lookup (krun (kinit c) ops).kern k₁ = some b₁)
    (h₂ : AMap.lookup (krun (kinit c) ops).kern k₂ = some b₂) (hk : k₁ ≠ k₂) :
    kOverlap b₁ b₂ = false := by
  rw [kernel_mirrors_table] at h₁ h₂
  cases e₁ : AMap.lookup (run (init c) ops).allocs k₁ with
  | none => rw [e₁] at h₁; simp at h₁
  | some a₁ =>
    cases e₂ : AMap.lookup (run (init c) ops).allocs k₂ with
    | none => rw [e₂] at h₂; simp at h₂
    | some a₂ =>
      rw [e₁] at h₁; rw [e₂] at h₂
      simp only [Option.map_some, Option.some.injEq] at h₁ h₂
      subst h₁; subst h₂
      by_cases hp : a₁.pub = a₂.pub
      · have := blocks_disjoint c hv ops k₁ k₂ a₁ a₂ e₁ e₂ hk hp
        unfold kOverlap kblkOf
        simp only
        rcases this with h | h
        · have : decide (a₂.portStart.toNat ≤ a₁.portEnd.toNat) = false := by
            rw [decide_eq_false_iff_not]; omega
          rw [this, Bool.and_false]
        · have : decide (a₁.portStart.toNat ≤ a₂.portEnd.toNat) = false := by
            rw [decide_eq_false_iff_not]; omega
          rw [this, Bool.and_false, Bool.false_and]
      · simp [kOverlap, kblkOf, hp]

/-- The defect, on the manager as it was before fix e3c019a (`krunOld`: a failing Delete was only logged and the
    release went on): k1 is released while the kernel refuses the Delete, k2 is allocated — the kernel map then
    translates BOTH subscribers with ports 10000-10999 of the same public address. -/
theorem old_failed_delete_witness :
    let x := krunOld (kinit (mkCfg 1000 10000 12999 true true)) [.addIp 1, .alloc 1, .deallocFail 1, .alloc 2]
    (match AMap.lookup x.kern 1, AMap.lookup x.kern 2 with
     | some b₁, some b₂ => kOverlap b₁ b₂
     | _, _ => false) = true := by
  decide

/-- Caller writes are invisible: `poke` (the caller writes through the Allocation it was handed, over the address
    slice it passed in, over what GetPoolStats returned — finding C10-returned-alias, fixed: the manager keeps and
    hands out copies) changes nothing, so a history behaves exactly like the same history without the pokes. -/
theorem poke_invisible (s : State) (ops : List Op) : run s (ops.filter (· != .poke)) = run s ops := by
  induction ops generalizing s with
  | nil => rfl
  | cons op ops ih =>
    by_cases h : op = .poke
    · subst h
      simp only [List.filter_cons, bne_self_eq_false, Bool.false_eq_true, if_false]
      exact ih s
    · have : (op != .poke) = true := by simpa using h
      simp only [List.filter_cons, this, if_true]
      exact ih (step s op).1

/-! non-vacuity -/
example : ValidCfg (mkCfg 0 0 0 true true) := mkCfg_valid _ _ _ _ _ (by decide)
example : ValidCfg (mkCfg 1000 10000 12500 true false) := mkCfg_valid _ _ _ _ _ (by decide)
example : ValidCfg (mkCfg 2 65530 65535 true true) := mkCfg_valid _ _ _ _ _ (by decide)
example : newManager 0 0 0 true true = some (mkCfg 0 0 0 true true) := by decide
example : newManager 1024 1024 70000 true true = none := by decide
example : newManager 1024 (-1000) 65535 true false = none := by decide
example : newManager 70000 1 65535 true true = none := by decide
example : (newManager 10 5 (-3) false false).isSome = true := by decide
/-- release from the middle, then allocate: the new subscriber gets the freed block, not a live one -/
example : (getAllocation (run (init (mkCfg 1024 1024 65535 true true))
    [.addIp 1, .alloc 1, .alloc 2, .alloc 3, .dealloc 2, .alloc 4]) 4) =
    .alloc { priv := 4, pub := 1, portStart := 2048, portEnd := 3071, poolIndex := 0, slot := 1, subId := 4 } := by
  decide
/-- two callers for one private address that both passed the precheck get the same block -/
example : (trace (init (mkCfg 1000 10000 12999 true true))
    [.addIp 1, .allocPre 1, .allocPre 1, .allocCommit 1, .allocCommit 1]).map (·.2) =
    [.ok, .miss, .miss,
     .alloc { priv := 1, pub := 1, portStart := 10000, portEnd := 10999, poolIndex := 0, slot := 0, subId := 1 },
     .alloc { priv := 1, pub := 1, portStart := 10000, portEnd := 10999, poolIndex := 0, slot := 0, subId := 1 }] := by
  decide
example : whoHeld (mkCfg 1000 10000 12999 true false) (run (init (mkCfg 1000 10000 12999 true false))
    [.addIp 7, .alloc 1, .alloc 2, .dealloc 1, .alloc 3]).log 7 10500 = [3] := by decide
/-- the history of `old_failed_delete_witness` on the manager as it is: the failed release keeps k1's block, k2 gets the next -/
example : (krun (kinit (mkCfg 1000 10000 12999 true true)) [.addIp 1, .alloc 1, .deallocFail 1, .alloc 2]).kern =
    [(2, { pub := 1, lo := 11000, hi := 11999, sub := 2 }), (1, { pub := 1, lo := 10000, hi := 10999, sub := 1 })] := by
  decide
/-- the hypotheses of `failed_delete_keeps_block` are satisfiable -/
example : AMap.lookup (run (init (mkCfg 1000 10000 12999 true true)) [.addIp 1, .alloc 1]).allocs 1 =
    some { priv := 1, pub := 1, portStart := 10000, portEnd := 10999, poolIndex := 0, slot := 0, subId := 1 } := by decide
/-- a failed Put takes the subscriber id and nothing else -/
example : (trace (init (mkCfg 1000 10000 12999 true true)) [.addIp 1, .allocFail 1, .alloc 2, .alloc 1]).map (·.2) =
    [.ok, .kernErr,
     .alloc { priv := 2, pub := 1, portStart := 10000, portEnd := 10999, poolIndex := 0, slot := 0, subId := 2 },
     .alloc { priv := 1, pub := 1, portStart := 11000, portEnd := 11999, poolIndex := 0, slot := 1, subId := 1 }] := by
  decide

end Bng.Spec.C10
