import Bng.Model.PppoeServer
/-
  C16 (PPPoE server paths) — client PADT and LCP Terminate-Request release the session's address and
  remove the session; the idle sweep does not (recorded finding KF-pppoe-idle-leak).
-/
namespace Bng.Spec.C16Pppoe
open Bng Bng.PppoeServer AMap

/-- what "everything the session held is released" means for the PPPoE server model -/
def Released (s' : Srv) (sid serial : Nat) (a : Option Nat) : Prop :=
  AMap.lookup s'.sessions sid = none ∧ AMap.lookup s'.alloc serial = none ∧
  (∀ x, a = some x → x ∈ s'.avail)

theorem poolRelease_spec (s : Srv) (k : Nat) :
    AMap.lookup (poolRelease s k).alloc k = none ∧
    (∀ x, AMap.lookup s.alloc k = some x → x ∈ (poolRelease s k).avail) := by
  unfold poolRelease
  split
  · rename_i a h
    refine ⟨by simp [lookup_erase], ?_⟩
    intro x hx; rw [h] at hx; simp only [Option.some.injEq] at hx; subst hx; simp
  · rename_i h
    exact ⟨h, by intro x hx; rw [h] at hx; simp at hx⟩

/-- **Client PADT releases everything**: after a PADT from the session's owner the session is gone, its
    pool entry is gone and the address it held is available again. -/
theorem padt_releases (s : Srv) (m sid : Nat) (x : Sess)
    (hx : AMap.lookup s.sessions sid = some x) (hm : x.mac = m) :
    Released (step s (.padt m sid)).1 sid x.serial (AMap.lookup s.alloc x.serial) := by
  have hg : ownerGate s m sid = some x := by unfold ownerGate; rw [hx]; simp [hm]
  obtain ⟨h1, h2⟩ := poolRelease_spec s x.serial
  simp only [step, hg, Released]
  exact ⟨by simp, h1, h2⟩

/-- **LCP Terminate-Request releases everything** (after the fix for D19). -/
theorem lcp_term_releases (s : Srv) (m sid : Nat) (x : Sess)
    (hx : AMap.lookup s.sessions sid = some x) (hm : x.mac = m) :
    Released (step s (.lcp m sid .term)).1 sid x.serial (AMap.lookup s.alloc x.serial) := by
  have hg : ownerGate s m sid = some x := by unfold ownerGate; rw [hx]; simp [hm]
  obtain ⟨h1, h2⟩ := poolRelease_spec s x.serial
  simp only [step, hg, Released]
  exact ⟨by simp, h1, h2⟩

/-- **Authentication failure releases everything** (after the fix ab1f47b): a PAP request of the owner
    that is not accepted removes the session and returns the address an earlier successful
    authentication may have allocated. -/
theorem auth_failure_releases (s : Srv) (m sid : Nat) (g : Pw) (r : Radius) (x : Sess)
    (hx : AMap.lookup s.sessions sid = some x) (hm : x.mac = m) (hrej : papOk s g r = false) :
    Released (step s (.pap m sid g r)).1 sid x.serial (AMap.lookup s.alloc x.serial) := by
  have hg : ownerGate s m sid = some x := by unfold ownerGate; rw [hx]; simp [hm]
  obtain ⟨h1, h2⟩ := poolRelease_spec s x.serial
  simp only [step, hg, hrej, Released]
  exact ⟨by simp, h1, h2⟩

/-- ending twice: a second PADT (or any frame) for the now unknown session id changes nothing -/
theorem second_termination_inert (s : Srv) (m sid : Nat) (hx : AMap.lookup s.sessions sid = none) :
    step s (.padt m sid) = (s, []) ∧ step s (.lcp m sid .term) = (s, []) := by
  have hg : ownerGate s m sid = none := by unfold ownerGate; rw [hx]
  simp [step, hg]

/-- recorded finding KF-pppoe-idle-leak, as a theorem about the model: the idle sweep removes an
    addressed session but its address stays recorded as allocated and is not available. -/
theorem KF_pppoe_idle_leak_witness :
    let s := run (init false 30) [.padr 1 true, .pap 1 1 .good .accept, .sweep []]
    s.sessions = [] ∧ s.alloc.length = 1 ∧ s.avail = [] := by decide

example : (AMap.lookup (run (init false 30) [.padr 1 true, .pap 1 1 .good .accept]).sessions 1).map
    (fun x => (x.mac, x.ip)) = some (1, some 2) := by decide

end Bng.Spec.C16Pppoe
