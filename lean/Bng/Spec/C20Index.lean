import Bng.Proof.Index
/-
  C20, component `index` — "subscriber-identifying keys map to at most one subscriber; forward and reverse lookups
  agree; release does not disturb other mappings", for the secondary indexes of subscriber.Manager (`submgr`),
  state.Store (`stLease` = leases and sessions, `stSub` = subscribers) and allocator.MemoryAllocationStore
  (`memstore`), all instances of the one generic model Bng.Index with the code's exact behaviour.

  What holds for the code AS IT IS (every history):
    index_sound            generated ids never name a live primary (all flavours)
    index_sound_submgr     Manager.byMAC and the session map are mutually inverse
    index_sound_memstore   every live allocation is found by its address; no two live allocations share an address
  What holds only on restricted histories (`_partial`):
    index_bijection_inv_partial, index_release_frame_partial
        hypotheses: `OnePerKey` (complement = finding D59) and `NoRekey` (complement = finding KF-index-rekey)
  What fails (witnesses, by evaluation of the model; the same histories are in corpus/index and fail on the real code):
    D59_witness_submgr, D59_witness_statestore, D59_witness_statestore_sub
    rekey_witness_memstore, rekey_witness_statestore, rekey_witness_submgr
  For MemoryAllocationStore D59 itself does NOT occur: `index_sound_memstore` is its refutation; what does occur there
  is the stale entry of `rekey_witness_memstore`.
-/
namespace Bng.Spec.C20Index
open Bng Bng.Index

/-! ### decidability of the history hypotheses (so that the non-vacuity examples are checked by evaluation) -/

def decOnePerKey (c : Cfg) : (st : State) → (ops : List Op) → Decidable (OnePerKey c st ops)
  | _, [] => isTrue trivial
  | st, op :: rest =>
    have := decOnePerKey c (step c st op).1 rest
    inferInstanceAs (Decidable (_ ∧ _))

def decNoRekey (c : Cfg) : (st : State) → (ops : List Op) → Decidable (NoRekey c st ops)
  | _, [] => isTrue trivial
  | st, op :: rest =>
    have := decNoRekey c (step c st op).1 rest
    inferInstanceAs (Decidable (_ ∧ _))

instance (c : Cfg) (st : State) (ops : List Op) : Decidable (OnePerKey c st ops) := decOnePerKey c st ops
instance (c : Cfg) (st : State) (ops : List Op) : Decidable (NoRekey c st ops) := decNoRekey c st ops

/-! ### unconditional theorems -/

/-- Every flavour, every history: every live primary's id is below the id counter — so the id the code generates
    for a new primary (`create` without a preset id) never names a live primary, and the create that uses it does
    not replace one. -/
theorem index_sound (c : Cfg) (ops : List Op) :
    (∀ id r, AMap.lookup (run c init ops).prim id = some r → id < (run c init ops).next) ∧
    (∀ k0 k1 id, (step c (run c init ops) (.create none k0 k1)).2 = .okId id →
      AMap.lookup (run c init ops).prim id = none) := by
  have hF : Fresh (run c init ops) := fresh_run c (fun id r h => by simp [init] at h) ops
  refine ⟨hF, ?_⟩
  intro k0 k1 id h
  have hid : id = (run c init ops).next := by
    by_cases ha : c.accepts (.create none k0 k1) = true
    · simp only [step, ha, Bool.not_true, Bool.false_eq_true, if_false] at h
      unfold create at h
      by_cases hb : (dupBlocks c.dup0 (run c init ops).i0 k0 none ||
                     dupBlocks c.dup1 (run c init ops).i1 k1 none) = true
      · simp [hb] at h
      · simp only [hb, Bool.false_eq_true, if_false, Option.getD_none, Obs.okId.injEq] at h
        exact h.symm
    · simp [step, ha] at h
  subst hid
  cases e : AMap.lookup (run c init ops).prim (run c init ops).next with
  | none => rfl
  | some r => exact absurd (hF _ r e) (Nat.lt_irrefl _)

example : (step stLease (run stLease init [.create none (some 1) none]) (.create none (some 1) none)).2 = .okId 2 := by
  decide

/-- subscriber.Manager, every history (no hypothesis): the MAC index and the session map are mutually inverse —
    every live session is found by its MAC, every byMAC entry points to a live session with that MAC, and therefore
    no two live sessions share a MAC.  (CreateSession refuses a MAC that is indexed; the MAC of a session never
    changes.)  Nothing of the kind holds for byIP: see `D59_witness_submgr`, `rekey_witness_submgr`. -/
theorem index_sound_submgr (ops : List Op) :
    (∀ id r m, AMap.lookup (run submgr init ops).prim id = some r → r.k0 = some m →
      AMap.lookup (run submgr init ops).i0 m = some id) ∧
    (∀ m id, AMap.lookup (run submgr init ops).i0 m = some id →
      ∃ r, AMap.lookup (run submgr init ops).prim id = some r ∧ r.k0 = some m) ∧
    (∀ id id' r r' m, AMap.lookup (run submgr init ops).prim id = some r →
      AMap.lookup (run submgr init ops).prim id' = some r' → r.k0 = some m → r'.k0 = some m → id = id') := by
  have hI : InvS false (run submgr init ops) :=
    run_submgr_invS0 (inv_init.slot false) inv_init.fresh ops
  refine ⟨fun id r m h hk => hI.fwd id r m h hk, fun m id h => hI.bwd m id h, ?_⟩
  intro id id' r r' m h h' hk hk'
  have a := hI.fwd id r m h hk
  have b := hI.fwd id' r' m h' hk'
  rw [a] at b
  simpa using b

/-- allocator.MemoryAllocationStore, every history (no hypothesis): every live allocation is found by its address,
    and no two live allocations share an address — finding D59 does NOT occur in this type (SaveAllocation refuses
    an address that byIP attributes to another allocation).  The converse direction fails: `rekey_witness_memstore`. -/
theorem index_sound_memstore (ops : List Op) :
    (∀ id r a, AMap.lookup (run memstore init ops).prim id = some r → r.k1 = some a →
      AMap.lookup (run memstore init ops).i1 a = some id) ∧
    (∀ id id' r r' a, AMap.lookup (run memstore init ops).prim id = some r →
      AMap.lookup (run memstore init ops).prim id' = some r' → r.k1 = some a → r'.k1 = some a → id = id') := by
  have hI : FwdS true (run memstore init ops) :=
    run_memstore_fwd (fun id r v h => by simp [init] at h) ops
  refine ⟨fun id r a h hk => hI id r a h hk, ?_⟩
  intro id id' r r' a h h' hk hk'
  have x : AMap.lookup (run memstore init ops).i1 a = some id := hI id r a h hk
  have y : AMap.lookup (run memstore init ops).i1 a = some id' := hI id' r' a h' hk'
  rw [x] at y
  simpa using y

/-! ### partial theorems: histories without key sharing and without un-indexed re-keying -/

/-- Every flavour, every history that (`OnePerKey`) never gives one secondary key to two simultaneously live primaries
    and (`NoRekey`) never changes a key of a live primary along a path that leaves the index alone: in the reached
    state every live primary's secondary key resolves back to it, and every index entry points to a live primary
    carrying that key (so no two live primaries share a key).
    PARTIAL: the full statement (no hypothesis) is false for every flavour but the two cases of `index_sound_submgr`
    and `index_sound_memstore`; the complement of `OnePerKey` is finding D59, the complement of `NoRekey` is
    KF-index-rekey. -/
theorem index_bijection_inv_partial (c : Cfg) (ops : List Op)
    (h1 : OnePerKey c init ops) (h2 : NoRekey c init ops) :
    (∀ id r s v, AMap.lookup (run c init ops).prim id = some r → r.key s = some v →
      AMap.lookup ((run c init ops).idx s) v = some id) ∧
    (∀ s v id, AMap.lookup ((run c init ops).idx s) v = some id →
      ∃ r, AMap.lookup (run c init ops).prim id = some r ∧ r.key s = some v) := by
  have hI := inv_run inv_init ops h1 h2
  exact ⟨fun id r s v h hk => (hI.slot s).fwd id r v h hk, fun s v id h => (hI.slot s).bwd v id h⟩

/-- Same hypotheses: deleting primary `k` in the reached state changes no other primary's record, removes `k`, frees
    exactly the index entries that resolved to `k`, and leaves every other lookup by key — as the API answers it —
    unchanged. -/
theorem index_release_frame_partial (c : Cfg) (ops : List Op)
    (h1 : OnePerKey c init ops) (h2 : NoRekey c init ops) (k : Nat) (hacc : c.accepts (.delete k) = true) :
    (∀ id, id ≠ k → AMap.lookup (step c (run c init ops) (.delete k)).1.prim id =
                     AMap.lookup (run c init ops).prim id) ∧
    AMap.lookup (step c (run c init ops) (.delete k)).1.prim k = none ∧
    (∀ s v, AMap.lookup ((step c (run c init ops) (.delete k)).1.idx s) v =
      if AMap.lookup ((run c init ops).idx s) v = some k then none else AMap.lookup ((run c init ops).idx s) v) ∧
    (∀ s v, byKey c (step c (run c init ops) (.delete k)).1 s v =
      if AMap.lookup ((run c init ops).idx s) v = some k then .none else byKey c (run c init ops) s v) := by
  have hI := inv_run inv_init ops h1 h2
  have hs : (step c (run c init ops) (.delete k)).1 = (delete c (run c init ops) k).1 := by
    simp [step, hacc]
  rw [hs]
  obtain ⟨f1, f2, f3⟩ := delete_frame (c := c) hI k
  refine ⟨f1, f2, f3, ?_⟩
  intro s v
  unfold byKey
  rw [f3]
  by_cases e : AMap.lookup ((run c init ops).idx s) v = some k
  · simp [e]
  · simp only [e, if_false]
    cases e2 : AMap.lookup ((run c init ops).idx s) v with
    | none => rfl
    | some id =>
      have hne : id ≠ k := by intro x; subst x; exact e e2
      simp only [f1 id hne]

/-- the hypotheses are satisfiable by histories that create, re-key (where the code maintains the index), assign and
    delete; and the conclusion is not vacuous there (two live primaries, resolvable keys) -/
example : OnePerKey stLease init [.create none (some 1) (some 1), .create none (some 2) (some 2), .delete 1,
            .create none (some 1) (some 1)] ∧
          NoRekey stLease init [.create none (some 1) (some 1), .create none (some 2) (some 2), .delete 1,
            .create none (some 1) (some 1)] := by decide

example : OnePerKey stSub init [.create none (some 1) (some 1), .update 1 (some 2) none, .create none (some 1) none] ∧
          NoRekey stSub init [.create none (some 1) (some 1), .update 1 (some 2) none, .create none (some 1) none] := by
  decide

example : OnePerKey submgr init [.create none (some 1) none, .create none (some 1) none, .setKey 1 true 1,
            .create none (some 2) none, .setKey 2 true 2, .delete 1, .setKey 2 true 2] ∧
          NoRekey submgr init [.create none (some 1) none, .create none (some 1) none, .setKey 1 true 1,
            .create none (some 2) none, .setKey 2 true 2, .delete 1, .setKey 2 true 2] := by decide

example : OnePerKey memstore init [.create (some 1) none (some 1), .create (some 2) none (some 1),
            .create (some 1) none (some 1), .delete 1, .create (some 2) none (some 1)] ∧
          NoRekey memstore init [.create (some 1) none (some 1), .create (some 2) none (some 1),
            .create (some 1) none (some 1), .delete 1, .create (some 2) none (some 1)] := by decide

example : stLease.accepts (.delete 1) = true ∧ submgr.accepts (.delete 1) = true ∧
          stSub.accepts (.delete 1) = true ∧ memstore.accepts (.delete 1) = true := by decide

/-- the hypotheses do exclude the defect histories -/
example : ¬ OnePerKey stLease init [.create none (some 1) none, .create none (some 1) none] := by decide
example : ¬ NoRekey stLease init [.create none (some 1) none, .update 1 (some 2) none] := by decide

/-! ### witnesses: the defects on the model (the same histories fail on the real code, corpus/index) -/

/-- D59, subscriber.Manager: sessions p1 and p2 are both assigned address 1 (byIP[1] is overwritten), p2 is
    terminated (byIP[1] deleted by value): p1 is live and carries address 1, but GetSessionByIP finds nothing. -/
theorem D59_witness_submgr :
    get (run submgr init [.create none (some 1) none, .create none (some 2) none, .setKey 1 true 1,
          .setKey 2 true 1, .delete 2]) 1 = .found 1 ⟨some 1, some 1⟩ ∧
    byKey submgr (run submgr init [.create none (some 1) none, .create none (some 2) none, .setKey 1 true 1,
          .setKey 2 true 1, .delete 2]) true 1 = .none := by decide

/-- D59, state.Store leases / sessions: two leases with MAC 1 (leaseByMAC[1] overwritten), the second is deleted
    (deleted by value): the first is live with MAC 1, but GetLeaseByMAC finds nothing. -/
theorem D59_witness_statestore :
    get (run stLease init [.create none (some 1) none, .create none (some 1) none, .delete 2]) 1
      = .found 1 ⟨some 1, none⟩ ∧
    byKey stLease (run stLease init [.create none (some 1) none, .create none (some 1) none, .delete 2]) false 1
      = .none := by decide

/-- D59, state.Store subscribers: two subscribers with MAC 1; UpdateSubscriber moves the first to MAC 2 and deletes
    subscriberByMAC[1] by value — the entry of the second, which stays live with MAC 1 and is no longer found. -/
theorem D59_witness_statestore_sub :
    get (run stSub init [.create none (some 1) none, .create none (some 1) none, .update 1 (some 2) none]) 2
      = .found 2 ⟨some 1, none⟩ ∧
    byKey stSub (run stSub init [.create none (some 1) none, .create none (some 1) none, .update 1 (some 2) none])
      false 1 = .none := by decide

/-- KF-index-rekey, MemoryAllocationStore: allocation 1 is saved with address 1 and re-saved with address 2;
    byIP[1] stays: address 1 still answers with allocation 1 (which holds address 2), keeps answering after
    allocation 1 is removed, and is refused to allocation 2 for ever. -/
theorem rekey_witness_memstore :
    get (run memstore init [.create (some 1) none (some 1), .create (some 1) none (some 2)]) 1
      = .found 1 ⟨none, some 2⟩ ∧
    byKey memstore (run memstore init [.create (some 1) none (some 1), .create (some 1) none (some 2)]) true 1
      = .found 1 ⟨none, some 1⟩ ∧
    get (run memstore init [.create (some 1) none (some 1), .create (some 1) none (some 2), .delete 1]) 1 = .none ∧
    byKey memstore (run memstore init [.create (some 1) none (some 1), .create (some 1) none (some 2), .delete 1])
      true 1 = .found 1 ⟨none, some 1⟩ ∧
    (step memstore (run memstore init [.create (some 1) none (some 1), .create (some 1) none (some 2), .delete 1])
      (.create (some 2) none (some 1))).2 = .conflict := by decide

/-- KF-index-rekey, state.Store leases / sessions: UpdateLease changes MAC 1 → 2 and maintains no index: the lease is
    not found by its MAC 2, MAC 1 still answers with it, and after DeleteLease MAC 1 points to nothing. -/
theorem rekey_witness_statestore :
    byKey stLease (run stLease init [.create none (some 1) (some 1), .update 1 (some 2) (some 1)]) false 2 = .none ∧
    byKey stLease (run stLease init [.create none (some 1) (some 1), .update 1 (some 2) (some 1)]) false 1
      = .found 1 ⟨some 2, some 1⟩ ∧
    byKey stLease (run stLease init [.create none (some 1) (some 1), .update 1 (some 2) (some 1), .delete 1]) false 1
      = .dangling := by decide

/-- KF-index-rekey, subscriber.Manager: a second AssignAddress leaves byIP[old] behind; after TerminateSession the old
    address points to nothing (GetSessionByIP answers (nil, true)). -/
theorem rekey_witness_submgr :
    byKey submgr (run submgr init [.create none (some 1) none, .setKey 1 true 1, .setKey 1 true 2]) true 1
      = .found 1 ⟨some 1, some 2⟩ ∧
    byKey submgr (run submgr init [.create none (some 1) none, .setKey 1 true 1, .setKey 1 true 2, .delete 1]) true 1
      = .dangling := by decide

end Bng.Spec.C20Index
