import Bng.Proof.Index
/-
  C20, component `index` — "subscriber-identifying keys map to at most one subscriber; forward and reverse lookups
  agree; release does not disturb other mappings", for the secondary indexes of subscriber.Manager (`submgr`),
  state.Store (`stLease` = leases and sessions, `stSub` = subscribers, `stNat` = NAT bindings) and
  allocator.MemoryAllocationStore (`memstore`, including its UnmarshalJSON load path), all instances of the one
  generic model Bng.Index with the code's exact behaviour.

  What holds for the code AS IT IS:
    index_sound            every history, every flavour: generated ids never name a live primary
    index_sound_submgr     every history: Manager.byMAC and the session map are mutually inverse
    index_sound_memstore   every history whose LOADS are address-injective (`LoadsInj`; in particular every history
                           without `load`): every live allocation is found by its address, no two share an address.
                           Without that hypothesis it is false: `D59_witness_memstore_load`.
  What holds PER KEY on histories that are clean for THAT key (`_partial`; other keys may be abused at will):
    index_bijection_key_partial, index_release_frame_key_partial
        hypotheses `OnePerKeyAt c s v` (complement = finding D59) and `NoRekeyAt c s v` (complement = KF-index-rekey)
    index_bijection_inv_partial, index_release_frame_partial   — the all-keys corollaries
  What fails (witnesses, by evaluation of the model; the same histories are in corpus/index and fail on the real code):
    D59_witness_submgr, D59_witness_statestore, D59_witness_statestore_sub, D59_witness_statestore_nat,
    D59_witness_memstore_load, rekey_witness_memstore, rekey_witness_statestore, rekey_witness_submgr

  Hypotheses versus the driver's exclusion clauses (Bng.Index.exclD59 / exclRekey, evaluated per key on the monitor's
  bookkeeping):
    * a key is in the monitor's `shared` list exactly from the accepted operation at which `opOnePerKeyAt` fails for
      it, so ¬OnePerKeyAt is the history part of exclD59.  The monitor forgets the key again once no live primary
      carries it; the theorems express the same by starting from ANY reachable state `run c init ops0` in which the
      key's entry agrees with the primary map (e.g. the key is free: `key_agrees_of_free`).
    * the monitor's `moved` list records BOTH the old and the new key of every accepted re-keying of a live primary,
      whatever the code path; `opNoRekeyAt` is weaker (so the theorems are stronger): it only forbids taking `(s, v)`
      away through create-under-a-live-id / assign, or adding/removing it through an update that does not re-index;
      re-keying through UpdateSubscriber (which re-indexes) or onto a key through create/assign is allowed.
    * exclD59 / exclRekey additionally require the shape of the failing answer (nothing found / stale entry); the
      theorems need no such case split.
-/
namespace Bng.Spec.C20Index
open Bng Bng.Index

/-! ### decidability of the history hypotheses (so that the non-vacuity examples are checked by evaluation) -/

def decOnePerKeyAt (c : Cfg) (s : Bool) (v : Nat) : (st : State) → (ops : List Op) → Decidable (OnePerKeyAt c s v st ops)
  | _, [] => isTrue trivial
  | st, op :: rest =>
    have := decOnePerKeyAt c s v (step c st op).1 rest
    inferInstanceAs (Decidable (_ ∧ _))

def decNoRekeyAt (c : Cfg) (s : Bool) (v : Nat) : (st : State) → (ops : List Op) → Decidable (NoRekeyAt c s v st ops)
  | _, [] => isTrue trivial
  | st, op :: rest =>
    have := decNoRekeyAt c s v (step c st op).1 rest
    inferInstanceAs (Decidable (_ ∧ _))

def decLoadsInj (s : Bool) : (ops : List Op) → Decidable (LoadsInj s ops)
  | [] => isTrue trivial
  | .load _ :: rest =>
    have := decLoadsInj s rest
    inferInstanceAs (Decidable (_ ∧ _))
  | .create _ _ _ :: rest => decLoadsInj s rest
  | .update _ _ _ :: rest => decLoadsInj s rest
  | .setKey _ _ _ :: rest => decLoadsInj s rest
  | .delete _ :: rest => decLoadsInj s rest
  | .get _ :: rest => decLoadsInj s rest
  | .byKey _ _ :: rest => decLoadsInj s rest
  | .list :: rest => decLoadsInj s rest
  | .tpark _ :: rest => decLoadsInj s rest
  | .tresume _ :: rest => decLoadsInj s rest
  | .poke _ _ _ :: rest => decLoadsInj s rest

instance (c : Cfg) (s : Bool) (v : Nat) (st : State) (ops : List Op) : Decidable (OnePerKeyAt c s v st ops) :=
  decOnePerKeyAt c s v st ops
instance (c : Cfg) (s : Bool) (v : Nat) (st : State) (ops : List Op) : Decidable (NoRekeyAt c s v st ops) :=
  decNoRekeyAt c s v st ops
instance (s : Bool) (ops : List Op) : Decidable (LoadsInj s ops) := decLoadsInj s ops

/-! ### unconditional theorems -/

/-- Every flavour, every history (loads included): every live primary's id is below the id counter — so the id the
    code generates for a new primary (`create` without a preset id) never names a live primary, and the create that
    uses it does not replace one. -/
theorem index_sound (c : Cfg) (ops : List Op) :
    (∀ id r, AMap.lookup (run c init ops).prim id = some r → id < (run c init ops).next) ∧
    (∀ k0 k1 id, (step c (run c init ops) (.create none k0 k1)).2 = .okId id →
      AMap.lookup (run c init ops).prim id = none) := by
  have hF : Fresh (run c init ops) := fresh_run c fresh_init ops
  refine ⟨hF, ?_⟩
  intro k0 k1 id h
  have hid : id = (run c init ops).next := by
    by_cases ha : c.accepts (.create none k0 k1) = true
    · simp only [step, ha, Bool.not_true, Bool.false_eq_true, if_false] at h
      unfold create at h
      by_cases hb : (dupBlocks c.dup0 (run c init ops).i0 k0 none ||
                     dupBlocks c.dup1 (run c init ops).i1 k1 none) = true
      · simp [hb] at h
      · simp only [hb, Bool.false_eq_true, if_false, Option.getD_none, Obs.okId.injEq] at h
        exact h.symm
    · simp [step, ha] at h
  subst hid
  cases e : AMap.lookup (run c init ops).prim (run c init ops).next with
  | none => rfl
  | some r => exact absurd (hF _ r e) (Nat.lt_irrefl _)

example : (step stLease (run stLease init [.create none (some 1) none]) (.create none (some 1) none)).2 = .okId 2 := by
  decide

/-- subscriber.Manager, every history (no hypothesis): the MAC index and the session map are mutually inverse —
    every live session is found by its MAC, every byMAC entry points to a live session with that MAC, and therefore
    no two live sessions share a MAC.  (CreateSession refuses a MAC that is indexed; the MAC of a session never
    changes.)  Nothing of the kind holds for byIP: see `D59_witness_submgr`, `rekey_witness_submgr`. -/
theorem index_sound_submgr (ops : List Op) :
    (∀ id r m, AMap.lookup (run submgr init ops).prim id = some r → r.k0 = some m →
      AMap.lookup (run submgr init ops).i0 m = some id) ∧
    (∀ m id, AMap.lookup (run submgr init ops).i0 m = some id →
      ∃ r, AMap.lookup (run submgr init ops).prim id = some r ∧ r.k0 = some m) ∧
    (∀ id id' r r' m, AMap.lookup (run submgr init ops).prim id = some r →
      AMap.lookup (run submgr init ops).prim id' = some r' → r.k0 = some m → r'.k0 = some m → id = id') := by
  have hI : ∀ v, KInv false v (run submgr init ops) :=
    run_submgr_kinv0 (fun v => kinv_init false v) fresh_init ops
  refine ⟨fun id r m h hk => (hI m).fwd id r h hk, fun m id h => (hI m).bwd id h, ?_⟩
  intro id id' r r' m h h' hk hk'
  exact (hI m).unique h' hk' h hk

/-- allocator.MemoryAllocationStore, every history in which every `load` (UnmarshalJSON) is address-injective — no two
    stored records of different allocations share an address; in particular every history without a load: every live
    allocation is found by its address, and no two live allocations share an address.  SaveAllocation needs no
    hypothesis (it refuses an address that byIP attributes to another allocation); UnmarshalJSON has no uniqueness
    check, and without `LoadsInj` the statement is FALSE (`D59_witness_memstore_load`).  `LoadsInj` is sufficient, not
    necessary (a later record of the list may repair an earlier clash).  The converse direction (every byIP entry
    points to a live allocation) fails even without loads: `rekey_witness_memstore`. -/
theorem index_sound_memstore (ops : List Op) (hl : LoadsInj true ops) :
    (∀ id r a, AMap.lookup (run memstore init ops).prim id = some r → r.k1 = some a →
      AMap.lookup (run memstore init ops).i1 a = some id) ∧
    (∀ id id' r r' a, AMap.lookup (run memstore init ops).prim id = some r →
      AMap.lookup (run memstore init ops).prim id' = some r' → r.k1 = some a → r'.k1 = some a → id = id') := by
  have hI : FwdS true (run memstore init ops) :=
    run_memstore_fwd (fun id r v h => by simp [init] at h) ops hl
  refine ⟨fun id r a h hk => hI id r a h hk, ?_⟩
  intro id id' r r' a h h' hk hk'
  have x : AMap.lookup (run memstore init ops).i1 a = some id := hI id r a h hk
  have y : AMap.lookup (run memstore init ops).i1 a = some id' := hI id' r' a h' hk'
  rw [x] at y
  simpa using y

/-- the hypothesis is satisfiable by histories with loads (and trivially by those without), and excludes the witness -/
example : LoadsInj true [.create (some 1) none (some 1), .load [(1, ⟨none, some 1⟩), (2, ⟨none, some 2⟩)],
            .create (some 3) none (some 2), .delete 1] := by decide
example : ¬ LoadsInj true [.load [(1, ⟨none, some 1⟩), (2, ⟨none, some 1⟩)]] := by decide

/-! ### partial theorems, PER KEY -/

/-- a key that no live primary carries and that has no index entry agrees with the primary map -/
theorem key_agrees_of_free {s : Bool} {v : Nat} {st : State}
    (h1 : ∀ id r, AMap.lookup st.prim id = some r → r.key s ≠ some v)
    (h2 : AMap.lookup (st.idx s) v = none) : KInv s v st :=
  ⟨fun id r h hk => absurd hk (h1 id r h), fun id h => by rw [h2] at h; cases h⟩

/-- the same, as a check that can be evaluated -/
def keyFreeB (s : Bool) (v : Nat) (st : State) : Bool :=
  st.prim.all (fun p => p.2.key s != some v) && (AMap.lookup (st.idx s) v).isNone

theorem key_agrees_of_freeB {s : Bool} {v : Nat} {st : State} (h : keyFreeB s v st = true) : KInv s v st := by
  simp only [keyFreeB, Bool.and_eq_true, List.all_eq_true, Option.isNone_iff_eq_none] at h
  apply key_agrees_of_free
  · intro id r hr
    have := h.1 (id, r) (AMap.mem_of_lookup hr)
    simpa using this
  · exact h.2

/-- Every flavour, every slot `s` and key value `v`.  Take ANY reachable state `st0 = run c init ops0` in which the
    index entry of `(s, v)` and the live primaries carrying `(s, v)` agree in both directions (`KInv s v st0` — true of
    the initial state and whenever the key is free), and continue with ANY history `ops` that, FOR THIS KEY, never
    gives `(s, v)` to a primary while another live primary carries it (`OnePerKeyAt`) and never moves a live primary
    onto or off `(s, v)` along a path that leaves the index alone (`NoRekeyAt`) — operations on other keys are not
    restricted in any way.  Then in the reached state every live primary carrying `(s, v)` is what the index entry of
    `v` resolves to, the entry (if any) points to a live primary carrying `(s, v)`, and at most one live primary
    carries `(s, v)`.
    PARTIAL: without the two per-key hypotheses the statement is false (witnesses below); their complements are the
    findings D59 and KF-index-rekey. -/
theorem index_bijection_key_partial (c : Cfg) (s : Bool) (v : Nat) (ops0 ops : List Op)
    (h0 : KInv s v (run c init ops0))
    (h1 : OnePerKeyAt c s v (run c init ops0) ops) (h2 : NoRekeyAt c s v (run c init ops0) ops) :
    (∀ id r, AMap.lookup (run c (run c init ops0) ops).prim id = some r → r.key s = some v →
      AMap.lookup ((run c (run c init ops0) ops).idx s) v = some id) ∧
    (∀ id, AMap.lookup ((run c (run c init ops0) ops).idx s) v = some id →
      ∃ r, AMap.lookup (run c (run c init ops0) ops).prim id = some r ∧ r.key s = some v) ∧
    (∀ id id' r r', AMap.lookup (run c (run c init ops0) ops).prim id = some r →
      AMap.lookup (run c (run c init ops0) ops).prim id' = some r' → r.key s = some v → r'.key s = some v →
      id = id') := by
  have hK := kinv_run h0 ops h1 h2
  exact ⟨hK.fwd, hK.bwd, fun id id' r r' h h' hk hk' => hK.unique h' hk' h hk⟩

/-- Same per-key hypotheses: deleting primary `k` in the reached state frees the entry of `(s, v)` exactly if it
    resolved to `k` and otherwise leaves it — and the answer of the lookup by that key as the API gives it — unchanged.
    (That the delete changes no other primary's record and removes `k` needs no hypothesis: `delete_frame_prim`.)
    `k ∉ term`: a session whose TerminateSession is parked between its two critical sections answers "already
    terminating" to a further delete; its removal is the second phase, `terminate_second_phase_frame_*` below. -/
theorem index_release_frame_key_partial (c : Cfg) (s : Bool) (v : Nat) (ops0 ops : List Op)
    (h0 : KInv s v (run c init ops0))
    (h1 : OnePerKeyAt c s v (run c init ops0) ops) (h2 : NoRekeyAt c s v (run c init ops0) ops)
    (k : Nat) (hacc : c.accepts (.delete k) = true) (hk : k ∉ (run c (run c init ops0) ops).term) :
    AMap.lookup ((step c (run c (run c init ops0) ops) (.delete k)).1.idx s) v =
      (if AMap.lookup ((run c (run c init ops0) ops).idx s) v = some k then none
       else AMap.lookup ((run c (run c init ops0) ops).idx s) v) ∧
    byKey c (step c (run c (run c init ops0) ops) (.delete k)).1 s v =
      (if AMap.lookup ((run c (run c init ops0) ops).idx s) v = some k then .none
       else byKey c (run c (run c init ops0) ops) s v) := by
  have hK := kinv_run h0 ops h1 h2
  have hs : (step c (run c (run c init ops0) ops) (.delete k)).1 = (delete c (run c (run c init ops0) ops) k).1 := by
    simp [step, hacc, hk]
  rw [hs]
  have f3 := delete_frame_at (c := c) hK k
  obtain ⟨f1, _⟩ := delete_prim c (run c (run c init ops0) ops) k
  refine ⟨f3, ?_⟩
  unfold byKey
  rw [f3]
  by_cases e : AMap.lookup ((run c (run c init ops0) ops).idx s) v = some k
  · simp [e]
  · simp only [e, if_false]
    cases e2 : AMap.lookup ((run c (run c init ops0) ops).idx s) v with
    | none => rfl
    | some id =>
      have hne : id ≠ k := by intro x; subst x; exact e e2
      simp only [f1 id hne]

/-- Every flavour, every state (no hypothesis): deleting primary `k` changes no other primary's record and removes `k`. -/
theorem delete_frame_prim (c : Cfg) (st : State) (k : Nat) (hacc : c.accepts (.delete k) = true)
    (hk : k ∉ st.term) :
    (∀ id, id ≠ k → AMap.lookup (step c st (.delete k)).1.prim id = AMap.lookup st.prim id) ∧
    AMap.lookup (step c st (.delete k)).1.prim k = none := by
  have hs : (step c st (.delete k)).1 = (delete c st k).1 := by simp [step, hacc, hk]
  rw [hs]
  exact delete_prim c st k

/-! ### subscriber.Manager.TerminateSession is two critical sections (`tpark` … other operations … `tresume`)

  `index_sound`, `index_sound_submgr`, `index_bijection_key_partial` above quantify over ALL histories of `Op`, which
  contains `tpark` and `tresume`: they hold for every interleaving of other operations between the two phases.  What
  makes the window safe on the code as it is, is proved here. -/

/-- Every parked TerminateSession belongs to a live session: between the two critical sections the session is still in
    the session map (every history). -/
theorem terminating_is_live (ops : List Op) (id : Nat) (h : id ∈ (run submgr init ops).term) :
    ∃ r, AMap.lookup (run submgr init ops).prim id = some r :=
  run_submgr_termLive (fun id h => by simp [init] at h) ops id h

/-- THE guard of the window: after any history, while a session's TerminateSession is parked between its two critical
    sections (in fact: while the session is in the session map at all), CreateSession for its MAC is refused — so the
    second critical section, which deletes byMAC[mac] BY VALUE, can only ever delete the entry of the session it is
    removing.  (The seeded change C20e accepts that create; then the second phase deletes the NEW session's entry.) -/
theorem create_refused_in_window (ops : List Op) (id : Nat) (hid : id ∈ (run submgr init ops).term) :
    ∃ r, AMap.lookup (run submgr init ops).prim id = some r ∧
      ∀ m, r.k0 = some m →
        step submgr (run submgr init ops) (.create none (some m) none) = (run submgr init ops, .conflict) := by
  obtain ⟨r, h⟩ := terminating_is_live ops id hid
  have hI : ∀ v, KInv false v (run submgr init ops) :=
    run_submgr_kinv0 (fun v => kinv_init false v) fresh_init ops
  exact ⟨r, h, fun m hm => submgr_create_indexed ((hI m).fwd id r h hm)⟩

/-- A second TerminateSession of a session that is already being torn down is refused and changes nothing. -/
theorem second_terminate_refused (st : State) (id : Nat) (hid : id ∈ st.term) :
    step submgr st (.delete id) = (st, .busy) ∧ step submgr st (.tpark id) = (st, .busy) := by
  simp [step, submgr, submgrAccepts, tpark, hid]

/-- An AssignAddress for a session that is being torn down is refused and changes nothing (fix 9d53e2c: the address
    is handed back) — so the window cannot add a byIP entry that the second phase, which deletes byIP by value of
    the session's address at that time, would leave behind. -/
theorem assign_refused_in_window (st : State) (id a : Nat) (hid : id ∈ st.term) :
    step submgr st (.setKey id true a) = (st, .gone) := by
  simp [step, submgr, submgrAccepts, hid]

/-- Release frame of the second phase, primary map (no hypothesis on the history, any state): it changes no other
    session's record and removes the session. -/
theorem terminate_second_phase_frame_prim (st : State) (k : Nat) (hk : k ∈ st.term) :
    (∀ id, id ≠ k → AMap.lookup (step submgr st (.tresume k)).1.prim id = AMap.lookup st.prim id) ∧
    AMap.lookup (step submgr st (.tresume k)).1.prim k = none := by
  rw [submgr_step_tresume hk]
  exact delete_prim submgr _ k

/-- Release frame of the second phase, MAC index (EVERY history, whatever ran between the two phases): the second
    critical section clears byMAC[m] exactly if it resolved to the session being removed and leaves every other
    entry — hence every other live session's lookup by MAC — unchanged. -/
theorem terminate_second_phase_frame_mac (ops : List Op) (k : Nat) (hk : k ∈ (run submgr init ops).term) (m : Nat) :
    AMap.lookup (step submgr (run submgr init ops) (.tresume k)).1.i0 m =
      (if AMap.lookup (run submgr init ops).i0 m = some k then none else AMap.lookup (run submgr init ops).i0 m) := by
  have hI : KInv false m (run submgr init ops) :=
    run_submgr_kinv0 (fun v => kinv_init false v) fresh_init ops m
  rw [submgr_step_tresume hk]
  exact delete_frame_at (c := submgr) (kinv_term hI _) k

/-- Release frame of the second phase for any key (the address index included), under the per-key hypotheses. -/
theorem terminate_second_phase_frame_key_partial (s : Bool) (v : Nat) (ops0 ops : List Op)
    (h0 : KInv s v (run submgr init ops0))
    (h1 : OnePerKeyAt submgr s v (run submgr init ops0) ops) (h2 : NoRekeyAt submgr s v (run submgr init ops0) ops)
    (k : Nat) (hk : k ∈ (run submgr (run submgr init ops0) ops).term) :
    AMap.lookup ((step submgr (run submgr (run submgr init ops0) ops) (.tresume k)).1.idx s) v =
      (if AMap.lookup ((run submgr (run submgr init ops0) ops).idx s) v = some k then none
       else AMap.lookup ((run submgr (run submgr init ops0) ops).idx s) v) := by
  have hK := kinv_run h0 ops h1 h2
  rw [submgr_step_tresume hk]
  exact delete_frame_at (c := submgr) (kinv_term hK _) k

/-- the window exists and the guard fires in it: session 1 (MAC 1, address 1) is parked; a create for MAC 1 is refused,
    a create for MAC 2 and an assignment run; after the second phase MAC 1 is free again and MAC 2 is still found -/
example :
    let ops : List Op := [.create none (some 1) none, .setKey 1 true 1, .tpark 1]
    (run submgr init ops).term = [1] ∧
    (step submgr (run submgr init ops) (.create none (some 1) none)).2 = .conflict ∧
    lastObs submgr init (ops ++ [.create none (some 2) none, .delete 1, .tresume 1, .byKey false 2]) =
      .found 2 ⟨some 2, none⟩ ∧
    lastObs submgr init (ops ++ [.create none (some 2) none, .tresume 1, .create none (some 1) none]) = .okId 3 := by
  decide

/-- All keys at once (corollary of `index_bijection_key_partial` from the initial state): if the history is clean for
    every key, index and primary map are mutually inverse. -/
theorem index_bijection_inv_partial (c : Cfg) (ops : List Op)
    (h1 : ∀ s v, OnePerKeyAt c s v init ops) (h2 : ∀ s v, NoRekeyAt c s v init ops) :
    (∀ id r s v, AMap.lookup (run c init ops).prim id = some r → r.key s = some v →
      AMap.lookup ((run c init ops).idx s) v = some id) ∧
    (∀ s v id, AMap.lookup ((run c init ops).idx s) v = some id →
      ∃ r, AMap.lookup (run c init ops).prim id = some r ∧ r.key s = some v) :=
  ⟨fun id r s v => (kinv_run (kinv_init s v) ops (h1 s v) (h2 s v)).fwd id r,
   fun s v => (kinv_run (kinv_init s v) ops (h1 s v) (h2 s v)).bwd⟩

/-- All keys at once (corollary of `index_release_frame_key_partial`). -/
theorem index_release_frame_partial (c : Cfg) (ops : List Op)
    (h1 : ∀ s v, OnePerKeyAt c s v init ops) (h2 : ∀ s v, NoRekeyAt c s v init ops)
    (k : Nat) (hacc : c.accepts (.delete k) = true) (hk : k ∉ (run c init ops).term) (s : Bool) (v : Nat) :
    byKey c (step c (run c init ops) (.delete k)).1 s v =
      (if AMap.lookup ((run c init ops).idx s) v = some k then .none else byKey c (run c init ops) s v) :=
  (index_release_frame_key_partial c s v [] ops (kinv_init s v) (h1 s v) (h2 s v) k hacc hk).2

/-! ### non-vacuity: an offending operation on key X, a conclusion for the clean key Y -/

/-- state.Store leases: MAC 1 is given to two live leases (D59) and lease 1 is then re-keyed from MAC 1 to MAC 3 by
    UpdateLease (KF-index-rekey); MAC 2 is clean throughout … -/
def mixedLease : List Op :=
  [.create none (some 1) none, .create none (some 1) none, .create none (some 2) (some 5), .delete 2,
   .update 1 (some 3) none]

example : OnePerKeyAt stLease false 2 init mixedLease ∧ NoRekeyAt stLease false 2 init mixedLease := by decide
example : ¬ OnePerKeyAt stLease false 1 init mixedLease := by decide
example : ¬ NoRekeyAt stLease false 3 init mixedLease := by decide
example : ¬ NoRekeyAt stLease false 1 init mixedLease := by decide

/-- … so the theorem applies to MAC 2 and yields a non-trivial conclusion: lease 3 is live with MAC 2 and
    GetLeaseByMAC(2) resolves to it — although the index is broken for MACs 1 and 3 in the same state. -/
example : AMap.lookup ((run stLease init mixedLease).idx false) 2 = some 3 :=
  (index_bijection_key_partial stLease false 2 [] mixedLease (kinv_init false 2) (by decide) (by decide)).1
    3 ⟨some 2, some 5⟩ (by decide) rfl
example : byKey stLease (run stLease init mixedLease) false 1 = .none ∧
          byKey stLease (run stLease init mixedLease) false 3 = .none ∧
          get (run stLease init mixedLease) 1 = .found 1 ⟨some 3, none⟩ := by decide

/-- restarting after the damage: after `mixedLease` nobody carries MAC 1 and its entry is gone (it was deleted by value
    together with lease 2), so the key is free again and a further history that is clean for MAC 1 is covered, starting
    from that reachable state. -/
example : OnePerKeyAt stLease false 1 (run stLease init mixedLease) [.create none (some 1) none, .delete 3] ∧
          NoRekeyAt stLease false 1 (run stLease init mixedLease) [.create none (some 1) none, .delete 3] := by decide
example : KInv false 1 (run stLease init mixedLease) := key_agrees_of_freeB (by decide)

/-- subscriber.Manager: address 1 is shared by sessions 1 and 2 (D59) and session 3 is re-assigned from address 2 to
    address 3 (KF-index-rekey); address 4 is clean -/
def mixedSubmgr : List Op :=
  [.create none (some 1) none, .create none (some 2) none, .create none (some 3) none, .create none (some 4) none,
   .setKey 1 true 1, .setKey 2 true 1, .setKey 3 true 2, .setKey 3 true 3, .setKey 4 true 4, .delete 2]

example : OnePerKeyAt submgr true 4 init mixedSubmgr ∧ NoRekeyAt submgr true 4 init mixedSubmgr ∧
          ¬ OnePerKeyAt submgr true 1 init mixedSubmgr ∧ ¬ NoRekeyAt submgr true 2 init mixedSubmgr := by decide

/-- stSub (UpdateSubscriber re-indexes): re-keying is allowed by `NoRekeyAt`; memstore: a refused save is exempt -/
example : OnePerKeyAt stSub false 2 init [.create none (some 1) (some 1), .update 1 (some 2) none, .create none (some 1) none] ∧
          NoRekeyAt stSub false 2 init [.create none (some 1) (some 1), .update 1 (some 2) none, .create none (some 1) none] ∧
          NoRekeyAt stSub false 1 init [.create none (some 1) (some 1), .update 1 (some 2) none, .create none (some 1) none] := by
  decide

example : OnePerKeyAt memstore true 1 init [.create (some 1) none (some 1), .create (some 2) none (some 1),
            .create (some 1) none (some 1), .delete 1, .create (some 2) none (some 1)] ∧
          NoRekeyAt memstore true 1 init [.create (some 1) none (some 1), .create (some 2) none (some 1),
            .create (some 1) none (some 1), .delete 1, .create (some 2) none (some 1)] := by decide

/-- memstore loads: address 1 is shared by the stored records, address 2 is clean -/
example : OnePerKeyAt memstore true 2 init [.load [(1, ⟨none, some 1⟩), (2, ⟨none, some 1⟩), (3, ⟨none, some 2⟩)]] ∧
          NoRekeyAt memstore true 2 init [.load [(1, ⟨none, some 1⟩), (2, ⟨none, some 1⟩), (3, ⟨none, some 2⟩)]] ∧
          ¬ OnePerKeyAt memstore true 1 init [.load [(1, ⟨none, some 1⟩), (2, ⟨none, some 1⟩), (3, ⟨none, some 2⟩)]] := by
  decide

example : stLease.accepts (.delete 1) = true ∧ submgr.accepts (.delete 1) = true ∧ stNat.accepts (.delete 1) = true ∧
          stSub.accepts (.delete 1) = true ∧ memstore.accepts (.delete 1) = true := by decide

/-! ### witnesses: the defects on the model (the same histories fail on the real code, corpus/index) -/

/-- D59, subscriber.Manager: sessions p1 and p2 are both assigned address 1 (byIP[1] is overwritten), p2 is
    terminated (byIP[1] deleted by value): p1 is live and carries address 1, but GetSessionByIP finds nothing. -/
theorem D59_witness_submgr :
    get (run submgr init [.create none (some 1) none, .create none (some 2) none, .setKey 1 true 1,
          .setKey 2 true 1, .delete 2]) 1 = .found 1 ⟨some 1, some 1⟩ ∧
    byKey submgr (run submgr init [.create none (some 1) none, .create none (some 2) none, .setKey 1 true 1,
          .setKey 2 true 1, .delete 2]) true 1 = .none := by decide

/-- D59, state.Store leases / sessions: two leases with MAC 1 (leaseByMAC[1] overwritten), the second is deleted
    (deleted by value): the first is live with MAC 1, but GetLeaseByMAC finds nothing. -/
theorem D59_witness_statestore :
    get (run stLease init [.create none (some 1) none, .create none (some 1) none, .delete 2]) 1
      = .found 1 ⟨some 1, none⟩ ∧
    byKey stLease (run stLease init [.create none (some 1) none, .create none (some 1) none, .delete 2]) false 1
      = .none := by decide

/-- D59, state.Store subscribers: two subscribers with MAC 1; UpdateSubscriber moves the first to MAC 2 and deletes
    subscriberByMAC[1] by value — the entry of the second, which stays live with MAC 1 and is no longer found. -/
theorem D59_witness_statestore_sub :
    get (run stSub init [.create none (some 1) none, .create none (some 1) none, .update 1 (some 2) none]) 2
      = .found 2 ⟨some 1, none⟩ ∧
    byKey stSub (run stSub init [.create none (some 1) none, .create none (some 1) none, .update 1 (some 2) none])
      false 1 = .none := by decide

/-- D59, state.Store NAT bindings: two bindings with the same public endpoint (natByPublic overwritten), the older one
    is deleted (by value): the newer one is live, but GetNATBindingByPublic finds nothing. -/
theorem D59_witness_statestore_nat :
    get (run stNat init [.create none (some 1) (some 1), .create none (some 2) (some 1), .delete 1]) 2
      = .found 2 ⟨some 2, some 1⟩ ∧
    byKey stNat (run stNat init [.create none (some 1) (some 1), .create none (some 2) (some 1), .delete 1]) true 1
      = .none := by decide

/-- D59 through the LOAD path of MemoryAllocationStore: UnmarshalJSON of two stored allocations with address 1
    rebuilds byIP without a uniqueness check (the later record wins): allocation 1 is live with address 1 but
    GetByIP(1) answers allocation 2; after RemoveAllocation of allocation 2 (byIP[1] deleted by value) allocation 1 is
    still live and GetByIP(1) finds nothing — and SaveAllocation then gives address 1 to a third allocation. -/
theorem D59_witness_memstore_load :
    get (run memstore init [.load [(1, ⟨none, some 1⟩), (2, ⟨none, some 1⟩)]]) 1 = .found 1 ⟨none, some 1⟩ ∧
    byKey memstore (run memstore init [.load [(1, ⟨none, some 1⟩), (2, ⟨none, some 1⟩)]]) true 1
      = .found 2 ⟨none, some 1⟩ ∧
    get (run memstore init [.load [(1, ⟨none, some 1⟩), (2, ⟨none, some 1⟩)], .delete 2]) 1
      = .found 1 ⟨none, some 1⟩ ∧
    byKey memstore (run memstore init [.load [(1, ⟨none, some 1⟩), (2, ⟨none, some 1⟩)], .delete 2]) true 1 = .none ∧
    (step memstore (run memstore init [.load [(1, ⟨none, some 1⟩), (2, ⟨none, some 1⟩)], .delete 2])
      (.create (some 3) none (some 1))).2 = .okId 3 := by decide

/-- KF-index-rekey, MemoryAllocationStore: allocation 1 is saved with address 1 and re-saved with address 2;
    byIP[1] stays: address 1 still answers with allocation 1 (which holds address 2), keeps answering after
    allocation 1 is removed, and is refused to allocation 2 for ever. -/
theorem rekey_witness_memstore :
    get (run memstore init [.create (some 1) none (some 1), .create (some 1) none (some 2)]) 1
      = .found 1 ⟨none, some 2⟩ ∧
    byKey memstore (run memstore init [.create (some 1) none (some 1), .create (some 1) none (some 2)]) true 1
      = .found 1 ⟨none, some 1⟩ ∧
    get (run memstore init [.create (some 1) none (some 1), .create (some 1) none (some 2), .delete 1]) 1 = .none ∧
    byKey memstore (run memstore init [.create (some 1) none (some 1), .create (some 1) none (some 2), .delete 1])
      true 1 = .found 1 ⟨none, some 1⟩ ∧
    (step memstore (run memstore init [.create (some 1) none (some 1), .create (some 1) none (some 2), .delete 1])
      (.create (some 2) none (some 1))).2 = .conflict := by decide

/-- KF-index-rekey, state.Store leases / sessions: UpdateLease changes MAC 1 → 2 and maintains no index: the lease is
    not found by its MAC 2, MAC 1 still answers with it, and after DeleteLease MAC 1 points to nothing. -/
theorem rekey_witness_statestore :
    byKey stLease (run stLease init [.create none (some 1) (some 1), .update 1 (some 2) (some 1)]) false 2 = .none ∧
    byKey stLease (run stLease init [.create none (some 1) (some 1), .update 1 (some 2) (some 1)]) false 1
      = .found 1 ⟨some 2, some 1⟩ ∧
    byKey stLease (run stLease init [.create none (some 1) (some 1), .update 1 (some 2) (some 1), .delete 1]) false 1
      = .dangling := by decide

/-- KF-store-alias, state.Store leases / sessions: CreateLease keeps the caller's pointer, so the caller's write
    `lease.MAC = 2` (no API call: `poke`) changes the stored record; leaseByMAC still files it under MAC 1 — the
    lookup by MAC 1 answers with a lease whose MAC is 2, the lookup by MAC 2 finds nothing. -/
theorem alias_witness_statestore :
    let ops : List Op := [.create none (some 1) (some 1), .poke 1 false (some 2)]
    ¬ NoRekeyAt stLease false 1 init ops ∧
    lastObs stLease init (ops ++ [.byKey false 1]) = .found 1 ⟨some 2, some 1⟩ ∧
    lastObs stLease init (ops ++ [.byKey false 2]) = .none := by
  decide

/-- KF-store-alias, state.Store subscribers (which store COPIES): GetSubscriber returns the stored record itself; the
    read-modify-write `s := Get(id); s.NTEID = 2; UpdateSubscriber(s)` writes the stored record before the update
    compares it with the incoming one, so the update sees no change and leaves subscriberByNTE[1] behind — NTE 1 keeps
    resolving to a subscriber that holds NTE 2. -/
theorem alias_witness_statestore_sub :
    let ops : List Op := [.create none (some 1) (some 1), .poke 1 true (some 2), .update 1 (some 1) (some 2)]
    ¬ NoRekeyAt stSub true 1 init ops ∧
    lastObs stSub init (ops ++ [.byKey true 1]) = .found 1 ⟨some 1, some 2⟩ ∧
    lastObs stSub init (ops ++ [.delete 1, .byKey true 1]) = .dangling := by
  decide

/-- what the unchanged code DOES guarantee for subscribers: an update through a fresh or a detached object (no write
    through an aliasing pointer) re-indexes — the same history without the `poke` leaves no stale entry. -/
example :
    lastObs stSub init [.create none (some 1) (some 1), .update 1 (some 1) (some 2), .update 1 (some 1) (some 3),
      .byKey true 2] = .none ∧
    lastObs stSub init [.create none (some 1) (some 1), .update 1 (some 1) (some 2), .update 1 (some 1) (some 3),
      .byKey true 3] = .found 1 ⟨some 1, some 3⟩ := by
  decide

/-- KF-index-rekey, subscriber.Manager: a second AssignAddress leaves byIP[old] behind; after TerminateSession the old
    address points to nothing (GetSessionByIP answers (nil, true)). -/
theorem rekey_witness_submgr :
    byKey submgr (run submgr init [.create none (some 1) none, .setKey 1 true 1, .setKey 1 true 2]) true 1
      = .found 1 ⟨some 1, some 2⟩ ∧
    byKey submgr (run submgr init [.create none (some 1) none, .setKey 1 true 1, .setKey 1 true 2, .delete 1]) true 1
      = .dangling := by decide

end Bng.Spec.C20Index
