import Bng.Proof.AcctNames
/-
  C08 — the file names the accounting manager derives from a session id.

  The small-step model (Bng.Acct, theorems of Bng.Spec.C08) keys the recovery files by the session id and treats the
  ids as opaque.  The code keys them by FILE NAME: `sessions/` + url.PathEscape(id) + ".json", written through
  `<name>.tmp`, found again at start-up by `filepath.Ext(name) == ".json"`.  The theorems below are what the model's
  identification of "the file of session id" with "the entry of id" needs, for ALL byte strings as ids (prefixes of
  one another, ids ending in .json / .tmp, glob metacharacters, path separators, dot segments, NUL, non-ASCII).
  `fileName` is tied to the code by the correspondence run of component acct (the real directory listing is compared
  with `fileName` of the model's files, under id schemes that exercise exactly these shapes).
-/
namespace Bng.Spec.C08Names
open Bng.AcctNames

/-- Two different session ids never share a recovery file: a session's file is written, rewritten and removed only
    by operations on that session, whatever the ids are (`sub-1` / `sub-10`, `sub-1` / `sub-1.json`, `a/b` / `a%2Fb`). -/
theorem fileName_injective (a b : List UInt8) (h : fileName a = fileName b) : a = b :=
  escape_injective a b (List.append_cancel_right h)

/-- The recovery file of every session is a plain entry of the `sessions` directory: its name contains no path
    separator and no NUL, is not `.` or `..` (so no id can place a file outside the directory, in a sub-directory the
    recovery does not descend into, or on top of pending.json), and contains none of the glob metacharacters
    `* ? [ \`. -/
theorem fileName_stays_in_directory (id : List UInt8) :
    (∀ c ∈ fileName id, c ≠ 0x2f ∧ c ≠ 0 ∧ c ≠ 0x2a ∧ c ≠ 0x3f ∧ c ≠ 0x5b ∧ c ≠ 0x5c) ∧
    fileName id ≠ [0x2e] ∧ fileName id ≠ [0x2e, 0x2e] := by
  refine ⟨fun c hc => ?_, ?_, ?_⟩
  · have hs := fileName_safe id c hc
    refine ⟨?_, ?_, ?_, ?_, ?_, ?_⟩ <;> (intro e; subst e; revert hs; decide)
  · intro h; have := congrArg List.length h; simp [fileName, dotJson] at this
  · intro h; have := congrArg List.length h; simp [fileName, dotJson] at this

/-- The recovery at start-up looks at exactly the directory entries whose extension (from the last dot) is `.json`:
    every session's file passes that filter, whatever the id ends in (`x.tmp`, `x.`, `x.json`). -/
theorem fileName_is_recovered (id : List UInt8) : extIsJson (fileName id) = true := by
  simp [extIsJson, fileName, dotJson, List.takeWhile]

/-- The temporary file of a rewrite in progress (`<file>.tmp`) is never the recovery file of any session — so a
    rename or a left-over temporary file cannot replace or shadow another session's file — and is skipped by the
    recovery's `.json` filter. -/
theorem tmp_is_no_session_file (a b : List UInt8) :
    tmpName (fileName a) ≠ fileName b ∧ extIsJson (tmpName (fileName a)) = false := by
  constructor
  · intro h
    have := congrArg List.reverse h
    simp [tmpName, fileName, dotJson, dotTmp] at this
  · simp [extIsJson, tmpName, fileName, dotJson, dotTmp, List.takeWhile]

/-- An id made of ASCII letters, digits and `- _ . ~ $ & + : = @` (every id the gateway generates itself: hex
    strings) keeps the file name `<id>.json` it had before ids were escaped. -/
theorem fileName_of_plain_id (id : List UInt8) (h : ∀ c ∈ id, keep c = true) : fileName id = id ++ dotJson := by
  simp [fileName, escape_plain id h]

/-- Why the escaping is there (finding KF-acct-session-file-path, fixed): with the raw name `<id>.json` the id `a/b`
    names a file in a sub-directory the recovery never reads, and `../pending` names pending.json itself. -/
theorem raw_name_leaves_directory :
    -- "a/b" ++ ".json" contains '/'
    (0x2f : UInt8) ∈ [0x61, 0x2f, 0x62] ++ dotJson ∧
    -- "../pending" ++ ".json" = "../pending.json"
    [0x2e, 0x2e, 0x2f, 0x70, 0x65, 0x6e, 0x64, 0x69, 0x6e, 0x67] ++ dotJson = [0x2e, 0x2e, 0x2f, 0x70, 0x65, 0x6e, 0x64, 0x69, 0x6e, 0x67, 0x2e, 0x6a, 0x73, 0x6f, 0x6e] := by
  decide

-- non-vacuity / the function on the shapes the harness exercises (byte strings spelled out)
/-- sub-1 ↦ sub-1.json -/
example : fileName [0x73, 0x75, 0x62, 0x2d, 0x31] = [0x73, 0x75, 0x62, 0x2d, 0x31, 0x2e, 0x6a, 0x73, 0x6f, 0x6e] := by decide
/-- sub-1.json ↦ sub-1.json.json -/
example : fileName [0x73, 0x75, 0x62, 0x2d, 0x31, 0x2e, 0x6a, 0x73, 0x6f, 0x6e] = [0x73, 0x75, 0x62, 0x2d, 0x31, 0x2e, 0x6a, 0x73, 0x6f, 0x6e, 0x2e, 0x6a, 0x73, 0x6f, 0x6e] := by decide
/-- a/b ↦ a%2Fb.json -/
example : fileName [0x61, 0x2f, 0x62] = [0x61, 0x25, 0x32, 0x46, 0x62, 0x2e, 0x6a, 0x73, 0x6f, 0x6e] := by decide
/-- a%2Fb ↦ a%252Fb.json -/
example : fileName [0x61, 0x25, 0x32, 0x46, 0x62] = [0x61, 0x25, 0x32, 0x35, 0x32, 0x46, 0x62, 0x2e, 0x6a, 0x73, 0x6f, 0x6e] := by decide
/-- ../pending ↦ ..%2Fpending.json -/
example : fileName [0x2e, 0x2e, 0x2f, 0x70, 0x65, 0x6e, 0x64, 0x69, 0x6e, 0x67] = [0x2e, 0x2e, 0x25, 0x32, 0x46, 0x70, 0x65, 0x6e, 0x64, 0x69, 0x6e, 0x67, 0x2e, 0x6a, 0x73, 0x6f, 0x6e] := by decide
/-- sub-* ↦ sub-%2A.json -/
example : fileName [0x73, 0x75, 0x62, 0x2d, 0x2a] = [0x73, 0x75, 0x62, 0x2d, 0x25, 0x32, 0x41, 0x2e, 0x6a, 0x73, 0x6f, 0x6e] := by decide
example : ∃ id : List UInt8, (∀ c ∈ id, keep c = true) ∧ id ≠ [] := ⟨[0x61], by decide, by decide⟩

end Bng.Spec.C08Names
