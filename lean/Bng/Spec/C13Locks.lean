import Bng.Proof.LockFacts
/-
  C13 — lock discipline of the HA session store (structural part).

  `Bng.Gen.Locks.locks` is REGENERATED on every run by harness/cmd/extractlocks from the repository's working tree.
  Model/HaSync.lean treats a store write and a snapshot as atomic steps; that is sound only while each store operation
  is one critical section covering the session map.
-/
namespace Bng.Spec.C13Locks
open Bng.LockFacts

/-- the session store: writes hold the lock exclusively, the snapshot holds it shared, all to the end of the method -/
theorem store_operations_are_one_critical_section :
    oneDeferredSection "ha.InMemorySessionStore.PutSession" "s.mu" ["s.sessions"] = true ∧
    oneDeferredSection "ha.InMemorySessionStore.DeleteSession" "s.mu" ["s.sessions"] = true ∧
    known "ha.InMemorySessionStore.GetAllSessions" = true ∧
    acqOf "ha.InMemorySessionStore.GetAllSessions" "s.mu" = ["R"] ∧
    deferredUnlock "ha.InMemorySessionStore.GetAllSessions" "s.mu" = true ∧
    accessesUnder "ha.InMemorySessionStore.GetAllSessions" ["s.sessions"] "s.mu" = true := by decide

end Bng.Spec.C13Locks
