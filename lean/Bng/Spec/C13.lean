import Bng.Proof.HaSync
/-
  C13 — Standby converges to the active node's session table.

  Property statements only.  Every theorem quantifies over all configurations (channel capacities), all
  add/update/delete histories on the active and all schedules of broadcast, delivery, full sync, stream
  attachment and disconnection (`ops : List Op` is an arbitrary interleaving of all of them).

  Status: the full-sync clause holds at full strength on the repaired code (D41 fixed by cfe226e).  The
  "every pushed change is applied" and "converges" clauses are false for the code as it is (recorded findings
  D42, D43); what IS proved is stated under the findings' exclusion clauses, and each finding is proved on the
  model by a witness theorem.
-/
namespace Bng.Spec.C13
open Bng Bng.HaSync AMap

/-- the two tables agree as maps -/
def SameTable (a b : Table) : Prop := ∀ k, lookup a k = lookup b k

/-- link up, active quiet, nothing in flight -/
def Quiescent (s : State) : Prop := s.connected = true ∧ s.client = some [] ∧ s.pending = []

instance (s : State) : Decidable (Quiescent s) := by unfold Quiescent; infer_instance

/-- Immediately after a completed full synchronisation the standby's session table (and its
    received-session map) equals the active's snapshot — for every history before it, in particular when
    sessions were deleted on the active while the standby was away (D41, fixed). -/
theorem fullsync_equals_snapshot (c : Cfg) (ops : List Op) :
    SameTable (fullSync (run (init c) ops)).1.store (run (init c) ops).table ∧
    SameTable (fullSync (run (init c) ops)).1.received (run (init c) ops).table := by
  have hI := inv_run (inv_init c) ops
  exact ⟨fun k => fullSyncApply_store (run (init c) ops).store _ hI.nodup k,
         fun k => fullSyncApply_received (run (init c) ops).store _ hI.nodup k⟩

/-- While a stream is attached, what the standby has applied followed by what still sits in the client
    channel is exactly what entered the channel, which is an in-order selection of what was broadcast, and
    broadcast order is push order (strictly increasing sequence numbers): the standby applies the delivered
    prefix of the stream in push order, never out of order and never twice. -/
theorem stream_in_order (c : Cfg) (ops : List Op) (ch : List Msg)
    (hc : (run (init c) ops).client = some ch) :
    (run (init c) ops).applied ++ ch = (run (init c) ops).sent ∧
    (run (init c) ops).sent.Sublist (run (init c) ops).bcast ∧
    List.Pairwise (· < ·) ((run (init c) ops).bcast.map (·.seq)) := by
  have hI := inv_run (inv_init c) ops
  refine ⟨hI.chan ch hc, hI.sub, ?_⟩
  have := hI.incr
  rw [List.map_append] at this
  exact (List.pairwise_append.mp this).1

/-- exclusion clause of D43 for the stream clause: in this attachment a broadcast found the client channel full -/
def excl_D43_stream (s : State) : Bool := s.dropEpoch

/-- PARTIAL (finding D43 excluded): unless a broadcast found the client channel full during this
    attachment, EVERY change broadcast while the stream was attached has been applied by the standby or
    is still in the channel, in push order.  Missing for full strength: `broadcastToClients` drops the
    change when the channel is full (`D43_stream_witness`). -/
theorem stream_complete_partial (c : Cfg) (ops : List Op) (ch : List Msg)
    (hc : (run (init c) ops).client = some ch)
    (hx : excl_D43_stream (run (init c) ops) = false) :
    (run (init c) ops).applied ++ ch = (run (init c) ops).bcast := by
  have hI := inv_run (inv_init c) ops
  rw [hI.chan ch hc]
  exact hI.nodrop hx

/-- exclusion clause of D42: since the last full sync, a change made after its snapshot was broadcast while
    no stream was attached -/
def excl_D42 (s : State) : Bool := s.gapLost

/-- exclusion clause of D43 for convergence: a change was dropped by a full client channel (or refused by the
    full change queue) and no full sync has found the pipeline empty since -/
def excl_D43 (s : State) : Bool := s.lostFull

/-- PARTIAL (findings D42 and D43 excluded): once the link is up (a full sync completed and the stream has
    not been lost since), the active is quiet and nothing is in flight, the standby holds exactly the
    active's sessions.  Missing for full strength: a change made between the full sync's snapshot and the
    stream attachment reaches nobody (`D42_witness`), and a change that finds the client channel full is
    dropped (`D43_witness`). -/
theorem converges_partial (c : Cfg) (ops : List Op)
    (hq : Quiescent (run (init c) ops))
    (hs : (run (init c) ops).fullSynced = true)
    (h42 : excl_D42 (run (init c) ops) = false)
    (h43 : excl_D43 (run (init c) ops) = false) :
    SameTable (run (init c) ops).store (run (init c) ops).table := by
  have hI := inv_run (inv_init c) ops
  intro k
  rcases hI.S hs h42 h43 k with h | ⟨m, hm, _, _⟩
  · exact h
  · simp [State.inflight, hq.2.1, hq.2.2] at hm

/-! ### recorded findings, proved on the model -/

def cfg1 : Cfg := { capC := 1, capP := 1000 }

/-- D42: full sync, then a session is added and broadcast before the stream is attached; the link comes up,
    the active is quiet, nothing is in flight — and the standby does not have the session. -/
def w42 : List Op := [.fullSync, .add 1 1, .broadcast, .attach]

theorem D42_witness :
    Quiescent (run (init cfg1) w42) ∧ (run (init cfg1) w42).fullSynced = true ∧
    excl_D42 (run (init cfg1) w42) = true ∧ excl_D43 (run (init cfg1) w42) = false ∧
    lookup (run (init cfg1) w42).store 1 = none ∧ lookup (run (init cfg1) w42).table 1 = some 1 := by
  decide

/-- D43: with the stream attached, an add and a delete of the same session are pushed; the delete finds the
    client channel full and is dropped; after everything is delivered the standby keeps a session the active
    no longer has. -/
def w43 : List Op := [.fullSync, .attach, .add 1 1, .delete 1, .broadcast, .broadcast, .deliver]

theorem D43_witness :
    Quiescent (run (init cfg1) w43) ∧ (run (init cfg1) w43).fullSynced = true ∧
    excl_D43 (run (init cfg1) w43) = true ∧ excl_D42 (run (init cfg1) w43) = false ∧
    lookup (run (init cfg1) w43).store 1 = some 1 ∧ lookup (run (init cfg1) w43).table 1 = none := by
  decide

/-- D43, stream clause: the dropped change was broadcast while the stream was attached and is neither
    applied nor in the channel. -/
theorem D43_stream_witness :
    (run (init cfg1) w43).client = some [] ∧ excl_D43_stream (run (init cfg1) w43) = true ∧
    (run (init cfg1) w43).applied.length = 1 ∧ (run (init cfg1) w43).bcast.length = 2 := by
  decide

/-! non-vacuity: the hypotheses of the partial theorems are satisfiable together, on a history that
    exercises delete-while-away, reconnect, and in-order streaming -/
example : let s := run (init cfg1) [.add 1 1, .broadcast, .fullSync, .attach, .disconnect, .delete 1, .add 2 5,
      .broadcast, .broadcast, .fullSync, .attach, .update 2 7, .broadcast, .deliver]
    s.connected = true ∧ s.client = some [] ∧ s.pending = [] ∧ s.fullSynced = true ∧
    excl_D42 s = false ∧ excl_D43 s = false ∧ excl_D43_stream s = false ∧ s.store = [(2, 7)] := by decide

end Bng.Spec.C13
