import Bng.Proof.HaSync
/-
  C13 — Standby converges to the active node's session table.

  Property statements only.  Every theorem quantifies over all configurations (channel capacities), all
  add/update/delete histories on the active and all schedules of broadcast, delivery, full sync, stream
  attachment and disconnection (`ops : List Op` is an arbitrary interleaving of all of them).

  Status: the full-sync clause holds at full strength on the repaired code (D41 fixed by cfe226e).  The
  "every pushed change is applied" and "converges" clauses are false for the code as it is (recorded findings
  D42, D43); what IS proved is stated under the findings' exclusion clauses, and each finding is proved on the
  model by a witness theorem.
-/
namespace Bng.Spec.C13
open Bng Bng.HaSync AMap

/-- the two tables agree as maps -/
def SameTable (a b : Table) : Prop := ∀ k, lookup a k = lookup b k

/-- link up, active quiet, nothing in flight -/
def Quiescent (s : State) : Prop := s.connected = true ∧ s.client = some [] ∧ s.pending = []

instance (s : State) : Decidable (Quiescent s) := by unfold Quiescent; infer_instance

/-- Immediately after a completed full synchronisation the standby's session table (and its
    received-session map) equals the active's snapshot — for every history before it, in particular when
    sessions were deleted on the active while the standby was away (D41, fixed). -/
theorem fullsync_equals_snapshot (c : Cfg) (ops : List Op) :
    SameTable (fullSync (run (init c) ops)).1.store (run (init c) ops).table ∧
    SameTable (fullSync (run (init c) ops)).1.received (run (init c) ops).table := by
  have hI := inv_run (inv_init c) ops
  exact ⟨fun k => fullSyncApply_store (run (init c) ops).store _ hI.nodup k,
         fun k => fullSyncApply_received (run (init c) ops).store _ hI.nodup k⟩

/-- While a stream is attached, what the standby has applied followed by what still sits in the client
    channel is exactly what entered the channel, which is an in-order selection of what was broadcast, and
    broadcast order is push order (strictly increasing sequence numbers of the changes; heartbeats carry no
    change): the standby applies the delivered prefix of the stream in push order, never out of order and never
    twice. -/
theorem stream_in_order (c : Cfg) (ops : List Op) (ch : List Msg)
    (hc : (run (init c) ops).client = some ch) :
    (run (init c) ops).applied ++ ch = (run (init c) ops).sent ∧
    (run (init c) ops).sent.Sublist (run (init c) ops).bcast ∧
    List.Pairwise (· < ·) ((changes (run (init c) ops).bcast).map (·.seq)) := by
  have hI := inv_run (inv_init c) ops
  refine ⟨hI.chan ch hc, hI.sub, ?_⟩
  have := hI.incr
  rw [List.map_append] at this
  exact (List.pairwise_append.mp this).1

/-- exclusion clause of D43 for the stream clause: in this attachment a broadcast found the client channel full
    (`dropped` lists the changes concerned) -/
def excl_D43_stream (s : State) : Bool := !s.dropped.isEmpty

/-- PARTIAL (finding D43 excluded): unless a broadcast found the client channel full during this
    attachment, EVERY message broadcast while the stream was attached has been applied by the standby or
    is still in the channel, in push order.  Missing for full strength: `broadcastToClients` drops the
    change when the channel is full (`D43_stream_witness`). -/
theorem stream_complete_partial (c : Cfg) (ops : List Op) (ch : List Msg)
    (hc : (run (init c) ops).client = some ch)
    (hx : excl_D43_stream (run (init c) ops) = false) :
    (run (init c) ops).applied ++ ch = (run (init c) ops).bcast := by
  have hI := inv_run (inv_init c) ops
  rw [hI.chan ch hc]
  apply hI.nodrop
  simpa [excl_D43_stream] using hx

/-- exclusion clause of D42, per session: since the last full sync, a change to session `k` made after that
    sync's snapshot was broadcast while no stream was attached -/
def excl_D42 (s : State) (k : Nat) : Bool := decide (k ∈ s.gapKeys)

/-- exclusion clause of D43 for convergence, per session: a change to session `k` was dropped by a full client
    channel (or refused by the full change queue) and no snapshot has been taken since with nothing about `k`
    in flight -/
def excl_D43 (s : State) (k : Nat) : Bool := decide (k ∈ s.fullKeys)

/-- PARTIAL (findings D42 and D43 excluded, session by session): once the link is up (a snapshot was applied and
    the stream has not been lost since), the active is quiet and nothing is in flight, the standby holds exactly
    the active's value for EVERY session that is not in the scope of one of the two findings.  Missing for full
    strength: a change made between the full sync's snapshot and the stream attachment reaches nobody
    (`D42_witness`), and a change that finds the client channel full is dropped (`D43_witness`). -/
theorem converges_partial (c : Cfg) (ops : List Op)
    (hq : Quiescent (run (init c) ops))
    (hs : (run (init c) ops).fullSynced = true) (k : Nat)
    (h42 : excl_D42 (run (init c) ops) k = false)
    (h43 : excl_D43 (run (init c) ops) k = false) :
    lookup (run (init c) ops).store k = lookup (run (init c) ops).table k := by
  have hI := inv_run (inv_init c) ops
  rcases hI.S hs k (by simpa [excl_D42] using h42) (by simpa [excl_D43] using h43) with h | ⟨m, hm, _, _⟩
  · exact h
  · simp [State.inflight, hq.2.1, hq.2.2] at hm

/-! ### what the history variables behind the clauses record (one equation per variable, for every state and
    operation): the clauses are not free parameters of the theorems -/

/-- `gapKeys` grows exactly when a change newer than the last snapshot is broadcast with no stream attached, and
    is emptied by every snapshot. -/
theorem gapKeys_step (s : State) (op : Op) :
    (step s op).1.gapKeys =
      match op with
      | .broadcast => (match s.pending, s.client with
          | m :: _, none => if s.snapSeq < m.seq then s.gapKeys ++ [m.key] else s.gapKeys
          | _, _ => s.gapKeys)
      | .fullSync => []
      | .streamFull => if s.client.isSome then [] else s.gapKeys
      | _ => s.gapKeys := by
  cases op <;> simp only [step, push, broadcast, fullSync, streamFull, heartbeat, attach, deliver, disconnect]
  all_goals ((repeat' split) <;> (try simp_all) <;> (try omega))

/-- `fullKeys` grows exactly when PushChange refuses a change (queue full) or a broadcast finds the client channel
    full, and a snapshot removes exactly the sessions about which nothing is in flight any more. -/
theorem fullKeys_step (s : State) (op : Op) :
    (step s op).1.fullKeys =
      match op with
      | .add k _ | .update k _ | .delete k =>
          if s.pending.length < s.cfg.capP then s.fullKeys else s.fullKeys ++ [k]
      | .broadcast => (match s.pending, s.client with
          | m :: _, some ch => if ch.length < s.cfg.capC then s.fullKeys else s.fullKeys ++ [m.key]
          | _, _ => s.fullKeys)
      | .fullSync => s.fullKeys.filter fun k => s.inflight.any (·.touches k)
      | .streamFull => if s.client.isSome then s.fullKeys.filter fun k => s.inflight.any (·.touches k) else s.fullKeys
      | _ => s.fullKeys := by
  cases op <;> simp only [step, push, broadcast, fullSync, streamFull, heartbeat, attach, deliver, disconnect]
  all_goals ((repeat' split) <;> (try simp_all) <;> (try omega))

/-- so a session leaves the scope of D43 at the first snapshot taken with nothing about it in flight — in
    particular under continuous traffic on OTHER sessions; a session that is itself changed continuously stays
    excluded until a snapshot catches it between changes (converges_partial says nothing about it meanwhile). -/
theorem excl_D43_resets (s : State) (k : Nat) (h : s.inflight.any (·.touches k) = false) :
    excl_D43 (fullSync s).1 k = false := by
  simp [excl_D43, fullSync, h]

/-- `dropped` grows exactly when a broadcast finds the attached client channel full; attach and disconnect
    empty it. -/
theorem dropped_step (s : State) (op : Op) :
    (step s op).1.dropped =
      match op with
      | .broadcast => (match s.pending, s.client with
          | m :: _, some ch => if ch.length < s.cfg.capC then s.dropped else s.dropped ++ [m]
          | _, _ => s.dropped)
      | .attach => if s.client.isSome then s.dropped else []
      | .disconnect => if s.client.isSome then [] else s.dropped
      | _ => s.dropped := by
  cases op <;> simp only [step, push, broadcast, fullSync, streamFull, heartbeat, attach, deliver, disconnect]
  all_goals ((repeat' split) <;> (try simp_all) <;> (try omega))

/-- `fullSynced` ("the link is up") is set by a snapshot and cleared by losing the stream, nothing else. -/
theorem fullSynced_step (s : State) (op : Op) :
    (step s op).1.fullSynced =
      match op with
      | .fullSync => true
      | .streamFull => if s.client.isSome then true else s.fullSynced
      | .disconnect => if s.client.isSome then false else s.fullSynced
      | _ => s.fullSynced := by
  cases op <;> simp only [step, push, broadcast, fullSync, streamFull, heartbeat, attach, deliver, disconnect]
  all_goals ((repeat' split) <;> (try simp_all) <;> (try omega))

/-! ### the standby's connection loop -/

theorem loopRun_append (pc : Pc) (a b : List LoopEv) :
    loopRun pc (a ++ b) = (loopRun pc a).bind fun pc' => loopRun pc' b := by
  induction a generalizing pc with
  | nil => simp [loopRun]
  | cons e rest ih =>
    simp only [List.cons_append, loopRun]
    cases loopStep pc e with
    | none => simp
    | some pc' => simp [ih]

/-- Every (re)establishment of the stream is immediately preceded by a successful full sync: in every run of
    `standbyLoop`, from its start, each `streamOk` comes right after a `syncOk` — never after a failed stream
    attempt, the end of a stream or a back-off without a fresh snapshot in between. -/
theorem stream_established_only_after_fresh_snapshot (evs pre post : List LoopEv) (pc : Pc)
    (hrun : loopRun .top evs = some pc) (hsplit : evs = pre ++ .streamOk :: post) :
    ∃ pre', pre = pre' ++ [.syncOk] := by
  subst hsplit
  rw [loopRun_append] at hrun
  cases h1 : loopRun .top pre with
  | none => simp [h1] at hrun
  | some pc1 =>
    simp only [h1, Option.bind_some, loopRun] at hrun
    -- the stream request is only issued from `afterSync`
    have hpc : pc1 = .afterSync := by
      cases pc1 <;> simp [loopStep] at hrun
      rfl
    subst hpc
    -- and `afterSync` is only entered by `syncOk`
    rcases List.eq_nil_or_concat pre with hnil | ⟨pre', e, hcat⟩
    · subst hnil; simp [loopRun] at h1
    · subst hcat
      rw [List.concat_eq_append] at h1 ⊢
      refine ⟨pre', ?_⟩
      rw [loopRun_append] at h1
      cases h2 : loopRun .top pre' with
      | none => simp [h2] at h1
      | some pc2 =>
        simp only [h2, Option.bind_some, loopRun] at h1
        have : e = .syncOk := by
          cases pc2 <;> cases e <;> simp [loopStep] at h1
          rfl
        rw [this]

/-- … and in terms of the data model: what the loop does to the standby between two stream establishments always
    contains a snapshot, so the stream is attached with `fullSynced` set. -/
theorem loop_attach_has_snapshot (evs : List LoopEv) (pc : Pc) (hrun : loopRun .top evs = some pc)
    (hpc : pc = .streaming) : ∃ pre, evs = pre ++ [.syncOk, .streamOk] := by
  subst hpc
  rcases List.eq_nil_or_concat evs with hnil | ⟨pre, e, hcat⟩
  · subst hnil; simp [loopRun] at hrun
  · subst hcat
    rw [List.concat_eq_append] at hrun ⊢
    have he : e = .streamOk := by
      rw [loopRun_append] at hrun
      cases h2 : loopRun .top pre with
      | none => simp [h2] at hrun
      | some pc2 =>
        simp only [h2, Option.bind_some, loopRun] at hrun
        cases pc2 <;> cases e <;> simp [loopStep] at hrun
        rfl
    subst he
    obtain ⟨pre', hp⟩ := stream_established_only_after_fresh_snapshot (pre ++ [.streamOk]) pre [] .streaming hrun (by simp)
    exact ⟨pre', by rw [hp]; simp⟩

example : loopRun .top [.syncOk, .streamFail, .wake, .syncOk, .streamOk, .streamEnd, .wake, .syncFail, .wake, .syncOk,
    .streamOk] = some .streaming := by decide
-- what the seeded change C13f does (stream retried without a snapshot) is not a run of the loop
example : loopRun .top [.syncOk, .streamFail, .wake, .streamOk] = none := by decide

/-! ### recorded findings, proved on the model -/

def cfg1 : Cfg := { capC := 1, capP := 1000 }

/-- D42: full sync, then a session is added and broadcast before the stream is attached; the link comes up,
    the active is quiet, nothing is in flight — and the standby does not have the session. -/
def w42 : List Op := [.fullSync, .add 1 1, .broadcast, .attach]

theorem D42_witness :
    Quiescent (run (init cfg1) w42) ∧ (run (init cfg1) w42).fullSynced = true ∧
    excl_D42 (run (init cfg1) w42) 1 = true ∧ excl_D43 (run (init cfg1) w42) 1 = false ∧
    lookup (run (init cfg1) w42).store 1 = none ∧ lookup (run (init cfg1) w42).table 1 = some 1 := by
  decide

/-- D43: with the stream attached, an add and a delete of the same session are pushed; the delete finds the
    client channel full and is dropped; after everything is delivered the standby keeps a session the active
    no longer has. -/
def w43 : List Op := [.fullSync, .attach, .add 1 1, .delete 1, .broadcast, .broadcast, .deliver]

theorem D43_witness :
    Quiescent (run (init cfg1) w43) ∧ (run (init cfg1) w43).fullSynced = true ∧
    excl_D43 (run (init cfg1) w43) 1 = true ∧ excl_D42 (run (init cfg1) w43) 1 = false ∧
    lookup (run (init cfg1) w43).store 1 = some 1 ∧ lookup (run (init cfg1) w43).table 1 = none := by
  decide

/-- D43, stream clause: the dropped change was broadcast while the stream was attached and is neither
    applied nor in the channel. -/
theorem D43_stream_witness :
    (run (init cfg1) w43).client = some [] ∧ excl_D43_stream (run (init cfg1) w43) = true ∧
    (run (init cfg1) w43).applied.length = 1 ∧ (run (init cfg1) w43).bcast.length = 2 := by
  decide

/-- D43 through a heartbeat: the keep-alive occupies the only slot of the client channel and the next change is
    dropped. -/
theorem D43_heartbeat_witness :
    let s := run (init cfg1) [.fullSync, .attach, .heartbeat, .add 1 1, .broadcast, .deliver]
    Quiescent s ∧ excl_D43 s 1 = true ∧ lookup s.store 1 = none ∧ lookup s.table 1 = some 1 := by
  decide

/-- KF-ha-push-race (outside the single-writer assumption under which every theorem above is stated): the caller's
    store write and `PushChange` are two separate steps, and `PushChange` takes its sequence number before it
    enqueues.  Two concurrent writers of one session — put(7) then delete in store order, delete then update in
    queue order — leave the active without the session and the standby, which applies in queue order and never
    reads the sequence number, with it.  Reproduced on the real code by harness/cmd/pushstress. -/
theorem KF_push_race_witness :
    lookup (AMap.erase (AMap.insert ([] : Table) 1 7) 1) 1 = none ∧
    lookup (applyMsg (applyMsg ([] : Table) ⟨2, .delete, 1, 0⟩) ⟨1, .update, 1, 7⟩) 1 = some 7 := by
  decide

/-! non-vacuity: the hypotheses of the partial theorems are satisfiable together, on a history that
    exercises delete-while-away, reconnect, heartbeats, an in-stream snapshot and in-order streaming; and a session
    outside the findings' scope converges although another session is inside it -/
example : let s := run (init cfg1) [.add 1 1, .broadcast, .fullSync, .attach, .disconnect, .delete 1, .add 2 5,
      .broadcast, .broadcast, .fullSync, .attach, .heartbeat, .deliver, .update 2 7, .broadcast, .deliver, .streamFull]
    s.connected = true ∧ s.client = some [] ∧ s.pending = [] ∧ s.fullSynced = true ∧
    excl_D42 s 2 = false ∧ excl_D43 s 2 = false ∧ excl_D43_stream s = false ∧ s.store = [(2, 7)] := by decide
example : let s := run (init cfg1) (w42 ++ [.add 2 2, .broadcast, .deliver])
    excl_D42 s 1 = true ∧ excl_D42 s 2 = false ∧ excl_D43 s 2 = false ∧ lookup s.store 2 = lookup s.table 2 := by decide

end Bng.Spec.C13
