import Bng.Proof.Bitmap
import Bng.Proof.BitmapRefine
/-
  C01 — No address or prefix is ever held by two subscribers at once.

  Property statements only (helper lemmas live in Bng/Proof).  Every theorem quantifies over ALL
  operation sequences `ops` and all pool geometries; nothing is bounded.
-/
namespace Bng.Spec.C01
open Bng Bng.Bitmap AMap

/-! ## bitmap allocator (pkg/allocator/bitmap.go) -/

/-- geometries accepted by `NewIPAllocator` whose unit count fits the code's uint64 arithmetic -/
def GoodCfg (c : Cfg) : Prop :=
  c.poolPrefix ≤ c.plen ∧ c.plen ≤ c.famBits ∧ c.plen - c.poolPrefix < 64

/-- Uniqueness: after any history, two subscribers never hold the same unit. -/
theorem bitmap_unique (c : Cfg) (hc : GoodCfg c) (ops : List Op) (k₁ k₂ i : Nat)
    (h₁ : (run (init c) ops).allocated.lookup k₁ = some i)
    (h₂ : (run (init c) ops).allocated.lookup k₂ = some i) : k₁ = k₂ := by
  have hI := inv_run (inv_init c hc.2.2) ops
  have a := hI.fwd k₁ i h₁
  have b := hI.fwd k₂ i h₂
  rw [a] at b
  simpa using b

/-- Distinct units are distinct addresses/prefixes (the arithmetic of getPrefixByIndex). -/
theorem prefixOf_injective (c : Cfg) (i j : Nat) (h : prefixOf c i = prefixOf c j) : i = j := by
  unfold prefixOf at h
  have hs : 0 < c.step := Nat.pow_pos (by omega)
  have : i * c.step = j * c.step := by omega
  exact Nat.eq_of_mul_eq_mul_right hs this

/-- Uniqueness at the level the API reports: the addresses two different subscribers look up differ. -/
theorem bitmap_unique_addr (c : Cfg) (hc : GoodCfg c) (ops : List Op) (k₁ k₂ a : Nat)
    (h₁ : Bitmap.lookup (run (init c) ops) k₁ = .okAddr a)
    (h₂ : Bitmap.lookup (run (init c) ops) k₂ = .okAddr a) : k₁ = k₂ := by
  unfold Bitmap.lookup at h₁ h₂
  split at h₁ <;> try simp at h₁
  split at h₂ <;> try simp at h₂
  rename_i i hi _ j hj
  have hc' : (run (init c) ops).cfg = c := by
    exact run_cfg _ _
  rw [hc'] at h₁ h₂
  have : i = j := prefixOf_injective c i j (by rw [h₁, h₂])
  subst this
  exact bitmap_unique c hc ops k₁ k₂ i hi hj

/-- In range: every held unit's whole prefix lies inside the configured pool. -/
theorem bitmap_in_range (c : Cfg) (hc : GoodCfg c) (ops : List Op) (k i : Nat)
    (h : (run (init c) ops).allocated.lookup k = some i) :
    c.base ≤ prefixOf c i ∧ prefixOf c i + c.step ≤ c.base + 2 ^ (c.famBits - c.poolPrefix) := by
  have hI := inv_run (inv_init c hc.2.2) ops
  have hlt := hI.lt k i h
  have hcfg : (run (init c) ops).cfg = c := by
    exact run_cfg _ _
  rw [hcfg, total_eq hc.2.2] at hlt
  unfold prefixOf
  refine ⟨Nat.le_add_right _ _, ?_⟩
  have hpow : c.totalBig * c.step = 2 ^ (c.famBits - c.poolPrefix) := by
    unfold Cfg.totalBig Cfg.step
    rw [← Nat.pow_add]
    congr 1
    have := hc.1; have := hc.2.1
    omega
  have : (i + 1) * c.step ≤ c.totalBig * c.step := Nat.mul_le_mul_right _ hlt
  rw [hpow] at this
  have e : (i + 1) * c.step = i * c.step + c.step := by
    rw [Nat.add_mul, Nat.one_mul]
  omega

/-- Idempotence: a subscriber that asks again while holding a unit gets the same one and nothing changes. -/
theorem bitmap_idempotent (s : State) (k i : Nat) (h : s.allocated.lookup k = some i) :
    alloc s k = (s, .okAddr (prefixOf s.cfg i)) := by
  unfold alloc
  simp [h]

/-- Forward and reverse lookups agree in every reachable state. -/
theorem bitmap_lookups_agree (c : Cfg) (hc : GoodCfg c) (ops : List Op) (k i : Nat) :
    (run (init c) ops).allocated.lookup k = some i ↔ (run (init c) ops).idx2sub.lookup i = some k := by
  have hI := inv_run (inv_init c hc.2.2) ops
  exact ⟨hI.fwd k i, hI.bwd k i⟩

/-- Refinement to the abstract pool: along EVERY history the pool monitor `PoolSpec.check` — the very
    definition `bngdrv` evaluates on the real allocator's answers (clauses unique, idempotent, range,
    agree, count, total, exhaustion, lost) — raises no verdict on the model's answers. -/
theorem bitmap_refines_poolspec (c : Cfg) (hc : GoodCfg c) (ops : List Op) :
    monRun c [] (trace (init c) ops) = [] := by
  have hI := inv_init c hc.2.2
  have hR : Rel (init c) [] := ⟨by intro k; simp [init], nodupKeys_nil, by simp [init]⟩
  exact monRun_silent hI hR ops

/-! non-vacuity: a concrete geometry satisfies the hypotheses and a concrete history holds a unit -/
example : GoodCfg { famBits := 32, poolPrefix := 29, plen := 32, base := 0x0a000000 } := by
  unfold GoodCfg; decide
example : (run (init { famBits := 32, poolPrefix := 29, plen := 32, base := 0x0a000000 })
    [.alloc 1, .alloc 2, .release 1, .alloc 3]).allocated.lookup 3 = some 0 := by decide

end Bng.Spec.C01
