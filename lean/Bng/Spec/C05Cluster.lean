import Bng.Proof.PeerCluster
import Bng.Proof.FreeListGen
/-
  C05 — a cluster of pool.PeerPool nodes: leaks and counts.

  Per node nothing leaks and Stats() is true (each node's LocalPool is a reachable free list).  Across
  the cluster a Release that is routed to another node than the one that holds the subscriber's address is
  answered "ok" and frees nothing: the address stays allocated at the holding node for ever (finding
  KF-peerpool-failover-orphan; it needs a node to be considered unhealthy at the allocation or at the release).
-/
namespace Bng.Spec.C05Cluster
open Bng Bng.PeerCluster AMap
open Bng.FreeList (Cfg V4Cfg GoodV4 localCfg genLocal_nodup)

def GoodCfg (c : Cfg) : Prop := c.univ.Nodup ∧ c.lookupFirst = true

/-- Per-node conservation and true figures, for every cluster history: what node j holds and what is on
    its free list is a permutation of the configured universe, and its Stats() are the true counts. -/
theorem cluster_node_conservation (c : Cfg) (hc : GoodCfg c) (n : Nat) (ops : List Op) (j : Nat)
    (st : FreeList.State) (h : AMap.lookup (run (init c n) ops).nodes j = some st) :
    (vals st.held ++ st.avail).Perm c.univ ∧
      FreeList.stats st = .stats st.held.length st.avail.length c.univ.length 0 := by
  have hI := nodesInv_run (nodesInv_init c hc.1 hc.2 n) ops j st h
  -- no cluster operation marks anything unavailable
  have hm : ∀ (ops : List Op) (s : State), (∀ j st, AMap.lookup s.nodes j = some st → st.marked = []) →
      ∀ j st, AMap.lookup (run s ops).nodes j = some st → st.marked = [] := by
    intro ops
    induction ops with
    | nil => intro s hs; exact hs
    | cons op ops ih =>
      intro s hs
      simp only [run, List.foldl_cons]
      apply ih
      intro j st hst
      cases op with
      | alloc i k r =>
        simp only [step, onNode] at hst
        split at hst
        · rename_i st0 h0
          simp only [lookup_insert] at hst
          split at hst
          · simp only [Option.some.injEq] at hst; subst hst
            have := hs _ st0 h0
            unfold FreeList.alloc; split <;> try exact this
            split <;> exact this
          · exact hs j st hst
        · exact hs j st hst
      | release i k r =>
        simp only [step, onNode] at hst
        split at hst
        · rename_i st0 h0
          simp only [lookup_insert] at hst
          split at hst
          · simp only [Option.some.injEq] at hst; subst hst
            have := hs _ st0 h0
            unfold FreeList.release; split <;> exact this
          · exact hs j st hst
        · exact hs j st hst
      | get i k o =>
        simp only [step] at hst
        split at hst
        · split at hst <;> exact hs j st hst
        · exact hs j st hst
      | health i j' hl => exact hs j st hst
      | stats i =>
        simp only [step] at hst
        split at hst <;> exact hs j st hst
  have hmark : st.marked = [] := by
    apply hm ops (init c n) _ j st h
    intro j st hst
    have := lookup_mkNodes hst
    subst this; rfl
  have hp := FreeList.marked_nil_parked_nil hI.1 hmark
  have hperm := hI.1.perm
  have hcnt := hI.1.count
  rw [hp] at hperm hcnt
  rw [hI.2] at hperm hcnt
  simp only [List.append_nil, List.length_nil, Nat.add_zero] at hperm hcnt
  refine ⟨hperm, ?_⟩
  unfold FreeList.stats
  rw [hmark]
  congr 1
  omega

/-- Release, the part that holds: a release routed to the node where the subscriber holds its address
    removes the holding there and puts the address back on that node's free list. -/
theorem cluster_release_partial (c : Cfg) (n : Nat) (ops : List Op)
    (i k a : Nat) (ranked : List Nat)
    (h : heldAt (run (init c n) ops) (healthyOwner (run (init c n) ops) i ranked) k = some a) :
    let s := run (init c n) ops
    let j := healthyOwner s i ranked
    heldAt (step s (.release i k ranked)).1 j k = none ∧
      ∃ st, AMap.lookup (step s (.release i k ranked)).1.nodes j = some st ∧ a ∈ st.avail := by
  generalize run (init c n) ops = s at *
  show heldAt (step s (.release i k ranked)).1 (healthyOwner s i ranked) k = none ∧
      ∃ st, AMap.lookup (step s (.release i k ranked)).1.nodes (healthyOwner s i ranked) = some st ∧ a ∈ st.avail
  unfold heldAt at h
  split at h
  · rename_i st hst
    have e : FreeList.release st k =
        ({ st with held := AMap.erase st.held k, avail := st.avail ++ [a], rev := if st.cfg.hasRev then AMap.erase st.rev a else st.rev }, .ok) := by
      simp [FreeList.release, h]
    constructor
    · unfold heldAt
      simp [step, onNode, hst, e]
    · refine ⟨(FreeList.release st k).1, ?_, ?_⟩
      · simp [step, onNode, hst]
      · rw [e]; simp
  · simp at h

/-- KF-peerpool-failover-orphan as a leak, on the model: the release of subscriber 6 is answered by node 2
    (healthy again), which holds nothing for it; node 1 keeps the address it handed out while it believed
    node 2 to be down, and reports it as allocated. -/
theorem KF_peerpool_failover_orphan_leak_witness :
    let s := run (init { univ := [2, 3, 4], hasRev := true } 2)
      [.health 1 2 false, .alloc 1 6 [2, 1], .health 1 2 true, .release 1 6 [2, 1]]
    heldAt s 1 6 = some 2 ∧ heldAt s 2 6 = none ∧
      (step s (.release 1 6 [2, 1])).2 = .served 2 .ok ∧
      (step s (.stats 1)).2 = .stats (.stats 1 2 3 0) := by decide

/-! non-vacuity -/
example : GoodCfg (localCfg { net := 0x0a000000, ones := 29, gw := 0x0a000001 }) :=
  ⟨genLocal_nodup ⟨by decide, by decide, by decide⟩, rfl⟩

end Bng.Spec.C05Cluster
