import Bng.Model.PoolAlias
/-
  C01 — witnesses of the aliasing defects of dhcp.Pool that fix 7ce824d removed (review r-gaps B2), on the model of
  the pool as it WAS (Bng.PoolAlias: slices as cells).  The pool as it is hands out copies and keeps its own
  slices: its model (Bng.FreeList, theorems of Spec.C01FreeList / C05FreeList) has no cells, and the `scribble`
  probe of the dhcppool harness — which performs exactly these writes on the real pool — is no operation.
  Property statements only.
-/
namespace Bng.Spec.C01Alias
open Bng Bng.PoolAlias

/-- Release queued the CALLER's slice: m1 holds 10.0.0.2 and m2 10.0.0.3; the caller releases 10.0.0.2 with a slice
    of its own and then reuses that slice for 10.0.0.3 (the next packet).  The free list now spells 10.0.0.3 a
    second time: after m3 has taken 10.0.0.4, m4 is bound to 10.0.0.3 — the address m2 still holds. -/
theorem dhcppool_release_alias_witness :
    let s0 := init [0x0a000002, 0x0a000003, 0x0a000004]
    let s1 := (allocate (allocate s0 1).1 2).1
    let (s2, c) := callerCell s1 0x0a000002
    let s3 := write (release s2 c) c 0x0a000003
    let s4 := (allocate (allocate s3 3).1 4).1
    bound s1 1 = some 0x0a000002 ∧ bound s1 2 = some 0x0a000003 ∧
      bound s4 2 = some 0x0a000003 ∧ bound s4 4 = some 0x0a000003 ∧ bound s4 3 = some 0x0a000004 ∧
      -- without the write through the released slice m4 gets 10.0.0.2 back
      bound (allocate (allocate (release s2 c) 3).1 4).1 4 = some 0x0a000002 := by
  decide

/-- Allocate returned the table's own slice: the caller normalises the result in place (here: to 10.0.0.9); the
    binding of m1 now spells an address the pool never had, Release(10.0.0.2) finds nothing, and 10.0.0.2 never
    returns to the free list (two clients exhaust a pool of three). -/
theorem dhcppool_result_alias_witness :
    let s0 := init [0x0a000002, 0x0a000003, 0x0a000004]
    let r := allocate s0 1
    let s1 := write r.1 (r.2.getD 0) 0x0a000009
    let (s2, c) := callerCell s1 0x0a000002
    let s3 := release s2 c
    bound s1 1 = some 0x0a000009 ∧ s3.free = s1.free ∧ bound s3 1 = some 0x0a000009 ∧
      (allocate (allocate (allocate s3 2).1 3).1 4).2 = none := by
  decide

end Bng.Spec.C01Alias
