import Bng.Proof.PeerCluster
import Bng.Proof.FreeListGen
/-
  C01 — a CLUSTER of pool.PeerPool nodes (pkg/pool/peer.go), each with its LocalPool, all configured with
  the same peers and the same pool network.

  Within one node everything the free-list theorems say holds for every history (`cluster_node_inv`).
  Across nodes the property is FALSE, in two recorded ways:
    KF-peerpool-shared-range      every node builds the same free list, so two subscribers owned by different
                                  nodes are given the same address — in a perfectly healthy cluster;
    KF-peerpool-failover-orphan   a request served while the rank-first owner is considered unhealthy leaves a
                                  holding at the fallback node that later requests (routed to the owner again)
                                  do not see: the subscriber is given a second, different address.
  What IS proved (`_partial`): uniqueness and idempotence among requests served by the same node, and — with
  no node ever considered unhealthy — that a subscriber only ever holds an address at the top of its ranking.
-/
namespace Bng.Spec.C01Cluster
open Bng Bng.PeerCluster AMap
open Bng.FreeList (Cfg V4Cfg GoodV4 localCfg genLocal_nodup)

def GoodCfg (c : Cfg) : Prop := c.univ.Nodup ∧ c.lookupFirst = true

/-- every node's local pool is, after any cluster history, a reachable free-list state -/
theorem cluster_node_inv (c : Cfg) (hc : GoodCfg c) (n : Nat) (ops : List Op) (j : Nat) (st : FreeList.State)
    (h : AMap.lookup (run (init c n) ops).nodes j = some st) : FreeList.Inv st ∧ st.cfg = c :=
  nodesInv_run (nodesInv_init c hc.1 hc.2 n) ops j st h

theorem good_local (c : V4Cfg) (hc : GoodV4 c) : GoodCfg (localCfg c) := ⟨genLocal_nodup hc, rfl⟩

/-- Uniqueness, the part that holds: two subscribers never hold the same address AT THE SAME NODE. -/
theorem cluster_unique_partial (c : Cfg) (hc : GoodCfg c) (n : Nat) (ops : List Op) (j k₁ k₂ a : Nat)
    (h₁ : heldAt (run (init c n) ops) j k₁ = some a) (h₂ : heldAt (run (init c n) ops) j k₂ = some a) :
    k₁ = k₂ := by
  unfold heldAt at h₁ h₂
  split at h₁
  · rename_i st hst
    simp only [hst] at h₂
    exact (cluster_node_inv c hc n ops j st hst).1.unique h₁ h₂
  · simp at h₁

/-- In range: whatever a subscriber holds at any node was generated from the configured network. -/
theorem cluster_in_range (c : Cfg) (hc : GoodCfg c) (n : Nat) (ops : List Op) (j k a : Nat)
    (h : heldAt (run (init c n) ops) j k = some a) : a ∈ c.univ := by
  unfold heldAt at h
  split at h
  · rename_i st hst
    have hI := cluster_node_inv c hc n ops j st hst
    have := hI.1.held_in_univ h
    rwa [hI.2] at this
  · simp at h

/-- Idempotence, the part that holds: a request routed to the node where the subscriber holds an
    address is answered with that address. -/
theorem cluster_idempotent_partial (c : Cfg) (hc : GoodCfg c) (n : Nat) (ops : List Op)
    (i k a : Nat) (ranked : List Nat)
    (h : heldAt (run (init c n) ops) (healthyOwner (run (init c n) ops) i ranked) k = some a) :
    (step (run (init c n) ops) (.alloc i k ranked)).2 =
      .served (healthyOwner (run (init c n) ops) i ranked) (.okAddr a) := by
  generalize hs : run (init c n) ops = s at *
  unfold heldAt at h
  split at h
  · rename_i st hst
    have hI := (hs ▸ cluster_node_inv c hc n ops _ st) hst
    simp only [step, onNode, hst]
    rw [freelist_idem st hI.1.lf k a h]
  · simp at h
where
  freelist_idem (st : FreeList.State) (hl : st.cfg.lookupFirst = true) (k a : Nat)
      (h : st.held.lookup k = some a) : FreeList.alloc st k = (st, .okAddr a) := by
    unfold FreeList.alloc; simp [hl, h]

/-- the operations of a history in which nobody is ever declared unhealthy and every request for
    subscriber k carries the ranking `rk k` -/
def Calm (rk : Nat → List Nat) : Op → Prop
  | .alloc _ k r => r = rk k
  | .release _ k r => r = rk k
  | .health _ _ h => h = true
  | _ => True

/-- With no node ever considered unhealthy (the negated clause of KF-peerpool-failover-orphan) a
    subscriber holds an address only at the top of its ranking: every request for it reaches that node,
    so asking again, Get and Release all see the holding.  (Every node ranks at least itself, so rankings
    are not empty.) -/
theorem cluster_calm_single_holder_partial (c : Cfg) (n : Nat) (rk : Nat → List Nat)
    (hrk : ∀ k, rk k ≠ []) (ops : List Op)
    (hcalm : ∀ op, op ∈ ops → Calm rk op) (j k a : Nat)
    (h : heldAt (run (init c n) ops) j k = some a) : (rk k).head? = some j := by
  have key : ∀ (ops : List Op) (s : State), (∀ op, op ∈ ops → Calm rk op) → s.unhealthy = [] →
      (∀ j k a, heldAt s j k = some a → (rk k).head? = some j) →
      ∀ j k a, heldAt (run s ops) j k = some a → (rk k).head? = some j := by
    intro ops
    induction ops with
    | nil => intro s _ _ hh; exact hh
    | cons op ops ih =>
      intro s hc hu hh
      simp only [run, List.foldl_cons]
      have hop := hc op List.mem_cons_self
      apply ih (step s op).1 (fun o ho => hc o (List.mem_cons_of_mem _ ho))
      · cases op with
        | alloc i k r => simp only [step, onNode]; split <;> exact hu
        | release i k r => simp only [step, onNode]; split <;> exact hu
        | get i k o =>
          simp only [step]; split
          · split <;> exact hu
          · exact hu
        | health i j' hl =>
          have : hl = true := hop
          subst this
          simp [step, hu]
        | stats i => simp only [step]; split <;> exact hu
      · intro j' k' a' hheld
        cases op with
        | alloc i k r =>
          have hr : r = rk k := hop
          subst hr
          cases hrk' : rk k with
          | nil => exact absurd hrk' (hrk k)
          | cons top rest =>
            simp only [step, onNode, hrk', healthyOwner_calm s hu] at hheld
            split at hheld
            · rename_i st hst
              unfold heldAt at hheld
              simp only [lookup_insert] at hheld
              by_cases e : j' = top
              · subst e
                simp only [if_true] at hheld
                rcases alloc_held_of st k k' a' hheld with e2 | e2
                · subst e2; simp [hrk']
                · exact hh j' k' a' (by unfold heldAt; simp [hst, e2])
              · simp only [e, if_false] at hheld
                exact hh j' k' a' (by unfold heldAt; exact hheld)
            · exact hh j' k' a' hheld
        | release i k r =>
          simp only [step, onNode] at hheld
          split at hheld
          · rename_i st hst
            unfold heldAt at hheld
            simp only [lookup_insert] at hheld
            by_cases e : j' = healthyOwner s i r
            · simp only [e, if_true] at hheld
              exact hh j' k' a' (by unfold heldAt; rw [e]; simp [hst, release_held_of st k k' a' hheld])
            · simp only [e, if_false] at hheld
              exact hh j' k' a' (by unfold heldAt; exact hheld)
          · exact hh j' k' a' hheld
        | get i k o =>
          simp only [step] at hheld
          split at hheld
          · split at hheld <;> exact hh j' k' a' hheld
          · exact hh j' k' a' hheld
        | health i j'' hl => exact hh j' k' a' hheld
        | stats i =>
          simp only [step] at hheld
          split at hheld <;> exact hh j' k' a' hheld
  refine key ops (init c n) hcalm rfl ?_ j k a h
  intro j k a h0
  unfold heldAt at h0
  split at h0
  · rename_i st hst
    have := lookup_mkNodes hst
    subst this
    simp [FreeList.init] at h0
  · simp at h0

/-- KF-peerpool-shared-range, as a theorem about the model: two nodes, nobody unhealthy, subscriber 1 is
    owned by node 1 and subscriber 6 by node 2 — both are given the first address of the common list. -/
theorem KF_peerpool_shared_range_witness :
    let s := run (init { univ := [2, 3, 4], hasRev := true } 2) [.alloc 1 1 [1, 2], .alloc 1 6 [2, 1]]
    heldAt s 1 1 = some 2 ∧ heldAt s 2 6 = some 2 := by decide

/-- KF-peerpool-failover-orphan, as a theorem about the model: subscriber 6 (owner: node 2) is served by
    node 1 while node 1 considers node 2 unhealthy; once node 2 counts as healthy again the same request
    is routed to node 2, which knows nothing of the holding and hands out a second, different address. -/
theorem KF_peerpool_failover_orphan_witness :
    let s := run (init { univ := [2, 3, 4], hasRev := true } 2)
      [.alloc 2 9 [2, 1], .health 1 2 false, .alloc 1 6 [2, 1], .health 1 2 true, .alloc 1 6 [2, 1]]
    heldAt s 1 6 = some 2 ∧ heldAt s 2 6 = some 3 := by decide

/-! non-vacuity -/
example : GoodCfg (localCfg { net := 0x0a000000, ones := 29, gw := 0x0a000001 }) :=
  good_local _ ⟨by decide, by decide, by decide⟩
example : Calm (fun _ => [1, 2]) (.alloc 2 5 [1, 2]) := rfl
example : heldAt (run (init (localCfg { net := 0x0a000000, ones := 29, gw := 0x0a000001 }) 2)
    [.alloc 2 5 [1, 2]]) 1 5 = some 0x0a000002 := by decide

end Bng.Spec.C01Cluster
