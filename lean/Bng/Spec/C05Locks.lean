import Bng.Proof.LockFacts
/-
  C01 / C05 — lock discipline of the address allocators (structural part).

  `Bng.Gen.Locks.locks` is REGENERATED on every run by harness/cmd/extractlocks from the repository's working tree.  The
  allocator models (Model/Bitmap.lean, Model/Epoch.lean, Model/PeerCluster.lean: `allocateLocal`) execute each public
  operation as ONE atomic step; concurrent callers are then ordinary histories ("burst = one allocate",
  `burst_equals_single_allocate`).  That is sound only while each operation is one exclusive critical section that
  covers every access to the allocator's tables.  Here the kernel decides on the regenerated table that it is: a
  check-then-act split (look up under a read lock, drop it, allocate under the write lock) breaks an obligation at once.
-/
namespace Bng.Spec.C05Locks
open Bng.LockFacts

/-- the bitmap allocator: Allocate, Release and SetAllocation are each one exclusive critical section -/
theorem bitmap_operations_are_one_critical_section :
    oneDeferredSection "allocator.IPAllocator.Allocate" "a.mu" ["a.allocated", "a.indexToSubscriber", "a.subscriberToIndex"] = true ∧
    oneDeferredSection "allocator.IPAllocator.Release" "a.mu" ["a.allocated", "a.indexToSubscriber", "a.subscriberToIndex"] = true ∧
    oneDeferredSection "allocator.IPAllocator.SetAllocation" "a.mu" ["a.allocated", "a.indexToSubscriber", "a.subscriberToIndex"] = true ∧
    writesUnderW "allocator.IPAllocator.Allocate" ["a.allocated", "a.indexToSubscriber"] "a.mu" = true ∧
    writesUnderW "allocator.IPAllocator.Release" ["a.allocated", "a.indexToSubscriber"] "a.mu" = true := by decide

/-- the epoch allocator: Allocate, Renew, Release and AdvanceEpoch are each one exclusive critical section -/
theorem epoch_operations_are_one_critical_section :
    oneDeferredSection "allocator.EpochBitmapAllocator.Allocate" "a.mu" ["a.subscribers", "a.ipToSubscriber", "a.generations", "a.currentEpoch", "a.nextFreeHint"] = true ∧
    oneDeferredSection "allocator.EpochBitmapAllocator.Renew" "a.mu" ["a.subscribers", "a.ipToSubscriber", "a.generations", "a.currentEpoch", "a.nextFreeHint"] = true ∧
    oneDeferredSection "allocator.EpochBitmapAllocator.Release" "a.mu" ["a.subscribers", "a.ipToSubscriber", "a.generations", "a.currentEpoch", "a.nextFreeHint"] = true ∧
    oneDeferredSection "allocator.EpochBitmapAllocator.AdvanceEpoch" "a.mu" ["a.subscribers", "a.ipToSubscriber", "a.generations", "a.currentEpoch", "a.nextFreeHint"] = true ∧
    writesUnderW "allocator.EpochBitmapAllocator.AdvanceEpoch" ["a.currentEpoch"] "a.mu" = true := by decide

/-- the peer pool's local allocation and release: ONE exclusive section of the local pool's mutex covering the
    "already allocated?" lookup and the allocation itself (the model's `allocateLocal` is a single step) -/
theorem local_pool_allocate_and_release_are_one_critical_section :
    oneDeferredSection "pool.PeerPool.allocateLocal" "p.localPool.mu" ["p.localPool"] = true ∧
    oneDeferredSection "pool.PeerPool.releaseLocal" "p.localPool.mu" ["p.localPool"] = true ∧
    writesUnderW "pool.PeerPool.allocateLocal" ["p.localPool"] "p.localPool.mu" = true ∧
    writesUnderW "pool.PeerPool.releaseLocal" ["p.localPool"] "p.localPool.mu" = true := by decide

/-- non-vacuity: a method with no lock at all (pppoe.IPPool, owned by the single receive goroutine) does NOT satisfy
    the predicate, so the predicate is not trivially true -/
example : oneDeferredSection "pppoe.IPPool.Allocate" "p.mu" ["p.allocated", "p.available"] = false := by decide

end Bng.Spec.C05Locks
