import Bng.Proof.Dhcp4
import Bng.Proof.Dhcp6
/-
  C02 — DHCP servers never bind one address or prefix to two clients.

  Property statements only (helper lemmas live in Bng/Proof).  Every theorem quantifies over ALL message
  histories `ops` (messages of any clients with any requested address / ciaddr / giaddr / option 82, virtual-time
  advances, cleanup passes in any map-iteration order) from the initial state of ANY pool configuration.

  DHCPv4 (pkg/dhcp server.go + pool.go, as fixed by the three `fix:` commits of this property).
  Known finding D9: a relayed message whose MAC has no lease is matched to whatever lease the circuit-id index
  holds for its option-82 circuit-id — another client's, or a stale one.  `noCircuitHit` is the exclusion clause:
  no message of the history takes that path.  The theorems marked `_partial` assume it; `D9_witness` proves the
  defect on the model.  `v4_pool_never_double_books` needs no clause at all.
-/
namespace Bng.Spec.C02
open Bng Bng.Dhcp4 AMap

/-! ## DHCPv4 -/

/-- the address an OFFER or a (non-INFORM) ACK carries -/
def served : Op → Reply → Option Nat
  | .discover _, .offer ip _ => some ip
  | .request _, .ack ip _ => some ip
  | _, _ => none

/-- Invariant `Bind4` after every history that never takes the circuit-id path: the pool never books an address
    twice and serves only usable, undeclined host addresses, and every lease (expired or not) is backed by the
    pool binding of the same MAC or — in Nexus mode — is that MAC's Nexus allocation.  Histories include cleanup
    passes split at their lock gap (`Op.cleanupApply` with ANY scan time and MAC list, after any messages).
    `NexusOk c` is the assumption about the external Nexus API (its allocations are unique per address and are not
    host addresses of the local pool); it holds trivially when the HTTP allocator is not configured. -/
theorem v4_bind4_partial (c : Cfg) (hN : NexusOk c) (ops : List Op) (hn : noCircuitHit (init c) ops = true) :
    Bind4 (run (init c) ops) :=
  bind4_run (bind4_init c hN) ops hn

/-- Without any clause (also under finding D9, and whatever Nexus answers): the POOL never holds one address for
    two MACs, never has an address both free and allocated or twice on the free list, and holds only host addresses
    of the network that are not the network, broadcast or gateway address and were not declined. -/
theorem v4_pool_never_double_books (c : Cfg) (ops : List Op) :
    PoolInv c (run (init c) ops).pool := by
  have := poolInv_run (s := init c) (poolInv_init c) ops
  rw [run_cfg] at this
  exact this

/-- One binding per address: two leases in the table (unexpired or not) on the same address belong to the same MAC. -/
theorem v4_one_binding_per_addr_partial (c : Cfg) (hN : NexusOk c) (ops : List Op)
    (hn : noCircuitHit (init c) ops = true) (k₁ k₂ : Nat) (l₁ l₂ : Lease)
    (h₁ : lookup (run (init c) ops).leases k₁ = some l₁)
    (h₂ : lookup (run (init c) ops).leases k₂ = some l₂) (he : l₁.ip = l₂.ip) : k₁ = k₂ := by
  have hI := v4_bind4_partial c hN ops hn
  have a : Backed _ k₁ l₁.ip := hI.held _ _ h₁
  have b : Backed _ k₂ l₂.ip := hI.held _ _ h₂
  rw [he] at a
  exact backing_unique hI a b

/-- An ACK never carries an address that is leased or offered (held in the pool) to a different MAC. -/
theorem v4_ack_not_foreign_partial (c : Cfg) (hN : NexusOk c) (ops : List Op)
    (hn : noCircuitHit (init c) ops = true)
    (m : Msg) (hm : circuitHit (run (init c) ops) m = false) (ip lt : Nat)
    (hack : (request (run (init c) ops) m).2 = .ack ip lt) (k : Nat) (hk : k ≠ m.mac) :
    lookup (run (init c) ops).pool.allocated k ≠ some ip ∧
    ∀ l, lookup (run (init c) ops).leases k = some l → l.ip ≠ ip := by
  have hI := v4_bind4_partial c hN ops hn
  generalize run (init c) ops = s at *
  have hI' : Bind4 (request s m).1 := bind4_step hI (.request m) hm
  obtain ⟨l0, hl0, hip0⟩ := ack_lease hack
  have hmine : Backed (request s m).1 m.mac ip := by rw [← hip0]; exact hI'.held _ _ hl0
  have hoth := request_others s m k hk
  constructor
  · intro h
    have : Backed (request s m).1 k ip := Or.inl (by rw [hoth.1]; exact h)
    exact hk (backing_unique hI' this hmine)
  · intro l hl e
    have : Backed (request s m).1 k ip := by rw [← e]; exact hI'.held _ _ (by rw [hoth.2]; exact hl)
    exact hk (backing_unique hI' this hmine)

/-- Everything served (OFFER or ACK `yiaddr`) is a host address of the pool's network that is not the network,
    broadcast or gateway address and was never declined — or, in Nexus mode, is a Nexus allocation. -/
theorem v4_served_in_pool_partial (c : Cfg) (hN : NexusOk c) (ops : List Op)
    (hn : noCircuitHit (init c) ops = true)
    (op : Op) (hop : hits (run (init c) ops) op = false) (ip : Nat)
    (hs : served op (step (run (init c) ops) op).2 = some ip) :
    (c.usable ip = true ∧ ip ∉ (step (run (init c) ops) op).1.pool.unavailable) ∨
    (∃ k, c.nexusLookup k = some ip) := by
  have hI := v4_bind4_partial c hN ops hn
  have hI' := bind4_step hI op hop
  have hcfg' : (step (run (init c) ops) op).1.cfg = c := by rw [step_cfg, run_cfg]; rfl
  generalize run (init c) ops = s at *
  -- after the step the served address is backed for some client
  suffices h : ∃ k, Backed (step s op).1 k ip by
    obtain ⟨k, hk | hk⟩ := h
    · have := hI'.pool.allocOk _ _ hk
      rw [hcfg'] at this
      exact Or.inl this
    · rw [hcfg'] at hk; exact Or.inr ⟨k, hk⟩
  cases op with
  | discover m =>
    simp only [hits] at hop
    cases e : (discover s m).2 with
    | offer a lt =>
      simp only [step, e, served, Option.some.injEq] at hs
      subst hs
      exact ⟨m.mac, offer_backed hI hop e⟩
    | ack a lt => simp [step, e, served] at hs
    | nak => simp [step, e, served] at hs
    | none => simp [step, e, served] at hs
  | request m =>
    cases e : (request s m).2 with
    | ack a lt =>
      simp only [step, e, served, Option.some.injEq] at hs
      subst hs
      obtain ⟨l, hl, hip⟩ := ack_lease e
      exact ⟨m.mac, by rw [← hip]; exact hI'.held _ _ hl⟩
    | offer a lt => simp [step, e, served] at hs
    | nak => simp [step, e, served] at hs
    | none => simp [step, e, served] at hs
  | release mac => simp [served] at hs
  | decline mac r => simp [served] at hs
  | inform mac => simp [served] at hs
  | advance dt => simp [served] at hs
  | cleanup order => simp [served] at hs
  | cleanupApply t macs => simp [served] at hs

/-- A client renewing its own binding is answered with the same value: whatever else the REQUEST contains, a
    client that has a lease is ACKed exactly its leased address when it asks for it and is refused (NAK) when it
    asks for any other; the lease keeps its address.  (No clause needed: the client's own lease is found by MAC.) -/
theorem v4_renew_same (s : State) (m : Msg) (l : Lease) (hl : lookup s.leases m.mac = some l) :
    (request s m).2 = (if requestedOf m = l.ip then .ack l.ip s.cfg.leaseTime else .nak) ∧
    ∃ l', lookup (request s m).1.leases m.mac = some l' ∧ l'.ip = l.ip := by
  unfold request
  rw [existing_of_own hl]
  by_cases e : l.ip = requestedOf m
  · simp only [e, ne_eq, not_true_eq_false, if_false, commit, if_true, dropStale_cfg, dropStale_leases,
      dropStale_now]
    exact ⟨trivial, _, lookup_insert_self _ _ _, rfl⟩
  · have e' : ¬ requestedOf m = l.ip := fun h => e h.symm
    simp only [ne_eq, e, not_false_eq_true, if_true, e', if_false, true_and]
    exact ⟨l, hl, rfl⟩

/-- … and a DISCOVER from a client with an unexpired lease is offered the leased address, state unchanged. -/
theorem v4_rediscover_same (s : State) (m : Msg) (l : Lease) (hl : lookup s.leases m.mac = some l)
    (hlive : s.now < l.exp) : discover s m = (s, .offer l.ip s.cfg.leaseTime) := by
  unfold discover
  rw [existing_of_own hl]
  simp [hlive]

/-- A declined address is not offered again: once the holder of a lease on an address of the local pool has
    declined it, no later OFFER or ACK to anybody carries it, whatever happens in between.
    (A declined NEXUS allocation is offered again — recorded finding KF-dhcp4-nexus-decline.) -/
theorem v4_declined_not_reoffered_partial (c : Cfg) (hN : NexusOk c) (pre post : List Op) (mac : Nat) (l : Lease)
    (hn : noCircuitHit (init c) (pre ++ [.decline mac (some l.ip)] ++ post) = true)
    (hl : lookup (run (init c) pre).leases mac = some l) (hloc : c.usable l.ip = true)
    (op : Op) (hop : hits (run (init c) (pre ++ [.decline mac (some l.ip)] ++ post)) op = false) :
    served op (step (run (init c) (pre ++ [.decline mac (some l.ip)] ++ post)) op).2 ≠ some l.ip := by
  intro hs
  rcases v4_served_in_pool_partial c hN _ hn op hop l.ip hs with h1 | ⟨k, hk⟩
  · apply h1.2
    apply step_unavailable_mono
    rw [run_append, run_append]
    apply run_unavailable_mono
    generalize run (init c) pre = s at hl ⊢
    rw [run_cons]
    show l.ip ∈ (decline s mac (some l.ip)).pool.unavailable
    unfold decline
    simp only [hl, ne_eq, not_true_eq_false, if_false]
    exact mark_mem _ _
  · have := hN.apart _ _ hk
    rw [hloc] at this; simp at this

/-- A released address of the local pool becomes available again: right after the RELEASE it is on the free list. -/
theorem v4_released_reusable_partial (c : Cfg) (hN : NexusOk c) (ops : List Op)
    (hn : noCircuitHit (init c) ops = true)
    (mac : Nat) (l : Lease) (hl : lookup (run (init c) ops).leases mac = some l) (hloc : c.usable l.ip = true) :
    l.ip ∈ (release (run (init c) ops) mac).pool.avail := by
  have hI := v4_bind4_partial c hN ops hn
  have hcfg : (run (init c) ops).cfg = c := run_cfg _ _
  generalize run (init c) ops = s at *
  unfold release
  simp only [hl]
  exact release_avail (held_local hI hl (by rw [hcfg]; exact hloc))

/-- An expired address becomes available again: the next cleanup pass (whatever order the Go map is ranged in)
    puts the address of every lease whose time has run out on the free list. -/
theorem v4_expired_reusable_partial (c : Cfg) (hN : NexusOk c) (ops : List Op)
    (hn : noCircuitHit (init c) ops = true)
    (mac : Nat) (l : Lease) (hl : lookup (run (init c) ops).leases mac = some l) (hloc : c.usable l.ip = true)
    (hexp : (run (init c) ops).now > l.exp) (order : List Nat) :
    l.ip ∈ (cleanup (run (init c) ops) order).pool.avail := by
  have hI := v4_bind4_partial c hN ops hn
  have hcfg : (run (init c) ops).cfg = c := run_cfg _ _
  generalize run (init c) ops = s at *
  unfold cleanup
  apply foldl_expire_frees _ _ hI hl (by rw [hcfg]; exact hloc) hexp
  simp only [List.mem_append]
  exact Or.inr (mem_keys_of_lookup hl)

/-- … and "available" means obtainable: any address on the free list is ACKed to a client without a lease (and
    without a Nexus allocation) that asks for it. -/
theorem v4_free_is_obtainable_partial (c : Cfg) (hN : NexusOk c) (ops : List Op)
    (hn : noCircuitHit (init c) ops = true)
    (ip : Nat) (hfree : ip ∈ (run (init c) ops).pool.avail)
    (m : Msg) (hnew : lookup (run (init c) ops).leases m.mac = none) (hnx : c.nexusLookup m.mac = none)
    (hm : circuitHit (run (init c) ops) m = false) (hreq : m.requested = some ip) :
    (request (run (init c) ops) m).2 = .ack ip c.leaseTime := by
  have hI := v4_bind4_partial c hN ops hn
  have hcfg : (run (init c) ops).cfg = c := run_cfg _ _
  generalize run (init c) ops = s at *
  have hus := (hI.pool.availOk ip hfree).1
  rw [hcfg] at hus
  unfold Cfg.usable at hus
  simp only [Bool.and_eq_true, decide_eq_true_eq] at hus
  have hne : ip ≠ 0 := by omega
  have hr : requestedOf m = ip := by unfold requestedOf; simp [hreq, hne]
  have hcont : s.cfg.contains ip = true := by
    rw [hcfg]; unfold Cfg.contains; unfold Cfg.bcast at hus
    simp only [Bool.and_eq_true, decide_eq_true_eq]; omega
  unfold request
  rw [existing_of_noHit hm, hnew, hr, hcfg, hnx]
  simp only []
  rw [← hcfg]
  simp only [hcont, Bool.not_true, Bool.false_eq_true, if_false]
  have := (reserve_true_iff (p := s.pool) (mac := m.mac) (ip := ip)).mpr (Or.inr hfree)
  cases e : s.pool.reserve m.mac ip with
  | mk p b =>
    rw [e] at this
    simp only at this
    subst this
    simp [commit]

/-- a DISCOVER from a client that holds nothing is answered whenever the free list is non-empty -/
theorem v4_discover_answered_when_free (s : State) (m : Msg) (hm : existing s m = none)
    (hfree : s.pool.avail ≠ []) : ∃ ip, (discover s m).2 = .offer ip s.cfg.leaseTime := by
  unfold discover
  rw [hm]
  simp only
  cases e0 : s.cfg.nexusLookup m.mac with
  | some nip => exact ⟨nip, rfl⟩
  | none =>
    simp only
    unfold Pool.allocate
    cases e : lookup s.pool.allocated m.mac with
    | some a => exact ⟨a, by simp⟩
    | none =>
      cases e2 : s.pool.avail with
      | nil => exact absurd e2 hfree
      | cons a rest => exact ⟨a, by simp⟩

/-! ### the cleanup pass, split where it drops its read lock (reviewer item C02-a; fixed by repo bb6b2ef)

    `cleanupExpiredLeases` collects the expired MACs under a read lock and removes them under a write lock; packet
    handlers run in between.  All theorems above already quantify over such histories (`Op.cleanupApply t macs`
    after arbitrary messages).  In addition: -/

/-- the removal never touches a lease that is not expired at the scan time — a lease renewed (or created) between
    the scan and the removal survives, whatever list the scan produced. -/
theorem v4_cleanup_spares_renewed (s : State) (t : Nat) (macs : List Nat) (mac : Nat) (l : Lease)
    (hl : lookup s.leases mac = some l) (hlive : ¬ t > l.exp) :
    lookup (step s (.cleanupApply t macs)).1.leases mac = some l :=
  applyList_spares t macs s mac l hl hlive

def cfg290w : Cfg := { base := 0x0a000000, plen := 29, gateway := 0x0a000001, leaseTime := 290 }

/-! ### DISCOVER carrying a requested address (option 50), and the expired-but-unswept window

    `Msg.requested` is a field of every message, so every theorem above already quantifies over DISCOVERs that name
    an address.  What the code does with it (nothing — handleDiscover never reads option 50) and what follows for a
    lease whose time has run out but which the once-a-minute sweep has not removed yet: -/

/-- handleDiscover never reads the requested-address option: a DISCOVER naming any address (or none) is answered
    exactly like the same DISCOVER naming address `r`, and leaves exactly the same state. -/
theorem v4_discover_ignores_requested (s : State) (m : Msg) (r : Option Nat) :
    discover s { m with requested := r } = discover s m := rfl

/-- A lease that is still in the table — expired or not — keeps its address to its client: whatever another client
    sends (DISCOVER with or without option 50, REQUEST naming the address by option 50 or ciaddr), it is neither
    OFFERed nor ACKed that address.  In particular the address of an expired, not yet swept lease cannot be obtained
    by anybody else before the sweep (or a RELEASE / DECLINE of its client) has removed the lease. -/
theorem v4_unswept_lease_excludes_others_partial (c : Cfg) (hN : NexusOk c) (ops : List Op)
    (hn : noCircuitHit (init c) ops = true) (k : Nat) (l : Lease)
    (hl : lookup (run (init c) ops).leases k = some l)
    (m : Msg) (hk : m.mac ≠ k) (hm : circuitHit (run (init c) ops) m = false) :
    (∀ ip lt, (discover (run (init c) ops) m).2 = .offer ip lt → ip ≠ l.ip) ∧
    (∀ ip lt, (request (run (init c) ops) m).2 = .ack ip lt → ip ≠ l.ip) := by
  constructor
  · intro ip lt hoff he
    have hI := v4_bind4_partial c hN ops hn
    generalize run (init c) ops = s at *
    have hI' : Bind4 (discover s m).1 := bind4_step hI (.discover m) hm
    have hmine : Backed (discover s m).1 m.mac ip := offer_backed hI hm hoff
    have hl' : lookup (discover s m).1.leases k = some l := by rw [discover_leases]; exact hl
    have hhis : Backed (discover s m).1 k ip := by rw [he]; exact hI'.held _ _ hl'
    exact hk (backing_unique hI' hmine hhis)
  · intro ip lt hack he
    exact (v4_ack_not_foreign_partial c hN ops hn m hm ip lt hack k (fun h => hk h.symm)).2 l hl he.symm

/-- … and its own client, starting over with a DISCOVER inside that window, is offered the address it held — not
    the address option 50 names — and nothing moves: the pool binding stays where the stale lease points, so the
    sweep that later removes the lease frees an address nobody else was given.  (Local-pool clients; `hnx`: the
    client is not a Nexus subscriber.) -/
theorem v4_rediscover_in_window_keeps_binding_partial (c : Cfg) (hN : NexusOk c) (ops : List Op)
    (hn : noCircuitHit (init c) ops = true) (m : Msg) (l : Lease)
    (hl : lookup (run (init c) ops).leases m.mac = some l) (hloc : c.usable l.ip = true)
    (hnx : c.nexusLookup m.mac = none) :
    discover (run (init c) ops) m = (run (init c) ops, .offer l.ip c.leaseTime) := by
  have hI := v4_bind4_partial c hN ops hn
  have hcfg : (run (init c) ops).cfg = c := run_cfg _ _
  generalize run (init c) ops = s at *
  subst hcfg
  have hp := held_local hI hl hloc
  unfold discover
  rw [existing_of_own hl, hnx, allocate_self hp]
  simp only
  split <;> rfl

/-- The window on the model (lease 290 s, made at 0; now = 300, no sweep yet): client 1 DISCOVERs naming the free
    address 10.0.0.3 and is offered its old 10.0.0.2; client 2's REQUEST for 10.0.0.2 is refused; after the sweep
    client 3's REQUEST for it is acknowledged — and client 2, had it been acknowledged, would now share it. -/
theorem window_shape :
    let s := run (init cfg290w) [.request { mac := 1, requested := some 0x0a000002 }, .advance 300]
    let s1 := (discover s { mac := 1, requested := some 0x0a000003 }).1
    (discover s { mac := 1, requested := some 0x0a000003 }).2 = .offer 0x0a000002 290 ∧
    (request s1 { mac := 2, requested := some 0x0a000002 }).2 = .nak ∧
    (request (cleanup (request s1 { mac := 2, requested := some 0x0a000002 }).1 [])
        { mac := 3, requested := some 0x0a000002 }).2 = .ack 0x0a000002 290 := by
  refine ⟨by decide, by decide, by decide⟩

/-! ### finding D9 (known): the circuit-id index is used as a client identity.
    Client 1 obtains 10.0.0.2 through a relay that adds circuit-id 1.  Client 2 sends a relayed REQUEST with the
    same circuit-id: it is ACKed the same address and two leases exist on it.  The clause holds on the witness. -/
def cfg29 : Cfg := { base := 0x0a000000, plen := 29, gateway := 0x0a000001, leaseTime := 300 }

def d9ops : List Op :=
  [.discover { mac := 1 },
   .request { mac := 1, requested := some 0x0a000002, giaddr := 0x0a0000fe, cid := some 1 },
   .request { mac := 2, requested := some 0x0a000002, giaddr := 0x0a0000fe, cid := some 1 }]

theorem D9_witness :
    noCircuitHit (init cfg29) d9ops = false ∧
    (∃ l₁ l₂, lookup (run (init cfg29) d9ops).leases 1 = some l₁ ∧
              lookup (run (init cfg29) d9ops).leases 2 = some l₂ ∧ l₁.ip = l₂.ip) := by
  refine ⟨by decide, ?_⟩
  exact ⟨⟨1, 0x0a000002, 300, some 1⟩, ⟨2, 0x0a000002, 300, some 1⟩, by decide, by decide, rfl⟩

/-! ### finding KF-dhcp4-offer-pinned (known): an OFFER binds the address in the pool for ever.
    On a pool with ONE usable address client 1 DISCOVERs and never REQUESTs; however much time passes and however
    often the cleanup runs, client 2 is never answered. -/
def cfg30 : Cfg := { base := 0x0a000008, plen := 30, gateway := 0x0a000009, leaseTime := 300 }

theorem KF_dhcp4_offer_pinned_witness (ops : List Op)
    (hquiet : ∀ op ∈ ops, (∃ dt, op = .advance dt) ∨ (∃ o, op = .cleanup o)) :
    (discover (run (init cfg30) ([.discover { mac := 1 }] ++ ops)) { mac := 2 }).2 = .none := by
  rw [run_append]
  have h0 : run (init cfg30) [.discover { mac := 1 }] =
      { cfg := cfg30, pool := { allocated := [(1, 0x0a00000a)], avail := [] } } := by rfl
  rw [h0]
  -- time and cleanup change nothing but the clock while there is no lease
  have hF : ∀ (t : Nat) (o : List Nat),
      o.foldl (expireOne t) { cfg := cfg30, pool := { allocated := [(1, 0x0a00000a)], avail := [] }, now := t } =
        { cfg := cfg30, pool := { allocated := [(1, 0x0a00000a)], avail := [] }, now := t } := by
    intro t o
    induction o with
    | nil => rfl
    | cons a r ih2 => simp only [List.foldl_cons]; exact ih2
  suffices h : ∀ t, ∃ t', run { cfg := cfg30, pool := { allocated := [(1, 0x0a00000a)], avail := [] }, now := t } ops =
      { cfg := cfg30, pool := { allocated := [(1, 0x0a00000a)], avail := [] }, now := t' } by
    obtain ⟨t', ht⟩ := h 0
    rw [ht]
    rfl
  induction ops with
  | nil => intro t; exact ⟨t, rfl⟩
  | cons op rest ih =>
    intro t
    have hq := hquiet op (by simp)
    have ih' := ih (fun o ho => hquiet o (by simp [ho]))
    rw [run_cons]
    rcases hq with ⟨dt, rfl⟩ | ⟨o, rfl⟩
    · exact ih' (t + dt)
    · have : (step { cfg := cfg30, pool := { allocated := [(1, 0x0a00000a)], avail := [] }, now := t } (.cleanup o)).1 =
          { cfg := cfg30, pool := { allocated := [(1, 0x0a00000a)], avail := [] }, now := t } := by
        simp only [step, cleanup, keys, List.map_nil, List.append_nil]
        exact hF t o
      rw [this]
      exact ih' t

/-! ### the cleanup gap BEFORE repo bb6b2ef (fixed): the removal loop used `s.leases[mac]` unchecked.
    Lease time 290 s: client 1 is ACKed 10.0.0.2 at 0; at 300 the lease has run out and the scan finds [1].
    (a) client 1 RELEASEs before the removal: nil dereference — the process dies holding the lease lock.
    (b) client 1 RENEWs before the removal (ACK 10.0.0.2, good until 590): the removal deletes the fresh lease and
        frees the address, and client 2's REQUEST for it is ACKed at the same instant — two clients hold ACKs for
        one address.  With the fixed removal (`Op.cleanupApply`) client 2 is refused. -/
def cfg290 : Cfg := { base := 0x0a000000, plen := 29, gateway := 0x0a000001, leaseTime := 290 }
def gapState : State :=
  run (init cfg290) [.request { mac := 1, requested := some 0x0a000002 }, .advance 300]

theorem cleanup_gap_witness :
    expiredList gapState [] = [1] ∧
    applyUnchecked (release gapState 1) [1] = none ∧
    (request gapState { mac := 1, requested := some 0x0a000002 }).2 = .ack 0x0a000002 290 ∧
    (∃ s', applyUnchecked (request gapState { mac := 1, requested := some 0x0a000002 }).1 [1] = some s' ∧
        lookup s'.leases 1 = none ∧
        (request s' { mac := 2, requested := some 0x0a000002 }).2 = .ack 0x0a000002 290) ∧
    (request (applyList 300 (request gapState { mac := 1, requested := some 0x0a000002 }).1 [1])
        { mac := 2, requested := some 0x0a000002 }).2 = .nak := by
  refine ⟨by decide, by decide, by decide, ⟨_, rfl, by decide, by decide⟩, by decide⟩

/-! ### Nexus / HTTP-allocator mode BEFORE repo d4aaa77 (fixed): with the allocator configured the new-session
    branch of handleRequest skipped every check.  `requestUnchecked` is that branch as it was. -/
def requestUnchecked (s : State) (m : Msg) : State × Reply := commit s m (requestedOf m) m.cid

def cfgNexus : Cfg :=
  { base := 0x0a000000, plen := 29, gateway := 0x0a000001, leaseTime := 300, nexusMode := true,
    nexus := [(1, 0x0a010005)] }

theorem nexus_request_witness :
    let s1 := (requestUnchecked (init cfgNexus) { mac := 1, requested := some 0x0a010005 }).1
    let s2 := (requestUnchecked s1 { mac := 2, requested := some 0x0a010005 }).1
    (∃ l₁ l₂, lookup s2.leases 1 = some l₁ ∧ lookup s2.leases 2 = some l₂ ∧ l₁.ip = l₂.ip) ∧
    -- the fixed code refuses client 2 (and the gateway, and an address outside every pool)
    (request (request (init cfgNexus) { mac := 1, requested := some 0x0a010005 }).1
        { mac := 2, requested := some 0x0a010005 }).2 = .nak ∧
    (request (init cfgNexus) { mac := 3, requested := some 0x0a000001 }).2 = .nak ∧
    (request (init cfgNexus) { mac := 3, requested := some 0xc0a86363 }).2 = .nak := by
  refine ⟨⟨⟨1, 0x0a010005, 300, none⟩, ⟨2, 0x0a010005, 300, none⟩, by decide, by decide, rfl⟩,
    by decide, by decide, by decide⟩

/-- the assumption about Nexus is satisfiable, and holds vacuously without the allocator -/
theorem nexusOk_examples : NexusOk cfgNexus ∧ NexusOk cfg29 := by
  refine ⟨⟨?_, ?_⟩, nexusOk_off rfl⟩
  · intro k k' a h h'
    simp only [Cfg.nexusLookup, cfgNexus, if_true, lookup_cons, lookup_nil] at h h'
    split at h <;> split at h' <;> simp_all
  · intro k a h
    simp only [Cfg.nexusLookup, cfgNexus, if_true, lookup_cons, lookup_nil] at h
    split at h
    · simp only [Option.some.injEq] at h; subst h; decide
    · simp at h

/-! ### finding KF-dhcp4-nexus-decline (known): a DECLINE of a Nexus-allocated address cannot reach Nexus, so the
    next DISCOVER of the same client is offered the declined address again. -/
theorem KF_dhcp4_nexus_decline_witness :
    let s := run (init cfgNexus) [.request { mac := 1, requested := some 0x0a010005 },
                                  .decline 1 (some 0x0a010005)]
    lookup s.leases 1 = none ∧ 0x0a010005 ∈ s.pool.unavailable ∧
    (discover s { mac := 1 }).2 = .offer 0x0a010005 300 := by
  refine ⟨by decide, by decide, by decide⟩

/-! ### finding KF-dhcp4-expired-reoffer (known): a DISCOVER from a client whose lease has run out but was not
    cleaned up yet is answered from the pool binding of that lease; the expired lease stays in the table, so the
    next cleanup pass frees the address although the OFFER is seconds old — and the address is offered to the
    next client at once.  (In the model "offered" is the pool binding, which is gone, so the theorems above are
    not contradicted; on the wire two clients hold an OFFER of one address.) -/
def cfg30b : Cfg := { base := 0x0a000008, plen := 30, gateway := 0x0a000009, leaseTime := 290 }

theorem KF_dhcp4_expired_reoffer_witness :
    -- ONE usable address; client 1's lease on it ended at 290, now = 300, no cleanup pass yet
    let s := run (init cfg30b) [.request { mac := 1, requested := some 0x0a00000a }, .advance 300]
    (discover s { mac := 1 }).2 = .offer 0x0a00000a 290 ∧
    (discover (cleanup (discover s { mac := 1 }).1 []) { mac := 9 }).2 = .offer 0x0a00000a 290 := by
  refine ⟨by decide, by decide⟩

/-! non-vacuity: the hypotheses are satisfiable and the conclusions are about real behaviour -/
example : noCircuitHit (init cfg29)
    [.discover { mac := 1 }, .request { mac := 1, requested := some 0x0a000002 },
     .request { mac := 2, requested := some 0x0a000002 }, .advance 301, .cleanup [], .discover { mac := 2 }] = true := by
  decide
example : (request (run (init cfg29) [.discover { mac := 1 }, .request { mac := 1, requested := some 0x0a000002 }])
    { mac := 2, requested := some 0x0a000002 }).2 = .nak := by decide
example : (request (run (init cfg29) [.discover { mac := 1 }]) { mac := 1, requested := some 0x0a000002 }).2
    = .ack 0x0a000002 300 := by decide
example : lookup (run (init cfg29) [.discover { mac := 1 }, .request { mac := 1, requested := some 0x0a000002 }]).leases 1
    = some ⟨1, 0x0a000002, 300, none⟩ := by decide

-- the window hypotheses are satisfiable: an expired lease in the table, a non-subscriber, another client, no circuit hit
example : let s := run (init cfg290w) [.request { mac := 1, requested := some 0x0a000002 }, .advance 300]
    lookup s.leases 1 = some ⟨1, 0x0a000002, 290, none⟩ ∧ ¬ s.now < 290 ∧ cfg290w.usable 0x0a000002 = true ∧
    cfg290w.nexusLookup 1 = none ∧ circuitHit s { mac := 2, requested := some 0x0a000002 } = false ∧
    noCircuitHit (init cfg290w) [.request { mac := 1, requested := some 0x0a000002 }, .advance 300] = true := by
  refine ⟨by decide, by decide, by decide, by decide, by decide, by decide⟩

end Bng.Spec.C02

/-! ## DHCPv6 (pkg/dhcpv6 server.go with the legacy address and prefix pools)

  Uniqueness, range and renew-same hold at full strength after EVERY history (no exclusion clause): the pools are
  keyed by client DUID and the server never looks at the values a client names.  What fails is the last sentence
  of the property — nothing expires (D6), DECLINE is RELEASE (D7), an Advertise pins a value that RELEASE cannot
  free (D8); each is a recorded finding proved below as a `_witness` theorem on the model. -/
namespace Bng.Spec.C02.V6
open Bng Bng.Dhcp6 AMap

/-- Invariant `Bind6` after every history: neither pool books a value twice, every value is inside its pool's
    range, and whatever a lease records is what the pool holds for the same DUID. -/
theorem v6_bind6 (c : Cfg) (ops : List Op) : Bind6 (run (init c) ops) :=
  bind6_run (bind6_init c) ops

/-- One binding per address: two leases recording the same address belong to the same DUID. -/
theorem v6_one_binding_per_addr (c : Cfg) (ops : List Op) (d₁ d₂ : Nat) (l₁ l₂ : Lease) (a : Nat)
    (h₁ : lookup (run (init c) ops).leases d₁ = some l₁) (h₂ : lookup (run (init c) ops).leases d₂ = some l₂)
    (a₁ : l₁.addr = some a) (a₂ : l₂.addr = some a) : d₁ = d₂ := by
  have hI := v6_bind6 c ops
  exact hI.apool.inj _ _ _ (hI.heldA _ _ _ h₁ a₁) (hI.heldA _ _ _ h₂ a₂)

/-- One binding per delegated prefix. -/
theorem v6_one_binding_per_prefix (c : Cfg) (ops : List Op) (d₁ d₂ : Nat) (l₁ l₂ : Lease) (p : Nat)
    (h₁ : lookup (run (init c) ops).leases d₁ = some l₁) (h₂ : lookup (run (init c) ops).leases d₂ = some l₂)
    (p₁ : l₁.pfx = some p) (p₂ : l₂.pfx = some p) : d₁ = d₂ := by
  have hI := v6_bind6 c ops
  exact hI.ppool.inj _ _ _ (hI.heldP _ _ _ h₁ p₁) (hI.heldP _ _ _ h₂ p₂)

/-- An Advertise or Reply never carries an address or prefix that is leased or advertised (held in the pool) to a
    different client: after the step the value is held for the sender and for nobody else. -/
theorem v6_reply_not_foreign (c : Cfg) (ops : List Op) (op : Op) (r : Resp)
    (hr : (step (run (init c) ops) op).2 = some r) (k : Nat) (hk : k ≠ clientOf op) :
    (∀ i v, (i, some v) ∈ r.nas →
        lookup (step (run (init c) ops) op).1.apool.allocated k ≠ some v ∧
        ∀ l, lookup (step (run (init c) ops) op).1.leases k = some l → l.addr ≠ some v) ∧
    (∀ i v, (i, some v) ∈ r.pds →
        lookup (step (run (init c) ops) op).1.ppool.allocated k ≠ some v ∧
        ∀ l, lookup (step (run (init c) ops) op).1.leases k = some l → l.pfx ≠ some v) := by
  have hI := v6_bind6 c ops
  have hI' := bind6_step hI op
  have hv := reply_values_held hI op r hr
  generalize run (init c) ops = s at *
  constructor
  · intro i v hm
    have h1 := hv.1 i v hm
    have key : lookup (step s op).1.apool.allocated k ≠ some v := fun h => hk (hI'.apool.inj _ _ _ h h1)
    exact ⟨key, fun l hl ha => key (hI'.heldA _ _ _ hl ha)⟩
  · intro i v hm
    have h1 := hv.2 i v hm
    have key : lookup (step s op).1.ppool.allocated k ≠ some v := fun h => hk (hI'.ppool.inj _ _ _ h h1)
    exact ⟨key, fun l hl ha => key (hI'.heldP _ _ _ hl ha)⟩

/-- Everything served is inside the serving pool: an address is one of the pool's generated host addresses
    (never the network address itself), a prefix is an aligned sub-prefix of the delegation pool. -/
theorem v6_served_in_pool (c : Cfg) (ops : List Op) (op : Op) (r : Resp)
    (hr : (step (run (init c) ops) op).2 = some r) :
    (∀ i v, (i, some v) ∈ r.nas → c.addrOk v = true) ∧ (∀ i v, (i, some v) ∈ r.pds → c.prefixOk v = true) := by
  have hI := v6_bind6 c ops
  have hI' := bind6_step hI op
  have hv := reply_values_held hI op r hr
  have hcfg : (step (run (init c) ops) op).1.cfg = c := by rw [step_cfg, run_cfg]; rfl
  rw [← hcfg]
  exact ⟨fun i v hm => hI'.apool.allocOk _ _ (hv.1 i v hm), fun i v hm => hI'.ppool.allocOk _ _ (hv.2 i v hm)⟩

/-- A client renewing its binding is answered with the same values: every IA_NA of a RENEW (REBIND is the same handler) from a
    client whose lease records address `a` is answered with `a`, every IA_PD with its recorded prefix. -/
theorem v6_renew_same (c : Cfg) (ops : List Op) (d : Nat) (hd : d ≠ 0) (l : Lease)
    (hl : lookup (run (init c) ops).leases d = some l) (ianas iapds : List Nat) :
    (c.hasAddr = true → ∀ a, l.addr = some a → ∃ r, (renew (run (init c) ops) d ianas iapds).2 = some r ∧
        r.nas = ianas.map (fun i => (i, some a))) ∧
    (c.hasPfx = true → ∀ p, l.pfx = some p → ∃ r, (renew (run (init c) ops) d ianas iapds).2 = some r ∧
        r.pds = iapds.map (fun i => (i, some p))) := by
  have hI := v6_bind6 c ops
  have hcfg : (run (init c) ops).cfg = c := by rw [run_cfg]; rfl
  generalize run (init c) ops = s at *
  have hT := renew_touched hI d l hl
  constructor
  · intro hA a ha
    have hheld := hI.heldA _ _ _ hl ha
    refine ⟨_, by simp only [renew, hd, if_false, hl, buildReply]; rfl, ?_⟩
    simp only [naPart, hcfg, hA, if_true]
    exact (replyNAs_held hheld _ _ _ _).2
  · intro hP p hp
    have hheld := hI.heldP _ _ _ hl hp
    refine ⟨_, by simp only [renew, hd, if_false, hl, buildReply]; rfl, ?_⟩
    simp only [pdPart, hcfg, hP, if_true]
    -- the prefix pool is untouched by the IA_NA half
    exact (replyPDs_held hheld _ _).2

/-- A released address or prefix becomes available again: after the RELEASE it is on its pool's free list. -/
theorem v6_released_reusable (c : Cfg) (ops : List Op) (d : Nat) (hd : d ≠ 0) (l : Lease)
    (hl : lookup (run (init c) ops).leases d = some l) :
    (∀ a, l.addr = some a → a ∈ (release (run (init c) ops) d).1.apool.avail) ∧
    (∀ p, l.pfx = some p → p ∈ (release (run (init c) ops) d).1.ppool.avail) := by
  have hI := v6_bind6 c ops
  generalize run (init c) ops = s at *
  unfold release
  simp only [hd, if_false, hl]
  constructor
  · intro a ha; simp only [ha, Option.isSome_some, if_true]; exact release_avail (hI.heldA _ _ _ hl ha)
  · intro p hp; simp only [hp, Option.isSome_some, if_true]; exact release_avail (hI.heldP _ _ _ hl hp)

/-! ### recorded findings, as theorems on the model (a pool with ONE address: 2001:db8:1::fe/127) -/
def c1 : Cfg := { hasAddr := true, abase := 0x20010db80001000000000000000000fe, aplen := 127,
                  hasPfx := false, pbase := 0, pplen := 128, dlen := 60, valid := 300 }

def noAddrs : Reply := some { kind := .reply, nas := [(1, none)], status := some 0 }

/-- D6: nothing ever expires.  Client 1 obtains the only address; however much time passes, client 2 is told
    NoAddrsAvail. -/
theorem D6_witness (dt : Nat) :
    (request (run (init c1) [.request 1 .ok [1] [], .advance dt]) 2 .ok [1] []).2 = noAddrs := by rfl

/-- D7: DECLINE is handled as RELEASE: the address client 1 declined is handed to client 2 at once. -/
theorem D7_witness :
    (request (run (init c1) [.request 1 .ok [1] [], .decline 1]) 2 .ok [1] []).2 =
      some { kind := .reply, nas := [(1, some 0x20010db80001000000000000000000ff)], status := some 0 } := by rfl

/-- D8: an Advertise allocates from the pool without a lease, and RELEASE frees only what a lease records: after
    SOLICIT + RELEASE from client 1 the address is still held for it and client 2 is told NoAddrsAvail. -/
theorem D8_witness :
    lookup (run (init c1) [.solicit 1 false [1] [], .release 1]).apool.allocated 1 =
        some 0x20010db80001000000000000000000ff ∧
    (request (run (init c1) [.solicit 1 false [1] [], .release 1]) 2 .ok [1] []).2 = noAddrs := by
  exact ⟨by rfl, by rfl⟩

/-! non-vacuity -/
example : (request (init c1) 1 .ok [1] []).2 =
    some { kind := .reply, nas := [(1, some 0x20010db80001000000000000000000ff)], status := some 0 } := by rfl
example : ∃ l, lookup (run (init c1) [.request 1 .ok [1] []]).leases 1 = some l ∧
    l.addr = some 0x20010db80001000000000000000000ff := ⟨_, by rfl, by rfl⟩

/-! ### review item C11: the lease is inserted before the allocation -/

/-- `buildReply` puts the client's lease into the table BEFORE it allocates, and `handleRenew` takes ANY table entry
    for a binding.  For every state in which the address pool has run dry (nothing free, nothing held by this client)
    and the client has no lease: a RENEW is answered NoBinding (3); a REQUEST is refused (NoAddrsAvail in the IA) but
    LEAVES AN EMPTY LEASE in the table; and the same RENEW is from then on served like a REQUEST (no NoBinding any
    more — it will be given an address as soon as one is free).  The empty lease records no value, so it takes part
    in no binding: uniqueness, range and renew-same above hold for every history including these
    (`v6_bind6` is unconditional); it is a deviation from RFC 8415 18.3.4, not a double binding. -/
theorem C11_refused_request_leaves_empty_lease (s : State) (d i : Nat) (hd : d ≠ 0) (hA : s.cfg.hasAddr = true)
    (hdry : s.apool.avail = []) (hnone : lookup s.apool.allocated d = none) (hl : lookup s.leases d = none) :
    (renew s d [i] []).2 = some { kind := .reply, status := some 3 } ∧
    (request s d .ok [i] []).2 = some { kind := .reply, nas := [(i, none)], status := some 0 } ∧
    lookup (request s d .ok [i] []).1.leases d = some {} ∧
    (renew (request s d .ok [i] []).1 d [i] []).2 = some { kind := .reply, nas := [(i, none)], status := some 0 } := by
  have hal : s.apool.allocate d = (s.apool, none) := by
    unfold FPool.allocate; rw [hnone]; simp only; rw [hdry]
  have hna : ∀ l : Lease, replyNAs s.apool d s.now s.cfg.valid l [i] = (s.apool, l, [(i, none)]) := by
    intro l; simp [replyNAs, hal]
  have hpd : ∀ (st : State) (l : Lease), (pdPart st d l []).2 = (l, []) ∧ (pdPart st d l []).1 = st.ppool := by
    intro st l; unfold pdPart; split <;> simp [replyPDs]
  refine ⟨?_, ?_, ?_, ?_⟩
  · simp [renew, hd, hl]
  · simp [request, hd, buildReply, naPart, hA, hna, hl, (hpd s _).1]
  · simp [request, hd, buildReply, naPart, hA, hna, hl, (hpd s _).1]
  · have hl' : lookup (request s d .ok [i] []).1.leases d = some {} := by
      simp [request, hd, buildReply, naPart, hA, hna, hl, (hpd s _).1]
    have hap : (request s d .ok [i] []).1.apool = s.apool := by
      simp [request, hd, buildReply, naPart, hA, hna]
    have hcf : (request s d .ok [i] []).1.cfg = s.cfg := by simp [request, hd, buildReply]
    have hnow : (request s d .ok [i] []).1.now = s.now := by simp [request, hd, buildReply]
    generalize (request s d .ok [i] []).1 = s' at *
    simp [renew, hd, hl', buildReply, naPart, hcf, hA, hap, hnow, hna, (hpd _ _).1]

/-- non-vacuity of the hypotheses: a one-address pool whose address another client holds -/
example : let s := run (init c1) [.request 1 .ok [1] []]
    s.cfg.hasAddr = true ∧ s.apool.avail = [] ∧ lookup s.apool.allocated 2 = none ∧ lookup s.leases 2 = none := by
  decide

end Bng.Spec.C02.V6
