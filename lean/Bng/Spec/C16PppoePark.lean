import Bng.Spec.C16PppoeWhole
import Bng.Model.PppoePark
/-
  C16 / C05 (PPPoE server): a PAP authentication whose RADIUS exchange takes time (review r-gaps A2).  The handler
  waits inside radius.Client.Authenticate on the one receive goroutine while the idle sweep and the clock go on
  (`Bng.PppoePark`).  Statements for EVERY history of frames, hours passing, idle sweeps, parked PAP requests and
  RADIUS answers:

    * `park_projects`                         such a history is a history of the one-step model …
    * `monitor_silent_on_parked_histories`    … on which the monitor raises nothing but KF-pppoe-idle-leak,
    * `parked_pool_conservation`, `parked_allocated_accounted`, `parked_no_residue_without_sweep`
                                              conservation and the residue account hold as they are,
    * `auth_after_sweep_strands_nothing`      an answer that arrives for a session the sweep has removed changes nothing,
    * `recheck_is_needed_witness`             which is what the code did not do before fix ef7000f.
-/
namespace Bng.Spec.C16PppoePark
open Bng Bng.PppoeServer Bng.PppoeMon Bng.PppoeTimed Bng.PppoePark Bng.Proof.PppoeMonitor

/-- one line: either it stands for nothing (busy / not parked) and the server is unchanged, or it is the step of the
    one-step model on the projected input, with the same observation -/
theorem proj_step (p : PSrv) (pi : PIn) :
    (projIn p pi = none ∧ (stepP p pi).1.t.srv = p.t.srv) ∨
    (∃ i, projIn p pi = some i ∧ (step p.t.srv i).1 = (stepP p pi).1.t.srv ∧
          obsOf (stepP p pi).1.t.srv (step p.t.srv i).2 = obsOf (stepP p pi).1.t.srv (stepP p pi).2.1) := by
  cases pi with
  | plain ti =>
    by_cases hb : (p.parked.isSome && !allowedWhileParked ti) = true
    · left
      simp only [projIn, stepP, hb, if_true, and_self]
    · simp only [projIn, stepP, hb]
      cases ti with
      | frame i => right; exact ⟨i, rfl, rfl, rfl⟩
      | age n => left; exact ⟨rfl, rfl⟩
      | sweepT h => right; exact ⟨_, rfl, rfl, rfl⟩
  | authpark m sid pw =>
    by_cases hb : p.parked.isSome = true
    · left
      simp only [projIn, stepP, hb, if_true, and_self]
    · simp only [projIn, stepP, hb]
      cases hr : reachesRadius p.t.srv m sid pw with
      | some x => right; exact ⟨_, rfl, rfl, rfl⟩
      | none => right; exact ⟨_, rfl, rfl, rfl⟩
  | authresume r =>
    cases hk : p.parked with
    | none => left; simp only [projIn, stepP, hk, and_self]
    | some k => right; simp only [projIn, stepP, hk]; exact ⟨_, rfl, rfl, rfl⟩

/-- every history with parked authentications (frames, hours passing, idle sweeps, PAP requests waiting for RADIUS while
    sweeps run, RADIUS answers) is a history of the one-step model: the parked request is inert until the answer comes, and
    the answer is the PAP step taken at that moment — on whatever the sweep has left -/
theorem park_projects (p : PSrv) (pis : List PIn) : (runP p pis).t.srv = run p.t.srv (projectP p pis) := by
  induction pis generalizing p with
  | nil => rfl
  | cons pi rest ih =>
    have h1 : runP p (pi :: rest) = runP (stepP p pi).1 rest := rfl
    rw [h1, ih]
    rcases proj_step p pi with ⟨hn, hs⟩ | ⟨i, hi, hs, _⟩
    · simp only [projectP, hn, hs]
    · simp only [projectP, hi]
      show _ = run (step p.t.srv i).1 _
      rw [hs]

/-- the monitor's verdicts along a history with parked authentications are its verdicts along the projected history -/
theorem runBothP_eq (p : PSrv) (mn : Mon) (pis : List PIn) :
    runBothP p mn pis = runBoth p.t.srv mn (projectP p pis) := by
  induction pis generalizing p mn with
  | nil => rfl
  | cons pi rest ih =>
    rcases proj_step p pi with ⟨hn, hs⟩ | ⟨i, hi, hs, ho⟩
    · simp only [runBothP, projectP, hn]
      rw [ih, hs]
    · simp only [runBothP, projectP, hi, runBoth]
      rw [ih, ← ho, ← hs]

/-- the monitor the correspondence run applies to the implementation's observations raises nothing but the recorded
    finding KF-pppoe-idle-leak on ANY history of the model with parked authentications: in particular no `residue`,
    `conservation`, `pool-entry`, `unique`, `held-free` or `service-without-auth` verdict when a sweep pass removes the
    session whose PAP exchange is waiting for RADIUS and the Access-Accept arrives afterwards -/
theorem monitor_silent_on_parked_histories (radius : Bool) (bits : Nat) (pis : List PIn) :
    ∀ v ∈ runBothP (initP radius bits) (initMon radius bits) pis, v.2.1 = "KF-pppoe-idle-leak" := by
  rw [runBothP_eq]
  exact C16PppoeWhole.monitor_silent_on_model radius bits _

/-- (C05) free + allocated = pool size after every history with parked authentications -/
theorem parked_pool_conservation (radius : Bool) (bits : Nat) (pis : List PIn) :
    (runP (initP radius bits) pis).t.srv.avail.length + (runP (initP radius bits) pis).t.srv.alloc.length
      = (poolAddrs bits).length := by
  rw [park_projects]
  exact C16PppoeWhole.pool_conservation radius bits _

/-- (C16) after every history with parked authentications the allocated addresses are exactly those of the live sessions
    that hold one, plus those of the addressed sessions the idle sweep removed (KF-pppoe-idle-leak): a RADIUS answer that
    comes after the sweep adds nothing to the account -/
theorem parked_allocated_accounted (radius : Bool) (bits : Nat) (pis : List PIn) :
    (runP (initP radius bits) pis).t.srv.alloc.length
      = C16PppoeWhole.holding (runP (initP radius bits) pis).t.srv
        + (monAfter (init radius bits) (initMon radius bits) (projectP (initP radius bits) pis)).stranded := by
  rw [park_projects]
  exact C16PppoeWhole.allocated_accounted radius bits _

/-- a line that is a pass of the idle sweep -/
def isSweep : PIn → Bool
  | .plain (.sweepT _) => true
  | .plain (.frame (.sweep _)) => true
  | _ => false

theorem projIn_sweep (p : PSrv) (pi : PIn) (keep : List Nat) (h : projIn p pi = some (.sweep keep)) :
    isSweep pi = true := by
  cases pi with
  | plain ti =>
    cases ti with
    | frame i =>
      simp only [projIn, untimed] at h
      split at h
      · cases h
      · cases h; rfl
    | age n =>
      simp only [projIn, untimed] at h
      split at h <;> cases h
    | sweepT hh => rfl
  | authpark m sid pw =>
    simp only [projIn] at h
    split at h
    · cases h
    · split at h <;> cases h
  | authresume r =>
    simp only [projIn] at h
    split at h <;> cases h

theorem project_no_sweep (pis : List PIn) : ∀ (p : PSrv), (∀ pi ∈ pis, isSweep pi = false) →
    ∀ keep, In.sweep keep ∉ projectP p pis := by
  induction pis with
  | nil => intro p _ keep h; cases h
  | cons pi rest ih =>
    intro p hall keep hmem
    have hrest := ih (stepP p pi).1 (fun q hq => hall q (List.mem_cons_of_mem _ hq)) keep
    simp only [projectP] at hmem
    cases hi : projIn p pi with
    | none => rw [hi] at hmem; exact hrest hmem
    | some i =>
      rw [hi] at hmem
      rcases List.mem_cons.mp hmem with he | ht
      · subst he
        have := projIn_sweep p pi keep hi
        rw [hall pi (List.mem_cons_self ..)] at this
        cases this
      · exact hrest ht

/-- (C16) with no idle-sweep pass in the history — however many PAP exchanges waited for RADIUS — exactly the sessions that
    hold an address account for the allocated addresses -/
theorem parked_no_residue_without_sweep (radius : Bool) (bits : Nat) (pis : List PIn)
    (h : ∀ pi ∈ pis, isSweep pi = false) :
    (runP (initP radius bits) pis).t.srv.alloc.length = C16PppoeWhole.holding (runP (initP radius bits) pis).t.srv := by
  rw [park_projects]
  exact C16PppoeWhole.no_residue_without_sweep radius bits _ (project_no_sweep pis _ h)

/-- (C16/C05, the repaired behaviour) the RADIUS answer — accept, reject or none — for a PAP request whose session the idle
    sweep removed while the request was waiting changes neither the session table nor the address pool, and nothing is sent:
    no address is allocated for a session that no termination path can find.  From ANY state. -/
theorem auth_after_sweep_strands_nothing (p : PSrv) (k : Parked) (r : Radius) (hp : p.parked = some k)
    (hgone : AMap.lookup p.t.srv.sessions k.sid = none) :
    (stepP p (.authresume r)).1.t.srv = p.t.srv ∧ (stepP p (.authresume r)).2.1 = [] := by
  simp only [stepP, hp, step, ownerGate, hgone, and_self]

/-- while a PAP request waits for RADIUS no frame is handled: the receive goroutine is inside the call -/
theorem frames_wait_while_parked (p : PSrv) (k : Parked) (hp : p.parked = some k) (i : In)
    (hi : ∀ keep, i ≠ .sweep keep) : stepP p (.plain (.frame i)) = (p, [], .busy) := by
  have : allowedWhileParked (.frame i) = false := by
    cases i <;> first | rfl | exact absurd rfl (hi _)
  simp only [stepP, hp, this, Option.isSome_some, Bool.not_false, Bool.and_self, if_true]

/-- the code BEFORE fix ef7000f (`stepResumeOld`): one session, its PAP request waits for RADIUS, the idle sweep removes the
    session, Access-Accept arrives — an address is allocated, PAP-Ack and an IPCP Configure-Request are sent, and no session
    exists: the address is stranded although the swept session held none -/
theorem recheck_is_needed_witness :
    let p := runP (initP true 29) [.plain (.frame (.padr 1 true)), .authpark 1 1 .good, .plain (.frame (.sweep []))]
    p.parked = some { m := 1, sid := 1, pw := .good, serial := 0 } ∧
    (stepResumeOld p.t.srv { m := 1, sid := 1, pw := .good, serial := 0 } .accept).1.alloc = [(0, 2)] ∧
    (stepResumeOld p.t.srv { m := 1, sid := 1, pw := .good, serial := 0 } .accept).1.sessions = [] ∧
    (stepResumeOld p.t.srv { m := 1, sid := 1, pw := .good, serial := 0 } .accept).2 = [.papack 1 1, .ipcpreq 1 1] ∧
    (stepP p (.authresume .accept)).1.t.srv.alloc = [] := by decide

/-! non-vacuity -/

/-- the window exists: the request parks, the sweep removes the session, the answer finds nothing -/
example : ∃ (p : PSrv) (k : Parked), p.parked = some k ∧ AMap.lookup p.t.srv.sessions k.sid = none :=
  ⟨runP (initP true 29) [.plain (.frame (.padr 1 true)), .authpark 1 1 .good, .plain (.frame (.sweep []))],
   { m := 1, sid := 1, pw := .good, serial := 0 }, by decide, by decide⟩
/-- the answer for a session that is still there is the ordinary PAP step: it gets its address -/
example : ((runP (initP true 29) [.plain (.frame (.padr 1 true)), .authpark 1 1 .good, .plain (.age 2), .plain (.sweepT 3),
    .authresume .accept]).t.srv.alloc) = [(0, 2)] := by decide
/-- LastActivity is refreshed when the request arrives, not when RADIUS answers: two hours in the call, swept at one hour -/
example : ((runP (initP true 29) [.plain (.frame (.padr 1 true)), .authpark 1 1 .good, .plain (.age 2),
    .authresume .accept, .plain (.sweepT 1)]).t.srv.sessions) = [] := by decide
/-- the monitor speaks on such a history exactly where the sweep strands an address the session already held -/
example : (runBothP (initP true 29) (initMon true 29) [.plain (.frame (.padr 1 true)), .plain (.frame (.pap 1 1 .good .accept)),
    .authpark 1 1 .good, .plain (.frame (.sweep [])), .authresume .reject]).map (·.2.1) = ["KF-pppoe-idle-leak"] := by decide
example : (runBothP (initP true 29) (initMon true 29) [.plain (.frame (.padr 1 true)),
    .authpark 1 1 .good, .plain (.frame (.sweep [])), .authresume .accept]).length = 0 := by decide
example : ∃ pi, isSweep pi = false := ⟨.authresume .accept, rfl⟩

end Bng.Spec.C16PppoePark
