import Bng.Proof.Acct
import Bng.Proof.AcctDrain
import Bng.Proof.AcctNoDup
/-
  C08 — Every started session is accounted to a Stop, across outages and crashes.

  Property statements only.  `Bng.Acct` is the small-step model of radius.AccountingManager
  (Bng/Model/Acct.lean): an operation history `ops : List Op` is ANY interleaving of API calls
  (`start`, `interim`, `stop`, processor `deq`/`retry`, `shutdown`, `restart`), micro-steps `tick ans`
  (one per persist/transmit/remove point of the Go code, `ans` = the RADIUS server's answer to the request
  that step sends) and `crash` (drops the volatile state).  Quantifying over all `ops` is therefore
  quantifying over all histories, all up/down vectors and all crash points.

  `(run (init c) ops).log` is the sequence of records the RADIUS server accepted.
-/
namespace Bng.Spec.C08
open Bng Bng.Acct AMap

/-! ## a Stop only for a started session, carrying that session's identifiers -/

/-- Every record the server ever accepts — in particular every Stop — belongs to a session id that
    `StartSession` was called with, and carries the identifiers given in such a call. -/
theorem own_identifiers (c : Cfg) (ops : List Op) :
    ∀ r ∈ (run (init c) ops).log, Op.start r.sid r.ident ∈ ops := by
  intro r hr
  have h := (reg_run (reg_init c) ops).log r hr
  rcases registered_run (init c) ops (r.sid, r.ident) h with h' | h'
  · simp [init] at h'
  · exact h'

/-- No Stop is accepted for a session that was never started. -/
theorem stop_only_started (c : Cfg) (ops : List Op) :
    ∀ r ∈ (run (init c) ops).log, r.kind = .stop → ∃ ident, Op.start r.sid ident ∈ ops :=
  fun r hr _ => ⟨r.ident, own_identifiers c ops r hr⟩

/-- When session ids are not reused (each id is given to StartSession with one set of identifiers), every
    accepted record of the session carries exactly those identifiers. -/
theorem own_identifiers_unique (c : Cfg) (ops : List Op) (s ident : Nat)
    (hstart : Op.start s ident ∈ ops)
    (huniq : ∀ i j, Op.start s i ∈ ops → Op.start s j ∈ ops → i = j) :
    ∀ r ∈ (run (init c) ops).log, r.sid = s → r.ident = ident := by
  intro r hr hs
  have := own_identifiers c ops r hr
  rw [hs] at this
  exact huniq _ _ this hstart

/-! ## never before its Start (recorded finding D24) -/

/-- PARTIAL (finding D24).  An accepted Stop is preceded in the server's log by the accepted Start of the
    same session — for every session whose Start was acknowledged when StartSession sent it.  Excluded:
    sessions in `startQueued`, i.e. whose Start request failed inside StartSession and was queued
    (`D24_clause_is_failed_start` shows the clause is exactly that). -/
theorem stop_after_start_partial (c : Cfg) (ops : List Op) :
    ∀ pre r post, (run (init c) ops).log = pre ++ r :: post → r.kind = .stop →
      r.sid ∉ (run (init c) ops).startQueued →
      ∃ r' ∈ pre, r'.kind = .start ∧ r'.sid = r.sid :=
  (sa_run (sa_init c) ops).log

/-- The exclusion clause of D24 is narrow: a session enters `startQueued` only by the micro-step of
    StartSession that transmits the Start, and only when the server does not answer it. -/
theorem D24_clause_is_failed_start (σ : State) (op : Op) (s : Nat)
    (h : s ∈ (step σ op).startQueued) :
    s ∈ σ.startQueued ∨ (op = .tick false ∧ σ.vol.pc = some (.startSend s)) :=
  startQueued_step σ op s h

def w24 : List Op := [.start 1 1, .tick false, .tick true, .stop 1 1, .tick true, .tick true]

/-- D24 as a theorem: Start fails (queued), the immediate Stop succeeds: the log begins with the Stop. -/
theorem D24_witness :
    (run (init ⟨3, 8⟩) w24).log.map (fun r => (r.kind, r.sid)) = [(.stop, 1)] ∧
    1 ∈ (run (init ⟨3, 8⟩) w24).startQueued := by
  decide

/-! ## durability at every micro-step (recorded finding KF-acct-recovery-volatile) -/

/-- PARTIAL (finding KF-acct-recovery-volatile).  At EVERY micro-step of EVERY history — i.e. wherever a
    crash may strike — a session whose StartSession ran to completion and whose Stop the server has not
    accepted still has its session file on disk.  Excluded: sessions in `recVol`, whose Stop the recovery
    procedure itself re-queued in memory or loaded from pending.json (it deletes the file / pending.json
    afterwards; `KF_recovery_clause_is_recovery`). -/
theorem durable_every_microstep_partial (c : Cfg) (ops : List Op) :
    ∀ s ∈ (run (init c) ops).started,
      (∃ r ∈ (run (init c) ops).log, r.kind = .stop ∧ r.sid = s) ∨
      s ∈ (run (init c) ops).recVol ∨
      (lookup (run (init c) ops).dur.files s).isSome :=
  (dur_run (dur_init c) ops).core

/-- `started` means exactly: the last micro-step of StartSession (persist) was executed for the session. -/
theorem started_is_completed_start (σ : State) (op : Op) (s : Nat) (h : s ∈ (step σ op).started) :
    s ∈ σ.started ∨ ((∃ a, op = .tick a) ∧ σ.vol.pc = some (.startPersist s)) :=
  started_step σ op s h

/-- The exclusion clause is narrow: a session enters `recVol` only in the recovery procedure — when the
    Stop it sends from an orphaned session file is not answered, or when it loads the session's Stop from
    pending.json. -/
theorem KF_recovery_clause_is_recovery (σ : State) (op : Op) (s : Nat) (h : s ∈ (step σ op).recVol) :
    s ∈ σ.recVol ∨
    (op = .tick false ∧ ∃ rest recd order, σ.vol.pc = some (.recSend s rest recd order)) ∨
    ((∃ a, op = .tick a) ∧ ∃ recd order ps, σ.vol.pc = some (.recLoad recd order) ∧ σ.dur.pfile = some ps ∧
      ∃ p ∈ ps, p.req.kind = .stop ∧ p.req.sid = s) :=
  recVol_step σ op s h

def wRec : List Op :=
  [.start 1 1, .tick true, .tick true, .crash, .restart [], .tick false, .tick true, .tick true, .crash]

/-- The finding as a theorem: the session was started, the server never accepted a Stop, and after the
    second crash nothing on disk remembers it. -/
theorem KF_recovery_witness :
    let σ := run (init ⟨3, 8⟩) wRec
    1 ∈ σ.started ∧ σ.log.map (fun r => (r.kind, r.sid)) = [(.start, 1)] ∧
    σ.dur.files.isEmpty ∧ σ.dur.pfile.isNone ∧ 1 ∈ σ.recVol := by
  decide

def wWin : List Op := [.start 1 1, .tick true, .crash]

/-- Recorded finding KF-acct-start-window: StartSession transmits the Start before it persists the session.
    A crash in between leaves a Start the server accepted, no session file, and (the call never completed)
    a session that is not `started` — which is why the durability theorems speak about completed calls. -/
theorem KF_start_window_witness :
    let σ := run (init ⟨3, 8⟩) wWin
    σ.log.map (fun r => (r.kind, r.sid)) = [(.start, 1)] ∧ σ.dur.files.isEmpty ∧ σ.dur.pfile.isNone ∧
    1 ∉ σ.started := by
  decide

/-- FULL strength in the first process lifetime: in a history without `restart` (any crash point, any
    answers) a started session without an accepted Stop has its session file — the D23 repair. -/
theorem durable_first_lifetime (c : Cfg) (ops : List Op) (h : ∀ order, Op.restart order ∉ ops) :
    ∀ s ∈ (run (init c) ops).started,
      (∃ r ∈ (run (init c) ops).log, r.kind = .stop ∧ r.sid = s) ∨
      (lookup (run (init c) ops).dur.files s).isSome := by
  intro s hs
  rcases durable_every_microstep_partial c ops s hs with h1 | h1 | h1
  · exact Or.inl h1
  · rw [recVol_empty_without_restart c ops h] at h1; simp at h1
  · exact Or.inr h1

/-! ## an acknowledged Stop is never sent again, absent a crash -/

/-- The server never accepts a second Stop for a session, unless a crash happened after the session was
    started (`tainted` = the sessions StartSession had registered before the latest crash,
    `tainted_is_crash_after_start`).  Graceful shutdown + restart, retry ticks racing the queue channel,
    the shutdown drain, the orphan recovery, pending.json: none of them re-sends an acknowledged Stop.
    Hypothesis: session ids are not reused (`registered` = the ids StartSession admitted, in order; RADIUS
    requires Acct-Session-Id to be unique).  Every answer vector, every history, every crash point (a crash
    only exempts the sessions that were alive across it). -/
theorem no_dup_stop_without_crash (c : Cfg) (ops : List Op)
    (hfresh : ((run (init c) ops).registered.map (·.1)).Nodup) :
    ∀ s, s ∉ (run (init c) ops).tainted →
      ((run (init c) ops).log.filter (fun r => r.kind == .stop && r.sid == s)).length ≤ 1 := by
  intro s hs
  have h := nd_run (nd_init c) (reg_init c) (by intro h; simp [init] at h) ops hfresh
  exact (h.per s hs).a

/-- `tainted` is exactly: a crash happened after StartSession registered the session. -/
theorem tainted_is_crash_after_start (σ : State) (op : Op) (s : Nat) (h : s ∈ (step σ op).tainted) :
    s ∈ σ.tainted ∨ (op = .crash ∧ s ∈ σ.registered.map (·.1)) :=
  tainted_step σ op s h

/-- In a history without any crash (graceful shutdowns and restarts allowed) no session ever has two Stops
    accepted. -/
theorem no_dup_stop_crash_free (c : Cfg) (ops : List Op) (hnc : Op.crash ∉ ops)
    (hfresh : ((run (init c) ops).registered.map (·.1)).Nodup) (s : Nat) :
    ((run (init c) ops).log.filter (fun r => r.kind == .stop && r.sid == s)).length ≤ 1 := by
  apply no_dup_stop_without_crash c ops hfresh s
  rw [tainted_empty_run (init c) ops hnc rfl]; simp

/-! ## restart drains what is durable -/

/-- After ANY history that left the process down (crash at any micro-step, or graceful shutdown): restart,
    let the recovery procedure run to completion with the server up, then one retry pass with the server up
    (`drainOps`; `n` = number of micro-steps granted to each, any sufficiently large number: micro-steps
    of a finished call do nothing).  Then every Stop that was on disk — the session file of `s`, or a Stop of
    `s` stored in pending.json — has been accepted by the server, for every started session `s`, under
    every iteration order of pending.json and of the retry map. -/
theorem restart_drains (c : Cfg) (ops : List Op) (order order2 : List Nat)
    (hdown : (run (init c) ops).up = false) :
    ∃ N, ∀ n, N ≤ n → ∀ s ∈ (run (init c) ops).started, durableStop (run (init c) ops) s →
      ∃ r ∈ (run (run (init c) ops) (drainOps order order2 n)).log, r.kind = .stop ∧ r.sid = s := by
  by_cases hs : (run (init c) ops).started = []
  · exact ⟨0, fun n _ s hs' => by rw [hs] at hs'; simp at hs'⟩
  · obtain ⟨N, hN⟩ := restart_drains_core _ hdown (started_dir_run c ops hs) order order2
    exact ⟨N, fun n hn s _ hd => (hN n hn s hd).1⟩

/-- End to end: crash ANYWHERE, restart with the server up — every session whose StartSession had completed
    ends with an accepted Stop, except those the recovery procedure had re-queued in memory before
    (finding KF-acct-recovery-volatile). -/
theorem every_started_session_gets_its_stop_partial (c : Cfg) (ops : List Op) (order order2 : List Nat) :
    ∃ N, ∀ n, N ≤ n → ∀ s ∈ (run (init c) ops).started, s ∉ (run (init c) ops).recVol →
      ∃ r ∈ (run (run (init c) ops) (.crash :: drainOps order order2 n)).log, r.kind = .stop ∧ r.sid = s := by
  have hdown : (run (init c) (ops ++ [.crash])).up = false := by
    rw [run_append]; rfl
  obtain ⟨N, hN⟩ := restart_drains c (ops ++ [.crash]) order order2 hdown
  refine ⟨N, fun n hn s hs hr => ?_⟩
  have e : run (run (init c) ops) (.crash :: drainOps order order2 n) =
      run (run (init c) (ops ++ [.crash])) (drainOps order order2 n) := by
    rw [run_append]; rfl
  rw [e]
  have hs' : s ∈ (run (init c) (ops ++ [.crash])).started := by rw [run_append]; exact hs
  rcases durable_every_microstep_partial c ops s hs with ⟨r, hr1, hr2⟩ | h1 | h1
  · -- already accepted: the log only grows
    refine ⟨r, ?_, hr2⟩
    have : ∀ (l : List Op) (σ : State), r ∈ σ.log → r ∈ (run σ l).log := by
      intro l
      induction l with
      | nil => intro σ h; exact h
      | cons op l ih => intro σ h; exact ih _ (log_mono_step σ op r h)
    apply this
    rw [run_append]; exact hr1
  · exact absurd h1 hr
  · apply hN n hn s hs'
    left
    rw [run_append]; exact h1

/-! ## gigawords -/

/-- the low word / gigaword split of SendAccounting reports a 64-bit counter exactly -/
theorem gigaword_exact : ∀ x : UInt64, (x >>> 32).toNat * 2 ^ 32 + (x &&& 0xFFFFFFFF).toNat = x.toNat := by
  intro x
  rw [UInt64.toNat_shiftRight, UInt64.toNat_and]
  have h1 : (32 : UInt64).toNat % 64 = 32 := by decide
  have h2 : (0xFFFFFFFF : UInt64).toNat = 2 ^ 32 - 1 := by decide
  rw [h1, h2, Nat.shiftRight_eq_div_pow, Nat.and_two_pow_sub_one_eq_mod]
  omega

/-- the Gigawords attribute is omitted exactly when the high word is 0 -/
theorem gigaword_omitted_iff (x : UInt64) : (AcctWire.encode x).giga = none ↔ x >>> 32 = 0 := by
  have hz : x >>> 32 = 0 ↔ ¬ (x > 0xFFFFFFFF) := by
    rw [← UInt64.toNat_inj, UInt64.toNat_shiftRight]
    have h1 : (32 : UInt64).toNat % 64 = 32 := by decide
    rw [h1, Nat.shiftRight_eq_div_pow]
    show _ ↔ ¬ ((0xFFFFFFFF : UInt64) < x)
    rw [UInt64.lt_iff_toNat_lt]
    have h2 : (0xFFFFFFFF : UInt64).toNat = 2 ^ 32 - 1 := by decide
    rw [h2]
    simp
    omega
  unfold AcctWire.encode
  by_cases h : x > 0xFFFFFFFF
  · simp [h, hz]
  · simp [h, hz]

/-- what the server reconstructs from the two attributes is the counter -/
theorem gigaword_roundtrip (x : UInt64) : AcctWire.decode (AcctWire.encode x) = x.toNat := by
  have hx := gigaword_exact x
  unfold AcctWire.decode AcctWire.encode AcctWire.low AcctWire.high
  by_cases h : x > 0xFFFFFFFF
  · simp only [h, if_true]; exact hx
  · simp only [h, if_false]
    have hz := (gigaword_omitted_iff x).mp (by simp [AcctWire.encode, h])
    rw [hz] at hx
    simpa using hx

/-! non-vacuity -/
example : ∃ ops : List Op, Op.crash ∉ ops ∧ ((run (init ⟨3, 8⟩) ops).registered.map (·.1)).Nodup ∧
    (run (init ⟨3, 8⟩) ops).log.length = 4 :=
  ⟨[.start 1 1, .tick true, .tick true, .start 2 2, .tick true, .tick true, .stop 1 1, .tick true, .tick true,
    .tick true, .tick true, .shutdown [], .tick true, .tick true, .tick true, .restart [], .tick true],
   by simp, by decide, by decide⟩
example : ∃ ops : List Op, (run (init ⟨3, 8⟩) ops).up = false ∧ (run (init ⟨3, 8⟩) ops).started ≠ [] ∧
    durableStop (run (init ⟨3, 8⟩) ops) 1 :=
  ⟨[.start 1 1, .tick true, .tick true, .crash], by decide, by decide, Or.inl (by decide)⟩
example : ∃ ops, (run (init ⟨3, 8⟩) ops).started ≠ [] ∧ (run (init ⟨3, 8⟩) ops).recVol = [] :=
  ⟨[.start 1 1, .tick true, .tick true], by decide⟩
example : ∃ ops r, r ∈ (run (init ⟨3, 8⟩) ops).log ∧ r.kind = .stop ∧ r.sid ∉ (run (init ⟨3, 8⟩) ops).startQueued :=
  ⟨[.start 1 1, .tick true, .tick true, .stop 1 1, .tick true, .tick true],
   ⟨.stop, 1, 1, 1, 0, 0⟩, by decide⟩

end Bng.Spec.C08
