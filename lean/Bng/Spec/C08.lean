import Bng.Proof.Acct
import Bng.Proof.AcctDrain
import Bng.Proof.AcctRetry
import Bng.Proof.AcctNoDup
import Bng.Proof.AcctPrefix
import Bng.Model.AcctBackoff
import Bng.Proof.AcctDirect
/-
  C08 — Every started session is accounted to a Stop, across outages and crashes.

  Property statements only.  `Bng.Acct` is the small-step model of radius.AccountingManager
  (Bng/Model/Acct.lean).  An operation history `ops : List Op` is ANY interleaving of
    * API calls (`start`, `interim`, `stop`, `shutdown`, `restart`) and their micro-steps `tick ans`
      (one per persist/transmit/remove point of the Go code),
    * steps of the background processor (`deq`, `retry`) and their micro-steps `ptick ans`, which run
      CONCURRENTLY with the API call in progress,
    * the interim goroutine: `interim s` puts an Interim-Update of a registered session in flight (identifiers and
      counters captured), `itick ans` sends it and handles the answer; it also runs CONCURRENTLY with the API call
      in progress and with the processor (three program counters), so StopSession may run to completion between
      an interim update's send and its acknowledgement,
    * `crash` (drops the volatile state) and `crashTorn` (crash in the middle of a persist step's file write).
  `ans : Ans` is the RADIUS server's answer to the request that step sends: `up` (accepted, acknowledged),
  `down` (not received), `lost` (accepted, but the client sees a failure: reply lost or late).
  Quantifying over all `ops` is therefore quantifying over all histories, all three-valued answer vectors, all
  interleavings of the processor with the API calls, and all crash points.

  `(run (init c) ops).log` = the records the RADIUS server accepted, in order; `.logAck` = for each of them
  whether the client got the acknowledgement.
-/
namespace Bng.Spec.C08
open Bng Bng.Acct AMap

/-! ## a Stop only for a started session, carrying that session's identifiers -/

/-- Every record the server ever accepts — in particular every Stop — carries a (session id, identifiers)
    pair that an ADMITTED StartSession call registered (`registered_is_admitted_start`). -/
theorem own_identifiers (c : Cfg) (ops : List Op) :
    ∀ r ∈ (run (init c) ops).log, (r.sid, r.ident) ∈ (run (init c) ops).registered :=
  (reg_run (reg_init c) ops).log

/-- … and it was registered BEFORE the record was accepted: if the log is `pre ++ r :: post`, some prefix
    `ops₁` of the history has exactly `pre` as its log and already has the pair registered. -/
theorem own_identifiers_prefix (c : Cfg) (ops : List Op) (pre post : List Rec) (r : Rec)
    (h : (run (init c) ops).log = pre ++ r :: post) :
    ∃ ops₁ ops₂, ops = ops₁ ++ ops₂ ∧ (run (init c) ops₁).log = pre ∧
      (r.sid, r.ident) ∈ (run (init c) ops₁).registered :=
  log_record_origin (init c) (reg_init c) ops pre post r (by simp [init]) h

/-- `registered` grows only by a `start` call that is admitted: the instance is running, no API call is in
    progress, the session id is not active (a refused StartSession registers nothing). -/
theorem registered_is_admitted_start (σ : State) (op : Op) (x : Nat × Nat)
    (h : x ∈ (step σ op).registered) (hn : x ∉ σ.registered) :
    op = .start x.1 x.2 ∧ σ.up = true ∧ σ.vol.pc = none ∧ lookup σ.vol.sessions x.1 = none :=
  registered_admitted σ op x h hn

/-- No Stop is accepted for a session that was not started before: when the server accepts a Stop, the
    history so far contains an admitted StartSession of that session id. -/
theorem stop_only_started (c : Cfg) (ops : List Op) (pre post : List Rec) (r : Rec)
    (h : (run (init c) ops).log = pre ++ r :: post) (_hk : r.kind = .stop) :
    ∃ ops₁ ops₂ ident, ops = ops₁ ++ ops₂ ∧ (run (init c) ops₁).log = pre ∧
      (r.sid, ident) ∈ (run (init c) ops₁).registered := by
  obtain ⟨o1, o2, e, h1, h2⟩ := own_identifiers_prefix c ops pre post r h
  exact ⟨o1, o2, r.ident, e, h1, h2⟩

/-- When session ids are not reused, every accepted record of a session carries exactly the identifiers its
    StartSession was given. -/
theorem own_identifiers_unique (c : Cfg) (ops : List Op)
    (hfresh : ((run (init c) ops).registered.map (·.1)).Nodup) (s ident : Nat)
    (hreg : (s, ident) ∈ (run (init c) ops).registered) :
    ∀ r ∈ (run (init c) ops).log, r.sid = s → r.ident = ident := by
  intro r hr hs
  have h1 := own_identifiers c ops r hr
  rw [hs] at h1
  -- two pairs with the same first component in a list whose first components are distinct
  have key : ∀ (l : List (Nat × Nat)), (l.map (·.1)).Nodup → (s, r.ident) ∈ l → (s, ident) ∈ l → r.ident = ident := by
    intro l
    induction l with
    | nil => intro _ h; simp at h
    | cons x xs ih =>
      intro hn ha hb
      simp only [List.map_cons, List.nodup_cons] at hn
      rcases List.mem_cons.mp ha with e1 | e1
      · rcases List.mem_cons.mp hb with e2 | e2
        · rw [← e1] at e2; exact (Prod.mk.inj e2).2.symm
        · exact absurd (List.mem_map.mpr ⟨(s, ident), e2, rfl⟩) (by rw [← e1] at hn; exact hn.1)
      · rcases List.mem_cons.mp hb with e2 | e2
        · exact absurd (List.mem_map.mpr ⟨(s, r.ident), e1, rfl⟩) (by rw [← e2] at hn; exact hn.1)
        · exact ih hn.2 e1 e2
  exact key _ hfresh h1 hreg

/-! ## never before its Start (recorded finding D24) -/

/-- PARTIAL (finding D24).  An accepted Stop is preceded in the server's log by the accepted Start of the
    same session — for every session whose Start was acknowledged when StartSession sent it.  Excluded:
    sessions in `startQueued`, i.e. whose Start request the client saw fail inside StartSession, so that it
    was queued (`D24_clause_is_failed_start` shows the clause is exactly that). -/
theorem stop_after_start_partial (c : Cfg) (ops : List Op) :
    ∀ pre r post, (run (init c) ops).log = pre ++ r :: post → r.kind = .stop →
      r.sid ∉ (run (init c) ops).startQueued →
      ∃ r' ∈ pre, r'.kind = .start ∧ r'.sid = r.sid :=
  (sa_run (sa_init c) ops).log

/-- The exclusion clause of D24 is narrow: a session enters `startQueued` only by the micro-step of
    StartSession that transmits the Start, and only when the client does not get the acknowledgement. -/
theorem D24_clause_is_failed_start (σ : State) (op : Op) (s : Nat)
    (h : s ∈ (step σ op).startQueued) :
    s ∈ σ.startQueued ∨ ((∃ a, a ≠ Ans.up ∧ op = .tick a) ∧ σ.vol.pc = some (.startSend s)) :=
  startQueued_step σ op s h

def w24 : List Op := [.start 1 1, .tick .down, .tick .up, .stop 1 1, .tick .up, .tick .up]

/-- D24 as a theorem: Start fails (queued), the immediate Stop succeeds: the log begins with the Stop. -/
theorem D24_witness :
    (run (init ⟨3, 8⟩) w24).log.map (fun r => (r.kind, r.sid)) = [(.stop, 1)] ∧
    1 ∈ (run (init ⟨3, 8⟩) w24).startQueued := by
  decide

/-! ## durability at every micro-step (recorded finding KF-acct-recovery-volatile) -/

/-- PARTIAL (finding KF-acct-recovery-volatile).  At EVERY micro-step of EVERY history — wherever a crash
    (plain, or in the middle of a file write) may strike, whatever the processor is doing concurrently — a
    session whose StartSession ran to completion and whose Stop the server has not accepted still has its
    session file on disk.  Excluded: sessions in `recVol`, whose Stop the recovery procedure itself re-queued in
    memory or loaded from pending.json (`KF_recovery_clause_is_recovery`). -/
theorem durable_every_microstep_partial (c : Cfg) (ops : List Op) :
    ∀ s ∈ (run (init c) ops).started,
      (∃ r ∈ (run (init c) ops).log, r.kind = .stop ∧ r.sid = s) ∨
      s ∈ (run (init c) ops).recVol ∨
      (lookup (run (init c) ops).dur.files s).isSome :=
  (dur_run (dur_init c) ops).core

/-- `started` means exactly: the last micro-step of StartSession (persist) was executed for the session. -/
theorem started_is_completed_start (σ : State) (op : Op) (s : Nat) (h : s ∈ (step σ op).started) :
    s ∈ σ.started ∨ ((∃ a, op = .tick a) ∧ σ.vol.pc = some (.startPersist s)) :=
  started_step σ op s h

/-- The exclusion clause is narrow: a session enters `recVol` only in the recovery procedure — when the client
    gets no acknowledgement for the Stop it sends from an orphaned session file, or when it loads the session's
    Stop from pending.json. -/
theorem KF_recovery_clause_is_recovery (σ : State) (op : Op) (s : Nat) (h : s ∈ (step σ op).recVol) :
    s ∈ σ.recVol ∨
    ((∃ a, a ≠ Ans.up ∧ op = .tick a) ∧ ∃ rest recd order, σ.vol.pc = some (.recSend s rest recd order)) ∨
    ((∃ a, op = .tick a) ∧ ∃ recd order ps, σ.vol.pc = some (.recLoad recd order) ∧ σ.dur.pfile = some ps ∧
      ∃ p ∈ ps, p.req.kind = .stop ∧ p.req.sid = s) :=
  recVol_step σ op s h

def wRec : List Op :=
  [.start 1 1, .tick .up, .tick .up, .crash, .restart [], .tick .down, .tick .up, .tick .up, .crash]

/-- The finding as a theorem: the session was started, the server never accepted a Stop, and after the
    second crash nothing on disk remembers it. -/
theorem KF_recovery_witness :
    let σ := run (init ⟨3, 8⟩) wRec
    1 ∈ σ.started ∧ σ.log.map (fun r => (r.kind, r.sid)) = [(.start, 1)] ∧
    σ.dur.files.isEmpty ∧ σ.dur.pfile.isNone ∧ 1 ∈ σ.recVol := by
  decide

def wWin : List Op := [.start 1 1, .tick .up, .crash]

/-- Recorded finding KF-acct-start-window: StartSession transmits the Start before it persists the session.
    A crash in between leaves a Start the server accepted, no session file, and (the call never completed)
    a session that is not `started` — which is why the durability theorems speak about completed calls. -/
theorem KF_start_window_witness :
    let σ := run (init ⟨3, 8⟩) wWin
    σ.log.map (fun r => (r.kind, r.sid)) = [(.start, 1)] ∧ σ.dur.files.isEmpty ∧ σ.dur.pfile.isNone ∧
    1 ∉ σ.started := by
  decide

/-- FULL strength in the first process lifetime: in a history without `restart` (any crash point, torn or
    not, any answers, any interleaving) a started session without an accepted Stop has its session file. -/
theorem durable_first_lifetime (c : Cfg) (ops : List Op) (h : ∀ order, Op.restart order ∉ ops) :
    ∀ s ∈ (run (init c) ops).started,
      (∃ r ∈ (run (init c) ops).log, r.kind = .stop ∧ r.sid = s) ∨
      (lookup (run (init c) ops).dur.files s).isSome := by
  intro s hs
  rcases durable_every_microstep_partial c ops s hs with h1 | h1 | h1
  · exact Or.inl h1
  · rw [recVol_empty_without_restart c ops h] at h1; simp at h1
  · exact Or.inr h1

/-! ## a Stop acknowledged to the client is never sent again, absent a crash -/

/-- Once a Stop of a session has been ACKNOWLEDGED to the client, the server never accepts another Stop of
    that session — unless a crash happened after the session was started (`tainted`,
    `tainted_is_crash_after_start`).  Position i of the log holds an acknowledged Stop of the session, a later
    position j holds another Stop of it ⇒ the session is tainted.  (A Stop the server accepted but whose
    reply the client never saw — `lost` — may legitimately be sent again: only the acknowledged one counts.)
    Graceful shutdown + restart, the retry tick racing the queue channel, the processor delivering a queued
    Stop while StopSession or the shutdown drain is still running, the orphan recovery, pending.json: none
    re-sends an acknowledged Stop.  Hypothesis: session ids are not reused (RADIUS requires Acct-Session-Id
    to be unique). -/
theorem no_dup_stop_without_crash (c : Cfg) (ops : List Op)
    (hfresh : ((run (init c) ops).registered.map (·.1)).Nodup)
    (i j : Nat) (ri rj : Rec) (hij : i < j)
    (hi : (run (init c) ops).log[i]? = some ri) (hack : (run (init c) ops).logAck[i]? = some true)
    (hj : (run (init c) ops).log[j]? = some rj)
    (hki : ri.kind = .stop) (hkj : rj.kind = .stop) (hs : ri.sid = rj.sid) :
    ri.sid ∈ (run (init c) ops).tainted := by
  have hd := (ld_run c ops).dup i j ri rj hij hi hack hj hki hkj hs
  have h := nd_run (nd_init c) (reg_init c) (by intro s hs; simp [init] at hs)
    (by intro h; simp [init] at h) ops hfresh
  by_cases ht : ri.sid ∈ (run (init c) ops).tainted
  · exact ht
  · exact absurd hd (h.per _ ht).a

/-- `tainted` is exactly: a crash happened after StartSession registered the session. -/
theorem tainted_is_crash_after_start (σ : State) (op : Op) (s : Nat) (h : s ∈ (step σ op).tainted) :
    s ∈ σ.tainted ∨ ((op = .crash ∨ op = .crashTorn) ∧ s ∈ σ.registered.map (·.1)) :=
  tainted_step σ op s h

/-- In a history without any crash (graceful shutdowns and restarts allowed, any answers, any interleaving
    of the processor) an acknowledged Stop is never followed by another Stop of the same session. -/
theorem no_dup_stop_crash_free (c : Cfg) (ops : List Op) (hnc : Op.crash ∉ ops) (hnc2 : Op.crashTorn ∉ ops)
    (hfresh : ((run (init c) ops).registered.map (·.1)).Nodup)
    (i j : Nat) (ri rj : Rec) (hij : i < j)
    (hi : (run (init c) ops).log[i]? = some ri) (hack : (run (init c) ops).logAck[i]? = some true)
    (hj : (run (init c) ops).log[j]? = some rj)
    (hki : ri.kind = .stop) (hkj : rj.kind = .stop) : ri.sid ≠ rj.sid := by
  intro hs
  have := no_dup_stop_without_crash c ops hfresh i j ri rj hij hi hack hj hki hkj hs
  rw [tainted_empty_run (init c) ops hnc hnc2 rfl] at this
  simp at this

/-! ## restart drains what is durable -/

/-- After ANY history that left the process down (crash at any micro-step, torn or not, or graceful shutdown):
    restart, let the recovery procedure run to completion with the server up, then one retry pass of the
    processor with the server up (`drainOps`; `n` = number of micro-steps granted to each, any sufficiently large
    number: micro-steps of a finished call do nothing).  Then every Stop that was on disk — the session file of
    `s`, or a Stop of `s` stored in pending.json — has been accepted by the server, for every started session
    `s`, under every iteration order of pending.json and of the retry map. -/
theorem restart_drains (c : Cfg) (ops : List Op) (order order2 : List Nat)
    (hdown : (run (init c) ops).up = false) :
    ∃ N, ∀ n, N ≤ n → ∀ s ∈ (run (init c) ops).started, durableStop (run (init c) ops) s →
      ∃ r ∈ (run (run (init c) ops) (drainOps order order2 n)).log, r.kind = .stop ∧ r.sid = s := by
  by_cases hs : (run (init c) ops).started = []
  · exact ⟨0, fun n _ s hs' => by rw [hs] at hs'; simp at hs'⟩
  · obtain ⟨N, hN⟩ := restart_drains_core _ hdown (started_dir_run c ops hs) order order2
    exact ⟨N, fun n hn s _ hd => (hN n hn s hd).1⟩

/-- End to end: crash ANYWHERE, restart with the server up — every session whose StartSession had completed
    ends with an accepted Stop, except those the recovery procedure had re-queued in memory before
    (finding KF-acct-recovery-volatile). -/
theorem every_started_session_gets_its_stop_partial (c : Cfg) (ops : List Op) (order order2 : List Nat) :
    ∃ N, ∀ n, N ≤ n → ∀ s ∈ (run (init c) ops).started, s ∉ (run (init c) ops).recVol →
      ∃ r ∈ (run (run (init c) ops) (.crash :: drainOps order order2 n)).log, r.kind = .stop ∧ r.sid = s := by
  have hdown : (run (init c) (ops ++ [.crash])).up = false := by
    rw [run_append]; rfl
  obtain ⟨N, hN⟩ := restart_drains c (ops ++ [.crash]) order order2 hdown
  refine ⟨N, fun n hn s hs hr => ?_⟩
  have e : run (run (init c) ops) (.crash :: drainOps order order2 n) =
      run (run (init c) (ops ++ [.crash])) (drainOps order order2 n) := by
    rw [run_append]; rfl
  rw [e]
  have hs' : s ∈ (run (init c) (ops ++ [.crash])).started := by rw [run_append]; exact hs
  rcases durable_every_microstep_partial c ops s hs with ⟨r, hr1, hr2⟩ | h1 | h1
  · -- already accepted: the log only grows
    refine ⟨r, ?_, hr2⟩
    have : ∀ (l : List Op) (σ : State), r ∈ σ.log → r ∈ (run σ l).log := by
      intro l
      induction l with
      | nil => intro σ h; exact h
      | cons op l ih => intro σ h; exact ih _ (log_mono_step σ op r h)
    apply this
    rw [run_append]; exact hr1
  · exact absurd h1 hr
  · apply hN n hn s hs'
    left
    rw [run_append]; exact h1

/-! ## within the retry budget -/

/-- In the SAME process lifetime (no crash, no restart needed): whenever the processor goroutine is alive
    and idle — whatever API call is parked in whatever frame — one retry pass with the server up delivers every
    record of the retry map, in particular every queued Stop. -/
theorem retry_delivers_same_lifetime (c : Cfg) (ops : List Op) (order : List Nat)
    (hup : (run (init c) ops).up = true) (halive : procAlive (run (init c) ops).vol.pc = true)
    (hidle : (run (init c) ops).vol.ppc = none) :
    ∃ N, ∀ n, N ≤ n → ∀ id p, findP (run (init c) ops).vol.pending id = some p →
      p.req ∈ (run (run (init c) ops) (Op.retry order :: pticks n)).log := by
  obtain ⟨N, hN⟩ := retry_delivers_core _ hup halive hidle order
  exact ⟨N, fun n hn id p hp => (hN n hn).2.2 id p hp⟩

/-- … and so does the channel delivery for the record at the head of the queue. -/
theorem deq_delivers_same_lifetime (c : Cfg) (ops : List Op) (id : Nat) (q : List Nat)
    (hup : (run (init c) ops).up = true) (halive : procAlive (run (init c) ops).vol.pc = true)
    (hidle : (run (init c) ops).vol.ppc = none) (hq : (run (init c) ops).vol.queue = id :: q) :
    ∃ N, ∀ n, N ≤ n → ∀ p, findP (run (init c) ops).vol.pending id = some p →
      p.req ∈ (run (run (init c) ops) (Op.deq :: pticks n)).log := by
  obtain ⟨N, hN⟩ := deq_delivers_core _ hup halive hidle id q hq
  exact ⟨N, fun n hn p hp => (hN n hn).2 p hp⟩

/-- Every retry count in the retry map and in pending.json stays below the budget (MaxRetries ≥ 1). -/
theorem retries_below_budget (c : Cfg) (hm : 1 ≤ c.maxRetries) (ops : List Op) :
    (∀ p ∈ (run (init c) ops).vol.pending, p.retries < c.maxRetries) ∧
    (∀ ps, (run (init c) ops).dur.pfile = some ps → ∀ p ∈ ps, p.retries < c.maxRetries) := by
  obtain ⟨h, hc⟩ := rb_run c hm ops
  have h1 := h.pend
  have h2 := h.pfile
  rw [hc] at h1 h2
  exact ⟨h1, h2⟩

/-- A transmission of the processor the client sees fail, which is not the last one the budget allows, keeps
    the record and adds exactly one to its retry count; nothing is abandoned. -/
theorem failed_send_counts_one (σ : State) (id : Nat) (rest : List Nat) (p : PRec) (a : Ans)
    (hpc : σ.vol.ppc = some (.procSend id rest)) (hp : findP σ.vol.pending id = some p) (ha : a ≠ .up)
    (hlt : p.retries + 1 < σ.cfg.maxRetries) :
    findP (ptick σ a).vol.pending id = some { p with retries := p.retries + 1 } ∧
    (ptick σ a).abandoned = σ.abandoned :=
  proc_fail_counts hpc hp ha hlt

/-- The failed transmission that exhausts the budget removes the record (a Stop: the session is `abandoned`). -/
theorem budget_exhausted_abandons (σ : State) (id : Nat) (rest : List Nat) (p : PRec) (a : Ans)
    (hpc : σ.vol.ppc = some (.procSend id rest)) (hp : findP σ.vol.pending id = some p) (ha : a ≠ .up)
    (hge : p.retries + 1 ≥ σ.cfg.maxRetries) :
    findP (ptick σ a).vol.pending id = none ∧ (p.req.kind = .stop → p.req.sid ∈ (ptick σ a).abandoned) :=
  proc_fail_abandons hpc hp ha hge

/-- A Stop is abandoned ONLY so: by a processor transmission the client saw fail, of a record whose retry count
    thereby reaches MaxRetries — with `retries_below_budget`, exactly at its MaxRetries-th failed transmission. -/
theorem abandoned_only_at_budget (σ : State) (op : Op) (s : Nat) (h : s ∈ (step σ op).abandoned) :
    s ∈ σ.abandoned ∨
    ∃ a id rest p, op = .ptick a ∧ a ≠ .up ∧ σ.vol.ppc = some (.procSend id rest) ∧
      findP σ.vol.pending id = some p ∧ p.req.kind = .stop ∧ p.req.sid = s ∧
      p.retries + 1 ≥ σ.cfg.maxRetries :=
  abandoned_step σ op s h

/-! ## gigawords -/

/-- the low word / gigaword split of SendAccounting reports a 64-bit counter exactly -/
theorem gigaword_exact : ∀ x : UInt64, (x >>> 32).toNat * 2 ^ 32 + (x &&& 0xFFFFFFFF).toNat = x.toNat := by
  intro x
  rw [UInt64.toNat_shiftRight, UInt64.toNat_and]
  have h1 : (32 : UInt64).toNat % 64 = 32 := by decide
  have h2 : (0xFFFFFFFF : UInt64).toNat = 2 ^ 32 - 1 := by decide
  rw [h1, h2, Nat.shiftRight_eq_div_pow, Nat.and_two_pow_sub_one_eq_mod]
  omega

/-- the Gigawords attribute is omitted exactly when the high word is 0 -/
theorem gigaword_omitted_iff (x : UInt64) : (AcctWire.encode x).giga = none ↔ x >>> 32 = 0 := by
  have hz : x >>> 32 = 0 ↔ ¬ (x > 0xFFFFFFFF) := by
    rw [← UInt64.toNat_inj, UInt64.toNat_shiftRight]
    have h1 : (32 : UInt64).toNat % 64 = 32 := by decide
    rw [h1, Nat.shiftRight_eq_div_pow]
    show _ ↔ ¬ ((0xFFFFFFFF : UInt64) < x)
    rw [UInt64.lt_iff_toNat_lt]
    have h2 : (0xFFFFFFFF : UInt64).toNat = 2 ^ 32 - 1 := by decide
    rw [h2]
    simp
    omega
  unfold AcctWire.encode
  by_cases h : x > 0xFFFFFFFF
  · simp [h, hz]
  · simp [h, hz]

/-- what the server reconstructs from the two attributes is the counter -/
theorem gigaword_roundtrip (x : UInt64) : AcctWire.decode (AcctWire.encode x) = x.toNat := by
  have hx := gigaword_exact x
  unfold AcctWire.decode AcctWire.encode AcctWire.low AcctWire.high
  by_cases h : x > 0xFFFFFFFF
  · simp only [h, if_true]; exact hx
  · simp only [h, if_false]
    have hz := (gigaword_omitted_iff x).mp (by simp [AcctWire.encode, h])
    rw [hz] at hx
    simpa using hx

/-! ## the retry schedule with time (model Bng.AcctBackoff, tied to the real code under a virtual clock by
    harness/cmd/acctretry) -/

/-- the back-off after the n-th failed send is exactly `min (base * 2^n) max`: at least the base delay,
    at most the cap, never negative (fix C08-backoff-overflow) -/
theorem backoff_bounds (base max : Int) (n : Nat) (hb : 0 < base) (hm : base ≤ max) :
    base ≤ AcctBackoff.delay base max n ∧ AcctBackoff.delay base max n ≤ max := by
  have h2 : (1 : Int) ≤ 2 ^ n := by
    have : (0 : Int) < 2 ^ n := Int.pow_pos (by decide)
    omega
  have h3 : base * 1 ≤ base * 2 ^ n := Int.mul_le_mul_of_nonneg_left h2 (Int.le_of_lt hb)
  unfold AcctBackoff.delay
  split <;> omega

/-- the back-off never decreases from one failure to the next -/
theorem backoff_monotone (base max : Int) (n : Nat) (hb : 0 < base) :
    AcctBackoff.delay base max n ≤ AcctBackoff.delay base max (n + 1) := by
  have h3 : base * 2 ^ n ≤ base * 2 ^ (n + 1) := by
    rw [Int.pow_succ, ← Int.mul_assoc]
    have : (0 : Int) ≤ base * 2 ^ n := Int.mul_nonneg (Int.le_of_lt hb) (Int.le_of_lt (Int.pow_pos (by decide)))
    omega
  unfold AcctBackoff.delay
  split <;> split <;> omega

/-- the gate: `retry` sends exactly the records whose NextRetry is STRICTLY in the past -/
theorem retry_gate (σ : AcctBackoff.State) (id : Nat) :
    id ∈ AcctBackoff.due σ ↔ ∃ r ∈ σ.recs, r.id = id ∧ r.next < σ.now := by
  unfold AcctBackoff.due
  simp only [List.mem_map, List.mem_filter, decide_eq_true_eq]
  constructor
  · rintro ⟨r, ⟨hr, hn⟩, rfl⟩; exact ⟨r, hr, rfl, hn⟩
  · rintro ⟨r, hr, rfl, hn⟩; exact ⟨r, ⟨hr, hn⟩, rfl⟩

/-- before the fix the int64 product wrapped: with the default 1 s / 60 s delays the 34th failure scheduled the
    next retry 40 years in the PAST, i.e. the record was due at once, on every tick -/
theorem backoff_overflow_witness :
    AcctBackoff.delayWrapped 1000000000 60000000000 34 < 0 ∧ AcctBackoff.delay 1000000000 60000000000 34 = 60000000000 := by
  decide


/-! ## the interim goroutine -/

/-- Sending an interim update and handling its answer writes NOTHING durable: whatever happened to the session
    while the update was in flight (StopSession may have completed and removed the session file), the late
    acknowledgement cannot bring a session file back from which a recovery would send the Stop again.
    (no_dup_stop_without_crash holds for every interleaving of the three threads; this is the local fact
    the correspondence run checks at every `interim` operation through `dur=`.) -/
theorem interim_ack_writes_nothing_durable (σ : State) (a : Ans) : (step σ (.itick a)).dur = σ.dur :=
  itick_ghost State.dur (fun _ _ => rfl) (fun _ _ _ => rfl) (fun _ _ _ => rfl) (fun _ _ => rfl) σ a

/-! ## the real session paths: DHCPv4 and PPPoE send their accounting requests directly (model Bng.AcctDirect,
    tied to pkg/dhcp Server and pkg/pppoe SessionTeardown by harness/cmd/acctdirect) -/

/-- (partial: excludes KF-acct-direct-send) Every DHCP / PPPoE session that has ended has its Accounting-Stop
    accepted by the server - unless it ended while the accounting server was unreachable. -/
theorem direct_stop_delivered_partial (ops : List AcctDirect.Op) (s : AcctDirect.Sid)
    (hend : s ∈ (AcctDirect.run {} ops).ended) (hclause : s ∉ (AcctDirect.run {} ops).endedDown) :
    AcctDirect.stopOf s ∈ (AcctDirect.run {} ops).log := by
  have h := AcctDirect.inv_run (σ := {}) (by intro x hx; simp at hx) ops s hend
  exact h.resolve_left hclause

/-- the clause is exactly the mechanism: a session enters `endedDown` only by its own RELEASE / PADT at a moment when
    the accounting server is unreachable -/
theorem KF_direct_send_clause_is_outage (σ : AcctDirect.State) (op : AcctDirect.Op) (x : AcctDirect.Sid)
    (h : x ∈ (AcctDirect.step σ op).endedDown) :
    x ∈ σ.endedDown ∨ (σ.up = false ∧ ((∃ k, op = .drel k ∧ x.path = .dhcp ∧ x.k = k) ∨
      (∃ k, op = .ppadt k ∧ x.path = .pppoe ∧ x.k = k))) :=
  AcctDirect.endedDown_step σ op x h

/-- KF-acct-direct-send: the Start of a DHCP session is accepted, the session is released during an outage, the
    server comes back - and the Stop is never sent: nothing queued it, nothing persisted it -/
theorem KF_direct_send_witness :
    ∃ ops : List AcctDirect.Op, ∃ s : AcctDirect.Sid,
      (AcctDirect.run {} ops).up = true ∧ (⟨.start, s⟩ : AcctDirect.Rec) ∈ (AcctDirect.run {} ops).log ∧
      s ∈ (AcctDirect.run {} ops).ended ∧ AcctDirect.stopOf s ∉ (AcctDirect.run {} ops).log ∧
      (AcctDirect.run {} ops).leases = [] :=
  ⟨[.dreq 1, .srv false, .drel 1, .srv true], ⟨.dhcp, 1, 1⟩, by decide⟩

/-! ## overlapping API calls -/

/-- The model has ONE API program counter: a StartSession / StopSession / Stop() attempted while another API call is
    in progress changes nothing but its own result.  The code matches this for calls of the SAME session - a
    StopSession is refused while the session's StartSession or another StopSession is under way (fixes
    C08-start-stop-overlap, C08-stop-stop-overlap; the correspondence run nests such calls at every marker);
    overlapping calls of DIFFERENT sessions are executed by the code and are not modelled. -/
theorem overlapping_call_has_no_effect (σ : State) (hup : σ.up = true) (hpc : σ.vol.pc.isSome = true) :
    (∀ s c, step σ (.stop s c) = { σ with res := .busy }) ∧
    (∀ s i, step σ (.start s i) = { σ with res := .busy }) ∧
    (∀ o, step σ (.shutdown o) = { σ with res := .busy }) := by
  refine ⟨?_, ?_, ?_⟩ <;> intros <;> simp [step, hup, hpc]

/-! non-vacuity -/
example : ∃ ops : List Op, Op.crash ∉ ops ∧ Op.crashTorn ∉ ops ∧
    ((run (init ⟨3, 8⟩) ops).registered.map (·.1)).Nodup ∧ (run (init ⟨3, 8⟩) ops).log.length = 4 :=
  ⟨[.start 1 1, .tick .up, .tick .up, .start 2 2, .tick .up, .tick .up, .stop 1 1, .tick .up, .tick .lost,
    .deq, .ptick .up, .ptick .up, .tick .up, .tick .up],
   by simp, by simp, by decide, by decide⟩
example : ∃ ops : List Op, (run (init ⟨3, 8⟩) ops).up = false ∧ (run (init ⟨3, 8⟩) ops).started ≠ [] ∧
    durableStop (run (init ⟨3, 8⟩) ops) 1 :=
  ⟨[.start 1 1, .tick .up, .tick .up, .crashTorn], by decide, by decide, Or.inl (by decide)⟩
example : ∃ ops, (run (init ⟨3, 8⟩) ops).started ≠ [] ∧ (run (init ⟨3, 8⟩) ops).recVol = [] :=
  ⟨[.start 1 1, .tick .up, .tick .up], by decide⟩
/-- StopSession runs to completion while an interim update of the session is in flight; the update is accepted
    after the Stop, nothing is left on disk -/
example : ∃ ops : List Op, Op.crash ∉ ops ∧ (run (init ⟨3, 8⟩) ops).log.length = 3 ∧
    (run (init ⟨3, 8⟩) ops).dur.files = [] ∧ (run (init ⟨3, 8⟩) ops).vol.ipc = none ∧
    (run (init ⟨3, 8⟩) ops).ackedStops = [1] :=
  ⟨[.start 1 1, .tick .up, .tick .up, .interim 1, .stop 1 1, .tick .up, .tick .up, .tick .up, .tick .up, .itick .up],
   by simp, by decide, by decide, by decide, by decide⟩
example : ∃ ops r, r ∈ (run (init ⟨3, 8⟩) ops).log ∧ r.kind = .stop ∧ r.sid ∉ (run (init ⟨3, 8⟩) ops).startQueued :=
  ⟨[.start 1 1, .tick .up, .tick .up, .stop 1 1, .tick .up, .tick .up],
   ⟨.stop, 1, 1, 1, 0, 0⟩, by decide⟩
example : ∃ ops : List Op, (run (init ⟨3, 8⟩) ops).up = true ∧ procAlive (run (init ⟨3, 8⟩) ops).vol.pc = true ∧
    (run (init ⟨3, 8⟩) ops).vol.ppc = none ∧ (run (init ⟨3, 8⟩) ops).vol.pending ≠ [] :=
  ⟨[.start 1 1, .tick .up, .tick .up, .stop 1 1, .tick .up, .tick .down], by decide⟩

end Bng.Spec.C08
