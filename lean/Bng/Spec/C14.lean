import Bng.Proof.Failover
/-
  C14 — A standby promotes itself only after sustained partner failure.

  Property statements only.  `ops : List Op` is an arbitrary sequence of partner-down / partner-up reports,
  clock advances, control-loop ticks, timer deliveries `fire i` (of any timer instance, at any time at or after its
  deadline — including instances that were stopped too late, i.e. stale time.AfterFunc callbacks), ends of grace
  sleeps `wake j ok` with either callback outcome, and operator commands.  The model is the code as repaired by
  28a60ee (D44), 6b9ce09 (D45) and aee8e6b (failback re-validation); all six clauses hold at full strength.
-/
namespace Bng.Spec.C14
open Bng.Failover

/-- The automatic path enters a failover (a timer delivery moves the state to in_progress) only if the partner
    is reported down and has been reported down without interruption since a time `a` at least FailoverDelay ago
    (`downSince` is cleared by every recovery report and set by every transition to unhealthy). -/
theorem promote_requires_sustained_down (c : Cfg) (ops : List Op) (i : Nat)
    (h : (fire (run (init c) ops) i).1.state = .inProgress)
    (h0 : (run (init c) ops).state ≠ .inProgress) :
    (run (init c) ops).healthy = false ∧
    ∃ a, (run (init c) ops).downSince = some a ∧ a + c.delay ≤ (run (init c) ops).now := by
  have hI := inv_run (inv_init c) ops
  have hcfg : (run (init c) ops).cfg = c := run_cfg _ _
  generalize run (init c) ops = s at *
  unfold fire at h
  split at h
  · exact absurd h h0
  · rename_i t ht
    split at h
    · exact absurd h h0
    · rename_i hen
      have hdue : t.deadline ≤ s.now := by
        simp only [not_or, Nat.not_lt] at hen; exact hen.2.2
      simp only at h
      split at h
      · rename_i hk
        split at h
        · rename_i hc
          obtain ⟨hh, a, ha, hall⟩ := hI.K hc.1
          have := hall t (mem_of_getElem?' ht) hk hc.2
          rw [hcfg] at this
          exact ⟨hh, a, ha, by omega⟩
        · exact absurd h h0
      · split at h
        · split at h
          · simp at h
          · exact absurd h h0
        · exact absurd h h0

/-- … and every promotion the automatic path ever completed was entered under that condition: the log of
    (entry time, down-since at entry) of all non-forced promotions of any history satisfies it. -/
theorem auto_promotions_sustained (c : Cfg) (ops : List Op) :
    ∀ p ∈ (run (init c) ops).autoLog, ∃ a, p.2 = some a ∧ a + c.delay ≤ p.1 := by
  have hI := inv_run (inv_init c) ops
  have hcfg : (run (init c) ops).cfg = c := run_cfg _ _
  intro p hp
  have := hI.L p hp
  rw [hcfg] at this
  exact this

/-- A recovery reported while the failover is pending cancels it: the state returns to normal, the role is
    unchanged, and no timer instance that existed at that moment can ever promote — whatever happens afterwards
    (`ops'`) and however late it is delivered, its delivery changes neither state, role nor the executions in
    flight. -/
theorem recovery_cancels (c : Cfg) (ops ops' : List Op) (i : Nat)
    (hp : (run (init c) ops).state = .pending) (hi : i < (run (init c) ops).timers.length) :
    (step (run (init c) ops) .up).1.state = .normal ∧
    (step (run (init c) ops) .up).1.role = (run (init c) ops).role ∧
    (let s2 := run (step (run (init c) ops) .up).1 ops'
     (fire s2 i).1.state = s2.state ∧ (fire s2 i).1.role = s2.role ∧ (fire s2 i).1.execs = s2.execs) := by
  have hI := inv_run (inv_init c) ops
  generalize run (init c) ops = s at *
  have hh := (hI.K hp).1
  have hup : (step s .up).1 = { s with healthy := true, downSince := none, state := .normal, gen := s.gen + 1, timers := stopAll .failover s.now s.timers, canceled := s.canceled + 1 } := by
    simp [step, up, hh, handleUp, hp]
  refine ⟨by rw [hup], by rw [hup], ?_⟩
  intro s2
  have hg := run_gens (step s .up).1 ops'
  have hg1 : (step s .up).1.gen = s.gen + 1 := by rw [hup]
  have hg2 : (step s .up).1.timers.map (·.gen) = s.timers.map (·.gen) := by rw [hup]; exact gens_stopAll _ _ _
  have hgen : s.gen + 1 ≤ s2.gen := by have := hg.1; rw [hg1] at this; exact this
  have hpre : s.timers.map (·.gen) <+: s2.timers.map (·.gen) := by
    have := hg.2; rw [hg2] at this; exact this
  -- the instance at index i still carries its old generation, which is now stale
  have hstale : ∀ t, s2.timers[i]? = some t → t.gen ≠ s2.gen := by
    intro t ht
    obtain ⟨r, hr⟩ := hpre
    have h1 : (s2.timers.map (·.gen))[i]? = some t.gen := by simp [ht]
    rw [← hr, List.getElem?_append_left (by simpa using hi)] at h1
    simp only [List.getElem?_map, Option.map_eq_some_iff] at h1
    obtain ⟨t0, ht0, hg0⟩ := h1
    have := hI.gT t0 (mem_of_getElem?' ht0)
    omega
  unfold fire
  split
  · exact ⟨rfl, rfl, rfl⟩
  · rename_i t ht
    have hs := hstale t ht
    split
    · exact ⟨rfl, rfl, rfl⟩
    · simp only
      split
      · split
        · rename_i hc; exact absurd hc.2 hs
        · exact ⟨rfl, rfl, rfl⟩
      · split
        · rename_i hc; exact absurd hc.2 hs
        · exact ⟨rfl, rfl, rfl⟩

/-- The reported role changes only in the step that follows a role-change callback which succeeded for exactly
    the new role (for every state, reachable or not). -/
theorem role_after_callback_ok (s : State) (op : Op) (h : (step s op).1.role ≠ s.role) :
    ∃ j, op = .wake j true ∧ Emit.callback (step s op).1.role true ∈ (step s op).2 := by
  cases op with
  | down => exfalso; apply h; simp only [step, down, handleDown]; (repeat' split) <;> rfl
  | up => exfalso; apply h; simp only [step, up, handleUp]; (repeat' (first | split | (simp only; split))) <;> rfl
  | tick => exfalso; apply h; simp only [step, tick]; (repeat' split) <;> rfl
  | advance dt => exact absurd rfl h
  | fire i => exfalso; apply h; simp only [step, fire]; (repeat' (first | split | (simp only; split))) <;> rfl
  | forceFailover => exfalso; apply h; simp only [step, forceFailover]; (repeat' split) <;> rfl
  | forceFailback => exfalso; apply h; simp only [step, forceFailback]; (repeat' split) <;> rfl
  | wake j ok =>
    refine ⟨j, ?_⟩
    simp only [step] at h ⊢
    unfold wake at h ⊢
    split
    · rename_i hn; simp [hn] at h
    · rename_i e he
      simp only [he] at h
      split
      · rename_i hw; simp [hw] at h
      · rename_i hw
        simp only [hw, if_false] at h
        cases hk : e.kind with
        | failover =>
          simp only [hk] at h ⊢
          cases ok with
          | true => simp
          | false => simp at h
        | failback =>
          simp only [hk] at h ⊢
          split
          · rename_i hc; simp [hc] at h
          · rename_i hc
            simp only [hc, if_false] at h
            split
            · rename_i hu; simp [hu] at h
            · rename_i hu
              simp only [hu] at h
              cases ok with
              | true => simp
              | false => simp at h

/-- Each promotion emits exactly one `completed` event and is counted once: along every history the number of
    `completed` events, the number of role changes standby → active and the failoversCompleted counter coincide. -/
theorem one_completed_per_promotion (c : Cfg) (ops : List Op) :
    (run (init c) ops).completedEvents = (run (init c) ops).promotions ∧
    (run (init c) ops).completed = (run (init c) ops).promotions :=
  (inv_run (inv_init c) ops).C

/-- A failback is completed only in a step in which the partner is reported healthy (for every state). -/
theorem failback_only_healthy (s : State) (op : Op) (h : (step s op).1.failbacks ≠ s.failbacks) :
    s.healthy = true ∧ (step s op).1.healthy = true := by
  cases op with
  | down => exfalso; apply h; simp only [step, down, handleDown]; (repeat' split) <;> rfl
  | up => exfalso; apply h; simp only [step, up, handleUp]; (repeat' (first | split | (simp only; split))) <;> rfl
  | tick => exfalso; apply h; simp only [step, tick]; (repeat' split) <;> rfl
  | advance dt => exact absurd rfl h
  | fire i => exfalso; apply h; simp only [step, fire]; (repeat' (first | split | (simp only; split))) <;> rfl
  | forceFailover => exfalso; apply h; simp only [step, forceFailover]; (repeat' split) <;> rfl
  | forceFailback => exfalso; apply h; simp only [step, forceFailback]; (repeat' split) <;> rfl
  | wake j ok =>
    simp only [step] at h ⊢
    unfold wake at h ⊢
    split
    · rename_i hn; simp [hn] at h
    · rename_i e he
      simp only [he] at h
      split
      · rename_i hw; simp [hw] at h
      · rename_i hw
        simp only [hw, if_false] at h
        cases hk : e.kind with
        | failover =>
          simp only [hk] at h
          cases ok <;> simp at h
        | failback =>
          simp only [hk] at h ⊢
          split
          · rename_i hc; simp [hc] at h
          · rename_i hc
            simp only [hc, if_false] at h
            split
            · rename_i hu; simp [hu] at h
            · rename_i hu
              have : s.healthy = true := by
                cases hh : s.healthy with
                | true => rfl
                | false => exact absurd hh hu
              cases ok with
              | true => simp [this]
              | false => simp [hu] at h

/-- The controller is never in_progress with nothing pending: in every reachable in_progress state a failover
    execution is in flight, and the end of its grace sleep — enabled as soon as the clock has reached `wake`,
    whatever the callback answers — leaves in_progress. -/
theorem no_stuck_in_progress (c : Cfg) (ops : List Op) (h : (run (init c) ops).state = .inProgress) :
    ∃ j e, (run (init c) ops).execs[j]? = some e ∧ e.kind = .failover ∧
      ∀ s', s'.execs = (run (init c) ops).execs → e.wake ≤ s'.now → ∀ ok, (wake s' j ok).1.state ≠ .inProgress := by
  have hI := inv_run (inv_init c) ops
  generalize run (init c) ops = s at *
  have h1 := hI.E1 h
  have hpos : 0 < s.execs.countP isFo := by omega
  obtain ⟨e, hem, hfo⟩ := List.countP_pos_iff.mp hpos
  obtain ⟨j, hj, hje⟩ := List.mem_iff_getElem.mp hem
  have hget : s.execs[j]? = some e := by rw [List.getElem?_eq_getElem hj, hje]
  have hk : e.kind = .failover := by
    simp only [isFo, beq_iff_eq] at hfo; exact hfo
  refine ⟨j, e, hget, hk, ?_⟩
  intro s' hex hw ok
  unfold wake
  rw [hex, hget]
  simp only [Nat.not_lt.mpr hw, if_false, hk]
  cases ok <;> simp

/-! non-vacuity -/
def cfg0 : Cfg := { delay := 2500, fbDelay := 3500, grace := 700, failbackEnabled := true, original := .standby }

-- an automatic promotion after a sustained failure, then a failback
example : let s := run (init cfg0) [.down, .advance 2500, .fire 0, .advance 700, .wake 0 true, .up, .advance 3500,
      .fire 1, .advance 700, .wake 0 true]
    s.role = .standby ∧ s.completed = 1 ∧ s.failbacks = 1 ∧ s.autoLog = [(2500, some 0)] := by decide
-- the hypotheses of promote_requires_sustained_down are met by a real entry
example : (fire (run (init cfg0) [.down, .advance 2500]) 0).1.state = .inProgress ∧
    (run (init cfg0) [.down, .advance 2500]).state ≠ .inProgress := by decide
-- a stale delivery after cancel and re-arm (D45's schedule) does nothing; the fresh timer still has to wait
example : let s := run (init cfg0) [.down, .advance 2500, .up, .down, .fire 0]
    s.state = .pending ∧ s.execs = [] := by decide
-- a forced failover executes (D44)
example : (run (init cfg0) [.forceFailover, .advance 700, .wake 0 true]).role = .active := by decide

end Bng.Spec.C14
