import Bng.Proof.Failover
/-
  C14 — A standby promotes itself only after sustained partner failure.

  Property statements only.  `ops : List Op` is an arbitrary sequence of partner-down / partner-up reports,
  clock advances, control-loop ticks, timer deliveries `fire i` (of any timer instance, at any time at or after its
  deadline — including instances that were stopped too late, i.e. stale time.AfterFunc callbacks), ends of grace
  sleeps `check j ok dur` (re-validation, then the role-change callback is invoked, answers `ok` and takes `dur`,
  running without the lock), callback returns `commit j`, and operator commands.  The model is the code as repaired
  (28a60ee, 6b9ce09, aee8e6b, 961093e, 84453e4, 804ff33, bd43000, 302ed70, 50fae87); all clauses hold at full strength.
-/
namespace Bng.Spec.C14
open Bng.Failover

/-- The automatic path enters a failover (a timer delivery moves the state to in_progress) only if the partner
    is reported down and has been reported down without interruption since a time `a` at least FailoverDelay ago
    (`downSince` is cleared by every recovery report and set by every transition to unhealthy). -/
theorem promote_requires_sustained_down (c : Cfg) (ops : List Op) (i : Nat)
    (h : (fire (run (init c) ops) i).1.state = .inProgress)
    (h0 : (run (init c) ops).state ≠ .inProgress) :
    (run (init c) ops).healthy = false ∧
    ∃ a, (run (init c) ops).downSince = some a ∧ a + c.delay ≤ (run (init c) ops).now := by
  have hI := inv_run (inv_init c) ops
  have hcfg : (run (init c) ops).cfg = c := run_cfg _ _
  generalize run (init c) ops = s at *
  unfold fire at h
  split at h
  · exact absurd h h0
  · rename_i t ht
    split at h
    · exact absurd h h0
    · rename_i hen
      have hdue : t.deadline ≤ s.now := by
        simp only [not_or, Nat.not_lt] at hen; exact hen.2.2
      simp only at h
      split at h
      · rename_i hk
        split at h
        · rename_i hc
          obtain ⟨hh, a, ha, hall⟩ := hI.K hc.1
          have := hall t (mem_of_getElem?' ht) hk hc.2
          rw [hcfg] at this
          exact ⟨hh, a, ha, by omega⟩
        · exact absurd h h0
      · split at h
        · split at h
          · simp at h
          · exact absurd h h0
        · exact absurd h h0

/-- … and every promotion the automatic path ever completed was entered under that condition: the log of
    (entry time, down-since at entry) of all non-forced promotions of any history satisfies it. -/
theorem auto_promotions_sustained (c : Cfg) (ops : List Op) :
    ∀ p ∈ (run (init c) ops).autoLog, ∃ a, p.2 = some a ∧ a + c.delay ≤ p.1 := by
  have hI := inv_run (inv_init c) ops
  have hcfg : (run (init c) ops).cfg = c := run_cfg _ _
  intro p hp
  have := hI.L p hp
  rw [hcfg] at this
  exact this

/-- The role-change callback of an automatic failover is invoked only while the partner is still reported down:
    if the partner is reported healthy when the grace sleep ends (it recovered during the sleep, or its health was
    reset), the execution is dropped, no callback is invoked, and the state returns to normal (for every state). -/
theorem promote_callback_requires_down (s : State) (j : Nat) (ok : Bool) (dur : Nat) (e : Exec)
    (he : s.execs[j]? = some e) (hk : e.kind = .failover) (hf : e.forced = false)
    (hs : e.stage = .sleeping) (hd : e.due ≤ s.now) :
    (s.healthy = true → (callCheck s j ok dur).1.state = .normal ∧ (callCheck s j ok dur).2 = [.canceled] ∧
        (callCheck s j ok dur).1.role = s.role) ∧
    (Emit.callback .active ok ∈ (callCheck s j ok dur).2 → s.healthy = false) := by
  unfold callCheck
  simp only [he, hs, ne_eq, not_true_eq_false, false_or, Nat.not_lt.mpr hd, if_false, hk, hf, true_and]
  cases hh : s.healthy with
  | true => simp [cancelFailover]
  | false => simp

/-- If the partner recovers while the callback of an automatic failover runs, the commit schedules the failback
    that the ignored partner_up would have scheduled — and in general, in every reachable state: active and
    complete next to a partner reported healthy, with failback enabled, happens only after an operator-forced
    promotion with no recovery reported since (no silent dual-active). -/
theorem no_dual_active (c : Cfg) (ops : List Op)
    (h1 : (run (init c) ops).state = .complete) (h2 : (run (init c) ops).healthy = true)
    (h3 : c.failbackEnabled = true) : (run (init c) ops).forcedHold = true := by
  have hI := inv_run (inv_init c) ops
  have hcfg : (run (init c) ops).cfg = c := run_cfg _ _
  exact hI.D h1 h2 (by rw [hcfg]; exact h3)

/-- A recovery reported while the failover is pending cancels it: the state returns to normal, the role is
    unchanged, and no timer instance that existed at that moment can ever promote — whatever happens afterwards
    (`ops'`) and however late it is delivered, its delivery changes neither state, role nor the executions in
    flight. -/
theorem recovery_cancels (c : Cfg) (ops ops' : List Op) (i : Nat)
    (hp : (run (init c) ops).state = .pending) (hi : i < (run (init c) ops).timers.length) :
    (step (run (init c) ops) .up).1.state = .normal ∧
    (step (run (init c) ops) .up).1.role = (run (init c) ops).role ∧
    (let s2 := run (step (run (init c) ops) .up).1 ops'
     (fire s2 i).1.state = s2.state ∧ (fire s2 i).1.role = s2.role ∧ (fire s2 i).1.execs = s2.execs) := by
  have hI := inv_run (inv_init c) ops
  generalize run (init c) ops = s at *
  have hh := (hI.K hp).1
  have hup : (step s .up).1 = { s with healthy := true, downSince := none, forcedHold := false, state := .normal, gen := s.gen + 1, timers := stopAll .failover s.now s.timers, canceled := s.canceled + 1 } := by
    simp [step, up, hh, handleUp, hp, cancelFailover]
  refine ⟨by rw [hup], by rw [hup], ?_⟩
  intro s2
  have hg := run_gens (step s .up).1 ops'
  have hg1 : (step s .up).1.gen = s.gen + 1 := by rw [hup]
  have hg2 : (step s .up).1.timers.map (·.gen) = s.timers.map (·.gen) := by rw [hup]; exact gens_stopAll _ _ _
  have hgen : s.gen + 1 ≤ s2.gen := by have := hg.1; rw [hg1] at this; exact this
  have hpre : s.timers.map (·.gen) <+: s2.timers.map (·.gen) := by
    have := hg.2; rw [hg2] at this; exact this
  -- the instance at index i still carries its old generation, which is now stale
  have hstale : ∀ t, s2.timers[i]? = some t → t.gen ≠ s2.gen := by
    intro t ht
    obtain ⟨r, hr⟩ := hpre
    have h1 : (s2.timers.map (·.gen))[i]? = some t.gen := by simp [ht]
    rw [← hr, List.getElem?_append_left (by simpa using hi)] at h1
    simp only [List.getElem?_map, Option.map_eq_some_iff] at h1
    obtain ⟨t0, ht0, hg0⟩ := h1
    have := hI.gT t0 (mem_of_getElem?' ht0)
    omega
  unfold fire
  split
  · exact ⟨rfl, rfl, rfl⟩
  · rename_i t ht
    have hs := hstale t ht
    split
    · exact ⟨rfl, rfl, rfl⟩
    · simp only
      split
      · split
        · rename_i hc; exact absurd hc.2 hs
        · exact ⟨rfl, rfl, rfl⟩
      · split
        · rename_i hc; exact absurd hc.2 hs
        · exact ⟨rfl, rfl, rfl⟩

/-- The reported role changes only in the step in which a role-change callback that was invoked earlier returns
    success (for every state): the step is `commit j` of an execution in its calling stage whose callback answered
    ok. -/
theorem role_after_callback_ok (s : State) (op : Op) (h : (step s op).1.role ≠ s.role) :
    ∃ j e, op = .commit j ∧ s.execs[j]? = some e ∧ e.stage = .calling ∧ e.cbOk = true := by
  cases op with
  | down => exfalso; apply h; simp only [step, down, scheduleFailover]; (repeat' (first | split | (simp only; split))) <;> rfl
  | up => exfalso; apply h; simp only [step, up, handleUp, cancelFailover, scheduleFailback]; (repeat' (first | split | (simp only; split))) <;> rfl
  | tick => exfalso; apply h; simp only [step, tick]; (repeat' split) <;> rfl
  | advance dt => exact absurd rfl h
  | fire i => exfalso; apply h; simp only [step, fire, cancelFailover]; (repeat' (first | split | (simp only; split))) <;> rfl
  | check j ok dur => exfalso; apply h; simp only [step, callCheck, cancelFailover]; (repeat' (first | split | (simp only; split))) <;> rfl
  | forceFailover => exfalso; apply h; simp only [step, forceFailover]; (repeat' split) <;> rfl
  | forceFailback => exfalso; apply h; simp only [step, forceFailback]; (repeat' split) <;> rfl
  | commit j =>
    simp only [step] at h
    unfold commit at h
    split at h
    · exact absurd rfl h
    · rename_i e he
      split at h
      · exact absurd rfl h
      · rename_i hen
        simp only [ne_eq, not_or, Decidable.not_not, Nat.not_lt] at hen
        refine ⟨j, e, rfl, he, hen.1, ?_⟩
        cases hok : e.cbOk with
        | true => rfl
        | false =>
          exfalso; apply h
          simp only [hok, Bool.false_eq_true, if_false]
          cases e.kind <;> simp only [scheduleFailover, scheduleFailback] <;>
            (repeat' (first | split | (simp only; split))) <;> rfl

/-- Each promotion emits exactly one `completed` event and is counted once: along every history the number of
    `completed` events, the number of role changes standby → active and the failoversCompleted counter coincide. -/
theorem one_completed_per_promotion (c : Cfg) (ops : List Op) :
    (run (init c) ops).completedEvents = (run (init c) ops).promotions ∧
    (run (init c) ops).completed = (run (init c) ops).promotions :=
  (inv_run (inv_init c) ops).C

/-- The failback's role-change callback is invoked only while the partner is reported healthy and the failback
    is still the pending one (for every state). -/
theorem failback_only_healthy (s : State) (j : Nat) (ok : Bool) (dur : Nat) (e : Exec)
    (he : s.execs[j]? = some e) (hk : e.kind = .failback)
    (hc : Emit.callback s.cfg.original ok ∈ (callCheck s j ok dur).2) :
    s.healthy = true ∧ s.state = .failbackPending ∧ e.gen = s.gen := by
  unfold callCheck at hc
  simp only [he, hk] at hc
  split at hc
  · simp at hc
  · split at hc
    · simp at hc
    · rename_i hv
      simp only [ne_eq, not_or, Decidable.not_not] at hv
      split at hc
      · simp at hc
      · rename_i hu
        refine ⟨?_, hv.1, hv.2⟩
        cases hh : s.healthy with
        | true => rfl
        | false => exact absurd hh hu

/-- … and when the partner fails while that callback runs, the commit acts on it: in every reachable state a
    standby in normal state has a partner that is reported healthy — a standby next to a partner reported down
    always has a failover pending or in progress (after a failback, after a failed callback, after a cancel). -/
theorem no_stranded_standby (c : Cfg) (ops : List Op)
    (h1 : (run (init c) ops).role = .standby) (h2 : (run (init c) ops).state = .normal) :
    (run (init c) ops).healthy = true :=
  (inv_run (inv_init c) ops).N h1 h2

/-- The controller is never in_progress with nothing pending: in every reachable in_progress state a failover
    execution is in flight; the end of its grace sleep (enabled once the clock has reached `due`) either cancels it
    (state normal) or invokes the callback, and the callback's return leaves in_progress whatever it answered. -/
theorem no_stuck_in_progress (c : Cfg) (ops : List Op) (h : (run (init c) ops).state = .inProgress) :
    ∃ j e, (run (init c) ops).execs[j]? = some e ∧ e.kind = .failover ∧
      ∀ s', s'.execs = (run (init c) ops).execs → e.due ≤ s'.now →
        (e.stage = .calling → (commit s' j).1.state ≠ .inProgress) ∧
        (e.stage = .sleeping → ∀ ok dur, (callCheck s' j ok dur).1.state = .normal ∨
            ∃ e', (callCheck s' j ok dur).1.execs[j]? = some e' ∧ e'.stage = .calling ∧ e'.kind = .failover) := by
  have hI := inv_run (inv_init c) ops
  generalize run (init c) ops = s at *
  have h1 := hI.E1 h
  have hpos : 0 < s.execs.countP isFo := by omega
  obtain ⟨e, hem, hfo⟩ := List.countP_pos_iff.mp hpos
  obtain ⟨j, hj, hje⟩ := List.mem_iff_getElem.mp hem
  have hget : s.execs[j]? = some e := by rw [List.getElem?_eq_getElem hj, hje]
  have hk : e.kind = .failover := by
    simp only [isFo, beq_iff_eq] at hfo; exact hfo
  refine ⟨j, e, hget, hk, ?_⟩
  intro s' hex hw
  constructor
  · intro hst
    unfold commit
    rw [hex, hget]
    simp only [hst, ne_eq, not_true_eq_false, false_or, Nat.not_lt.mpr hw, if_false, hk]
    cases e.cbOk <;> simp only [scheduleFailover, scheduleFailback] <;>
      (repeat' (first | split | (simp only; split))) <;> simp
  · intro hst ok dur
    unfold callCheck
    rw [hex, hget]
    simp only [hst, ne_eq, not_true_eq_false, false_or, Nat.not_lt.mpr hw, if_false, hk]
    split
    · left; simp [cancelFailover]
    · right
      refine ⟨{ e with stage := .calling, due := s'.now + dur, cbOk := ok }, ?_, rfl, hk⟩
      rw [getElem?_setExec _ hj, hk]

/-! non-vacuity -/
def cfg0 : Cfg := { delay := 2500, fbDelay := 3500, grace := 700, failbackEnabled := true, original := .standby }

-- an automatic promotion after a sustained failure, then a failback
example : let s := run (init cfg0) [.down, .advance 2500, .fire 0, .advance 700, .check 0 true 0, .commit 0, .up,
      .advance 3500, .fire 1, .advance 700, .check 0 true 0, .commit 0]
    s.role = .standby ∧ s.completed = 1 ∧ s.failbacks = 1 ∧ s.autoLog = [(2500, some 0)] := by decide
-- the hypotheses of promote_requires_sustained_down are met by a real entry
example : (fire (run (init cfg0) [.down, .advance 2500]) 0).1.state = .inProgress ∧
    (run (init cfg0) [.down, .advance 2500]).state ≠ .inProgress := by decide
-- a stale delivery after cancel and re-arm (D45's schedule) does nothing; the fresh timer still has to wait
example : let s := run (init cfg0) [.down, .advance 2500, .up, .down, .fire 0]
    s.state = .pending ∧ s.execs = [] := by decide
-- a forced failover executes (D44)
example : (run (init cfg0) [.forceFailover, .advance 700, .check 0 true 0, .commit 0]).role = .active := by decide
-- the reviewer's history (recovery during the grace sleep): no promotion any more
example : let s := run (init cfg0) [.down, .advance 2500, .fire 0, .up, .advance 700, .check 0 true 0, .tick,
      .advance 100000, .tick]
    s.role = .standby ∧ s.state = .normal ∧ s.healthy = true ∧ s.canceled = 1 := by decide
-- recovery while the callback runs: promoted, and the failback is scheduled at commit
example : let s := run (init cfg0) [.down, .advance 2500, .fire 0, .advance 700, .check 0 true 1500, .up,
      .advance 1500, .commit 0]
    s.role = .active ∧ s.state = .failbackPending := by decide
-- partner fails while the failback's callback runs and the tick cancels: the commit re-arms the failover
example : let s := run (init cfg0) [.down, .advance 2500, .fire 0, .advance 700, .check 0 true 0, .commit 0, .up,
      .advance 3500, .fire 1, .advance 700, .check 0 true 1500, .down, .advance 1000, .tick, .advance 500, .commit 0]
    s.role = .standby ∧ s.state = .pending ∧ s.failbacks = 1 := by decide

end Bng.Spec.C14
