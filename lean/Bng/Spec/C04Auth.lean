import Bng.Model.PppAuth
/-
  C04 (component `pppauth`) — the PPP Authenticator of pkg/pppoe/auth.go never reports success without an
  accepted exchange.

  Property statements about the model Bng/Model/PppAuth.lean, for ALL operation sequences (Start, PAP
  requests, CHAP responses with any identifier and any response value, re-authentication challenges,
  passing time), every configured protocol, with and without RADIUS, and every RADIUS outcome (accept /
  reject / no answer / honest verification).  `acceptedFor` is a ghost field;
  `ghost_set_only_by_accepted_exchange` states the only ways it can be set.
-/
namespace Bng.Spec.C04Auth
open Bng.PppAuth

/-! ### helper facts -/

/-- the rate limiter only ever touches the failure counter -/
theorem rl_fst (a : Auth) : ∃ k, (isRateLimited a).1 = { a with failures := k } := by
  unfold isRateLimited
  split
  · exact ⟨a.failures, rfl⟩
  · dsimp only
    split
    · exact ⟨0, rfl⟩
    · exact ⟨a.failures, rfl⟩

theorem rl_acceptedFor (a : Auth) : (isRateLimited a).1.acceptedFor = a.acceptedFor := by
  obtain ⟨k, hk⟩ := rl_fst a; rw [hk]
theorem rl_state (a : Auth) : (isRateLimited a).1.state = a.state := by
  obtain ⟨k, hk⟩ := rl_fst a; rw [hk]
theorem rl_radius (a : Auth) : (isRateLimited a).1.radius = a.radius := by
  obtain ⟨k, hk⟩ := rl_fst a; rw [hk]
theorem rl_proto (a : Auth) : (isRateLimited a).1.proto = a.proto := by
  obtain ⟨k, hk⟩ := rl_fst a; rw [hk]
theorem rl_chapID (a : Auth) : (isRateLimited a).1.chapID = a.chapID := by
  obtain ⟨k, hk⟩ := rl_fst a; rw [hk]
theorem rl_outstanding (a : Auth) : (isRateLimited a).1.outstanding = a.outstanding := by
  obtain ⟨k, hk⟩ := rl_fst a; rw [hk]
theorem rl_answered (a : Auth) : (isRateLimited a).1.answered = a.answered := by
  obtain ⟨k, hk⟩ := rl_fst a; rw [hk]

/-- the invariant: an acceptance is in force exactly when the state is Success -/
def Inv (a : Auth) : Prop := a.state = .success ↔ a.acceptedFor.isSome = true

theorem inv_init (p : Proto) (r : Bool) : Inv (init p r) := by
  simp [Inv, init]

theorem inv_papVerdict (a : Auth) (id user : Nat) (pw : Pw) (r : Radius) :
    Inv (papVerdict a id user pw r).1 := by
  unfold papVerdict
  dsimp only
  split <;> simp [Inv]

theorem inv_chapVerdict (a : Auth) (id user : Nat) (resp : Resp) (r : Radius) :
    Inv (chapVerdict a id user resp r).1 := by
  unfold chapVerdict
  dsimp only
  split <;> simp [Inv]

theorem inv_step {a : Auth} (hI : Inv a) (o : Op) : Inv (step a o).1 := by
  cases o with
  | start =>
    simp only [step, start]
    split <;> simp [Inv, sendChallenge]
  | reauth =>
    simp only [step, reauth]
    split
    · simpa [Inv, sendChallenge] using hI
    · exact hI
  | age n => simpa [step, Inv] using hI
  | setid n => simpa [step, Inv] using hI
  | pap id user pw r =>
    simp only [step, receivePap]
    split
    · exact hI
    · obtain ⟨k, hk⟩ := rl_fst { a with user := some user }
      split
      · rw [hk]; simpa [Inv] using hI
      · exact inv_papVerdict _ _ _ _ _
  | chap id user resp r =>
    simp only [step, receiveChap]
    split
    · exact hI
    · split
      · exact hI
      · split
        · exact hI
        · obtain ⟨k, hk⟩ := rl_fst { a with user := some user }
          split
          · rw [hk]; simpa [Inv] using hI
          · exact inv_chapVerdict _ _ _ _ _

theorem inv_run {a : Auth} (hI : Inv a) (ops : List Op) : Inv (run a ops) := by
  induction ops generalizing a with
  | nil => exact hI
  | cons o ops ih =>
    simp only [run, List.foldl_cons]
    exact ih (inv_step hI o)

/-- **Success requires an accepted exchange.**  After ANY sequence of operations the authenticator reports
    Success only while an exchange accepted by the configured authority is in force. -/
theorem success_requires_accept (p : Proto) (radius : Bool) (ops : List Op)
    (h : (run (init p radius) ops).state = .success) :
    (run (init p radius) ops).acceptedFor ≠ none := by
  have := (inv_run (inv_init p radius) ops).1 h
  intro hn
  rw [hn] at this
  simp at this

/-- … and conversely a recorded acceptance never outlives the Success state (Start and every rejected
    exchange revoke it). -/
theorem accept_in_force_iff_success (p : Proto) (radius : Bool) (ops : List Op) :
    (run (init p radius) ops).state = .success ↔ (run (init p radius) ops).acceptedFor.isSome = true :=
  inv_run (inv_init p radius) ops

/-- a positive verdict with RADIUS configured: the request carried the credentials and the answer was Accept -/
theorem authenticate_ok {a : Auth} {q : Req} {r : Radius} (h : (authenticate a q r).1 = true)
    (hr : a.radius = true) :
    q.cred ≠ .pap .empty ∧ (authenticate a q r).2.2 = some q ∧ radAnswer r q.cred.verifies = some true := by
  unfold authenticate at h ⊢
  rw [if_pos hr] at h ⊢
  split at h
  · simp at h
  · rename_i hne
    rw [if_neg hne]
    split at h
    · rename_i hans
      rw [hans]
      exact ⟨hne, rfl, rfl⟩
    · simp at h
    · simp at h

theorem receivePap_eq (a : Auth) (id user : Nat) (pw : Pw) (r : Radius) (hp : a.proto = .pap) :
    receivePap a id user pw r =
      if (isRateLimited { a with user := some user }).2 = true then
        ((isRateLimited { a with user := some user }).1, { sent := [.nak id .rl] })
      else papVerdict (isRateLimited { a with user := some user }).1 id user pw r := by
  unfold receivePap
  rw [if_neg (by simp [hp])]

theorem receiveChap_eq (a : Auth) (id user : Nat) (resp : Resp) (r : Radius) (hp : a.proto = .chap)
    (hout : ¬ (a.outstanding = false ∨ id ≠ a.chapID)) (hans : ¬ a.answered = true) :
    receiveChap a id user resp r =
      if (isRateLimited { a with user := some user }).2 = true then
        ({ (isRateLimited { a with user := some user }).1 with answered := true, accepted := false },
         { sent := [.fail id .rl] })
      else chapVerdict (isRateLimited { a with user := some user }).1 id user resp r := by
  unfold receiveChap
  rw [if_neg (by simp [hp]), if_neg hout, if_neg hans]

theorem papVerdict_ghost {a : Auth} {id id' user : Nat} {pw : Pw} {r : Radius}
    (h : (papVerdict a id' user pw r).1.acceptedFor = some id) :
    id = id' ∧ (a.radius = true → pw ≠ .empty ∧ (papVerdict a id' user pw r).2.rad = some ⟨user, .pap pw⟩ ∧
      radAnswer r (decide (pw = .good)) = some true) := by
  unfold papVerdict at h ⊢
  dsimp only at h ⊢
  split at h
  · rename_i hok
    rw [if_pos hok]
    simp only [Option.some.injEq] at h
    refine ⟨h.symm, fun hr => ?_⟩
    obtain ⟨hne, hrq, hans⟩ := authenticate_ok hok hr
    exact ⟨fun e => hne (by rw [e]), hrq, hans⟩
  · simp at h

theorem chapVerdict_ghost {a : Auth} {id id' user : Nat} {resp : Resp} {r : Radius}
    (h : (chapVerdict a id' user resp r).1.acceptedFor = some id) :
    id = id' ∧ (a.radius = true → (chapVerdict a id' user resp r).2.rad = some ⟨user, .chap a.chapID resp⟩ ∧
      radAnswer r (decide (resp = .matching)) = some true) := by
  unfold chapVerdict at h ⊢
  dsimp only at h ⊢
  split at h
  · rename_i hok
    rw [if_pos hok]
    simp only [Option.some.injEq] at h
    refine ⟨h.symm, fun hr => ?_⟩
    obtain ⟨_, hrq, hans⟩ := authenticate_ok hok hr
    exact ⟨hrq, hans⟩
  · simp at h

/-- **The ghost is honest.**  `acceptedFor` becomes `some id` in exactly two ways:
    * a PAP Authenticate-Request with identifier `id` while PAP is the configured protocol — and, when
      RADIUS is configured, the password was not empty, the Access-Request carried this user and this
      password, and the server's answer to it was Accept;
    * a CHAP Response with identifier `id` while CHAP is the configured protocol, a challenge is outstanding,
      `id` is its identifier and it has not been answered yet — and, when RADIUS is configured, the
      Access-Request carried this user, this identifier and response (with the outstanding challenge) and
      the server's answer to it was Accept.
    Without RADIUS the code's own rule applies: every such request/response is accepted, whatever the
    password or response value (see `without_radius_every_response_is_accepted`). -/
theorem ghost_set_only_by_accepted_exchange (a : Auth) (o : Op) (id : Nat)
    (h : (step a o).1.acceptedFor = some id) :
    a.acceptedFor = some id ∨
    (∃ user pw r, o = .pap id user pw r ∧ a.proto = .pap ∧
      (a.radius = true → pw ≠ .empty ∧ (step a o).2.rad = some ⟨user, .pap pw⟩ ∧
        radAnswer r (decide (pw = .good)) = some true)) ∨
    (∃ user resp r, o = .chap id user resp r ∧ a.proto = .chap ∧ a.outstanding = true ∧ id = a.chapID ∧
      a.answered = false ∧
      (a.radius = true → (step a o).2.rad = some ⟨user, .chap a.chapID resp⟩ ∧
        radAnswer r (decide (resp = .matching)) = some true)) := by
  cases o with
  | start =>
    simp only [step, start] at h
    split at h <;> simp [sendChallenge] at h
  | reauth =>
    simp only [step, reauth] at h
    split at h
    · exact Or.inl (by simpa [sendChallenge] using h)
    · exact Or.inl h
  | age n => exact Or.inl (by simpa [step] using h)
  | setid n => exact Or.inl (by simpa [step] using h)
  | pap id' user pw r =>
    by_cases hp : a.proto = .pap
    · rw [show step a (.pap id' user pw r) = receivePap a id' user pw r from rfl, receivePap_eq _ _ _ _ _ hp] at h ⊢
      have hacc := rl_acceptedFor { a with user := some user }
      have hrad := rl_radius { a with user := some user }
      generalize isRateLimited { a with user := some user } = rl at h hacc hrad ⊢
      by_cases hlim : rl.2 = true
      · rw [if_pos hlim] at h
        exact Or.inl (hacc ▸ h)
      · rw [if_neg hlim] at h ⊢
        obtain ⟨hid, hr⟩ := papVerdict_ghost h
        subst hid
        exact Or.inr (Or.inl ⟨user, pw, r, rfl, hp, fun hr' => hr (hrad ▸ hr')⟩)
    · rw [show step a (.pap id' user pw r) = receivePap a id' user pw r from rfl] at h
      unfold receivePap at h
      rw [if_pos hp] at h
      exact Or.inl h
  | chap id' user resp r =>
    by_cases hp : a.proto = .chap
    · by_cases hout : a.outstanding = false ∨ id' ≠ a.chapID
      · rw [show step a (.chap id' user resp r) = receiveChap a id' user resp r from rfl] at h
        unfold receiveChap at h
        rw [if_neg (by simp [hp]), if_pos hout] at h
        exact Or.inl h
      · by_cases hans : a.answered = true
        · rw [show step a (.chap id' user resp r) = receiveChap a id' user resp r from rfl] at h
          unfold receiveChap at h
          rw [if_neg (by simp [hp]), if_neg hout, if_pos hans] at h
          exact Or.inl h
        · rw [show step a (.chap id' user resp r) = receiveChap a id' user resp r from rfl,
            receiveChap_eq _ _ _ _ _ hp hout hans] at h ⊢
          have hout' : a.outstanding = true ∧ id' = a.chapID := by
            simp only [not_or, Bool.not_eq_false, Decidable.not_not] at hout
            exact hout
          have hacc := rl_acceptedFor { a with user := some user }
          have hrad := rl_radius { a with user := some user }
          have hcid := rl_chapID { a with user := some user }
          generalize isRateLimited { a with user := some user } = rl at h hacc hrad hcid ⊢
          by_cases hlim : rl.2 = true
          · rw [if_pos hlim] at h
            exact Or.inl (hacc ▸ h)
          · rw [if_neg hlim] at h ⊢
            obtain ⟨hid, hr⟩ := chapVerdict_ghost h
            subst hid
            refine Or.inr (Or.inr ⟨user, resp, r, rfl, hp, hout'.1, hout'.2, by simpa using hans, fun hr' => ?_⟩)
            have := hr (hrad ▸ hr')
            rw [hcid] at this
            exact this
    · rw [show step a (.chap id' user resp r) = receiveChap a id' user resp r from rfl] at h
      unfold receiveChap at h
      rw [if_pos hp] at h
      exact Or.inl h

/-! ### only the configured protocol -/

theorem papVerdict_fields (a : Auth) (id user : Nat) (pw : Pw) (r : Radius) :
    (papVerdict a id user pw r).1.proto = a.proto ∧ (papVerdict a id user pw r).1.outstanding = a.outstanding ∧
    (papVerdict a id user pw r).1.answered = a.answered ∧ (papVerdict a id user pw r).1.chapID = a.chapID := by
  unfold papVerdict
  dsimp only
  split <;> exact ⟨rfl, rfl, rfl, rfl⟩

theorem chapVerdict_fields (a : Auth) (id user : Nat) (resp : Resp) (r : Radius) :
    (chapVerdict a id user resp r).1.proto = a.proto ∧ (chapVerdict a id user resp r).1.answered = true := by
  unfold chapVerdict
  dsimp only
  split <;> exact ⟨rfl, rfl⟩

theorem step_proto (a : Auth) (o : Op) : (step a o).1.proto = a.proto := by
  cases o with
  | start => simp only [step, start]; split <;> rfl
  | reauth => simp only [step, reauth]; split <;> rfl
  | age n => rfl
  | setid n => rfl
  | pap id user pw r =>
    simp only [step, receivePap]
    split
    · rfl
    · split
      · exact rl_proto _
      · rw [(papVerdict_fields _ _ _ _ _).1]; exact rl_proto _
  | chap id user resp r =>
    simp only [step, receiveChap]
    split
    · rfl
    · split
      · rfl
      · split
        · rfl
        · split
          · exact rl_proto _
          · rw [(chapVerdict_fields _ _ _ _ _).1]; exact rl_proto _

theorem run_proto (a : Auth) (ops : List Op) : (run a ops).proto = a.proto := by
  induction ops generalizing a with
  | nil => rfl
  | cons o ops ih =>
    simp only [run, List.foldl_cons]
    exact (ih (step a o).1).trans (step_proto a o)

/-- a request of a protocol that is not the configured one is refused and changes nothing -/
theorem wrong_protocol_inert (a : Auth) (o : Op)
    (h : (∃ id u pw r, o = .pap id u pw r ∧ a.proto ≠ .pap) ∨ (∃ id u rs r, o = .chap id u rs r ∧ a.proto ≠ .chap)) :
    step a o = (a, { err := true }) := by
  rcases h with ⟨id, u, pw, r, ho, hp⟩ | ⟨id, u, rs, r, ho, hp⟩
  · subst ho
    show receivePap a id u pw r = _
    unfold receivePap
    rw [if_pos hp]
  · subst ho
    show receiveChap a id u rs r = _
    unfold receiveChap
    rw [if_pos hp]

theorem verdict_cb (a : Auth) (o : Op) (m : Method) (b : Bool) (h : (step a o).2.cb = some (m, b)) :
    (m = .pap ∧ a.proto = .pap ∧ ∃ id u pw r, o = .pap id u pw r) ∨
    (m = .chap ∧ a.proto = .chap ∧ ∃ id u rs r, o = .chap id u rs r) := by
  cases o with
  | start => simp only [step, start] at h; split at h <;> simp at h
  | reauth => simp only [step, reauth] at h; split at h <;> simp at h
  | age n => simp [step] at h
  | setid n => simp [step] at h
  | pap id user pw r =>
    by_cases hp : a.proto = .pap
    · rw [show step a (.pap id user pw r) = receivePap a id user pw r from rfl, receivePap_eq _ _ _ _ _ hp] at h
      split at h
      · simp at h
      · unfold papVerdict at h
        dsimp only at h
        split at h <;> simp at h <;> exact Or.inl ⟨h.1.symm, hp, id, user, pw, r, rfl⟩
    · rw [wrong_protocol_inert a _ (Or.inl ⟨id, user, pw, r, rfl, hp⟩)] at h
      simp at h
  | chap id user resp r =>
    by_cases hp : a.proto = .chap
    · rw [show step a (.chap id user resp r) = receiveChap a id user resp r from rfl] at h
      by_cases hout : a.outstanding = false ∨ id ≠ a.chapID
      · unfold receiveChap at h
        rw [if_neg (by simp [hp]), if_pos hout] at h
        simp at h
      · by_cases hans : a.answered = true
        · unfold receiveChap at h
          rw [if_neg (by simp [hp]), if_neg hout, if_pos hans] at h
          simp at h
        · rw [receiveChap_eq _ _ _ _ _ hp hout hans] at h
          split at h
          · simp at h
          · unfold chapVerdict at h
            dsimp only at h
            split at h <;> simp at h <;> exact Or.inr ⟨h.1.symm, hp, id, user, resp, r, rfl⟩
    · rw [wrong_protocol_inert a _ (Or.inr ⟨id, user, resp, r, rfl, hp⟩)] at h
      simp at h

/-- **Only the configured protocol authenticates.**  After ANY history, a verdict (the completion callback,
    positive or negative) is produced only by a request of the protocol the authenticator was configured
    with: PAP never satisfies a CHAP link and vice versa; with any other configured value nothing does. -/
theorem only_configured_protocol (p : Proto) (radius : Bool) (ops : List Op) (o : Op) (m : Method) (b : Bool)
    (h : (step (run (init p radius) ops) o).2.cb = some (m, b)) :
    (m = .pap ∧ p = .pap ∧ ∃ id u pw r, o = .pap id u pw r) ∨
    (m = .chap ∧ p = .chap ∧ ∃ id u rs r, o = .chap id u rs r) := by
  have hp : (run (init p radius) ops).proto = p := run_proto _ _
  rcases verdict_cb _ _ _ _ h with ⟨h1, h2, h3⟩ | ⟨h1, h2, h3⟩
  · exact Or.inl ⟨h1, hp ▸ h2, h3⟩
  · exact Or.inr ⟨h1, hp ▸ h2, h3⟩

/-! ### a response must answer a challenge that was sent and is still unanswered -/

/-- reading the packets the authenticator sent: the identifier of the Challenge that is still open -/
def track (acc : Option Nat) (pk : Pkt) : Option Nat :=
  match pk with
  | .chal i => some i
  | .succ _ _ => none
  | .fail _ _ => none
  | _ => acc

def openChallenge (ps : List Pkt) : Option Nat := ps.foldl track none

/-- whenever the authenticator holds an unanswered challenge, the packets it sent show that challenge open -/
def J (a : Auth) (acc : Option Nat) : Prop :=
  a.outstanding = true → a.answered = false → acc = some a.chapID

theorem J_step {a : Auth} {acc : Option Nat} (hJ : J a acc) (o : Op) (hns : ∀ n, o ≠ .setid n) :
    J (step a o).1 ((step a o).2.sent.foldl track acc) := by
  cases o with
  | start =>
    simp only [step, start]
    split
    · intro _ _; simp [sendChallenge, track]
    · exact hJ
  | reauth =>
    simp only [step, reauth]
    split
    · intro _ _; simp [sendChallenge, track]
    · exact hJ
  | age n => exact hJ
  | setid n => exact absurd rfl (hns n)
  | pap id user pw r =>
    by_cases hp : a.proto = .pap
    · rw [show step a (.pap id user pw r) = receivePap a id user pw r from rfl, receivePap_eq _ _ _ _ _ hp]
      have h1 := rl_outstanding { a with user := some user }
      have h2 := rl_answered { a with user := some user }
      have h3 := rl_chapID { a with user := some user }
      generalize isRateLimited { a with user := some user } = rl at h1 h2 h3 ⊢
      split
      · intro ho ha
        simp only [List.foldl_cons, List.foldl_nil, track]
        exact (hJ (h1 ▸ ho) (h2 ▸ ha)).trans (by rw [h3])
      · obtain ⟨_, f2, f3, f4⟩ := papVerdict_fields rl.1 id user pw r
        intro ho ha
        rw [f2, h1] at ho
        rw [f3, h2] at ha
        rw [f4, h3]
        have hacc := hJ ho ha
        unfold papVerdict
        dsimp only
        split <;> simpa [track] using hacc
    · rw [wrong_protocol_inert a _ (Or.inl ⟨id, user, pw, r, rfl, hp⟩)]
      exact hJ
  | chap id user resp r =>
    by_cases hp : a.proto = .chap
    · rw [show step a (.chap id user resp r) = receiveChap a id user resp r from rfl]
      by_cases hout : a.outstanding = false ∨ id ≠ a.chapID
      · unfold receiveChap
        rw [if_neg (by simp [hp]), if_pos hout]
        exact hJ
      · by_cases hans : a.answered = true
        · unfold receiveChap
          rw [if_neg (by simp [hp]), if_neg hout, if_pos hans]
          intro _ ha
          rw [hans] at ha
          cases ha
        · rw [receiveChap_eq _ _ _ _ _ hp hout hans]
          split
          · intro _ ha
            simp at ha
          · intro _ ha
            rw [(chapVerdict_fields _ _ _ _ _).2] at ha
            cases ha
    · rw [wrong_protocol_inert a _ (Or.inr ⟨id, user, resp, r, rfl, hp⟩)]
      exact hJ

theorem J_run {a : Auth} {acc : Option Nat} (hJ : J a acc) (ops : List Op)
    (hns : ∀ o ∈ ops, ∀ n, o ≠ .setid n) :
    J (run a ops) ((sentBy a ops).foldl track acc) := by
  induction ops generalizing a acc with
  | nil => exact hJ
  | cons o ops ih =>
    simp only [run, List.foldl_cons, sentBy, List.foldl_append]
    exact ih (J_step hJ o (hns o (List.mem_cons_self ..))) (fun o' ho' => hns o' (List.mem_cons_of_mem _ ho'))

/-- **A CHAP response must answer an issued, still unanswered challenge.**  Take ANY history of API calls
    (the verification hook `setid` excluded).  Unless the packets the authenticator itself sent show a
    Challenge with identifier `id` that has not been followed by a Success/Failure, a Response carrying `id`
    changes nothing — no state change, no verdict callback, nothing shown to RADIUS.  In particular
    identifier 0 before any Challenge, an identifier of an earlier Challenge, and a second Response to an
    answered Challenge are never authenticated. -/
theorem response_must_match_issued_challenge (p : Proto) (radius : Bool) (ops : List Op)
    (hns : ∀ o ∈ ops, ∀ n, o ≠ .setid n) (id user : Nat) (resp : Resp) (r : Radius)
    (h : openChallenge (sentBy (init p radius) ops) ≠ some id) :
    let a := run (init p radius) ops
    (step a (.chap id user resp r)).1 = a ∧ (step a (.chap id user resp r)).2.cb = none ∧
    (step a (.chap id user resp r)).2.rad = none := by
  intro a
  have hJ : J a (openChallenge (sentBy (init p radius) ops)) :=
    J_run (a := init p radius) (acc := none) (by intro ho; simp [init] at ho) ops hns
  by_cases hp : a.proto = .chap
  · rw [show step a (.chap id user resp r) = receiveChap a id user resp r from rfl]
    by_cases hout : a.outstanding = false ∨ id ≠ a.chapID
    · unfold receiveChap
      rw [if_neg (by simp [hp]), if_pos hout]
      exact ⟨rfl, rfl, rfl⟩
    · by_cases hans : a.answered = true
      · unfold receiveChap
        rw [if_neg (by simp [hp]), if_neg hout, if_pos hans]
        exact ⟨rfl, rfl, rfl⟩
      · exfalso
        simp only [not_or, Bool.not_eq_false, Decidable.not_not] at hout
        have := hJ hout.1 (by simpa using hans)
        rw [← hout.2] at this
        exact h this
  · rw [wrong_protocol_inert a _ (Or.inr ⟨id, user, resp, r, rfl, hp⟩)]
    exact ⟨rfl, rfl, rfl⟩

/-! ### replies echo the identifier of the request -/

/-- **Replies echo the request's identifier.**  Every Authenticate-Ack/Nak and CHAP Success/Failure the
    authenticator sends in reaction to an operation carries the identifier of that PAP request / CHAP
    response; operations without an identifier (Start, re-authentication, time) only ever send Challenges. -/
theorem reply_echoes_id (a : Auth) (o : Op) (pk : Pkt) (h : pk ∈ (step a o).2.sent)
    (hv : pk.isVerdict = true) : opId o = some pk.id := by
  cases o with
  | start =>
    simp only [step, start] at h
    split at h
    · simp only [sendChallenge, List.mem_singleton] at h; subst h; simp [Pkt.isVerdict] at hv
    · simp at h
  | reauth =>
    simp only [step, reauth] at h
    split at h
    · simp only [sendChallenge, List.mem_singleton] at h; subst h; simp [Pkt.isVerdict] at hv
    · simp at h
  | age n => simp [step] at h
  | setid n => simp [step] at h
  | pap id user pw r =>
    by_cases hp : a.proto = .pap
    · rw [show step a (.pap id user pw r) = receivePap a id user pw r from rfl, receivePap_eq _ _ _ _ _ hp] at h
      split at h
      · simp only [List.mem_singleton] at h; subst h; rfl
      · unfold papVerdict at h
        dsimp only at h
        split at h <;> (simp only [List.mem_singleton] at h; subst h; rfl)
    · rw [wrong_protocol_inert a _ (Or.inl ⟨id, user, pw, r, rfl, hp⟩)] at h
      simp at h
  | chap id user resp r =>
    by_cases hp : a.proto = .chap
    · rw [show step a (.chap id user resp r) = receiveChap a id user resp r from rfl] at h
      by_cases hout : a.outstanding = false ∨ id ≠ a.chapID
      · unfold receiveChap at h
        rw [if_neg (by simp [hp]), if_pos hout] at h
        simp at h
      · by_cases hans : a.answered = true
        · unfold receiveChap at h
          rw [if_neg (by simp [hp]), if_neg hout, if_pos hans] at h
          simp only [List.mem_singleton] at h
          subst h
          split <;> rfl
        · rw [receiveChap_eq _ _ _ _ _ hp hout hans] at h
          split at h
          · simp only [List.mem_singleton] at h; subst h; rfl
          · unfold chapVerdict at h
            dsimp only at h
            split at h <;> (simp only [List.mem_singleton] at h; subst h; rfl)
    · rw [wrong_protocol_inert a _ (Or.inr ⟨id, user, resp, r, rfl, hp⟩)] at h
      simp at h

/-! ### what exactly is accepted when no RADIUS client is configured -/

/-- **Without RADIUS every CHAP response to the open challenge is accepted** — the code has no local secret
    store and never inspects the response value ("No RADIUS - verify locally (for testing)", pinned by
    auth_test.go "should accept valid CHAP response without RADIUS"): any value, of any length, sent with
    the identifier of the outstanding unanswered challenge yields Success. -/
theorem without_radius_every_response_is_accepted (a : Auth) (user : Nat) (resp : Resp) (r : Radius)
    (hr : a.radius = false) (hp : a.proto = .chap) (ho : a.outstanding = true) (ha : a.answered = false)
    (hl : (isRateLimited { a with user := some user }).2 = false) :
    (step a (.chap a.chapID user resp r)).1.state = .success ∧
    (step a (.chap a.chapID user resp r)).2.sent = [.succ a.chapID .ok] := by
  rw [show step a (.chap a.chapID user resp r) = receiveChap a a.chapID user resp r from rfl,
    receiveChap_eq _ _ _ _ _ hp (by simp [ho]) (by simp [ha]), hl]
  have hrad := rl_radius { a with user := some user }
  generalize isRateLimited { a with user := some user } = rl at hrad ⊢
  have hr' : rl.1.radius = false := by rw [hrad]; exact hr
  simp [chapVerdict, authenticate, hr']

/-- **Without RADIUS every PAP password is accepted** ("No RADIUS configured - accept all (for testing only!)"). -/
theorem without_radius_every_password_is_accepted (a : Auth) (id user : Nat) (pw : Pw) (r : Radius)
    (hr : a.radius = false) (hp : a.proto = .pap)
    (hl : (isRateLimited { a with user := some user }).2 = false) :
    (step a (.pap id user pw r)).1.state = .success ∧ (step a (.pap id user pw r)).2.sent = [.ack id .ok] := by
  rw [show step a (.pap id user pw r) = receivePap a id user pw r from rfl, receivePap_eq _ _ _ _ _ hp, hl]
  have hrad := rl_radius { a with user := some user }
  generalize isRateLimited { a with user := some user } = rl at hrad ⊢
  have hr' : rl.1.radius = false := by rw [hrad]; exact hr
  simp [papVerdict, authenticate, hr']

/-! ### the monitor is an abstraction of the model (refinement): it is silent on every model history -/

set_option linter.unusedSimpArgs false
set_option linter.unusedVariables false

theorem rl_accepted (a : Auth) : (isRateLimited a).1.accepted = a.accepted := by
  obtain ⟨k, hk⟩ := rl_fst a; rw [hk]

def reqKind (q : Req) : Nat × Nat × Nat :=
  match q.cred with
  | .pap _ => (q.user, 1, 0)
  | .chap id _ => (q.user, 3, id)

def seenOf (a' : Auth) (ob : Obs) : Seen :=
  { sent := ob.sent, state := a'.state, cb := ob.cb,
    rad := match ob.rad with | none => [] | some q => [reqKind q] }

def R (a : Auth) (m : Mon) : Prop :=
  m.proto = a.proto ∧ m.radius = a.radius ∧ m.authorised = a.acceptedFor.isSome ∧
  (a.state = .success ↔ a.acceptedFor.isSome = true) ∧
  (a.outstanding = true → m.issued = some a.chapID ∧ m.answer = (if a.answered then some a.accepted else none)) ∧
  (a.outstanding = false → m.issued = none)

/-- the monitor's verdicts and next state for one model step -/
def monOn (a : Auth) (m : Mon) (o : Op) : Mon × List (String × String) :=
  monitorStep m a.state o (seenOf (step a o).1 (step a o).2)

theorem authenticate_norad {a : Auth} (q : Req) (r : Radius) (h : ¬ a.radius = true) :
    authenticate a q r = (true, .ok, none) := by
  simp [authenticate, h]

theorem authenticate_fail_rad {a : Auth} {q : Req} {r : Radius} (h : (authenticate a q r).1 = false) :
    (authenticate a q r).2.2 = none ∨ (authenticate a q r).2.2 = some q := by
  unfold authenticate
  split
  · split
    · exact Or.inl rfl
    · split <;> exact Or.inr rfl
  · exact Or.inl rfl

theorem state_cases {a : Auth} {m : Mon} (h3 : m.authorised = a.acceptedFor.isSome)
    (h4 : a.state = .success ↔ a.acceptedFor.isSome = true) :
    (a.state = .success ∧ (∃ g, a.acceptedFor = some g) ∧ m.authorised = true) ∨
    (a.state ≠ .success ∧ a.acceptedFor = none ∧ m.authorised = false) := by
  cases hg : a.acceptedFor with
  | none => rw [hg] at h3 h4; simp at h3 h4; exact Or.inr ⟨h4, rfl, h3⟩
  | some g => rw [hg] at h3 h4; simp at h3 h4; exact Or.inl ⟨h4, ⟨g, rfl⟩, h3⟩

theorem silent_pap {a : Auth} {m : Mon} (hR : R a m) (id user : Nat) (pw : Pw) (r : Radius) :
    (monOn a m (.pap id user pw r)).2 = [] ∧ R (step a (.pap id user pw r)).1 (monOn a m (.pap id user pw r)).1 := by
  unfold monOn
  obtain ⟨h1, h2, h3, h4, h5, h6⟩ := hR
  have hc := state_cases h3 h4
  by_cases hp : a.proto = .pap
  · rw [show step a (.pap id user pw r) = receivePap a id user pw r from rfl, receivePap_eq _ _ _ _ _ hp]
    have f1 := rl_state { a with user := some user }
    have f2 := rl_acceptedFor { a with user := some user }
    have f3 := rl_proto { a with user := some user }
    have f4 := rl_radius { a with user := some user }
    have f5 := rl_outstanding { a with user := some user }
    have f6 := rl_answered { a with user := some user }
    have f7 := rl_accepted { a with user := some user }
    have f8 := rl_chapID { a with user := some user }
    generalize isRateLimited { a with user := some user } = rl at f1 f2 f3 f4 f5 f6 f7 f8 ⊢
    obtain ⟨a2, lim⟩ := rl
    simp only at f1 f2 f3 f4 f5 f6 f7 f8 ⊢
    cases lim
    · -- verdict
      simp only [Bool.false_eq_true, if_false]
      unfold papVerdict
      dsimp only
      by_cases hrad : a2.radius = true
      · cases hv : (authenticate a2 { user := user, cred := .pap pw } r).1
        · simp only [Bool.false_eq_true, if_false]
          simp [R, monitorStep, seenOf, acceptedExchange, newAccept, Pkt.isVerdict, opId, Pkt.id, recordFailure,
            h1, h2, f3, f4, f5, f6, f7, f8]
          exact ⟨h5, h6⟩
        · obtain ⟨hne, hrq, hans⟩ := authenticate_ok hv hrad
          simp only [if_true, hrq]
          have hr' : a.radius = true := f4 ▸ hrad
          have hne' : pw ≠ .empty := fun e => hne (by rw [e])
          simp [Cred.verifies] at hans
          simp [R, monitorStep, seenOf, reqKind, acceptedExchange, newAccept, outcomeAccepts, Pkt.isVerdict, opId, Pkt.id,
            h1, h2, hp, hr', hans, hne', f3, f4, f5, f6, f7, f8]
          exact ⟨h5, h6⟩
      · rw [authenticate_norad _ _ hrad]
        have hr' : a.radius = false := by rw [← f4]; simpa using hrad
        simp [R, monitorStep, seenOf, reqKind, acceptedExchange, newAccept, outcomeAccepts, Pkt.isVerdict, opId, Pkt.id,
            h1, h2, hp, hr', f3, f4, f5, f6, f7, f8]
        exact ⟨h5, h6⟩
    · simp only [if_true]
      rcases hc with ⟨hs, ⟨g, hg⟩, hm⟩ | ⟨hs, hg, hm⟩
      · simp [R, monitorStep, seenOf, acceptedExchange, newAccept, Pkt.isVerdict, opId, Pkt.id,
            h1, h2, hm, hs, hg, f1, f2, f3, f4, f5, f6, f7, f8]
        exact ⟨h5, h6⟩
      · simp [R, monitorStep, seenOf, acceptedExchange, newAccept, Pkt.isVerdict, opId, Pkt.id,
            h1, h2, hm, hs, hg, f1, f2, f3, f4, f5, f6, f7, f8]
        exact ⟨h5, h6⟩
  · rw [wrong_protocol_inert a _ (Or.inl ⟨id, user, pw, r, rfl, hp⟩)]
    rcases hc with ⟨hs, ⟨g, hg⟩, hm⟩ | ⟨hs, hg, hm⟩
    · simp [R, monitorStep, seenOf, acceptedExchange, newAccept, Pkt.isVerdict, opId, Pkt.id, h1, h2, hm, hs, hg, hp]
      exact ⟨h5, h6⟩
    · simp [R, monitorStep, seenOf, acceptedExchange, newAccept, Pkt.isVerdict, opId, Pkt.id, h1, h2, hm, hs, hg, hp]
      exact ⟨h5, h6⟩
theorem silent_chap {a : Auth} {m : Mon} (hR : R a m) (id user : Nat) (resp : Resp) (r : Radius) :
    (monOn a m (.chap id user resp r)).2 = [] ∧
    R (step a (.chap id user resp r)).1 (monOn a m (.chap id user resp r)).1 := by
  unfold monOn
  obtain ⟨h1, h2, h3, h4, h5, h6⟩ := hR
  have hc := state_cases h3 h4
  by_cases hp : a.proto = .chap
  · rw [show step a (.chap id user resp r) = receiveChap a id user resp r from rfl]
    by_cases hout : a.outstanding = false ∨ id ≠ a.chapID
    · unfold receiveChap
      rw [if_neg (by simp [hp]), if_pos hout]
      rcases hc with ⟨hs, ⟨g, hg⟩, hm⟩ | ⟨hs, hg, hm⟩
      · simp [R, monitorStep, seenOf, acceptedExchange, newAccept, Pkt.isVerdict, opId, Pkt.id, h1, h2, hm, hs, hg, hp]
        exact ⟨h5, h6⟩
      · simp [R, monitorStep, seenOf, acceptedExchange, newAccept, Pkt.isVerdict, opId, Pkt.id, h1, h2, hm, hs, hg, hp]
        exact ⟨h5, h6⟩
    · have hout' : a.outstanding = true ∧ id = a.chapID := by
        simp only [not_or, Bool.not_eq_false, Decidable.not_not] at hout
        exact hout
      obtain ⟨ho, hid⟩ := hout'
      subst hid
      obtain ⟨hi, ha⟩ := h5 ho
      by_cases hans : a.answered = true
      · unfold receiveChap
        rw [if_neg (by simp [hp]), if_neg hout, if_pos hans]
        rw [hans] at ha
        simp only [if_true] at ha
        cases hacc : a.accepted
        · rw [hacc] at ha
          rcases hc with ⟨hs, ⟨g, hg⟩, hm⟩ | ⟨hs, hg, hm⟩
          · simp [R, monitorStep, seenOf, acceptedExchange, newAccept, Pkt.isVerdict, opId, Pkt.id, h1, h2, hm, hs, hg, hp,
              hi, ha, ho, hans, hacc]
          · simp [R, monitorStep, seenOf, acceptedExchange, newAccept, Pkt.isVerdict, opId, Pkt.id, h1, h2, hm, hs, hg, hp,
              hi, ha, ho, hans, hacc]
        · rw [hacc] at ha
          rcases hc with ⟨hs, ⟨g, hg⟩, hm⟩ | ⟨hs, hg, hm⟩
          · simp [R, monitorStep, seenOf, acceptedExchange, newAccept, Pkt.isVerdict, opId, Pkt.id, h1, h2, hm, hs, hg, hp,
              hi, ha, ho, hans, hacc]
          · simp [R, monitorStep, seenOf, acceptedExchange, newAccept, Pkt.isVerdict, opId, Pkt.id, h1, h2, hm, hs, hg, hp,
              hi, ha, ho, hans, hacc]
      · rw [receiveChap_eq _ _ _ _ _ hp hout hans]
        have hans' : a.answered = false := by simpa using hans
        rw [hans'] at ha
        simp only [Bool.false_eq_true, if_false] at ha
        have f1 := rl_state { a with user := some user }
        have f2 := rl_acceptedFor { a with user := some user }
        have f3 := rl_proto { a with user := some user }
        have f4 := rl_radius { a with user := some user }
        have f5 := rl_outstanding { a with user := some user }
        have f6 := rl_answered { a with user := some user }
        have f7 := rl_accepted { a with user := some user }
        have f8 := rl_chapID { a with user := some user }
        generalize isRateLimited { a with user := some user } = rl at f1 f2 f3 f4 f5 f6 f7 f8 ⊢
        obtain ⟨a2, lim⟩ := rl
        simp only at f1 f2 f3 f4 f5 f6 f7 f8 ⊢
        cases lim
        · simp only [Bool.false_eq_true, if_false]
          unfold chapVerdict
          dsimp only
          by_cases hrad : a2.radius = true
          · cases hv : (authenticate a2 { user := user, cred := .chap a2.chapID resp } r).1
            · simp only [Bool.false_eq_true, if_false]
              simp [R, monitorStep, seenOf, acceptedExchange, newAccept, Pkt.isVerdict, opId, Pkt.id, recordFailure,
                h1, h2, hi, ha, ho, f3, f4, f5, f6, f7, f8]
            · obtain ⟨_, hrq, hans2⟩ := authenticate_ok hv hrad
              simp only [if_true, hrq]
              have hr' : a.radius = true := f4 ▸ hrad
              simp [Cred.verifies] at hans2
              simp [R, monitorStep, seenOf, reqKind, acceptedExchange, newAccept, outcomeAccepts, Pkt.isVerdict, opId, Pkt.id,
                h1, h2, hp, hr', hans2, hi, ha, ho, f3, f4, f5, f6, f7, f8]
          · rw [authenticate_norad _ _ hrad]
            have hr' : a.radius = false := by rw [← f4]; simpa using hrad
            simp [R, monitorStep, seenOf, reqKind, acceptedExchange, newAccept, outcomeAccepts, Pkt.isVerdict, opId, Pkt.id,
                h1, h2, hp, hr', hi, ha, ho, f3, f4, f5, f6, f7, f8]
        · simp only [if_true]
          rcases hc with ⟨hs, ⟨g, hg⟩, hm⟩ | ⟨hs, hg, hm⟩
          · simp [R, monitorStep, seenOf, acceptedExchange, newAccept, Pkt.isVerdict, opId, Pkt.id,
                h1, h2, hm, hs, hg, hi, ha, ho, f1, f2, f3, f4, f5, f6, f7, f8]
          · simp [R, monitorStep, seenOf, acceptedExchange, newAccept, Pkt.isVerdict, opId, Pkt.id,
                h1, h2, hm, hs, hg, hi, ha, ho, f1, f2, f3, f4, f5, f6, f7, f8]
  · rw [wrong_protocol_inert a _ (Or.inr ⟨id, user, resp, r, rfl, hp⟩)]
    rcases hc with ⟨hs, ⟨g, hg⟩, hm⟩ | ⟨hs, hg, hm⟩
    · simp [R, monitorStep, seenOf, acceptedExchange, newAccept, Pkt.isVerdict, opId, Pkt.id, h1, h2, hm, hs, hg, hp]
      exact ⟨h5, h6⟩
    · simp [R, monitorStep, seenOf, acceptedExchange, newAccept, Pkt.isVerdict, opId, Pkt.id, h1, h2, hm, hs, hg, hp]
      exact ⟨h5, h6⟩
theorem silent_other {a : Auth} {m : Mon} (hR : R a m) (o : Op)
    (ho : o = .start ∨ o = .reauth ∨ ∃ n, o = .age n) :
    (monOn a m o).2 = [] ∧ R (step a o).1 (monOn a m o).1 := by
  unfold monOn
  obtain ⟨h1, h2, h3, h4, h5, h6⟩ := hR
  have hc := state_cases h3 h4
  rcases ho with ho | ho | ⟨n, ho⟩ <;> subst ho
  · simp only [step, start]
    split
    · simp [R, monitorStep, seenOf, sendChallenge, acceptedExchange, newAccept, Pkt.isVerdict, opId, h1, h2]
    · simp [R, monitorStep, seenOf, acceptedExchange, newAccept, Pkt.isVerdict, opId, h1, h2]
      exact ⟨h5, h6⟩
  · simp only [step, reauth]
    split
    · rename_i hsc
      rcases hc with ⟨hs, ⟨g, hg⟩, hm⟩ | ⟨hs, hg, hm⟩
      · simp [R, monitorStep, seenOf, sendChallenge, acceptedExchange, newAccept, Pkt.isVerdict, opId, h1, h2, hm, hs, hg]
      · exact absurd hsc.1 hs
    · rcases hc with ⟨hs, ⟨g, hg⟩, hm⟩ | ⟨hs, hg, hm⟩
      · simp [R, monitorStep, seenOf, acceptedExchange, newAccept, Pkt.isVerdict, opId, h1, h2, hm, hs, hg]
        exact ⟨h5, h6⟩
      · simp [R, monitorStep, seenOf, acceptedExchange, newAccept, Pkt.isVerdict, opId, h1, h2, hm, hs, hg]
        exact ⟨h5, h6⟩
  · simp only [step]
    rcases hc with ⟨hs, ⟨g, hg⟩, hm⟩ | ⟨hs, hg, hm⟩
    · simp [R, monitorStep, seenOf, acceptedExchange, newAccept, Pkt.isVerdict, opId, h1, h2, hm, hs, hg]
      exact ⟨h5, h6⟩
    · simp [R, monitorStep, seenOf, acceptedExchange, newAccept, Pkt.isVerdict, opId, h1, h2, hm, hs, hg]
      exact ⟨h5, h6⟩

theorem monitor_step_silent {a : Auth} {m : Mon} (hR : R a m) (o : Op) (hns : ∀ n, o ≠ .setid n) :
    (monOn a m o).2 = [] ∧ R (step a o).1 (monOn a m o).1 := by
  cases o with
  | start => exact silent_other hR _ (Or.inl rfl)
  | reauth => exact silent_other hR _ (Or.inr (Or.inl rfl))
  | age n => exact silent_other hR _ (Or.inr (Or.inr ⟨n, rfl⟩))
  | setid n => exact absurd rfl (hns n)
  | pap id user pw r => exact silent_pap hR id user pw r
  | chap id user resp r => exact silent_chap hR id user resp r

/-- all verdicts of the monitor along a model history -/
def monRun : Auth → Mon → List Op → List (String × String)
  | _, _, [] => []
  | a, m, o :: rest => (monOn a m o).2 ++ monRun (step a o).1 (monOn a m o).1 rest

theorem monRun_silent {a : Auth} {m : Mon} (hR : R a m) (ops : List Op) (hns : ∀ o ∈ ops, ∀ n, o ≠ .setid n) :
    monRun a m ops = [] := by
  induction ops generalizing a m with
  | nil => rfl
  | cons o ops ih =>
    obtain ⟨hv, hR'⟩ := monitor_step_silent hR o (hns o (List.mem_cons_self ..))
    simp only [monRun, hv, List.nil_append]
    exact ih hR' (fun o' ho' => hns o' (List.mem_cons_of_mem _ ho'))

/-- **The monitor never fires on the model.**  Fed with the model's own observations (packets, state,
    callback and the RADIUS request rendered as the harness renders a faithful one), the monitor that judges
    the real authenticator emits no verdict on ANY history of API calls: every verdict it emits on the
    implementation is a deviation from the behaviour the theorems above are about (no false alarm). -/
theorem monitor_silent_on_model (p : Proto) (radius : Bool) (ops : List Op)
    (hns : ∀ o ∈ ops, ∀ n, o ≠ .setid n) :
    monRun (init p radius) { proto := p, radius := radius } ops = [] := by
  apply monRun_silent _ ops hns
  simp [R, init]
/-! ### non-vacuity -/

/-- Success is reachable through an honest RADIUS server, and only with the matching response -/
example : (run (init .chap true) [.start, .chap 1 7 .matching .verify]).state = .success := by decide
example : (run (init .chap true) [.start, .chap 1 7 .nomatch .verify]).state = .failure := by decide
example : (run (init .pap true) [.start, .pap 9 7 .good .verify]).acceptedFor = some 9 := by decide
/-- the ghost characterisation's RADIUS clause is not vacuous: the request really is part of the observation -/
example : (step (run (init .chap true) [.start]) (.chap 1 7 .matching .verify)).2.rad = some ⟨7, .chap 1 .matching⟩ := by
  decide
/-- re-authentication: Success persists while the new challenge is open, and a rejected answer revokes it -/
example : (run (init .chap true) [.start, .chap 1 7 .matching .accept, .reauth]).state = .success := by decide
example : (run (init .chap true) [.start, .chap 1 7 .matching .accept, .reauth, .chap 2 7 .matching .reject]).acceptedFor = none := by
  decide
/-- hypothesis of `response_must_match_issued_challenge`: histories with no open challenge `id` exist
    (identifier 0 before Start; an answered challenge), and so do histories with one -/
example : openChallenge (sentBy (init .chap false) []) ≠ some 0 := by decide
example : openChallenge (sentBy (init .chap true) [.start, .chap 1 7 .matching .reject]) ≠ some 1 := by decide
example : openChallenge (sentBy (init .chap true) [.start]) = some 1 := by decide
/-- the rejected response cannot be retried on the same challenge -/
example : (run (init .chap true) [.start, .chap 1 7 .matching .reject, .chap 1 7 .matching .accept]).state = .failure := by
  decide
/-- the rate limiter is reachable: the sixth request within a minute is refused without asking RADIUS … -/
example : (step (run (init .pap true) [.pap 1 7 .bad .reject, .pap 1 7 .bad .reject, .pap 1 7 .bad .reject,
    .pap 1 7 .bad .reject, .pap 1 7 .bad .reject]) (.pap 2 7 .good .accept)).2 = { sent := [.nak 2 .rl] } := by decide
/-- … and accepted again a minute later -/
example : (run (init .pap true) [.pap 1 7 .bad .reject, .pap 1 7 .bad .reject, .pap 1 7 .bad .reject,
    .pap 1 7 .bad .reject, .pap 1 7 .bad .reject, .age 61, .pap 2 7 .good .accept]).state = .success := by decide
/-- hypotheses of the without-RADIUS theorems are satisfiable -/
example : (isRateLimited { (run (init .chap false) [.start]) with user := some 7 }).2 = false ∧
    (run (init .chap false) [.start]).outstanding = true := by decide

/-- … while the monitor is not trivially silent: the three pre-fix behaviours are flagged -/
example : ((monitorStep { proto := .chap, radius := false } .none_ (.chap 0 1 .nomatch .accept)
    { sent := [.succ 0 .ok], state := .success, cb := some (.chap, true), rad := [] }).2.map (·.1)) =
    ["stale-challenge"] := by decide
example : ((monitorStep { proto := .chap, radius := false, issued := some 1 } .pending (.pap 5 1 .bad .accept)
    { sent := [.ack 5 .ok], state := .success, cb := some (.pap, true), rad := [] }).2.map (·.1)) =
    ["wrong-protocol"] := by decide
example : ((monitorStep { proto := .chap, radius := true, issued := some 1 } .pending (.chap 1 1 .nomatch .accept)
    { sent := [.succ 1 .ok], state := .success, cb := some (.chap, true), rad := [(1, 0, 0)] }).2.map (·.1)) =
    ["success-without-accept"] := by decide
example : ((monitorStep { proto := .pap, radius := false } .pending (.pap 5 1 .good .accept)
    { sent := [.ack 6 .ok], state := .success, cb := some (.pap, true), rad := [] }).2.map (·.1)) =
    ["id-mismatch"] := by decide

end Bng.Spec.C04Auth
