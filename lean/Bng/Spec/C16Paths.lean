import Bng.Gen.Paths
/-
  C16 — every termination path reaches every release the session needs (structural part).

  `Bng.Gen.Paths.paths` is REGENERATED on every run by harness/cmd/extractpaths from the repository's working
  tree: for each session-termination entry point, the calls and map deletes syntactically reachable from it
  inside its package.  `required` is the hand-written expectation per entry point (what the session type set up
  and the path therefore has to undo); `knownGaps` lists the (entry point, effect) pairs that are missing in the
  code and recorded as findings.  The theorems are decided by the kernel on the regenerated table, so a change
  that drops a release from a path (or renames an entry point, which makes the translator fail) breaks an
  obligation at once, whatever the sequence generators happen to produce.

  This is presence, not behaviour: the conditions under which the calls run, their order and their arguments
  are judged by the models (C16Teardown, C16Pppoe, C16PppoeWhole, C16SubMgr, C16Dhcp) and the correspondence runs.
-/
namespace Bng.Spec.C16Paths
open Bng.Gen.Paths

def pppoeSrv : List String := ["s.clientIPPool.Release", "s.sessions.RemoveSession", "delete m.sessions",
  "delete m.macToSession", "delete p.allocated"]
def pppoeTd : List String := ["t.updateEBPFMaps", "t.sendAccountingStop", "t.radiusClient.SendAccounting",
  "t.ipPool.Release", "t.sessions.RemoveSession", "delete m.sessions", "delete m.macToSession", "delete p.allocated"]
def dhcp4 : List String := ["delete s.leases", "delete s.leasesByCircuitID", "pool.Release", "delete p.allocated",
  "s.releaseSessionResources", "s.radiusClient.SendAccounting", "s.qosMgr.RemoveSubscriberQoS", "s.natMgr.DeallocateNAT",
  "s.loader.RemoveSubscriber", "s.loader.RemoveVLANSubscriber", "s.loader.RemoveCircuitIDMapping",
  "s.loader.RemoveCircuitIDSubscriber"]

def subMgr : List String := ["m.allocator.ReleaseIPv4", "m.allocator.ReleaseIPv6", "delete m.byMAC",
  "delete m.byIP", "delete m.sessions", "m.emitEvent"]

/-- what each termination entry point has to reach -/
def required : List (String × List String) := [
  ("pppoe.Server.handlePADT", pppoeSrv),
  ("pppoe.Server.handleLCPTermRequest", pppoeSrv),
  ("pppoe.Server.handlePAP/rejected", pppoeSrv),
  ("pppoe.Server.cleanupLoop", ["s.sessions.CleanupExpired", "delete m.sessions", "delete m.macToSession",
     "s.clientIPPool.Release"]),
  ("pppoe.SessionTeardown.cleanup", pppoeTd),
  ("pppoe.SessionTeardown.TerminateSession", "t.sendPADT" :: pppoeTd),
  ("pppoe.SessionTeardown.HandleClientPADT", pppoeTd),
  ("pppoe.SessionTeardown.TerminateAll", "t.sendPADT" :: pppoeTd),
  ("pppoe.SessionTeardown.TerminateByID", "t.sendPADT" :: pppoeTd),
  ("pppoe.SessionTeardown.TerminateByMAC", "t.sendPADT" :: pppoeTd),
  ("pppoe.SessionTeardown.TerminateByUsername", "t.sendPADT" :: pppoeTd),
  -- shutdown: every live session would have to be ended (the server only closes its socket)
  ("pppoe.Server.Stop", ["s.clientIPPool.Release", "s.sessions.RemoveSession"]),
  ("dhcp.Server.handleRelease", dhcp4),
  ("dhcp.Server.handleDecline", "pool.MarkUnavailable" :: dhcp4),
  ("dhcp.Server.cleanupExpiredLeases", dhcp4),
  ("subscriber.Manager.TerminateSession", subMgr),
  ("subscriber.Manager.cleanupExpiredSessions", subMgr),
  -- shutdown: the manager only stops its background loop
  ("subscriber.Manager.Stop", subMgr)
]

/-- (entry point, effect, finding): releases the code does not perform, recorded as findings -/
def knownGaps : List (String × String × String) :=
  [("pppoe.Server.cleanupLoop", "s.clientIPPool.Release", "KF-pppoe-idle-leak"),
   ("pppoe.Server.Stop", "s.clientIPPool.Release", "KF-shutdown-no-teardown"),
   ("pppoe.Server.Stop", "s.sessions.RemoveSession", "KF-shutdown-no-teardown")] ++
  subMgr.map fun e => ("subscriber.Manager.Stop", e, "KF-shutdown-no-teardown")

/-- functions above the entry points: they only dispatch to them (packet type switch, ticker loop) -/
def dispatchers : List String := ["dhcp.Server.handleDHCP", "dhcp.Server.leaseCleanup"]

def reachOf (p : String) : List String :=
  match reach.find? (·.1 == p) with
  | some e => e.2
  | none => []

def effectsOf (tbl : List (String × List String)) (p : String) : List String :=
  match tbl.find? (·.1 == p) with
  | some e => e.2
  | none => []

/-- the (entry point, effect) pairs that are required, not reached and not a recorded gap -/
def missing (tbl : List (String × List String)) : List (String × String) :=
  required.flatMap fun (p, req) =>
    (req.filter fun e => !(effectsOf tbl p).contains e && !(knownGaps.any fun g => g.1 == p && g.2.1 == e)).map
      fun e => (p, e)

/-- every termination entry point is in the regenerated table -/
theorem every_entry_point_extracted : required.all (fun r => paths.any (·.1 == r.1)) = true := by decide

/-- every termination path reaches every release its session type needs (recorded gaps excepted) -/
theorem every_termination_path_releases : missing paths = [] := by decide

/-- no session table is emptied behind the table's back: every function that deletes from a session table is reached
    from a listed entry point -/
theorem every_session_deleter_reached :
    deleters.all (fun d => required.any (fun r => (reachOf r.1).contains d)) = true := by decide

/-- a new termination path is noticed: every function that calls a deleter is a listed entry point, lies below one,
    or is one of the two dispatchers -/
theorem every_deleter_caller_accounted :
    deleterCallers.all (fun c => dispatchers.contains c || required.any (fun r => (reachOf r.1).contains c)) = true := by
  decide

/-- the recorded gaps are still gaps: a gap that has been closed in the code must leave this list -/
theorem known_gaps_are_real : knownGaps.all (fun g => !(effectsOf paths g.1).contains g.2.1) = true := by decide

/-! non-vacuity: dropping a release from a path is noticed -/
example : missing (paths.map fun (p, es) => (p, es.filter (· != "s.natMgr.DeallocateNAT")))
    = [("dhcp.Server.handleRelease", "s.natMgr.DeallocateNAT"), ("dhcp.Server.handleDecline", "s.natMgr.DeallocateNAT"),
       ("dhcp.Server.cleanupExpiredLeases", "s.natMgr.DeallocateNAT")] := by decide

end Bng.Spec.C16Paths
