import Bng.Proof.NatLog
/-
  C10, second sentence — "every allocation and release produces a log record sufficient to map any (public address,
  port, time) to exactly one subscriber" — for the part of pkg/nat/logging.go between the manager's
  LogAllocation / LogDeallocation call and the log file: the buffers, Flush / FlushPortBlocks running concurrently
  with the callers and with each other, and a log file that cannot be written for a while.

  System: `Bng.NatLog` (Model/NatLog.lean).  `add` is a record entering the buffer, `take` / `finish` the two halves
  of a flush (write lock + buffer swap; the writes, with the unwritten rest put back in front of the buffer), `writer`
  the state of the output.  Histories are arbitrary sequences of these, so every interleaving of callers, the
  flushLoop ticker, inline flushes of a full buffer and writer failures is quantified over.  `Sys` couples it with the
  manager model of Spec/C10: a critical section's records enter the buffer at once (the manager logs inside the
  section), logger steps happen anywhere in between.

  The code before the fixes 946c3fc (batch taken before the write lock) and 29f2ebf (failed write = record dropped)
  is `NatLog.oldStep`; the two witness theorems show what it did.
-/
namespace Bng.Spec.C10Log
open Bng Bng.Cgnat Bng.NatLog

/-- No record is lost, none is duplicated, and the order of the calls is kept: after ANY history of logged records,
    flush halves and writer failures, what has been written followed by the batch in flight followed by the buffer is
    exactly the sequence of records in the order they were logged.  In particular the file is always a prefix of it:
    a record is never written before one that was logged earlier. -/
theorem records_kept_in_order {ρ : Type} (ops : List (Op ρ)) :
    everything (NatLog.run {} ops) = added ops := by
  have := everything_run ({} : St ρ) ops
  simpa [everything] using this

/-- …and nothing stays behind for good: whenever the writer works and no flush is in flight, one flush writes every
    record logged so far (so records a failing writer refused reach the file with the first flush after it recovers,
    still in call order). -/
theorem healthy_flush_writes_everything {ρ : Type} (ops : List (Op ρ))
    (hb : (NatLog.run {} ops).budget = none) (hf : (NatLog.run {} ops).flight = none) :
    (flush (NatLog.run {} ops)).file = added ops ∧ settled (flush (NatLog.run {} ops)) = true := by
  obtain ⟨h1, h2, h3⟩ := flush_healthy (NatLog.run {} ops) hb hf
  refine ⟨by rw [h1, records_kept_in_order], ?_⟩
  simp [settled, h2, h3]

/-- A flush only appends: what is in the file stays there, in place. -/
theorem file_only_grows {ρ : Type} (s : St ρ) (c : Ctl) : s.file <+: (ctl s c).file := by
  cases c with
  | take =>
    show s.file <+: (take s).file
    unfold take
    cases s.flight <;> exact List.prefix_refl _
  | finish => exact finish_file_prefix s
  | writer b => exact List.prefix_refl _

/-- Manager and logger together: along ANY history of critical sections of the manager interleaved with flush halves
    and writer failures, the file followed by the batch in flight and the buffer is the manager's record sequence
    (oldest first) — the file is the OLDEST part of what the manager logged. -/
theorem file_is_oldest_records (c : Cfg) (ops : List SysOp) :
    (sysRun { m := init c } ops).lg.file ++ ((sysRun { m := init c } ops).lg.flight.getD [] ++
      (sysRun { m := init c } ops).lg.buf) = (sysRun { m := init c } ops).m.log.reverse := by
  have h : Agree (sysRun { m := init c } ops) := agree_run (x := { m := init c }) rfl ops
  unfold Agree everything at h
  rw [← h, List.reverse_reverse, List.append_assoc]

/-- Attributable at every moment, also while records wait: the content of the log file after ANY such history is the
    log of an EARLIER moment of the manager's history (a prefix `past` of its calls), hence — by the attribution
    theorem of Spec/C10 applied to that prefix — it names for every (public address, port) exactly the subscriber
    that held it at that moment, and nobody else.  What is still buffered makes the file late, never wrong. -/
theorem flushed_file_attributes (c : Cfg) (hv : ValidCfg c) (hlog : c.logOn = true) (ops : List SysOp) :
    ∃ past, past <+: calls ops ∧
      (Cgnat.run (init c) past).log = (sysRun { m := init c } ops).lg.file.reverse ∧
      ∀ ip port k, k ∈ whoHeld c (sysRun { m := init c } ops).lg.file.reverse ip port ↔
        ∃ a, AMap.lookup (Cgnat.run (init c) past).allocs k = some a ∧ a.pub = ip ∧
             a.portStart.toNat ≤ port ∧ port ≤ a.portEnd.toNat := by
  have hm : (sysRun { m := init c } ops).m = Cgnat.run (init c) (calls ops) := sysRun_m _ _
  have hf := file_is_oldest_records c ops
  generalize (sysRun { m := init c } ops).lg.file = file at *
  generalize (sysRun { m := init c } ops).lg.flight.getD [] ++ (sysRun { m := init c } ops).lg.buf = rest at *
  rw [hm] at hf
  have hlogeq : (Cgnat.run (init c) (calls ops)).log = rest.reverse ++ file.reverse := by
    have := congrArg List.reverse hf
    rw [List.reverse_reverse, List.reverse_append] at this
    exact this.symm
  obtain ⟨past, hp, he⟩ := log_prefix_is_log_of_prefix (init c) (calls ops) file.length (Nat.zero_le _)
    (by rw [hlogeq, List.length_append, List.length_reverse, List.length_reverse]; omega)
  have hdrop : (Cgnat.run (init c) (calls ops)).log.drop ((Cgnat.run (init c) (calls ops)).log.length - file.length)
      = file.reverse := by
    rw [hlogeq, List.length_append, List.length_reverse, List.length_reverse]
    have : rest.length + file.length - file.length = rest.reverse.length := by rw [List.length_reverse]; omega
    rw [this, List.drop_left]
  rw [hdrop] at he
  refine ⟨past, hp, he, ?_⟩
  intro ip port k
  rw [← he]
  have hI := inv_run (s := init c) hv (inv_init c) past
  have hc : (Cgnat.run (init c) past).cfg = c := run_cfg _ _
  generalize Cgnat.run (init c) past = s at *
  subst hc
  exact mem_whoHeld_iff hI hlog ip port k

/-! ### the logger before the fixes -/

/-- Finding C10-flush-reorders (fixed 946c3fc), on the logger as it was: k1 is assigned block 10000-10999 and a flush
    (the ticker's) takes that record and waits for the write lock; k1 is released and the block assigned to k2; a
    second flush takes those two records and gets the lock first.  The file then has the release and k2's assignment
    BEFORE k1's assignment: read back, it attributes the block to k1 and k2 at once (and to k1 for ever). -/
theorem old_flush_reorders_witness :
    let c := mkCfg 1000 10000 10999 true true
    let a1 : LogEntry := .assign 1 1 1 10000 10999 1000
    let r1 : LogEntry := .release 1 1 10000
    let a2 : LogEntry := .assign 2 2 1 10000 10999 1000
    let s := oldRun ({} : OldSt LogEntry) [.add a1, .take, .add r1, .add a2, .take, .write 1, .write 0]
    s.file = [r1, a2, a1] ∧ whoHeld c s.file.reverse 1 10500 = [1, 2] := by
  decide

/-- the same calls and flushes on the logger as it is: the second flush waits behind the first one's lock, the file is
    in call order and names k2 alone -/
example :
    let c := mkCfg 1000 10000 10999 true true
    let a1 : LogEntry := .assign 1 1 1 10000 10999 1000
    let r1 : LogEntry := .release 1 1 10000
    let a2 : LogEntry := .assign 2 2 1 10000 10999 1000
    let s := NatLog.run ({} : St LogEntry)
      [.add a1, .ctl .take, .add r1, .add a2, .ctl .take, .ctl .finish, .ctl .take, .ctl .finish]
    s.file = [a1, r1, a2] ∧ whoHeld c s.file.reverse 1 10500 = [2] := by
  decide

/-- Finding C10-write-error-drops-records (fixed 29f2ebf), on the logger as it was: the log cannot be written while k1
    is released and its block assigned to k2; the flush drops both records; after the writer has recovered and
    everything has been flushed the file still says that k1 holds the block, and k2 appears nowhere. -/
theorem old_write_error_witness :
    let c := mkCfg 1000 10000 10999 true true
    let a1 : LogEntry := .assign 1 1 1 10000 10999 1000
    let r1 : LogEntry := .release 1 1 10000
    let a2 : LogEntry := .assign 2 2 1 10000 10999 1000
    let s := oldRun ({} : OldSt LogEntry)
      [.add a1, .take, .write 0, .writer (some 0), .add r1, .add a2, .take, .write 0, .writer none, .take, .write 0]
    s.file = [a1] ∧ s.buf = [] ∧ s.flights = [] ∧ whoHeld c s.file.reverse 1 10500 = [1] := by
  decide

/-- the same on the logger as it is: the refused records wait and are written, in order, once the writer works -/
example :
    let c := mkCfg 1000 10000 10999 true true
    let a1 : LogEntry := .assign 1 1 1 10000 10999 1000
    let r1 : LogEntry := .release 1 1 10000
    let a2 : LogEntry := .assign 2 2 1 10000 10999 1000
    let s := NatLog.run ({} : St LogEntry)
      [.add a1, .ctl .take, .ctl .finish, .ctl (.writer (some 0)), .add r1, .add a2, .ctl .take, .ctl .finish,
       .ctl (.writer none), .ctl .take, .ctl .finish]
    s.file = [a1, r1, a2] ∧ whoHeld c s.file.reverse 1 10500 = [2] := by
  decide

/-! non-vacuity of the hypotheses -/
example : (NatLog.run ({} : St Nat) [.add 1, .ctl .take, .add 2, .ctl .finish]).budget = none ∧
    (NatLog.run ({} : St Nat) [.add 1, .ctl .take, .add 2, .ctl .finish]).flight = none := by decide
example : ValidCfg (mkCfg 1000 10000 10999 true true) ∧ (mkCfg 1000 10000 10999 true true).logOn = true :=
  ⟨mkCfg_valid _ _ _ _ _ (by decide), rfl⟩
/-- a writer that accepts one more record: the batch is split, the rest goes back in front of what came meanwhile -/
example : (NatLog.run ({} : St Nat) [.add 1, .add 2, .ctl (.writer (some 1)), .ctl .take, .add 3, .ctl .finish]).file = [1] ∧
    (NatLog.run ({} : St Nat) [.add 1, .add 2, .ctl (.writer (some 1)), .ctl .take, .add 3, .ctl .finish]).buf = [2, 3] := by
  decide

end Bng.Spec.C10Log
