import Bng.Gen.Guards
/-
  C04 — the gates of the PPPoE server's frame handlers (structural part).

  `Bng.Gen.Guards.guards` is REGENERATED on every run by harness/cmd/extractguards from the repository's working
  tree: for each frame handler, the conditions of its leading early-return guards in order.  The model
  (Bng/Model/PppoeServer.lean) has `ownerGate` (a frame is accepted only from the MAC the session was created for), the
  authentication gate of the IPCP handler and the Established gate of the IP handler; the theorems of Spec.C04 are about
  a model WITH these gates.  Here the kernel decides on the regenerated table that the code still has them, as the
  guards the handlers start with — so a change that weakens or reorders a gate breaks an obligation at once, whatever
  the sequence generators produce (the correspondence run then looks for the concrete frame sequence).

  This is presence and position, not behaviour: a gate rewritten into an equivalent condition also breaks the
  obligation (and the correspondence run then finds nothing); behaviour is the models' and the correspondence's part.
-/
namespace Bng.Spec.C04Guards
open Bng.Gen.Guards

def guardsOf (h : String) : List String :=
  match guards.find? (·.1 == h) with
  | some e => e.2
  | none => []

/-- the owner check: present in both handlers that act on an existing session, after the nil check -/
theorem owner_gate_present :
    (guardsOf "pppoe.Server.handlePADT").contains "session.ClientMAC.String() != clientMAC.String()" = true ∧
    (guardsOf "pppoe.Server.handleSession").contains "session.ClientMAC.String() != clientMAC.String()" = true ∧
    (guardsOf "pppoe.Server.handlePADT").contains "session == nil" = true ∧
    (guardsOf "pppoe.Server.handleSession").contains "session == nil" = true := by decide

/-- no IP-layer negotiation before authentication: the authentication gate is the FIRST thing handleIPCP does -/
theorem ipcp_gate_first : (guardsOf "pppoe.Server.handleIPCP").head? = some "!session.Authenticated" := by decide

/-- no IP traffic before the session is established: the gate is the first thing handleIPPacket does -/
theorem ip_gate_first : (guardsOf "pppoe.Server.handleIPPacket").head? = some "!session.IsEstablished()" := by decide

/-- every handler the model gates is in the regenerated table -/
theorem every_handler_extracted :
    ["pppoe.Server.handlePADT", "pppoe.Server.handleSession", "pppoe.Server.handleIPCP",
     "pppoe.Server.handleIPPacket"].all (fun h => guards.any (·.1 == h)) = true := by decide

end Bng.Spec.C04Guards
