import Bng.Proof.Vlan
import Bng.Proof.Qinq
import Bng.Proof.PppoeSessions
import Bng.Proof.CircuitKey
/-
  C20 — Subscriber-identifying keys map to at most one subscriber.

  Property statements only (helper lemmas live in Bng/Proof).  Every theorem quantifies over ALL operation
  sequences `ops` (and all configurations / byte strings); nothing is bounded.
-/
namespace Bng.Spec.C20
open Bng AMap

/-! ## VLAN allocator (pkg/nexus/vlan.go, after the fixes f275b09 and 0d88701) -/
section vlan
open Bng.Vlan

/-- tag ranges the allocator is meant for: both end below 65535.  With `End = 65535` the guard `tag <= End` of the uint16
    loops in findAvailable / findAvailableCTag is always true and the counter wraps to 0 — the complement of `GoodCfg`
    is exactly finding KF-vlan-u16-wrap (VLAN ids are 12 bit, so real configurations satisfy this).  Empty ranges
    (Start > End) are allowed: nothing is ever handed out from an empty range (fix e67ca78). -/
def GoodCfg (c : Cfg) : Prop := c.sE < 65535 ∧ c.cE < 65535

/-- Bijection: after any history (allocate, allocate-with-outer-tag, release, load — conflicting and repeated loads
    included) the NTE → pair map and the pair → NTE map are mutually inverse partial functions. -/
theorem vlan_bijection_inv (c : Cfg) (ops : List Op) (n : Nat) (p : Pair) :
    AMap.lookup (run (init c) ops).allocs n = some p ↔ AMap.lookup (run (init c) ops).usage p = some n :=
  ⟨(inv_run (inv_init c) ops).fwd n p, (inv_run (inv_init c) ops).bwd n p⟩

/-- A pair in use identifies at most one NTE: two NTEs never hold the same (S-TAG, C-TAG) pair. -/
theorem vlan_id_unique (c : Cfg) (ops : List Op) (n₁ n₂ : Nat) (p : Pair)
    (h₁ : AMap.lookup (run (init c) ops).allocs n₁ = some p)
    (h₂ : AMap.lookup (run (init c) ops).allocs n₂ = some p) : n₁ = n₂ := by
  have a := (inv_run (inv_init c) ops).fwd n₁ p h₁
  have b := (inv_run (inv_init c) ops).fwd n₂ p h₂
  rw [a] at b
  simpa using b

/-- In range, per NTE (PARTIAL only in this: a record that a `load` of the history itself named with an out-of-range
    pair is exempt — LoadFromStore does not check stored pairs, finding KF-vlan-load-range): after any history,
    whatever else was loaded for OTHER NTEs or pairs, NTE `n`'s pair `p` lies inside the configured S-TAG and C-TAG
    ranges unless the record (n, p) is one of those out-of-range stored records. -/
theorem vlan_in_ranges_partial (c : Cfg) (hc : GoodCfg c) (ops : List Op)
    (n : Nat) (p : Pair) (h : AMap.lookup (run (init c) ops).allocs n = some p)
    (hb : (n, p) ∉ badLoads c ops) :
    c.sS ≤ p.1 ∧ p.1 ≤ c.sE ∧ c.cS ≤ p.2 ∧ p.2 ≤ c.cE := by
  have hR := rinv_run (rinv_init (· ∈ badLoads c ops) c hc.1 hc.2) ops (opBadIn_badLoads c ops)
  have := hR.rng n p h
  rw [run_cfg] at this
  rcases this with h1 | h1
  · exact (inRange_iff c p).mp h1
  · exact absurd h1 hb

/-- The defect inside the exemption, on the model: a stored pair outside the ranges is held after `load` — while the
    pair the same history allocates to ANOTHER NTE is covered by the theorem above. -/
theorem vlan_load_range_witness :
    let c : Cfg := { sS := 100, sE := 101, cS := 10, cE := 12 }
    let ops : List Op := [.load [(1, (102, 10))], .alloc 2]
    (1, ((102, 10) : Pair)) ∈ badLoads c ops ∧ AMap.lookup (run (init c) ops).allocs 1 = some (102, 10) ∧
    inRange c (102, 10) = false ∧
    (2, ((100, 10) : Pair)) ∉ badLoads c ops ∧ AMap.lookup (run (init c) ops).allocs 2 = some (100, 10) := by
  decide

/-- The defect outside `GoodCfg`, on the model (finding KF-vlan-u16-wrap): with an S-TAG range ending at 65535 the
    uint16 loop counter of findAvailable wraps to 0 and Allocate hands out S-TAG 0, outside the range. -/
theorem vlan_u16_wrap_witness :
    let c : Cfg := { sS := 65534, sE := 65535, cS := 1, cE := 1 }
    ¬ GoodCfg c ∧ (alloc (run (init c) [.alloc 1, .alloc 2]) 3).2 = .okPair 0 1 ∧ inRange c (0, 1) = false := by
  refine ⟨?_, by decide, by decide⟩
  intro h
  have := h.1
  revert this; decide

/-- What Allocate itself hands out is in range whatever was loaded before: after ANY history (no hypothesis on the
    loads), the pair a successful Allocate gives to an NTE that held nothing lies inside both ranges. -/
theorem vlan_alloc_answer_in_range (c : Cfg) (hc : GoodCfg c) (ops : List Op)
    (n s ct : Nat) (hn : AMap.lookup (run (init c) ops).allocs n = none)
    (h : (alloc (run (init c) ops) n).2 = .okPair s ct) :
    c.sS ≤ s ∧ s ≤ c.sE ∧ c.cS ≤ ct ∧ ct ≤ c.cE := by
  have hR := rinv_run (rinv_init (fun _ => True) c hc.1 hc.2) ops
    (by intro op _; cases op <;> simp [opBadIn])
  have hcfg : (run (init c) ops).cfg = c := run_cfg _ _
  generalize run (init c) ops = st at *
  unfold alloc at h
  simp only [hn] at h
  cases hf : findAvail st with
  | exhausted => simp [hf] at h
  | hang => simp [hf] at h
  | found p =>
    simp only [hf] at h
    have := findAvail_inRange hR hf
    rw [hcfg] at this
    have e := (inRange_iff c p).mp this
    simp only [Obs.okPair.injEq] at h
    obtain ⟨e1, e2⟩ := h
    subst e1; subst e2; exact e

/-- Release frame: after any history, releasing NTE `n` (a) leaves every other NTE's pair unchanged, (b) leaves the
    owner of every other pair unchanged, (c) frees `n`'s pair in the reverse index, and (d) makes it reusable: if
    the released pair is in range, AllocateWithSTag for its S-TAG succeeds for any NTE. -/
theorem vlan_release_frame (c : Cfg) (hc : GoodCfg c) (ops : List Op) (n : Nat) (p : Pair)
    (h : AMap.lookup (run (init c) ops).allocs n = some p) :
    let st := run (init c) ops
    let st' := (release st n).1
    (∀ n', n' ≠ n → AMap.lookup st'.allocs n' = AMap.lookup st.allocs n') ∧
    (∀ q, q ≠ p → AMap.lookup st'.usage q = AMap.lookup st.usage q) ∧
    AMap.lookup st'.allocs n = none ∧ AMap.lookup st'.usage p = none ∧
    (inRange c p = true → ∀ n₂, ∃ ct, (allocWS st' n₂ p.1).2 = .okPair p.1 ct) := by
  intro st st'
  have hI : Inv st := inv_run (inv_init c) ops
  have h : AMap.lookup st.allocs n = some p := h
  have hcfg : st'.cfg = c := by
    show (releaseU st n).cfg = c
    rw [releaseU_cfg]; exact run_cfg _ _
  have hfree : AMap.lookup st'.usage p = none := by
    show AMap.lookup (releaseU st n).usage p = none
    rw [releaseU_usage]; simp [h]
  refine ⟨?_, ?_, ?_, hfree, ?_⟩
  · intro n' hn
    show AMap.lookup (releaseU st n).allocs n' = _
    rw [releaseU_allocs]; simp [hn]
  · intro q hq
    show AMap.lookup (releaseU st n).usage q = _
    rw [releaseU_usage, h]
    have : ¬ (some p = some q) := by intro e; exact hq (by simpa using e.symm)
    simp [this]
  · show AMap.lookup (releaseU st n).allocs n = none
    rw [releaseU_allocs]; simp
  · intro hr n₂
    have hr' := (inRange_iff c p).mp hr
    unfold allocWS
    rw [hcfg]
    have : ¬ (p.1 < c.sS ∨ c.sE < p.1) := by omega
    rw [if_neg this]
    cases hh : heldWithTag st' n₂ p.1 with
    | some q =>
      refine ⟨q.2, ?_⟩
      unfold heldWithTag at hh
      split at hh
      · split at hh
        · rename_i e; simp only [Option.some.injEq] at hh; subst hh; simp [e]
        · cases hh
      · cases hh
    | none =>
      simp only
      cases hf : findC st' p.1 with
      | found ct => exact ⟨ct, rfl⟩
      | exhausted =>
        exfalso
        have := findC_exhausted hf (by rw [hcfg]; exact hc.2) p.2
          (by rw [hcfg]; exact hr'.2.2.1) (by rw [hcfg]; exact hr'.2.2.2)
        exact this hfree
      | hang =>
        exact absurd hf (findC_no_hang (by rw [hcfg]; exact hc.2))

/-- Every key stays usable: Allocate reports exhaustion only when every pair of the configured ranges is held, so a
    released pair (and any other free pair) can always be allocated again. -/
theorem vlan_exhausted_only_when_full (c : Cfg) (hc : GoodCfg c) (ops : List Op) (n : Nat)
    (h : (alloc (run (init c) ops) n).2 = .exhausted) :
    ∀ s ct, c.sS ≤ s → s ≤ c.sE → c.cS ≤ ct → ct ≤ c.cE →
      ∃ n', AMap.lookup (run (init c) ops).usage (s, ct) = some n' := by
  have hR := rinv_run (rinv_init (fun _ => True) c hc.1 hc.2) ops
    (by intro op _; cases op <;> simp [opBadIn])
  have hcfg : (run (init c) ops).cfg = c := run_cfg _ _
  generalize run (init c) ops = st at *
  intro s ct h1 h2 h3 h4
  unfold alloc at h
  cases ha : AMap.lookup st.allocs n with
  | some p => simp [ha] at h
  | none =>
    simp only [ha] at h
    cases hf : findAvail st with
    | found p => simp [hf] at h
    | hang => simp [hf] at h
    | exhausted =>
      have hx := findAvail_exhausted hf hR.curLo hR.sHi s (by rw [hcfg]; exact h1) (by rw [hcfg]; exact h2)
      have := findC_exhausted hx hR.cHi ct (by rw [hcfg]; exact h3) (by rw [hcfg]; exact h4)
      cases hu : AMap.lookup st.usage (s, ct) with
      | none => exact absurd hu this
      | some n' => exact ⟨n', rfl⟩

/-! non-vacuity -/
example : GoodCfg { sS := 100, sE := 101, cS := 10, cE := 12 } := by unfold GoodCfg; decide
/-- an empty C-TAG range satisfies `GoodCfg`, and nothing is handed out from it -/
example : GoodCfg { sS := 100, sE := 101, cS := 12, cE := 10 } ∧
    (alloc (init { sS := 100, sE := 101, cS := 12, cE := 10 }) 1).2 = .exhausted ∧
    (allocWS (init { sS := 100, sE := 101, cS := 12, cE := 10 }) 1 100).2 = .exhausted := by
  refine ⟨by unfold GoodCfg; decide, by decide, by decide⟩
example : AMap.lookup (run (init { sS := 100, sE := 101, cS := 10, cE := 12 })
    [.load [(1, (100, 10)), (2, (100, 10))], .alloc 3, .allocWS 1 101]).allocs 1 = some (101, 10) := by decide

end vlan

/-! ## QinQ mapper (pkg/qinq/qinq.go, unchanged) -/
section qinq
open Bng.Qinq

/-- Bijection: after any register / unregister history the pair → subscriber and subscriber → pair maps are mutually
    inverse partial functions. -/
theorem qinq_bijection_inv (c : Cfg) (ops : List Op) (k : Nat) (p : Pair) :
    AMap.lookup (run (init c) ops).s2v k = some p ↔ AMap.lookup (run (init c) ops).v2s p = some k :=
  ⟨(inv_run (inv_init c) ops).fwd k p, (inv_run (inv_init c) ops).bwd k p⟩

/-- A pair in use identifies at most one subscriber. -/
theorem qinq_id_unique (c : Cfg) (ops : List Op) (k₁ k₂ : Nat) (p : Pair)
    (h₁ : AMap.lookup (run (init c) ops).s2v k₁ = some p)
    (h₂ : AMap.lookup (run (init c) ops).s2v k₂ = some p) : k₁ = k₂ := by
  have a := (inv_run (inv_init c) ops).fwd k₁ p h₁
  have b := (inv_run (inv_init c) ops).fwd k₂ p h₂
  rw [a] at b
  simpa using b

/-- In range: every registered pair passed the mapper's validation (a present S-TAG lies in one of the configured
    S-TAG ranges, a present C-TAG in the C-TAG range; tag 0 = tag absent). -/
theorem qinq_in_ranges (c : Cfg) (ops : List Op) (k : Nat) (p : Pair)
    (h : AMap.lookup (run (init c) ops).s2v k = some p) :
    (p.1 = 0 ∨ ∃ r ∈ c.sRanges, r.1 ≤ p.1 ∧ p.1 ≤ r.2) ∧ (p.2 = 0 ∨ (c.cS ≤ p.2 ∧ p.2 ≤ c.cE)) := by
  have hI := inv_run (inv_init c) ops
  have := hI.ok k p (hI.fwd k p h)
  rw [run_cfg] at this
  simp only [valid, Bool.and_eq_true, Bool.or_eq_true, beq_iff_eq, List.any_eq_true, decide_eq_true_eq] at this
  exact this

/-- Release frame: after any history, unregistering pair `p` leaves every other pair's subscriber and every other
    subscriber's pair unchanged, removes `p`, and makes `p` registrable by any subscriber. -/
theorem qinq_release_frame (c : Cfg) (ops : List Op) (p : Pair) (k : Nat)
    (h : AMap.lookup (run (init c) ops).v2s p = some k) :
    let st := run (init c) ops
    let st' := (unregister st p).1
    (∀ q, q ≠ p → AMap.lookup st'.v2s q = AMap.lookup st.v2s q) ∧
    (∀ k', k' ≠ k → AMap.lookup st'.s2v k' = AMap.lookup st.s2v k') ∧
    AMap.lookup st'.v2s p = none ∧ AMap.lookup st'.s2v k = none ∧
    (∀ k₂, (register st' p k₂).2 = .ok) := by
  intro st st'
  have hI : Inv st := inv_run (inv_init c) ops
  have hv : valid st.cfg p = true := hI.ok k p h
  have e : st' = { st with v2s := AMap.erase st.v2s p, s2v := AMap.erase st.s2v k } := by
    show (unregister st p).1 = _
    unfold unregister
    rw [h]
  refine ⟨?_, ?_, ?_, ?_, ?_⟩
  · intro q hq; rw [e]; simp [lookup_erase, hq]
  · intro k' hk; rw [e]; simp [lookup_erase, hk]
  · rw [e]; simp
  · rw [e]; simp
  · intro k₂
    have h1 : AMap.lookup st'.v2s p = none := by rw [e]; simp
    have h2 : st'.cfg = st.cfg := by rw [e]
    unfold register
    rw [h2, hv, h1]
    simp

/-! non-vacuity -/
example : AMap.lookup (run (init { sRanges := [(100, 101)], cS := 10, cE := 12 })
    [.register (100, 10) 1, .register (100, 10) 2, .register (101, 12) 1, .register (100, 10) 2]).v2s (100, 10)
      = some 2 := by decide

end qinq

/-! ## PPPoE session manager (pkg/pppoe/session.go, after the fixes 8154de2, 64c9c22 and 547a196) -/
section pppsess
open Bng.PppoeSessions

/-- Index soundness (the direction that holds for ALL histories, two sessions per MAC included): an entry of the
    MAC index points at a live session that carries that MAC, so GetSessionByMAC never returns a foreign or dead
    session. -/
theorem pppsess_bijection_inv_sound (ops : List Op) (m id : Nat)
    (h : AMap.lookup (run init ops).mac2s m = some id) : AMap.lookup (run init ops).sessions id = some m :=
  (inv_run inv_init ops).snd m id h

/-- Bijection, per MAC (PARTIAL only in this: MACs that at some point had two live sessions are exempt, finding
    KF-pppsess-mac-orphan): for every MAC `m` such that no `create m` of the history happened while a session of `m`
    was live — whatever OTHER MACs did, double sessions included — the id → MAC map and the MAC → id index agree on
    `m` in both directions. -/
theorem pppsess_bijection_inv_partial (ops : List Op) (m : Nat) (h1 : OnePerMacFor m init ops) (id : Nat) :
    AMap.lookup (run init ops).sessions id = some m ↔ AMap.lookup (run init ops).mac2s m = some id :=
  ⟨completeFor_run (by intro id h; simp [init] at h) ops h1 id, (inv_run inv_init ops).snd m id⟩

/-- The defect inside the exemption, on the model: two sessions from MAC 1, the newer one removed — the older session is
    live but the MAC index has no entry for it; MAC 2, in the same history, satisfies the hypothesis of the theorem. -/
theorem pppsess_mac_orphan_witness :
    let ops : List Op := [.create 1, .create 2, .create 1, .remove 3]
    ¬ OnePerMacFor 1 init ops ∧ AMap.lookup (run init ops).sessions 1 = some 1 ∧
      AMap.lookup (run init ops).mac2s 1 = none ∧
    OnePerMacFor 2 init ops ∧ AMap.lookup (run init ops).mac2s 2 = some 2 := by
  refine ⟨?_, by decide, by decide, ?_, by decide⟩
  · intro h
    exact h.2.2.1 rfl 1 (by decide)
  · refine ⟨fun e => absurd e (by decide), fun _ => noLive_of_all (by decide), fun e => absurd e (by decide),
      trivial, trivial⟩

/-- Id uniqueness: whatever the history (id counter pre-set anywhere, wrap-around included), the id a successful
    CreateSession returns is not the id of any live session, and it is a valid PPPoE session id (never 0). -/
theorem pppsess_id_unique (ops : List Op) (mac id : Nat)
    (h : (create (run init ops) mac).2 = .okId id) :
    AMap.lookup (run init ops).sessions id = none ∧ 1 ≤ id ∧ id ≤ 65535 := by
  have hI := inv_run inv_init ops
  exact search_some (create_ok h).1 (start_range hI)

/-- In range: every live session id is in 1…65535. -/
theorem pppsess_in_ranges (ops : List Op) (id m : Nat)
    (h : AMap.lookup (run init ops).sessions id = some m) : 1 ≤ id ∧ id ≤ 65535 :=
  (inv_run inv_init ops).ids id m h

/-- Release frame: after any history, removing session `id` leaves every other session untouched, leaves every MAC
    index entry that points at another session untouched (the newer session of the same MAC stays reachable: D56),
    removes `id`, and makes `id` reusable: with the counter at `id` the next CreateSession returns `id`. -/
theorem pppsess_release_frame (ops : List Op) (id : Nat) :
    let st := run init ops
    let st' := (remove st id).1
    (∀ id', id' ≠ id → AMap.lookup st'.sessions id' = AMap.lookup st.sessions id') ∧
    (∀ m, AMap.lookup st.mac2s m ≠ some id → AMap.lookup st'.mac2s m = AMap.lookup st.mac2s m) ∧
    AMap.lookup st'.sessions id = none ∧
    (1 ≤ id → id ≤ 65535 → st'.sessions.length < 65535 →
      ∀ mac, (create { st' with next := id } mac).2 = .okId id) := by
  intro st st'
  have hs : ∀ id', AMap.lookup st'.sessions id' = if id' = id then none else AMap.lookup st.sessions id' :=
    fun id' => drop_sessions st id id'
  refine ⟨?_, ?_, ?_, ?_⟩
  · intro id' hne; rw [hs]; simp [hne]
  · intro m hm
    show AMap.lookup (drop st id).mac2s m = _
    rw [drop_mac2s]
    have : ¬ (AMap.lookup st.sessions id = some m ∧ AMap.lookup st.mac2s m = some id) := fun x => hm x.2
    rw [if_neg this]
  · rw [hs]; simp
  · intro h1 h2 hlen mac
    have hfree : AMap.lookup st'.sessions id = none := by rw [hs]; simp
    have hne : id ≠ 0 := by omega
    have hg : ¬ (st'.sessions.length ≥ 65535) := by omega
    simp [create, hg, hne, search, hfree]

/-! non-vacuity -/
example : OnePerMacFor 1 init [.setNext 65535, .create 1, .create 2, .remove 65535, .create 1] := by
  refine ⟨trivial, fun _ => noLive_of_all (by decide), fun e => absurd e (by decide), trivial,
    fun _ => noLive_of_all (by decide), trivial⟩
example : (create (run init [.setNext 65535, .create 1]) 2).2 = .okId 1 := by decide

end pppsess

/-! ## Circuit-id keys and the MAC key (pkg/ebpf/loader.go MakeCircuitIDKey / HashCircuitID / MACToUint64, unchanged) -/
section circuitkey
open Bng.CircuitKey

/-- The fixed 32-byte key is injective on circuit-ids of at most 32 bytes that do not end in a zero byte. -/
theorem key_injective_on (a b : List UInt8)
    (ha : a.length ≤ 32 ∧ a.getLast? ≠ some 0) (hb : b.length ≤ 32 ∧ b.getLast? ≠ some 0)
    (h : makeKey a = makeKey b) : a = b :=
  makeKey_injective_on ((keySafe_iff a).mpr ha) ((keySafe_iff b).mpr hb) h

/-- Failure outside (D57), length: EVERY circuit-id longer than 32 bytes shares its key with a different circuit-id
    (its own first 32 bytes; hence any two ids with a common 32-byte prefix share a key). -/
theorem key_not_injective_long (a : List UInt8) (h : 32 < a.length) :
    ∃ b, b ≠ a ∧ makeKey b = makeKey a := by
  refine ⟨a.take 32, ?_, makeKey_take h⟩
  intro e
  have := congrArg List.length e
  rw [List.length_take] at this
  omega

/-- Failure outside (D57), trailing zero: EVERY circuit-id shorter than 32 bytes shares its key with the id obtained
    by appending a zero byte. -/
theorem key_not_injective_zero (a : List UInt8) (h : a.length < 32) :
    a ++ [0] ≠ a ∧ makeKey (a ++ [0]) = makeKey a := by
  refine ⟨?_, makeKey_append_zero h⟩
  intro e
  have := congrArg List.length e
  simp at this

/-- D58, by cardinality: NO function from byte strings to 64-bit values — in particular not HashCircuitID — is
    injective on the circuit-ids of at most 64 bytes: two different ids with the same hash key exist (pigeonhole
    on the 2^72 strings of 9 bytes; no concrete pair is exhibited). -/
theorem hash_not_injective (h : List UInt8 → UInt64) :
    ∃ a b : List UInt8, a ≠ b ∧ a.length ≤ 64 ∧ b.length ≤ 64 ∧ h a = h b := by
  obtain ⟨a, b, hne, ha, hb, he⟩ := exists_collision h
  exact ⟨a, b, hne, by omega, by omega, he⟩

/-- the instance the code uses -/
theorem fnv_hash_not_injective :
    ∃ a b : List UInt8, a ≠ b ∧ a.length ≤ 64 ∧ b.length ≤ 64 ∧ CircuitKey.hash a = CircuitKey.hash b :=
  hash_not_injective CircuitKey.hash

/-- The subscriber_pools key MACToUint64 is injective on hardware addresses of exactly 6 bytes (the hypothesis is
    explicit: DHCP lets the client choose hlen 1…16, and pkg/dhcp/server.go keys the fast-path cache with whatever it
    sent; the complement `length ≠ 6` is finding KF-mackey-hlen). -/
theorem mackey_injective_on (a b : List UInt8) (ha : a.length = 6) (hb : b.length = 6)
    (h : macKey a = macKey b) : a = b :=
  macKey_injective_6 ha hb h

/-- Failure outside (KF-mackey-hlen), short: ALL hardware addresses of fewer than 6 bytes share key 0 — any two DHCP
    clients with hlen < 6 identify the same subscriber_pools entry. -/
theorem mackey_not_injective_short (a b : List UInt8) (ha : a.length < 6) (hb : b.length < 6) :
    macKey a = macKey b := by
  rw [macKey_short ha, macKey_short hb]

/-- Failure outside (KF-mackey-hlen), long: EVERY hardware address longer than 6 bytes shares its key with a different
    address, its own first 6 bytes — so two clients whose chaddr agree in the first 6 bytes share one entry, and a
    long address collides with the 6-byte MAC that is its prefix. -/
theorem mackey_not_injective_long (a : List UInt8) (h : 6 < a.length) :
    a.take 6 ≠ a ∧ macKey (a.take 6) = macKey a := by
  refine ⟨?_, macKey_take (by omega)⟩
  intro e
  have := congrArg List.length e
  rw [List.length_take] at this
  omega

/-- the witness pair of the finding, as the harness replays it on the real code: two 5-byte addresses, and a 16-byte
    address against the 6-byte MAC that is its prefix -/
theorem mackey_hlen_witness :
    macKey [1, 2, 3, 4, 5] = macKey [0x0a, 0x0b, 0x0c, 0x0d, 0x0e] ∧
    macKey [2, 0, 0, 0, 0, 0x0a, 0x11, 0x22, 0x33, 0x44, 0x55, 0x66, 0x77, 0x88, 0x99, 0x00] = macKey [2, 0, 0, 0, 0, 0x0a] := by
  decide

/-! non-vacuity -/
example : ([2, 0, 0, 0, 0, 0x0a] : List UInt8).length = 6 ∧ macKey [2, 0, 0, 0, 0, 0x0a] = 0x02000000000a := by decide
example : ([0x61, 0x62] : List UInt8).length ≤ 32 ∧ ([0x61, 0x62] : List UInt8).getLast? ≠ some 0 := by decide
example : makeKey [0x61, 0] = makeKey [0x61] := by decide

end circuitkey

end Bng.Spec.C20
