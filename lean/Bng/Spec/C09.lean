import Bng.Proof.Decoders
import Bng.Proof.Coa
import Bng.Md5
/-
  C09 — No packet from the network can crash or hang the gateway.

  Property statements only.  For every modelled network-facing decoder / handler `D` (one Lean function
  per Go function, `Bng/Model/Decoders.lean`, `Bng/Model/Coa.lean`) and EVERY byte string (no length
  bound) in EVERY protocol state:
    * `D_total`  : processing returns normally or with an error — it never panics, i.e. never slices or
                   indexes outside its input (`Except.error` is a Go run-time panic in `Bng/Go.lean`);
    * `D_linear` : the number of loop iterations is bounded by a linear function of the input length.
  That every loop terminates at all is checked by Lean's termination checker when the model is compiled.
-/
namespace Bng.Spec.C09
open Bng Bng.Go Bng.Decoders

/-- pppoe/protocol.go ParsePPPoEHeader: never panics. -/
theorem parsePPPoEHeader_total (bs : Bytes) : G.isOk (parsePPPoEHeader bs) = true :=
  (parsePPPoEHeader_spec bs).isOk

/-- pppoe/protocol.go ParsePPPoEHeader: steps ≤ 1. -/
theorem parsePPPoEHeader_linear (bs : Bytes) {r} {m : Nat} (h : parsePPPoEHeader bs = .ok (r, m)) :
    m ≤ 1 :=
  (parsePPPoEHeader_spec bs).steps h

/-- pppoe/protocol.go ParseTags: never panics. -/
theorem parseTags_total (bs : Bytes) : G.isOk (parseTags bs) = true :=
  (parseTags_spec bs).isOk

/-- pppoe/protocol.go ParseTags: steps ≤ bs.length + 1. -/
theorem parseTags_linear (bs : Bytes) {r} {m : Nat} (h : parseTags bs = .ok (r, m)) :
    m ≤ bs.length + 1 :=
  (parseTags_spec bs).steps h

/-- pppoe/protocol.go ParseLCPPacket: never panics. -/
theorem parseLCPPacket_total (bs : Bytes) : G.isOk (parseLCPPacket bs) = true :=
  (parseLCPPacket_spec bs).isOk

/-- pppoe/protocol.go ParseLCPPacket: steps ≤ 1. -/
theorem parseLCPPacket_linear (bs : Bytes) {r} {m : Nat} (h : parseLCPPacket bs = .ok (r, m)) :
    m ≤ 1 :=
  (parseLCPPacket_spec bs).steps h

/-- pppoe/protocol.go ParseLCPOptions: never panics. -/
theorem parseLCPOptions_total (bs : Bytes) : G.isOk (parseLCPOptions bs) = true :=
  (parseLCPOptions_spec bs).isOk

/-- pppoe/protocol.go ParseLCPOptions: steps ≤ bs.length + 1. -/
theorem parseLCPOptions_linear (bs : Bytes) {r} {m : Nat} (h : parseLCPOptions bs = .ok (r, m)) :
    m ≤ bs.length + 1 :=
  (parseLCPOptions_spec bs).steps h

/-- pppoe/teardown.go ParsePADT (D26 fixed): never panics. -/
theorem parsePADT_total (bs : Bytes) : G.isOk (parsePADT bs) = true :=
  (parsePADT_spec bs).isOk

/-- pppoe/teardown.go ParsePADT (D26 fixed): steps ≤ bs.length + 2. -/
theorem parsePADT_linear (bs : Bytes) {r} {m : Nat} (h : parsePADT bs = .ok (r, m)) :
    m ≤ bs.length + 2 :=
  (parsePADT_spec bs).steps h

/-- pppoe/keepalive.go ParseEchoPacket: never panics. -/
theorem parseEchoPacket_total (bs : Bytes) : G.isOk (parseEchoPacket bs) = true :=
  (parseEchoPacket_spec bs).isOk

/-- pppoe/keepalive.go ParseEchoPacket: steps ≤ 1. -/
theorem parseEchoPacket_linear (bs : Bytes) {r} {m : Nat} (h : parseEchoPacket bs = .ok (r, m)) :
    m ≤ 1 :=
  (parseEchoPacket_spec bs).steps h

/-- pppoe/server.go handleDiscovery, for every configured service name (D31 fixed): never panics. -/
theorem handleDiscovery_total (svc bs : Bytes) : G.isOk (handleDiscovery svc bs) = true :=
  (handleDiscovery_spec svc bs).isOk

/-- pppoe/server.go handleDiscovery, for every configured service name (D31 fixed): steps ≤ bs.length + 2. -/
theorem handleDiscovery_linear (svc bs : Bytes) {r} {m : Nat} (h : handleDiscovery svc bs = .ok (r, m)) :
    m ≤ bs.length + 2 :=
  (handleDiscovery_spec svc bs).steps h

/-- pppoe/server.go handleSession incl. the dispatch to handleLCP/handlePAP/handleIPCP, whether or not the addressed session exists (D32 fixed): never panics. -/
theorem handleSession_total (sess : Option SrvSession) (bs : Bytes) : G.isOk (handleSession sess bs) = true :=
  (handleSession_spec sess bs).isOk

/-- pppoe/server.go handleSession incl. the dispatch to handleLCP/handlePAP/handleIPCP, whether or not the addressed session exists (D32 fixed): steps ≤ bs.length + 3. -/
theorem handleSession_linear (sess : Option SrvSession) (bs : Bytes) {r} {m : Nat} (h : handleSession sess bs = .ok (r, m)) :
    m ≤ bs.length + 3 :=
  (handleSession_spec sess bs).steps h

/-- pppoe/server.go handleLCP: never panics. -/
theorem srvHandleLCP_total (s : SrvSession) (bs : Bytes) : G.isOk (srvHandleLCP s bs) = true :=
  (srvHandleLCP_spec s bs).isOk

/-- pppoe/server.go handleLCP: steps ≤ bs.length + 2. -/
theorem srvHandleLCP_linear (s : SrvSession) (bs : Bytes) {r} {m : Nat} (h : srvHandleLCP s bs = .ok (r, m)) :
    m ≤ bs.length + 2 :=
  (srvHandleLCP_spec s bs).steps h

/-- pppoe/server.go handlePAP: never panics. -/
theorem srvHandlePAP_total (bs : Bytes) : G.isOk (srvHandlePAP bs) = true :=
  (srvHandlePAP_spec bs).isOk

/-- pppoe/server.go handlePAP: steps ≤ bs.length + 1. -/
theorem srvHandlePAP_linear (bs : Bytes) {r} {m : Nat} (h : srvHandlePAP bs = .ok (r, m)) :
    m ≤ bs.length + 1 :=
  (srvHandlePAP_spec bs).steps h

/-- pppoe/server.go handleIPCP: never panics. -/
theorem srvHandleIPCP_total (authed : Bool) (bs : Bytes) : G.isOk (srvHandleIPCP authed bs) = true :=
  (srvHandleIPCP_spec authed bs).isOk

/-- pppoe/server.go handleIPCP: steps ≤ bs.length + 2. -/
theorem srvHandleIPCP_linear (authed : Bool) (bs : Bytes) {r} {m : Nat} (h : srvHandleIPCP authed bs = .ok (r, m)) :
    m ≤ bs.length + 2 :=
  (srvHandleIPCP_spec authed bs).steps h

/-- pppoe/auth.go receivePAP + handlePAPAuthRequest (D27 fixed): never panics. -/
theorem receivePAP_total (bs : Bytes) : G.isOk (receivePAP bs) = true :=
  (receivePAP_spec bs).isOk

/-- pppoe/auth.go receivePAP + handlePAPAuthRequest (D27 fixed): steps ≤ bs.length + 2. -/
theorem receivePAP_linear (bs : Bytes) {r} {m : Nat} (h : receivePAP bs = .ok (r, m)) :
    m ≤ bs.length + 2 :=
  (receivePAP_spec bs).steps h

/-- pppoe/auth.go handlePAPAuthRequest: never panics. -/
theorem handlePAPAuthRequest_total (id : UInt8) (bs : Bytes) : G.isOk (handlePAPAuthRequest id bs) = true :=
  (handlePAPAuthRequest_spec id bs).isOk

/-- pppoe/auth.go handlePAPAuthRequest: steps ≤ bs.length + 1. -/
theorem handlePAPAuthRequest_linear (id : UInt8) (bs : Bytes) {r} {m : Nat} (h : handlePAPAuthRequest id bs = .ok (r, m)) :
    m ≤ bs.length + 1 :=
  (handlePAPAuthRequest_spec id bs).steps h

/-- pppoe/auth.go receiveCHAP + handleCHAPResponse, for every outstanding challenge identifier (D28 fixed): never panics. -/
theorem receiveCHAP_total (chapID : UInt8) (bs : Bytes) : G.isOk (receiveCHAP chapID bs) = true :=
  (receiveCHAP_spec chapID bs).isOk

/-- pppoe/auth.go receiveCHAP + handleCHAPResponse, for every outstanding challenge identifier (D28 fixed): steps ≤ 2. -/
theorem receiveCHAP_linear (chapID : UInt8) (bs : Bytes) {r} {m : Nat} (h : receiveCHAP chapID bs = .ok (r, m)) :
    m ≤ 2 :=
  (receiveCHAP_spec chapID bs).steps h

/-- pppoe/auth.go handleCHAPResponse: never panics. -/
theorem handleCHAPResponse_total (chapID id : UInt8) (bs : Bytes) : G.isOk (handleCHAPResponse chapID id bs) = true :=
  (handleCHAPResponse_spec chapID id bs).isOk

/-- pppoe/auth.go handleCHAPResponse: steps ≤ 1. -/
theorem handleCHAPResponse_linear (chapID id : UInt8) (bs : Bytes) {r} {m : Nat} (h : handleCHAPResponse chapID id bs = .ok (r, m)) :
    m ≤ 1 :=
  (handleCHAPResponse_spec chapID id bs).steps h

/-- pppoe/lcp.go (*LCPStateMachine).ReceivePacket in EVERY automaton state and for every last identifier / magic number, incl. receiveEchoRequest in Opened (D29 fixed), receiveCodeReject, receiveProtocolReject, the option walks of Configure-Request/Nak/Reject: never panics. -/
theorem lcpReceive_total (st : CpState) (magic : Nat) (bs : Bytes) : G.isOk (lcpReceive st magic bs) = true :=
  (lcpReceive_spec st magic bs).isOk

/-- pppoe/lcp.go (*LCPStateMachine).ReceivePacket in EVERY automaton state and for every last identifier / magic number, incl. receiveEchoRequest in Opened (D29 fixed), receiveCodeReject, receiveProtocolReject, the option walks of Configure-Request/Nak/Reject: steps ≤ 2 * bs.length + 2. -/
theorem lcpReceive_linear (st : CpState) (magic : Nat) (bs : Bytes) {r} {m : Nat} (h : lcpReceive st magic bs = .ok (r, m)) :
    m ≤ 2 * bs.length + 2 :=
  (lcpReceive_spec st magic bs).steps h

/-- pppoe/ipcp.go (*IPCPStateMachine).ReceivePacket in every state and configuration: never panics. -/
theorem ipcpReceive_total (cfg : IpcpCfg) (st : CpState) (bs : Bytes) : G.isOk (ipcpReceive cfg st bs) = true :=
  (ipcpReceive_spec cfg st bs).isOk

/-- pppoe/ipcp.go (*IPCPStateMachine).ReceivePacket in every state and configuration: steps ≤ 2 * bs.length + 2. -/
theorem ipcpReceive_linear (cfg : IpcpCfg) (st : CpState) (bs : Bytes) {r} {m : Nat} (h : ipcpReceive cfg st bs = .ok (r, m)) :
    m ≤ 2 * bs.length + 2 :=
  (ipcpReceive_spec cfg st bs).steps h

/-- pppoe/ipv6cp.go (*IPV6CPStateMachine).ReceivePacket in every state: never panics. -/
theorem ipv6cpReceive_total (localID : Nat) (st : CpState) (bs : Bytes) : G.isOk (ipv6cpReceive localID st bs) = true :=
  (ipv6cpReceive_spec localID st bs).isOk

/-- pppoe/ipv6cp.go (*IPV6CPStateMachine).ReceivePacket in every state: steps ≤ 2 * bs.length + 2. -/
theorem ipv6cpReceive_linear (localID : Nat) (st : CpState) (bs : Bytes) {r} {m : Nat} (h : ipv6cpReceive localID st bs = .ok (r, m)) :
    m ≤ 2 * bs.length + 2 :=
  (ipv6cpReceive_spec localID st bs).steps h

/-- dhcp/server.go parseOption82 (on the bytes of option 82): never panics. -/
theorem parseOption82_total (bs : Bytes) : G.isOk (parseOption82 bs) = true :=
  (parseOption82_spec bs).isOk

/-- dhcp/server.go parseOption82 (on the bytes of option 82): steps ≤ bs.length + 1. -/
theorem parseOption82_linear (bs : Bytes) {r} {m : Nat} (h : parseOption82 bs = .ok (r, m)) :
    m ≤ bs.length + 1 :=
  (parseOption82_spec bs).steps h

/-- ztp/client.go parseVendorOptions: never panics. -/
theorem parseVendorOptions_total (bs : Bytes) : G.isOk (parseVendorOptions bs) = true :=
  (parseVendorOptions_spec bs).isOk

/-- ztp/client.go parseVendorOptions: steps ≤ bs.length + 1. -/
theorem parseVendorOptions_linear (bs : Bytes) {r} {m : Nat} (h : parseVendorOptions bs = .ok (r, m)) :
    m ≤ bs.length + 1 :=
  (parseVendorOptions_spec bs).steps h

/-- dhcpv6/protocol.go ParseMessage: never panics. -/
theorem parseV6Message_total (bs : Bytes) : G.isOk (parseV6Message bs) = true :=
  (parseV6Message_spec bs).isOk

/-- dhcpv6/protocol.go ParseMessage: steps ≤ bs.length + 2. -/
theorem parseV6Message_linear (bs : Bytes) {r} {m : Nat} (h : parseV6Message bs = .ok (r, m)) :
    m ≤ bs.length + 2 :=
  (parseV6Message_spec bs).steps h

/-- dhcpv6/protocol.go ParseOptions: never panics. -/
theorem parseV6Options_total (bs : Bytes) : G.isOk (parseV6Options bs) = true :=
  (parseV6Options_spec bs).isOk

/-- dhcpv6/protocol.go ParseOptions: steps ≤ bs.length + 1. -/
theorem parseV6Options_linear (bs : Bytes) {r} {m : Nat} (h : parseV6Options bs = .ok (r, m)) :
    m ≤ bs.length + 1 :=
  (parseV6Options_spec bs).steps h

/-- dhcpv6/protocol.go ParseDUID: never panics. -/
theorem parseDUID_total (bs : Bytes) : G.isOk (parseDUID bs) = true :=
  (parseDUID_spec bs).isOk

/-- dhcpv6/protocol.go ParseDUID: steps ≤ 1. -/
theorem parseDUID_linear (bs : Bytes) {r} {m : Nat} (h : parseDUID bs = .ok (r, m)) :
    m ≤ 1 :=
  (parseDUID_spec bs).steps h

/-- dhcpv6/protocol.go ParseIANA and ParseIAPD (identical code): never panics. -/
theorem parseIA_total (bs : Bytes) : G.isOk (parseIA bs) = true :=
  (parseIA_spec bs).isOk

/-- dhcpv6/protocol.go ParseIANA and ParseIAPD (identical code): steps ≤ bs.length + 2. -/
theorem parseIA_linear (bs : Bytes) {r} {m : Nat} (h : parseIA bs = .ok (r, m)) :
    m ≤ bs.length + 2 :=
  (parseIA_spec bs).steps h

/-- dhcpv6/protocol.go ParseIAAddress: never panics. -/
theorem parseIAAddress_total (bs : Bytes) : G.isOk (parseIAAddress bs) = true :=
  (parseIAAddress_spec bs).isOk

/-- dhcpv6/protocol.go ParseIAAddress: steps ≤ bs.length + 2. -/
theorem parseIAAddress_linear (bs : Bytes) {r} {m : Nat} (h : parseIAAddress bs = .ok (r, m)) :
    m ≤ bs.length + 2 :=
  (parseIAAddress_spec bs).steps h

/-- dhcpv6/protocol.go ParseIAPrefix: never panics. -/
theorem parseIAPrefix_total (bs : Bytes) : G.isOk (parseIAPrefix bs) = true :=
  (parseIAPrefix_spec bs).isOk

/-- dhcpv6/protocol.go ParseIAPrefix: steps ≤ bs.length + 2. -/
theorem parseIAPrefix_linear (bs : Bytes) {r} {m : Nat} (h : parseIAPrefix bs = .ok (r, m)) :
    m ≤ bs.length + 2 :=
  (parseIAPrefix_spec bs).steps h

/-- ha/sync.go connectToStream: the ReadString/`line[6:len(line)-1]` loop over an arbitrary byte stream (the JSON decoding of each payload is library code, not modelled): never panics. -/
theorem haStream_total (bs : Bytes) : G.isOk (haStream bs [] 0) = true :=
  (haStream_spec bs.length bs [] 0 (Nat.le_refl _)).isOk

/-- ha/sync.go connectToStream: the ReadString/`line[6:len(line)-1]` loop over an arbitrary byte stream (the JSON decoding of each payload is library code, not modelled): steps ≤ bs.length + 1. -/
theorem haStream_linear (bs : Bytes) {r} {m : Nat} (h : haStream bs [] 0 = .ok (r, m)) :
    m ≤ bs.length + 1 := by
  have := (haStream_spec bs.length bs [] 0 (Nat.le_refl _)).steps h
  omega

/-- radius/coa.go parseAttributes: never panics. -/
theorem radiusParseAttributes_total (bs : Bytes) : G.isOk (Coa.parseAttributes bs) = true :=
  (Coa.parseAttributes_within bs).isOk

/-- radius/coa.go parseAttributes: steps ≤ bs.length + 1. -/
theorem radiusParseAttributes_linear (bs : Bytes) {r} {m : Nat} (h : Coa.parseAttributes bs = .ok (r, m)) :
    m ≤ bs.length + 1 :=
  (Coa.parseAttributes_within bs).steps h

/-! ### radius/coa.go : the body of the receive loop for one datagram, for every secret and every hash
    function with 16-byte digests (MD5 in the code) -/

/-- radius/coa.go receiveLoop body + verifyRequestAuthenticator + parseAttributes + dispatch (D30 fixed):
    never panics. -/
theorem coaReceive_total (H : Bytes → Bytes) (hH : ∀ x, (H x).length = 16) (secret bs : Bytes) :
    G.isOk (Coa.receive H secret bs) = true := by
  obtain ⟨r, m, e, _⟩ := Coa.receive_spec H hH secret bs
  rw [e]; rfl

/-- radius/coa.go receiveLoop body: steps ≤ len + 18. -/
theorem coaReceive_linear (H : Bytes → Bytes) (hH : ∀ x, (H x).length = 16) (secret bs : Bytes)
    {r} {m : Nat} (h : Coa.receive H secret bs = .ok (r, m)) : m ≤ bs.length + 18 := by
  obtain ⟨r', m', e, hm, _⟩ := Coa.receive_spec H hH secret bs
  rw [e] at h
  injection h with h; injection h with _ h2
  omega

/-- the hypothesis on `H` is satisfiable: the MD5 of the driver has 16-byte digests -/
example : ∀ x, (Md5.md5 x).length = 16 := Md5.md5_length

/-- radius/coa.go parseCoARequest / parseDisconnectRequest: the attribute walk never panics
    (its cost is one step per attribute). -/
theorem coaParseFields_total (k : Coa.Kind) (attrs : List Coa.Attr) (f : Coa.Fields) :
    G.isOk (Coa.parseFields k attrs f) = true := by
  obtain ⟨f', e⟩ := Coa.parseFields_ok k attrs f
  rw [e]; rfl

/-! ### pppoe/session.go CreateSession : the session-id search (D33 fixed) -/

/-- For every session table (`keys` = the ids in use, a Go map has no duplicate keys) and every value of
    the `nextID` counter, `CreateSession` ends within 65536 iterations of its search loop — it never
    spins — and either reports "no free session ID" (only when at least 65535 ids are in use) or hands
    out an id in 1..65535 that was not in use. -/
theorem createSession_terminates (keys : List Nat) (next : Nat) (hn : next < 65536) :
    (createSession (fun i => keys.contains i) keys.length next).2 ≤ 65536 ∧
    ((createSession (fun i => keys.contains i) keys.length next).1 = .full ∧ 65535 ≤ keys.length ∨
     ∃ id nx, (createSession (fun i => keys.contains i) keys.length next).1 = .got id nx ∧
       keys.contains id = false ∧ 1 ≤ id ∧ id ≤ 65535) :=
  createSession_spec keys next hn

/-- in particular the search never runs out of fuel (`spin` = the Go loop would not terminate) -/
theorem createSession_never_spins (keys : List Nat) (next : Nat) (hn : next < 65536) :
    (createSession (fun i => keys.contains i) keys.length next).1 ≠ .spin := by
  rcases (createSession_spec keys next hn).2 with ⟨h, _⟩ | ⟨id, nx, h, _⟩ <;> rw [h] <;> simp

example : (0 : Nat) < 65536 := by decide

end Bng.Spec.C09
