import Bng.Proof.LockFacts
/-
  C19 / C16 — lock discipline of qos.Manager (structural part).

  `Bng.Gen.Locks.locks` is REGENERATED on every run by harness/cmd/extractlocks from the repository's working tree.
  The models (Model/TokenBucket.lean policy part, Model/DhcpTerm.lean `qosInstall` / termination) execute
  SetSubscriberQoS and RemoveSubscriberQoS as ONE step each: egress bucket, ingress bucket and the subscriber table
  change together (a half-way FAILURE is a separate, explicit outcome of the step).  Before fix 01bf152 the three writes
  were separate, unlocked steps, so a removal interleaved with an installation left an ingress bucket nobody tracks
  (review item A1); since the fix both calls hold `subscribersMu` from the first map write to the table update.
  Here the kernel decides on the regenerated table that they still do.
-/
namespace Bng.Spec.C19Locks
open Bng.LockFacts

/-- SetSubscriberQoS: one exclusive section of `subscribersMu`, held to the end, that contains the egress write, the
    ingress write and the table update -/
theorem install_is_one_critical_section :
    known "qos.Manager.SetSubscriberQoS" = true ∧
    acqOf "qos.Manager.SetSubscriberQoS" "m.subscribersMu" = ["W"] ∧
    deferredUnlock "qos.Manager.SetSubscriberQoS" "m.subscribersMu" = true ∧
    underW "qos.Manager.SetSubscriberQoS" "c" "m.qosEgress.Put" "m.subscribersMu" = true ∧
    underW "qos.Manager.SetSubscriberQoS" "c" "m.qosIngress.Put" "m.subscribersMu" = true ∧
    underW "qos.Manager.SetSubscriberQoS" "w" "m.subscribers" "m.subscribersMu" = true := by decide

/-- RemoveSubscriberQoS: one exclusive section that contains both bucket deletes and the table update -/
theorem removal_is_one_critical_section :
    known "qos.Manager.RemoveSubscriberQoS" = true ∧
    acqOf "qos.Manager.RemoveSubscriberQoS" "m.subscribersMu" = ["W"] ∧
    deferredUnlock "qos.Manager.RemoveSubscriberQoS" "m.subscribersMu" = true ∧
    underW "qos.Manager.RemoveSubscriberQoS" "c" "m.qosEgress.Delete" "m.subscribersMu" = true ∧
    underW "qos.Manager.RemoveSubscriberQoS" "c" "m.qosIngress.Delete" "m.subscribersMu" = true ∧
    underW "qos.Manager.RemoveSubscriberQoS" "w" "m.subscribers" "m.subscribersMu" = true := by decide

/-- non-vacuity: the antispoof manager, which writes its kernel map OUTSIDE its table lock (review item G9, library
    only), does not satisfy the same predicate -/
example : underW "antispoof.Manager.AddBinding" "c" "m.bindings.Put" "m.subscribersMu" = false := by decide

end Bng.Spec.C19Locks
