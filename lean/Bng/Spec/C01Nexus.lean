import Bng.Proof.NexusHash
/-
  C01 — the hash-based central allocation `nexus.(*Client).allocateFromPool`.

  In-range holds for every pool record and every hash function.  UNIQUENESS IS FALSE BY CONSTRUCTION
  (finding D1-nexus-hash): the address is `net + hash(id) mod numHosts + 1` and whoever already holds
  that address is never consulted.  `nexus_collides` proves, for an ARBITRARY hash function, that any
  numHosts+1 subscribers contain two with the same address; `nexus_unique_partial` is what remains
  true (different host offsets give different addresses); `D1_witness` is a concrete colliding pair under
  the real FNV-1a hash (also replayed against the real code from corpus/nexushash on every run).
-/
namespace Bng.Spec.C01Nexus
open Bng Bng.NexusHash

/-- a pool record whose address part is an IPv4 address (the prefix length may be anything) -/
def GoodCfg (c : Cfg) : Prop := c.base < 2 ^ 32

/-- In range: whatever the hash function, the address computed for a subscriber is a host address of
    the pool's network — strictly between the network address and the broadcast address — even when
    the pool record was written with host bits set. -/
theorem nexus_in_range {κ : Type} (hash : κ → Nat) (c : Cfg) (hc : GoodCfg c) (id : κ) (a : Nat)
    (h : addr hash c id = some a) : c.net < a ∧ a + 1 < c.net + 2 ^ c.hostBits := by
  unfold addr at h
  by_cases hpos : c.numHosts = 0
  · simp [addrOfHash, hpos] at h
  · rw [addrOfHash_eq c hc hpos] at h
    simp only [Option.some.injEq] at h
    subst h
    have := offset_bounds c hpos (hash id)
    omega

/-- A pool with fewer than two host addresses is refused. -/
theorem nexus_no_hosts {κ : Type} (hash : κ → Nat) (c : Cfg) (id : κ) (h : 31 ≤ c.ones) :
    addr hash c id = none := by
  have : c.numHosts = 0 := by
    unfold Cfg.numHosts Cfg.hostBits
    have : 32 - c.ones = 0 ∨ 32 - c.ones = 1 := by omega
    rcases this with e | e <;> simp [e]
  simp [addr, addrOfHash, this]

/-! ### idempotence lives in the client (`AllocateIPForSubscriber` / `ReleaseSubscriberIP`) -/

/-- A subscriber whose record carries an address is answered with that address and nothing changes —
    whatever the pool and ISP records say now. -/
theorem client_idempotent (s : Client.State) (k : Nat) (sub : Client.Sub) (a : Nat)
    (hs : AMap.lookup s.subs k = some sub) (ha : sub.addr = some a) :
    Client.alloc s k = (s, .okAddr a) := by
  unfold Client.alloc
  simp [hs, ha]

/-- the address of subscriber k survives every operation except its own release and re-provisioning —
    in particular every edit of a pool or ISP record and every allocation or release of other subscribers -/
theorem client_addr_persists (s : Client.State) (k a : Nat) (op : Client.Op)
    (hk : ∃ sub, AMap.lookup s.subs k = some sub ∧ sub.addr = some a)
    (h1 : op ≠ .release k) (h2 : ∀ p i h, op ≠ .sub k p i h) :
    ∃ sub, AMap.lookup (Client.step s op).1.subs k = some sub ∧ sub.addr = some a := by
  obtain ⟨sub, hs, ha⟩ := hk
  cases op with
  | pool p c => exact ⟨sub, hs, ha⟩
  | isp i f => exact ⟨sub, hs, ha⟩
  | lookup k' => exact ⟨sub, hs, ha⟩
  | sub k' p i h =>
    have hne : k ≠ k' := fun e => h2 p i h (by rw [e])
    refine ⟨sub, ?_, ha⟩
    simp only [Client.step, Client.save, AMap.lookup_insert, hne, if_false]
    exact hs
  | release k' =>
    have hne : k ≠ k' := fun e => h1 (by rw [e])
    refine ⟨sub, ?_, ha⟩
    simp only [Client.step, Client.release]
    split
    · exact hs
    · split
      · exact hs
      · simp only [Client.save, AMap.lookup_insert, hne, if_false]; exact hs
  | allocF k' =>
    refine ⟨sub, ?_, ha⟩
    simp only [Client.step, Client.allocF]
    split
    · exact hs
    · split
      · exact hs
      · split <;> exact hs
  | releaseF k' =>
    refine ⟨sub, ?_, ha⟩
    simp only [Client.step, Client.releaseF]
    split
    · exact hs
    · split <;> exact hs
  | alloc k' =>
    by_cases e : k = k'
    · subst e
      rw [show Client.step s (.alloc k) = Client.alloc s k from rfl, client_idempotent s k sub a hs ha]
      exact ⟨sub, hs, ha⟩
    · refine ⟨sub, ?_, ha⟩
      simp only [Client.step, Client.alloc]
      split
      · exact hs
      · split
        · exact hs
        · split
          · exact hs
          · split
            · exact hs
            · split
              · exact hs
              · simp only [Client.save, AMap.lookup_insert, e, if_false]; exact hs

/-- Idempotence over histories: a subscriber that holds an address and asks again — after ANY sequence
    of pool-record edits, ISP-record edits and operations of other subscribers, as long as it was not
    released or re-provisioned itself — receives the same address. -/
theorem client_asks_again (s : Client.State) (k a : Nat) (ops : List Client.Op)
    (hk : ∃ sub, AMap.lookup s.subs k = some sub ∧ sub.addr = some a)
    (hops : ∀ op, op ∈ ops → op ≠ .release k ∧ ∀ p i h, op ≠ .sub k p i h) :
    (Client.alloc (Client.run s ops) k).2 = .okAddr a := by
  induction ops generalizing s with
  | nil =>
    obtain ⟨sub, hs, ha⟩ := hk
    show (Client.alloc s k).2 = _
    rw [client_idempotent s k sub a hs ha]
  | cons op ops ih =>
    simp only [Client.run, List.foldl_cons]
    have h := hops op List.mem_cons_self
    exact ih (Client.step s op).1 (client_addr_persists s k a op hk h.1 h.2)
      (fun o ho => hops o (List.mem_cons_of_mem _ ho))

/-- A newly computed address lies in the pool record it was computed from, as that record is at that
    moment (host address: neither network nor broadcast). -/
theorem client_new_in_range (s : Client.State) (k a : Nat) (sub : Client.Sub)
    (hs : AMap.lookup s.subs k = some sub) (hn : sub.addr = none)
    (h : (Client.alloc s k).2 = .okAddr a) :
    ∃ p c, AMap.lookup s.pools p = some c ∧ addrOfHash c sub.hash = some a ∧
      (c.base < 2 ^ 32 → c.net < a ∧ a + 1 < c.net + 2 ^ c.hostBits) := by
  unfold Client.alloc at h
  simp only [hs, hn] at h
  split at h
  · simp at h
  · rename_i p hp
    split at h
    · simp at h
    · rename_i c hc
      split at h
      · simp at h
      · rename_i x hx
        simp only [Client.Obs.okAddr.injEq] at h
        subst h
        refine ⟨p, c, hc, hx, fun hb => ?_⟩
        exact nexus_in_range (fun (h : Nat) => h) c hb sub.hash x hx

/-- Release clears the address; the next request computes it afresh (from the record as it is then). -/
theorem client_release_clears (s : Client.State) (k : Nat) (sub : Client.Sub)
    (hs : AMap.lookup s.subs k = some sub) :
    Client.lookup (Client.release s k).1 k = .none := by
  unfold Client.release Client.lookup
  simp only [hs]
  cases ha : sub.addr with
  | none => simp [hs, ha]
  | some a => simp [Client.save]

/-- D1, the collision theorem (pigeonhole): for EVERY hash function and every family of subscriber
    ids, among any n > numHosts subscribers two are given the same address. -/
theorem nexus_collides {κ : Type} (hash : κ → Nat) (c : Cfg) (ids : Nat → κ) (n : Nat)
    (hpos : c.numHosts ≠ 0) (hn : c.numHosts < n) :
    ∃ i j, i < j ∧ j < n ∧ addr hash c (ids i) = addr hash c (ids j) := by
  have hf : ∀ i, i < n → hash (ids i) % c.numHosts < c.numHosts :=
    fun i _ => Nat.mod_lt _ (Nat.pos_of_ne_zero hpos)
  obtain ⟨i, j, hij, hj, e⟩ := pigeonhole (fun i => hash (ids i) % c.numHosts) c.numHosts n hf hn
  refine ⟨i, j, hij, hj, ?_⟩
  simp [addr, addrOfHash, offset, e]

/-- What IS true (the property under the negated exclusion clause of D1): two subscribers whose hashes
    fall on different host offsets are given different addresses. -/
theorem nexus_unique_partial (c : Cfg) (hc : GoodCfg c) (hpos : c.numHosts ≠ 0) (h₁ h₂ : Nat)
    (hx : collide c h₁ h₂ = false) : addrOfHash c h₁ ≠ addrOfHash c h₂ := by
  rw [addrOfHash_eq c hc hpos, addrOfHash_eq c hc hpos]
  unfold collide at hx
  intro e
  simp only [Option.some.injEq] at e
  have : offset c h₁ = offset c h₂ := by omega
  simp [this] at hx

/-- and conversely the clause is exact: colliding offsets give the same address -/
theorem nexus_collide_same (c : Cfg) (h₁ h₂ : Nat) (hx : collide c h₁ h₂ = true) :
    addrOfHash c h₁ = addrOfHash c h₂ := by
  unfold collide at hx
  have : offset c h₁ = offset c h₂ := by simpa using hx
  simp [addrOfHash, this]

/-- the bytes of the subscriber ids "s1" and "s3" -/
def idS1 : List Nat := [115, 49]
def idS3 : List Nat := [115, 51]

/-- D1 witness: on the pool 10.0.0.0/30 (two host addresses) the real FNV-1a hash sends the
    subscribers "s1" and "s3" to the same address 10.0.0.2; the exclusion clause holds for the pair. -/
theorem D1_witness :
    addr fnv1a { base := 0x0a000000, ones := 30 } idS1 = some 0x0a000002 ∧
    addr fnv1a { base := 0x0a000000, ones := 30 } idS3 = some 0x0a000002 ∧
    idS1 ≠ idS3 ∧
    collide { base := 0x0a000000, ones := 30 } (fnv1a idS1) (fnv1a idS3) = true := by decide

/-! non-vacuity -/
example : GoodCfg { base := 0x0a0000c8, ones := 25 } := by unfold GoodCfg; decide
example : ({ base := 0x0a000000, ones := 24 } : Cfg).numHosts ≠ 0 := by decide
example : collide { base := 0x0a000000, ones := 24 } 5 6 = false := by decide
/-- a pool-record edit between two requests of a holder does not change the answer -/
example : (Client.alloc (Client.run Client.init
    [.pool 1 { base := 0x0a000000, ones := 29 }, .sub 7 (some 1) none 12345, .alloc 7,
     .pool 1 { base := 0x0a000100, ones := 29 }]) 7).2 = .okAddr 0x0a000004 := by decide

end Bng.Spec.C01Nexus
