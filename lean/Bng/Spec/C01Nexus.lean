import Bng.Proof.NexusHash
/-
  C01 — the hash-based central allocation `nexus.(*Client).allocateFromPool`.

  In-range holds for every pool record and every hash function.  UNIQUENESS IS FALSE BY CONSTRUCTION
  (finding D1-nexus-hash): the address is `net + hash(id) mod numHosts + 1` and whoever already holds
  that address is never consulted.  `nexus_collides` proves, for an ARBITRARY hash function, that any
  numHosts+1 subscribers contain two with the same address; `nexus_unique_partial` is what remains
  true (different host offsets give different addresses); `D1_witness` is a concrete colliding pair under
  the real FNV-1a hash (also replayed against the real code from corpus/nexushash on every run).
-/
namespace Bng.Spec.C01Nexus
open Bng Bng.NexusHash

/-- a pool record whose address part is an IPv4 address (the prefix length may be anything) -/
def GoodCfg (c : Cfg) : Prop := c.base < 2 ^ 32

/-- In range: whatever the hash function, the address computed for a subscriber is a host address of
    the pool's network — strictly between the network address and the broadcast address — even when
    the pool record was written with host bits set. -/
theorem nexus_in_range {κ : Type} (hash : κ → Nat) (c : Cfg) (hc : GoodCfg c) (id : κ) (a : Nat)
    (h : addr hash c id = some a) : c.net < a ∧ a + 1 < c.net + 2 ^ c.hostBits := by
  unfold addr at h
  by_cases hpos : c.numHosts = 0
  · simp [addrOfHash, hpos] at h
  · rw [addrOfHash_eq c hc hpos] at h
    simp only [Option.some.injEq] at h
    subst h
    have := offset_bounds c hpos (hash id)
    omega

/-- A pool with fewer than two host addresses is refused. -/
theorem nexus_no_hosts {κ : Type} (hash : κ → Nat) (c : Cfg) (id : κ) (h : 31 ≤ c.ones) :
    addr hash c id = none := by
  have : c.numHosts = 0 := by
    unfold Cfg.numHosts Cfg.hostBits
    have : 32 - c.ones = 0 ∨ 32 - c.ones = 1 := by omega
    rcases this with e | e <;> simp [e]
  simp [addr, addrOfHash, this]

/-- Idempotence: the answer depends on the subscriber id alone, so asking again gives the same address. -/
theorem nexus_idempotent {κ : Type} (hash : κ → Nat) (c : Cfg) (id₁ id₂ : κ) (h : id₁ = id₂) :
    addr hash c id₁ = addr hash c id₂ := by rw [h]

/-- D1, the collision theorem (pigeonhole): for EVERY hash function and every family of subscriber
    ids, among any n > numHosts subscribers two are given the same address. -/
theorem nexus_collides {κ : Type} (hash : κ → Nat) (c : Cfg) (ids : Nat → κ) (n : Nat)
    (hpos : c.numHosts ≠ 0) (hn : c.numHosts < n) :
    ∃ i j, i < j ∧ j < n ∧ addr hash c (ids i) = addr hash c (ids j) := by
  have hf : ∀ i, i < n → hash (ids i) % c.numHosts < c.numHosts :=
    fun i _ => Nat.mod_lt _ (Nat.pos_of_ne_zero hpos)
  obtain ⟨i, j, hij, hj, e⟩ := pigeonhole (fun i => hash (ids i) % c.numHosts) c.numHosts n hf hn
  refine ⟨i, j, hij, hj, ?_⟩
  simp [addr, addrOfHash, offset, e]

/-- What IS true (the property under the negated exclusion clause of D1): two subscribers whose hashes
    fall on different host offsets are given different addresses. -/
theorem nexus_unique_partial (c : Cfg) (hc : GoodCfg c) (hpos : c.numHosts ≠ 0) (h₁ h₂ : Nat)
    (hx : collide c h₁ h₂ = false) : addrOfHash c h₁ ≠ addrOfHash c h₂ := by
  rw [addrOfHash_eq c hc hpos, addrOfHash_eq c hc hpos]
  unfold collide at hx
  intro e
  simp only [Option.some.injEq] at e
  have : offset c h₁ = offset c h₂ := by omega
  simp [this] at hx

/-- and conversely the clause is exact: colliding offsets give the same address -/
theorem nexus_collide_same (c : Cfg) (h₁ h₂ : Nat) (hx : collide c h₁ h₂ = true) :
    addrOfHash c h₁ = addrOfHash c h₂ := by
  unfold collide at hx
  have : offset c h₁ = offset c h₂ := by simpa using hx
  simp [addrOfHash, this]

/-- the bytes of the subscriber ids "s1" and "s3" -/
def idS1 : List Nat := [115, 49]
def idS3 : List Nat := [115, 51]

/-- D1 witness: on the pool 10.0.0.0/30 (two host addresses) the real FNV-1a hash sends the
    subscribers "s1" and "s3" to the same address 10.0.0.2; the exclusion clause holds for the pair. -/
theorem D1_witness :
    addr fnv1a { base := 0x0a000000, ones := 30 } idS1 = some 0x0a000002 ∧
    addr fnv1a { base := 0x0a000000, ones := 30 } idS3 = some 0x0a000002 ∧
    idS1 ≠ idS3 ∧
    collide { base := 0x0a000000, ones := 30 } (fnv1a idS1) (fnv1a idS3) = true := by decide

/-! non-vacuity -/
example : GoodCfg { base := 0x0a0000c8, ones := 25 } := by unfold GoodCfg; decide
example : ({ base := 0x0a000000, ones := 24 } : Cfg).numHosts ≠ 0 := by decide
example : collide { base := 0x0a000000, ones := 24 } 5 6 = false := by decide

end Bng.Spec.C01Nexus
