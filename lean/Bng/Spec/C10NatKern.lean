import Bng.Proof.NatKern
/-
  C10 at kernel level (and C16 for a subscriber's NAT state) — nat.Manager's writes to the kernel NAT maps
  together with the nat44 programs.

  System: `Bng.NatKern.step` on the map model of `Bng.Nat44` —
    * `alloc ip b`  : AllocateNAT writes `subscriber_nat[ip] = b` (only for an address without an entry and a well-formed
                      block with its cursor inside — what the manager guarantees; which block it picks is C10's
                      manager model and is checked at run time by the monitor `kern-overlap`);
    * `dealloc ip`  : DeallocateNAT of an allocated address: deletes `subscriber_nat[ip]` and (fix ac77db8 of finding
                      G6-nat-stale-sessions) every session, reverse entry and EIM mapping of `ip`;
    * `egress`/`ingress clk f` : one run of nat44_egress / nat44_ingress on ANY frame (the byte-level model of C07,
                      including session and EIM creation and the 64-step port search);
    * `deallocFail ip` : DeallocateNAT when the kernel refuses the Delete of `subscriber_nat[ip]`: since fix e3c019a of finding
                      C10-delete-failure-frees-block the call fails before touching anything (the block stays allocated in
                      the manager as well: Spec.C10 `failed_delete_keeps_block`, `kernel_mirrors_table`).
  Theorems quantify over ALL operation sequences from empty maps, all frames, configurations (`cfg`: EIM, parity, ALG …
  flags) and clock values.
-/
namespace Bng.Spec.C10NatKern
open Bng Bng.CNat Bng.Nat44 Bng.NatKern

/-- Kernel-level attribution: after ANY history of allocations, releases and packets, every NAT session translates to
    an address/port inside the CURRENT port block of the session's private address, every EIM mapping lies inside the
    current block of its internal address (in particular: no session or mapping survives without a block), and
    every block's allocation cursor is inside the block. -/
theorem kernel_attribution (cfg : Option UInt32) (ops : List Op) : Attributable (run { cfg := cfg } ops) :=
  attr_run (attr_empty cfg) ops

/-- … hence the translation nat44_egress applies to a packet — whether it comes from an existing session, an EIM
    mapping or a fresh allocation — is inside the sender's current block (`inBlockB` is the test the run-time
    monitor `foreign-port` applies to the native program's output). -/
theorem egress_translation_in_own_block (cfg : Option UInt32) (ops : List Op) (clk : UInt64) (p : Pkt) (sub : SubNat)
    (ip : UInt32) (port : UInt16)
    (hsub : AMap.lookup (run { cfg := cfg } ops).subNat p.saddr = some sub)
    (hdec : (egressNat (run { cfg := cfg } ops) clk p sub).2.1 = .nat ip port) :
    ∃ b, AMap.lookup (egressNat (run { cfg := cfg } ops) clk p sub).1.subNat p.saddr = some b ∧
      inBlockB b ip port = true := by
  have hm := attr_egressNat (kernel_attribution cfg ops) clk hsub
  obtain ⟨s, hs, h1, h2⟩ := egressNat_session _ clk p sub ip port hdec
  obtain ⟨b, hb, hin⟩ := hm.sess _ _ hs
  exact ⟨b, hb, (inBlockB_iff b ip port).mpr (by rw [← h1, ← h2]; exact hin)⟩

/-- Releasing a subscriber removes everything it held in the kernel maps: its block, … -/
theorem release_removes_block (m : Maps) (ip : UInt32) : AMap.lookup (release m ip).subNat ip = none := by
  simp [release]

/-- … every session whose private address it is, … -/
theorem release_removes_sessions (m : Maps) (ip : UInt32) (k : NatKey) (s : Session)
    (h : AMap.lookup (release m ip).sessions k = some s) : k.srcIp ≠ ip := by
  have := lookup_filter_val m.sessions (fun kv => kv.1.srcIp != ip) k s h
  simpa using this

/-- … every reverse entry that leads to it, … -/
theorem release_removes_reverse (m : Maps) (ip : UInt32) (k v : NatKey)
    (h : AMap.lookup (release m ip).reverse k = some v) : v.srcIp ≠ ip := by
  have := lookup_filter_val m.reverse (fun kv => kv.2.srcIp != ip) k v h
  simpa using this

/-- … and every EIM mapping of its address. -/
theorem release_removes_eim (m : Maps) (ip : UInt32) (k : EimKey) (e : EimMapping)
    (h : AMap.lookup (release m ip).eim k = some e) : k.ip ≠ ip := by
  have := lookup_filter_val m.eim (fun kv => kv.1.ip != ip) k e h
  simpa using this

/-! ### the defect (finding G6-nat-stale-sessions), as a theorem about the manager before the fix -/

/-- 10.7.7.10:5000 → 8.8.8.8:53, UDP -/
def flow : Frame :=
  [2,0,0,0,0,1, 2,0,0,0,0,2, 8,0,
   0x45,0,0,32, 0x12,0x34,0,0, 64,17,0x47,0x79, 10,7,7,10, 8,8,8,8,
   0x13,0x88, 0,0x35, 0,12, 0xbe,0xef, 1,2,3,4]

def k1 : UInt32 := 0x0a07070a
def k2 : UInt32 := 0x0a08080a
def block0 : SubNat := { publicIp := 0xc61212c6, portStart := 2000, portEnd := 2003, nextPort := 2000 }
def block1 : SubNat := { publicIp := 0xc61212c6, portStart := 2004, portEnd := 2007, nextPort := 2004 }

/-- k1 gets block 0 and opens a flow; k1 is released; k2 gets block 0; k1's address is allocated again with block 1 -/
def history : List Op := [.alloc k1 block0, .egress 0 flow, .dealloc k1, .alloc k2 block0, .alloc k1 block1]

/-- With DeallocateNAT as it was (only `subscriber_nat` deleted) the flow's session survives the release and names port
    2000 — inside k2's block, outside k1's current one: attribution fails, and the next packet of the flow leaves
    from k2's port. -/
theorem old_release_witness :
    ¬ Attributable (runOld {} history) ∧
    (egress (runOld {} history) 0 flow).toOption.map (fun o => rd16 o.frame 34) = some (bswap16 2000) ∧
    AMap.lookup (runOld {} history).subNat k2 = some block0 := by
  refine ⟨?_, by decide, by decide⟩
  · intro h
    have hs : AMap.lookup (runOld {} history).sessions
        { srcIp := 0x0a07070a, dstIp := 0x08080808, srcPort := 0x8813, dstPort := 0x3500, proto := 17 } =
        some { natIp := 0xc61212c6, natPort := 0xd007, origPort := 0x8813, origIp := 0x0a07070a, lastSeen := 0 } := by
      decide
    obtain ⟨b, hb, hin⟩ := h.sess _ _ hs
    have hb1 : AMap.lookup (runOld {} history).subNat 0x0a07070a = some block1 := by decide
    simp only [] at hb
    rw [hb1] at hb
    cases hb
    have := (inBlockB_iff block1 0xc61212c6 0xd007).mpr hin
    revert this
    decide

/-- Finding C10-delete-failure-frees-block, on the manager as it was before fix e3c019a (`runOldDel`: a failing Delete
    was only logged; the sessions were purged, the block counted free and — Spec.C10 `old_failed_delete_witness` — handed
    to the next subscriber): k1's entry stays in subscriber_nat next to k2's entry for the SAME block; k1's next packet
    opens a new session on port 2001 and k2's on port 2000 of that block — two subscribers behind one block, which no
    block record can tell apart. -/
theorem old_failed_delete_kernel_witness :
    let m := runOldDel {} [.alloc k1 block0, .egress 0 flow, .deallocFail k1, .alloc k2 block0]
    (match AMap.lookup m.subNat k1, AMap.lookup m.subNat k2 with
     | some b₁, some b₂ => blocksOverlap b₁ b₂
     | _, _ => false) = true ∧
    (egress m 0 flow).toOption.map (fun o => rd16 o.frame 34) = some (bswap16 2001) := by
  decide

/-- the same history on the manager as it is: the failed release changes nothing, k1's flow keeps its session and port -/
example : (egress (run {} [.alloc k1 block0, .egress 0 flow, .deallocFail k1]) 0 flow).toOption.map
    (fun o => rd16 o.frame 34) = some (bswap16 2000) := by decide

/-- the same history with the fixed DeallocateNAT: the flow gets a fresh session inside k1's new block -/
example : (egress (run {} history) 0 flow).toOption.map (fun o => rd16 o.frame 34) = some (bswap16 2004) := by decide

end Bng.Spec.C10NatKern
