import Bng.Model.TcSafe
/-
  C07 for the TC programs: `antispoof_ingress`, `qos_egress_prog`, `qos_ingress_prog`.

  For every frame (any length, any content) and EVERY behaviour of the maps and of `token_bucket_check`
  (the lookups' results are universally quantified parameters of the model): no packet access outside
  `[data, data_end)`, the verdict is TC_ACT_OK or TC_ACT_SHOT, and the frame is never modified — neither on
  TC_ACT_OK nor on TC_ACT_SHOT (the programs contain no packet store; `qos_egress_prog` writes `skb->priority`).
-/
namespace Bng.Spec.C07Tc
open Bng Bng.C Bng.TcSafe

theorem antispoof_Ok (f : Frame) (env : AsEnv) :
    Ok (antispoof f env) (fun r => (r.1 = TC_ACT_OK ∨ r.1 = TC_ACT_SHOT) ∧ r.2.1 = f) := by
  unfold antispoof
  apply Ok.ite <;> intro h14
  · exact Ok.pure ⟨Or.inl rfl, rfl⟩
  apply Ok.bind (ldBytes_Ok (by omega)); intro mac _
  simp only []
  apply Ok.ite <;> intro _
  · exact Ok.pure ⟨Or.inl rfl, rfl⟩
  apply Ok.bind (ld16_Ok (by omega)); intro proto _
  apply Ok.ite <;> intro _
  · apply Ok.ite <;> intro h34
    · exact Ok.pure ⟨Or.inl rfl, rfl⟩
    apply Ok.bind (ld32_Ok (by omega)); intro src _
    apply Ok.bind (ldBytes_Ok (by omega)); intro srcBytes _
    apply Ok.ite <;> intro _
    · apply Ok.bind (Q := fun _ => True)
      · apply Ok.ite <;> intro _
        · apply Ok.bind (ldBytes_Ok (by omega)); intro _ _
          exact Ok.pure trivial
        · exact Ok.pure trivial
      · intro ev _
        apply Ok.ite <;> intro _
        · exact Ok.pure ⟨Or.inl rfl, rfl⟩
        · exact Ok.pure ⟨Or.inr rfl, rfl⟩
    · exact Ok.pure ⟨Or.inl rfl, rfl⟩
  · apply Ok.ite <;> intro _
    · apply Ok.ite <;> intro h54
      · exact Ok.pure ⟨Or.inl rfl, rfl⟩
      apply Ok.bind (ldBytes_Ok (by omega)); intro src6 _
      apply Ok.ite <;> intro _
      · apply Ok.bind (Q := fun _ => True)
        · apply Ok.ite <;> intro _
          · apply Ok.bind (ldBytes_Ok (by omega)); intro _ _
            exact Ok.pure trivial
          · exact Ok.pure trivial
        · intro ev _
          exact Ok.pure ⟨Or.inr rfl, rfl⟩
      · exact Ok.pure ⟨Or.inl rfl, rfl⟩
    · exact Ok.pure ⟨Or.inl rfl, rfl⟩

theorem qos_Ok (d : Dir) (f : Frame) (bucket : Bytes → Option (Bool × UInt8)) :
    Ok (qos d f bucket) (fun r => (r.1 = TC_ACT_OK ∨ r.1 = TC_ACT_SHOT) ∧ r.2.1 = f) := by
  unfold qos
  apply Ok.ite <;> intro h14
  · exact Ok.pure ⟨Or.inl rfl, rfl⟩
  apply Ok.bind (ld16_Ok (by omega)); intro proto _
  apply Ok.ite <;> intro _
  · exact Ok.pure ⟨Or.inl rfl, rfl⟩
  apply Ok.ite <;> intro h34
  · exact Ok.pure ⟨Or.inl rfl, rfl⟩
  apply Ok.bind (ld32_Ok (by cases d <;> simp only [] <;> omega)); intro ip _
  split
  · exact Ok.pure ⟨Or.inl rfl, rfl⟩
  · apply Ok.ite <;> intro _
    · exact Ok.pure ⟨Or.inl rfl, rfl⟩
    · exact Ok.pure ⟨Or.inr rfl, rfl⟩

/-- `antispoof_ingress` performs no load outside the packet, whatever the maps hold. -/
theorem antispoof_no_fault (f : Frame) (env : AsEnv) : (antispoof f env).isOk = true := (antispoof_Ok f env).isOk

/-- `antispoof_ingress` returns TC_ACT_OK or TC_ACT_SHOT. -/
theorem antispoof_defined_verdict (f : Frame) (env : AsEnv) (v : Nat) (f' : Frame) (ev : Nat)
    (h : antispoof f env = .ok (v, f', ev)) : v = TC_ACT_OK ∨ v = TC_ACT_SHOT :=
  ((antispoof_Ok f env).elim h).1

/-- `antispoof_ingress` never modifies the frame (in particular not when it returns TC_ACT_OK). -/
theorem antispoof_pass_unmodified (f : Frame) (env : AsEnv) (v : Nat) (f' : Frame) (ev : Nat)
    (h : antispoof f env = .ok (v, f', ev)) : f' = f :=
  ((antispoof_Ok f env).elim h).2

/-- `qos_egress_prog` / `qos_ingress_prog` perform no load outside the packet, whatever the maps hold and
    whatever `token_bucket_check` answers. -/
theorem qos_no_fault (d : Dir) (f : Frame) (bucket : Bytes → Option (Bool × UInt8)) : (qos d f bucket).isOk = true :=
  (qos_Ok d f bucket).isOk

/-- the QoS programs return TC_ACT_OK or TC_ACT_SHOT. -/
theorem qos_defined_verdict (d : Dir) (f : Frame) (bucket : Bytes → Option (Bool × UInt8)) (v : Nat) (f' : Frame)
    (pr : Option UInt8) (h : qos d f bucket = .ok (v, f', pr)) : v = TC_ACT_OK ∨ v = TC_ACT_SHOT :=
  ((qos_Ok d f bucket).elim h).1

/-- the QoS programs never modify the frame. -/
theorem qos_pass_unmodified (d : Dir) (f : Frame) (bucket : Bytes → Option (Bool × UInt8)) (v : Nat) (f' : Frame)
    (pr : Option UInt8) (h : qos d f bucket = .ok (v, f', pr)) : f' = f :=
  ((qos_Ok d f bucket).elim h).2

/-- non-vacuity: a two-byte frame is passed -/
example : antispoof [1, 2] ⟨none, fun _ => none, fun _ => false⟩ = .ok (TC_ACT_OK, [1, 2], 0) := rfl
example : qos .egress [1, 2] (fun _ => none) = .ok (TC_ACT_OK, [1, 2], none) := rfl

end Bng.Spec.C07Tc
