import Bng.Proof.DhcpTermMonitor
/-
  C16 (DHCPv4 paths) — the monitor that judges the real server's observations, against the model.

  `monitor_silent_on_model`: for EVERY history of DISCOVER / REQUEST (new session, renewal, renewal under another
  circuit-id, NAK) / RELEASE / DECLINE / clock ticks / cleanup passes / cleanup passes with a termination inside their
  unlock window / two terminations at once / shutdown / EVERY `fault` op (a full QoS egress map, QoS ingress map,
  subscriber_nat, subscriber_pools, circuit_id_map, circuit_id_subscribers or vlan_subscriber_pools: installs that
  stop half-way, partial cache sets), the monitor `Bng.DhcpTerm.monitorCore` - ALL of its clauses:
  addr-not-returned, nat-residue, qos-residue, cache-residue (mac, circuit, vlan), index-residue, missing-stop,
  double-stop, stop-unstarted, second-end-effect, view-skew - run on the model's own structured observations
  (`obsOf`), raises nothing but the clauses of the two recorded findings that the model reproduces:
  KF-dhcp4-offer-pinned and KF-dhcp4-shutdown-residue.  So a verdict with clause `none` on the implementation is a
  departure from the model, not an artefact of the monitor.

  `no_residue_on_model`: the per-lease residue clauses in closed form - after every history the observation shows no NAT
  block, QoS entry, cache key (MAC / circuit-id, both maps) or circuit-id index entry that no lease accounts for.

  What is NOT covered by a theorem: histories with a raced establishment (`OpX.estGap`) and their after-effects (the
  clauses KF-dhcp4-establish-race and KF-dhcp4-stale-index-revival are validated by the runs and by the witness
  theorems of Spec.C16Dhcp only); histories with a write-protected cache map (`OpX.wfault`: Deletes fail; the model
  itself carries the residue there, clause KF-cache-delete-ignored, witness `delete_ignored_is_judged` below); the string layer (parseSnap / showSnapshot), which the driver cross-checks against
  `obsOf` on every line (verdict `obs-roundtrip`).
-/
namespace Bng.Spec.C16DhcpMon
open Bng Bng.DhcpTerm

theorem monitor_silent_on_model (radius : Bool) (lt : Nat) (ops : List Op) :
    ∀ v ∈ runBoth (init radius lt) (initMon radius lt) (ops.map OpX.op),
      v.2.1 = "KF-dhcp4-offer-pinned" ∨ v.2.1 = "KF-dhcp4-shutdown-residue" :=
  runBoth_ok ops (W_init radius lt) (Rel_init radius lt)

theorem no_residue_on_model (radius : Bool) (lt : Nat) (ops : List Op) :
    let ob := obsOf (run (init radius lt) ops)
    ob.orphanNat false = [] ∧ ob.orphanQos false = [] ∧ ob.orphanMac false = [] ∧ ob.orphanCid false = [] ∧
    ob.orphanHash false = [] ∧ ob.orphanIdx false = [] ∧ ob.kVlan = [] := by
  have hW : ∀ (ops : List Op) (s : State), W s → W (run s ops) := by
    intro ops
    induction ops with
    | nil => intro s h; exact h
    | cons o rest ih => intro s h; exact ih _ (W_step h o)
  have h := hW ops _ (W_init radius lt)
  obtain ⟨a, b, c, d, e, f⟩ := obs_no_orphans h
  exact ⟨a, b, c, d, e, f, by simp [obsOf, h.inv.kVlan]⟩

/-- whichever operation the model runs, it ends every session the monitor expects it to end, and a termination the
    monitor expects to end nothing is the identity on the model -/
theorem model_ends_what_the_monitor_expects (radius : Bool) (lt : Nat) (ops : List Op) (o : Op) (m : Nat) (l : Lease)
    (hl : AMap.lookup (run (init radius lt) ops).leases m = some l)
    (hk : (kindOf (.op o) (ranOf (run (init radius lt) ops) (.op o))).shutdown = false)
    (ha : Aimed (kindOf (.op o) (ranOf (run (init radius lt) ops) (.op o))) (run (init radius lt) ops).now m l) :
    ∃ d, Ended (step (run (init radius lt) ops) o).1 m l d := by
  have hW : ∀ (ops : List Op) (s : State), W s → W (run s ops) := by
    intro ops
    induction ops with
    | nil => intro s h; exact h
    | cons o rest ih => intro s h; exact ih _ (W_step h o)
  exact ends_what_it_should (hW ops _ (W_init radius lt)) o hl hk ha

/-! non-vacuity: the monitor does speak on the model - the two recorded findings - and is silent on a full life cycle
    with every termination path, a second termination and two terminations at once -/
example : (runBoth (init true 300) (initMon true 300)
    ([.disc 1, .term (.rel 1), .req 2 3 (some 1), .shutdown].map OpX.op)).map (fun v => (v.1, v.2.1))
      = [("addr-not-returned", "KF-dhcp4-offer-pinned"), ("addr-not-returned", "KF-dhcp4-shutdown-residue"),
         ("missing-stop", "KF-dhcp4-shutdown-residue"), ("nat-residue", "KF-dhcp4-shutdown-residue"),
         ("qos-residue", "KF-dhcp4-shutdown-residue"), ("cache-residue", "KF-dhcp4-shutdown-residue"),
         ("cache-residue", "KF-dhcp4-shutdown-residue"), ("cache-residue", "KF-dhcp4-shutdown-residue")] := by decide
example : runBoth (init true 300) (initMon true 300)
    ([.req 1 2 (some 1), .tick 100, .req 1 2 (some 2), .term (.dec 1 2), .term (.rel 1), .req 2 3 none, .tick 301,
      .gap [] (.rel 2), .req 3 4 none, .split (.rel 3) (.dec 3 4), .term (.cleanup [])].map OpX.op) = [] := by decide

/-- installs that fail half-way (every cache map and both QoS maps full, then with room again): the monitor is silent -/
example : runBoth (init true 300) (initMon true 300)
    ([.fault 3 true, .fault 4 true, .fault 5 true, .fault 1 true, .req 1 2 (some 1), .fault 3 false, .req 1 2 (some 2),
      .term (.rel 1), .req 2 2 (some 1), .fault 4 false, .fault 5 false, .tick 301, .term (.cleanup [])].map OpX.op) = [] := by
  decide

/-- a removal that fails IS judged: on the model's own observations of a history with a write-protected
    subscriber_pools / circuit_id_subscribers handle the monitor reports the entries that outlive the session, with the
    clause of KF-cache-delete-ignored for exactly the write-protected maps - and the same residue in a map that was
    writable would carry no clause (second history: nothing is write-protected, nothing is reported) -/
theorem delete_ignored_is_judged :
    (runBoth (init true 300) (initMon true 300)
      [.op (.req 1 2 (some 1)), .wfault 3 true, .wfault 5 true, .op (.term (.rel 1)), .wfault 3 false,
       .op (.term (.rel 1)), .op (.req 2 2 none)]).map (fun v => (v.1, v.2.1))
      = [("cache-residue", "KF-cache-delete-ignored"), ("cache-residue", "KF-cache-delete-ignored")] ∧
    runBoth (init true 300) (initMon true 300)
      [.op (.req 1 2 (some 1)), .wfault 3 true, .wfault 3 false, .op (.term (.rel 1))] = [] := by
  decide

end Bng.Spec.C16DhcpMon
