import Bng.Proof.Dist
/-
  C12 — Allocations survive restart and replication unchanged.

  Property statements only (helper lemmas: Bng/Proof/Dist.lean).  Models: Bng/Model/Dist.lean
  (pkg/allocator/distributed.go over the bitmap and epoch allocator models and a key-value store with a
  failure flag per store call; the store's enumeration order is a parameter of restart).

  Session mode (PoolModeSession, the bitmap allocator) is proved at full strength for EVERY history of
  allocate / release / renew / lookups / remote puts and deletes / restarts, every failure vector and
  every enumeration order.  Lease mode (PoolModeLease, the epoch allocator) deviates by design of the
  current code: the findings D38, D39 and KF-lease-store-epoch are stated as witness theorems next to the
  partial theorem that does hold; D40 is the bitmap allocator's allocation hint.
-/
namespace Bng.Spec.C12
open Bng Bng.Dist AMap

/-! ## session mode -/
section session
open Bng.Dist.Session Bng.Bitmap

/-- geometries NewIPAllocator accepts whose unit count fits the code's uint64 arithmetic -/
def GoodCfg (c : Bitmap.Cfg) : Prop :=
  c.poolPrefix ≤ c.plen ∧ c.plen ≤ c.famBits ∧ c.plen - c.poolPrefix < 64

/-- A store write failure leaves memory and store in agreement: after ANY admissible history — every
    Put/Delete failing or not, restarts with any enumeration order, remote puts and deletes — a subscriber
    has a record in the store exactly when it holds a prefix in memory, and the record is that prefix. -/
theorem session_store_failure_agrees (c : Bitmap.Cfg) (hc : GoodCfg c) (ops : List Session.Op)
    (hv : Session.Valid (Session.init c) ops) (k : Nat) :
    (AMap.lookup (Session.run (Session.init c) ops).store k).map (fun r => (r.addr, r.plen)) =
      match Session.get (Session.run (Session.init c) ops) k with
      | .okAddr a l => some (a, l)
      | _ => none := by
  obtain ⟨hI, hcfg⟩ := sinv_run ops (Session.init c) (sinv_init c hc.2.2) hc.2.2 hv
  have := hI.agree k
  rw [this]
  unfold Session.get Bitmap.lookup
  cases AMap.lookup (Session.run (Session.init c) ops).a.allocated k <;> rfl

/-- Restart preserves: stop after any admissible history (crash or clean), start a fresh allocator from the
    store with the Query results in ANY order (every key at least once): every subscriber recorded in the
    store is answered by Get with exactly the recorded prefix, and nobody else holds anything. -/
theorem session_restart_preserves (c : Bitmap.Cfg) (hc : GoodCfg c) (ops : List Session.Op)
    (hv : Session.Valid (Session.init c) ops) (order : List Nat)
    (hcov : ∀ k r, AMap.lookup (Session.run (Session.init c) ops).store k = some r → k ∈ order) (k : Nat) :
    Session.get (Session.restart (Session.run (Session.init c) ops) order) k =
      match AMap.lookup (Session.run (Session.init c) ops).store k with
      | some r => .okAddr r.addr r.plen
      | none => .none := by
  obtain ⟨hI, hcfg⟩ := sinv_run ops (Session.init c) (sinv_init c hc.2.2) hc.2.2 hv
  have hc' : (Session.run (Session.init c) ops).a.cfg.plen - (Session.run (Session.init c) ops).a.cfg.poolPrefix < 64 := by
    rw [hcfg]; exact hc.2.2
  have hR := sinv_restart hI hc' order hcov
  have := hR.agree k
  have hst : (Session.restart (Session.run (Session.init c) ops) order).store =
      (Session.run (Session.init c) ops).store := rfl
  rw [hst] at this
  unfold Session.get Bitmap.lookup
  cases hk : AMap.lookup (Session.run (Session.init c) ops).store k with
  | none =>
    rw [hk] at this
    cases hm : AMap.lookup (Session.restart (Session.run (Session.init c) ops) order).a.allocated k with
    | none => rfl
    | some i => rw [hm] at this; simp at this
  | some r =>
    rw [hk] at this
    cases hm : AMap.lookup (Session.restart (Session.run (Session.init c) ops) order).a.allocated k with
    | none => rw [hm] at this; simp at this
    | some i =>
      rw [hm] at this
      simp only [Option.map_some, Option.some.injEq, Prod.mk.injEq] at this
      simp only
      rw [← this.1, ← this.2]

/-- Start either refuses or preserves: when the Query of the load step fails, Start returns an error and the
    node does not serve (there is no state to answer from); when it succeeds, `session_restart_preserves`
    applies.  A node never comes up with an EMPTY pool over a store that holds records. -/
theorem session_start_refuses_or_preserves (c : Bitmap.Cfg) (hc : GoodCfg c) (ops : List Session.Op)
    (hv : Session.Valid (Session.init c) ops) (order : List Nat) (queryFails : Bool)
    (hcov : ∀ k r, AMap.lookup (Session.run (Session.init c) ops).store k = some r → k ∈ order) :
    match Session.start (Session.run (Session.init c) ops) order queryFails with
    | none => queryFails = true
    | some s' => ∀ k, Session.get s' k =
        match AMap.lookup (Session.run (Session.init c) ops).store k with
        | some r => .okAddr r.addr r.plen
        | none => .none := by
  unfold Session.start
  cases queryFails with
  | true => simp
  | false =>
    simp only [Bool.false_eq_true, if_false]
    intro k
    exact session_restart_preserves c hc ops hv order hcov k

/-- … and after the restart no prefix is assigned to two subscribers. -/
theorem session_restart_unique (c : Bitmap.Cfg) (hc : GoodCfg c) (ops : List Session.Op)
    (hv : Session.Valid (Session.init c) ops) (order : List Nat)
    (hcov : ∀ k r, AMap.lookup (Session.run (Session.init c) ops).store k = some r → k ∈ order)
    (k₁ k₂ a l : Nat)
    (h₁ : Session.get (Session.restart (Session.run (Session.init c) ops) order) k₁ = .okAddr a l)
    (h₂ : Session.get (Session.restart (Session.run (Session.init c) ops) order) k₂ = .okAddr a l) : k₁ = k₂ := by
  obtain ⟨hI, hcfg⟩ := sinv_run ops (Session.init c) (sinv_init c hc.2.2) hc.2.2 hv
  have hc' : (Session.run (Session.init c) ops).a.cfg.plen - (Session.run (Session.init c) ops).a.cfg.poolPrefix < 64 := by
    rw [hcfg]; exact hc.2.2
  have hR := (sinv_restart hI hc' order hcov).inv
  generalize (Session.restart (Session.run (Session.init c) ops) order) = s at *
  unfold Session.get Bitmap.lookup at h₁ h₂
  cases e1 : AMap.lookup s.a.allocated k₁ with
  | none => rw [e1] at h₁; simp at h₁
  | some i =>
    cases e2 : AMap.lookup s.a.allocated k₂ with
    | none => rw [e2] at h₂; simp at h₂
    | some j =>
      rw [e1] at h₁; rw [e2] at h₂
      simp only [Dist.Obs.okAddr.injEq] at h₁ h₂
      have : i = j := prefixOf_inj s.a.cfg (by rw [h₁.1, h₂.1])
      subst this
      have x := hR.fwd k₁ i e1
      have y := hR.fwd k₂ i e2
      rw [x] at y; simpa using y

/-- A change announced by another node is applied with the address it announces: after any admissible
    history, a remote put for a prefix of the pool that is free or already the subscriber's makes Get answer
    exactly the announced prefix (and the store holds the announced record). -/
theorem session_remote_put_applied (c : Bitmap.Cfg) (hc : GoodCfg c) (ops : List Session.Op)
    (hv : Session.Valid (Session.init c) ops) (k : Nat) (r : Rec)
    (happ : Session.applicable (Session.run (Session.init c) ops) k r = true) :
    Session.get (Session.remotePut (Session.run (Session.init c) ops) k r) k = .okAddr r.addr r.plen ∧
      AMap.lookup (Session.remotePut (Session.run (Session.init c) ops) k r).store k = some r := by
  obtain ⟨hI, _⟩ := sinv_run ops (Session.init c) (sinv_init c hc.2.2) hc.2.2 hv
  generalize Session.run (Session.init c) ops = s at *
  obtain ⟨i, hpre, hpl, hcfg, _, hlk⟩ := applyPut_spec hI happ
  constructor
  · have h1 : (Session.remotePut s k r).a = Session.applyPut s.a k r := rfl
    unfold Session.get Bitmap.lookup
    rw [h1, hlk k]
    simp only [if_true]
    rw [hcfg, hpre, hpl]
  · show AMap.lookup (AMap.insert s.store k r) k = some r
    simp

/-- Start does not lose what other nodes write while it reads the store (since fix 700037a: Watch first, then the
    load with remote changes held off): for EVERY state, enumeration order and sequence of remote puts and deletes
    that reach the store after the Query of the load step was answered, the node ends up exactly as if it had
    restarted first and received those changes afterwards, in order. -/
theorem session_start_gap_replayed (s : Session.State) (order : List Nat) (w : List Session.Remote) :
    Session.startGap s order w = w.foldl Session.applyRemote (Session.restart s order) :=
  Session.startGap_eq s order w

/-- … in particular an allocation another node announces in that window is applied with the address it
    announces: after any admissible history and a restart in any order, a put for a prefix that is free (or the
    subscriber's) after the load makes Get answer exactly that prefix, and the store holds the record. -/
theorem session_start_gap_put_applied (c : Bitmap.Cfg) (hc : GoodCfg c) (ops : List Session.Op)
    (hv : Session.Valid (Session.init c) ops) (order : List Nat)
    (hcov : ∀ k r, AMap.lookup (Session.run (Session.init c) ops).store k = some r → k ∈ order)
    (k : Nat) (r : Rec)
    (happ : Session.applicable (Session.restart (Session.run (Session.init c) ops) order) k r = true) :
    Session.get (Session.startGap (Session.run (Session.init c) ops) order [.put k r]) k = .okAddr r.addr r.plen ∧
      AMap.lookup (Session.startGap (Session.run (Session.init c) ops) order [.put k r]).store k = some r := by
  obtain ⟨hI, hcfg⟩ := sinv_run ops (Session.init c) (sinv_init c hc.2.2) hc.2.2 hv
  have hc' : (Session.run (Session.init c) ops).a.cfg.plen - (Session.run (Session.init c) ops).a.cfg.poolPrefix < 64 := by
    rw [hcfg]; exact hc.2.2
  have hR := sinv_restart hI hc' order hcov
  rw [Session.startGap_eq]
  simp only [List.foldl_cons, List.foldl_nil, Session.applyRemote]
  generalize Session.restart (Session.run (Session.init c) ops) order = s at *
  obtain ⟨i, hpre, hpl, hcfg', _, hlk⟩ := applyPut_spec hR happ
  constructor
  · have h1 : (Session.remotePut s k r).a = Session.applyPut s.a k r := rfl
    unfold Session.get Bitmap.lookup
    rw [h1, hlk k]
    simp only [if_true]
    rw [hcfg', hpre, hpl]
  · show AMap.lookup (AMap.insert s.store k r) k = some r
    simp

/-- lease mode: the same replay equation for Start with a window of remote changes -/
theorem lease_start_gap_replayed (s : Lease.State) (order : List Nat) (w : List Session.Remote) :
    Lease.startGap s order w = w.foldl Lease.applyRemote (Lease.restart s order) :=
  Lease.startGap_eq s order w

/-- The defect fix 700037a removed, on the model of Start as it WAS (loadAllocations, then Watch): s1 holds
    10.0.0.0; while the restarting node reads the store another node records 10.0.0.1 for s2 — nobody is watching
    yet, memory never learns of it, and the node hands 10.0.0.1 to s3 although the store names s2 for it.  With
    the watch registered first the put is applied and s3 gets 10.0.0.2. -/
theorem start_gap_unwatched_witness :
    let c : Bitmap.Cfg := { famBits := 32, poolPrefix := 29, plen := 32, base := 0x0a000000 }
    let r : Rec := { addr := 0x0a000001, plen := 32, epoch := 0 }
    let s := Session.run (Session.init c) [.alloc 1 false]
    let u := Session.startGapUnwatched s [1] [.put 2 r]
    let w := Session.startGap s [1] [.put 2 r]
    Session.get u 2 = .none ∧ AMap.lookup u.store 2 = some r ∧
      (Session.alloc u 3 false).2 = .okAddr 0x0a000001 32 ∧
      Session.get w 2 = .okAddr 0x0a000001 32 ∧ (Session.alloc w 3 false).2 = .okAddr 0x0a000002 32 := by
  decide

/-- KF-dist-remote-collision: the guard `applicable` of the theorems above is not vacuous talk — a remote put
    that names a prefix another subscriber holds (what two nodes produce when each hands out the lowest free
    unit) is refused by SetAllocation, handleRemoteChange and loadAllocations DROP the refusal, the store keeps
    both records, and after a restart the holder depends on the enumeration order. -/
theorem KF_dist_remote_collision_witness :
    let c : Bitmap.Cfg := { famBits := 32, poolPrefix := 29, plen := 32, base := 0x0a000000 }
    let r : Rec := { addr := 0x0a000000, plen := 32, epoch := 0 }
    let s := Session.run (Session.init c) [.alloc 1 false]
    Session.applicable s 2 r = false ∧
      Session.get (Session.remotePut s 2 r) 2 = .none ∧
      AMap.lookup (Session.remotePut s 2 r).store 2 = some r ∧
      Session.get (Session.restart (Session.remotePut s 2 r) [1, 2]) 1 = .okAddr 0x0a000000 32 ∧
      Session.get (Session.restart (Session.remotePut s 2 r) [1, 2]) 2 = .none ∧
      Session.get (Session.restart (Session.remotePut s 2 r) [2, 1]) 2 = .okAddr 0x0a000000 32 ∧
      Session.get (Session.restart (Session.remotePut s 2 r) [2, 1]) 1 = .none := by
  decide

/-! non-vacuity: an admissible history with a failing write, a remote put, a restart in reversed order -/
example : Session.Valid (Session.init { famBits := 32, poolPrefix := 29, plen := 32, base := 0x0a000000 })
    [.alloc 1 false, .alloc 1 true, .alloc 2 true, .remotePut 3 { addr := 0x0a000005, plen := 32, epoch := 0 },
     .release 1 true, .restart [3, 1]] := by
  simp only [Session.Valid]; decide
example : Session.get (Session.run (Session.init { famBits := 32, poolPrefix := 29, plen := 32, base := 0x0a000000 })
    [.alloc 1 false, .alloc 1 true, .alloc 2 true, .remotePut 3 { addr := 0x0a000005, plen := 32, epoch := 0 },
     .release 1 true, .restart [3, 1]]) 3 = .okAddr 0x0a000005 32 := by decide
/-! non-vacuity: an admissible history with a restart during which another node announces and withdraws -/
example : Session.Valid (Session.init { famBits := 32, poolPrefix := 29, plen := 32, base := 0x0a000000 })
    [.alloc 1 false, .alloc 2 false,
     .restartGap [2, 1] [.put 3 { addr := 0x0a000005, plen := 32, epoch := 0 }, .del 1], .alloc 4 false] := by
  simp only [Session.Valid]; decide

end session

/-! ## PoolAllocator (store.go) over a store shared with other pools -/
section pool

/-- A failing SaveAllocation / RemoveAllocation — injected or the by-IP conflict with another pool's record —
    leaves allocator and store in agreement: after ANY history of allocate/release with every failure
    vector and any records of other pools, a subscriber has a record exactly when the allocator holds a
    prefix for it, and the record is that prefix. -/
theorem pool_store_failure_agrees (c : Bitmap.Cfg) (hc : GoodCfg c) (ops : List Pool.Op) (k : Nat) :
    (AMap.lookup (Pool.run (Pool.init c) ops).s.store k).map (fun r => (r.addr, r.plen)) =
      match Session.get (Pool.run (Pool.init c) ops).s k with
      | .okAddr a l => some (a, l)
      | _ => none := by
  have hI := Pool.pinv_run ops (Pool.init c) (Session.sinv_init c hc.2.2)
  have := hI.agree k
  rw [this]
  unfold Session.get Bitmap.lookup
  cases AMap.lookup (Pool.run (Pool.init c) ops).s.a.allocated k <;> rfl

/-- Rollback restores: an Allocate that fails on the store leaves every subscriber's holding exactly as it
    was — in particular it does not take away a prefix the caller already held (the wedge of D21p). -/
theorem pool_rollback_restores (st : Pool.State) (k : Nat) (f : Bool)
    (herr : (Pool.alloc st k f).2 = .error) (k' : Nat) :
    Session.get (Pool.alloc st k f).1.s k' = Session.get st.s k' := by
  have hkeep := Session.alloc_error_keeps (s := st.s) k (f || Pool.conflictFor st k) herr k'
  have hcfg : (Pool.alloc st k f).1.s.a.cfg = st.s.a.cfg := Session.step_cfg st.s (.alloc k _)
  unfold Session.get Bitmap.lookup
  have h1 : (Pool.alloc st k f).1.s = (Session.alloc st.s k (f || Pool.conflictFor st k)).1 := rfl
  rw [hcfg, h1, hkeep]

/-- … and the allocator never gives one prefix to two subscribers (the bitmap invariant is kept). -/
theorem pool_unique (c : Bitmap.Cfg) (hc : GoodCfg c) (ops : List Pool.Op) (k₁ k₂ i : Nat)
    (h₁ : AMap.lookup (Pool.run (Pool.init c) ops).s.a.allocated k₁ = some i)
    (h₂ : AMap.lookup (Pool.run (Pool.init c) ops).s.a.allocated k₂ = some i) : k₁ = k₂ := by
  have hI := (Pool.pinv_run ops (Pool.init c) (Session.sinv_init c hc.2.2)).inv
  have a := hI.fwd k₁ i h₁
  have b := hI.fwd k₂ i h₂
  rw [a] at b; simpa using b

/-- The same agreement for the SECOND PoolAllocator over the shared store: whatever the two pools and the third
    pool's records do to each other (every write of one can be refused because of the other), a subscriber of pool
    q has a record exactly when q's allocator holds a prefix for it, and the record is that prefix — a refused
    write is never half applied. -/
theorem pool_q_store_failure_agrees (c : Bitmap.Cfg) (hc : GoodCfg c) (ops : List Pool.Op) (k : Nat) :
    (AMap.lookup (Pool.run (Pool.init c) ops).q.store k).map (fun r => (r.addr, r.plen)) =
      match Session.get (Pool.run (Pool.init c) ops).q k with
      | .okAddr a l => some (a, l)
      | _ => none := by
  have hI := Pool.qinv_run ops (Pool.init c) (Session.sinv_init c hc.2.2)
  have := hI.agree k
  rw [this]
  unfold Session.get Bitmap.lookup
  cases AMap.lookup (Pool.run (Pool.init c) ops).q.a.allocated k <;> rfl

/-- One address, one owner across the pools that share a store: after ANY history of allocations and releases
    in both pools (overlapping ranges: every unit of one is a unit of the other), records of a third pool, store
    failures and writes through the callers' pointers, no address is recorded for a subscriber of pool p and for
    a subscriber of pool q, and none for a pool's subscriber and the third pool. -/
theorem pools_share_no_address (c : Bitmap.Cfg) (ops : List Pool.Op) (k k' : Nat) (r r' : Rec)
    (h : AMap.lookup (Pool.run (Pool.init c) ops).s.store k = some r)
    (h' : AMap.lookup (Pool.run (Pool.init c) ops).q.store k' = some r') :
    r.addr ≠ r'.addr ∧ (Pool.run (Pool.init c) ops).foreign.contains r.addr = false ∧
      (Pool.run (Pool.init c) ops).foreign.contains r'.addr = false := by
  have hD := Pool.disj_run ops (Pool.init c) (Pool.disj_init c)
  exact ⟨hD.pq k r k' r' h h', hD.pf k r h, hD.qf k' r' h'⟩

/-- The store owns its records: a caller writing through anything it was handed (the *net.IPNet Allocate or
    Lookup returned, a record it passed to SaveAllocation, what GetByPool / GetBySubscriber / GetByIP returned)
    changes nothing — for EVERY history, removing those writes leaves the final state and every other answer
    as they are.  (The model's `scribble` is the identity because the code copies since fix 1525014; the
    correspondence runs perform the writes on the real store.) -/
theorem pool_scribble_unobservable (st : Pool.State) (ops : List Pool.Op) :
    Pool.run st (ops.filter Pool.notScribble) = Pool.run st ops ∧
    Pool.answers st (ops.filter Pool.notScribble) =
      ((Pool.answers st ops).zip ops).filterMap (fun p => if Pool.notScribble p.2 then some p.1 else none) :=
  ⟨Pool.run_drop_scribble ops st, Pool.answers_drop_scribble ops st⟩

/-- The defect fix 1525014 removed, on the model of the store as it WAS (`Aliased`: Allocate returned the stored
    record's own *net.IPNet): s1 is given 10.0.0.0, the caller writes 10.0.0.128 through the result, s1 releases —
    RemoveAllocation computes the by-IP key from the (changed) stored record and leaves the entry for 10.0.0.0
    behind: it names s1 for ever, and every later subscriber is refused with ErrConflict on a free address
    (the first-free scan returns the same unit each time: the pool is wedged). -/
theorem store_alias_witness :
    let c : Bitmap.Cfg := { famBits := 32, poolPrefix := 30, plen := 32, base := 0x0a000000 }
    let s1 := (Aliased.alloc (Aliased.init c) 1).1
    let s2 := (Aliased.release (Aliased.poke s1 1 0x0a000080) 1).1
    (Aliased.alloc (Aliased.init c) 1).2 = .okAddr 0x0a000000 32 ∧
      AMap.lookup s2.byIP 0x0a000000 = some 1 ∧ AMap.lookup s2.recs 1 = none ∧
      (Aliased.alloc s2 2).2 = .error ∧ (Aliased.alloc (Aliased.alloc s2 2).1 3).2 = .error ∧
      -- without the write through the result nothing is left behind
      (Aliased.alloc (Aliased.release s1 1).1 2).2 = .okAddr 0x0a000000 32 := by
  decide

/-! non-vacuity: the same history on the model of the code as it is (the write is `scribble`), and two pools
    that meet on the same unit -/
example :
    Pool.answers (Pool.init { famBits := 32, poolPrefix := 30, plen := 32, base := 0x0a000000 })
      [.alloc 1 false, .scribble, .release 1 false, .alloc 2 false, .qalloc 1 false, .qalloc 2 false, .release 2 false,
       .qalloc 1 false] =
      [.okAddr 0x0a000000 32, .ok, .ok, .okAddr 0x0a000000 32, .error, .error, .ok, .okAddr 0x0a000000 32] := by
  decide

/-! non-vacuity: the wedge scenario of the unfixed code, on the model of the fixed code -/
def wedge : Pool.State :=
  Pool.run (Pool.init { famBits := 32, poolPrefix := 30, plen := 32, base := 0x0a000000 })
    [.alloc 1 false, .alloc 1 true, .alloc 2 false]
example : Session.get wedge.s 1 = .okAddr 0x0a000000 32 ∧ Session.get wedge.s 2 = .okAddr 0x0a000001 32 := by
  decide

end pool

/-! ## serialise / restore -/
section roundtrip

/-- Epoch allocator: serialising then restoring yields an allocator that answers EVERY later operation
    sequence identically (allocations included) — after any history.  Only the allocation hint is lost, and
    the allocator hands out the lowest free slot wherever the hint stands. -/
theorem epoch_roundtrip_observational (c : Epoch.Cfg) (pre ops : List Epoch.Op) :
    Epoch.answers (Epoch.roundtrip (Epoch.run (Epoch.init c) pre)) ops =
      Epoch.answers (Epoch.run (Epoch.init c) pre) ops := by
  have hI := Epoch.inv_run (Epoch.inv_init c) pre
  exact Epoch.answers_eqv ops _ _ (Epoch.inv_roundtrip hI) hI ⟨rfl, rfl, rfl, rfl, rfl⟩

/-- Bitmap allocator: the restored allocator answers every read-only query (Lookup, LookupByPrefix,
    IsAllocated, Stats, ListAllocations) identically — after any history.  PARTIAL: for later ALLOCATIONS
    this fails after a SetAllocation that moved a subscriber (finding D40, witness below); the side-by-side
    runs of the correspondence check cover mutating continuations. -/
theorem bitmap_roundtrip_queries_partial (c : Bitmap.Cfg) (hc : GoodCfg c) (pre : List Bitmap.Op)
    (q : Bitmap.Op) (hq : Bitmap.isQuery q = true) :
    (Bitmap.step (Bitmap.roundtrip (Bitmap.run (Bitmap.init c) pre)) q).2 =
      (Bitmap.step (Bitmap.run (Bitmap.init c) pre) q).2 :=
  Bitmap.roundtrip_query (Bitmap.inv_run (Bitmap.inv_init c hc.2.2) pre) q hq

def c8 : Bitmap.Cfg := { famBits := 32, poolPrefix := 29, plen := 32, base := 0x0a000000 }

/-- D40: SetAllocation moving a subscriber clears a unit below the allocation hint without lowering the hint;
    the hint is not serialised, so the restored allocator hands the next subscriber a different unit. -/
theorem D40_witness :
    (Bitmap.alloc (Bitmap.run (Bitmap.init c8) [.alloc 1, .alloc 2, .setAllocation 1 0x0a000003 32]) 3).2
        = .okAddr 0x0a000002 ∧
    (Bitmap.alloc (Bitmap.roundtrip (Bitmap.run (Bitmap.init c8) [.alloc 1, .alloc 2, .setAllocation 1 0x0a000003 32])) 3).2
        = .okAddr 0x0a000000 := by
  decide

end roundtrip

/-! ## lease mode -/
section lease
open Bng.Dist.Lease

/-- PARTIAL (lease mode): allocate / renew / release with ANY store failure vector, remote deletes and the
    lookups keep memory and store in agreement on who holds which address.  Histories with epoch ticks,
    restarts or remote puts are excluded: findings KF-lease-store-epoch, D38, D39 below. -/
theorem lease_store_failure_agrees_partial (c : Epoch.Cfg) (ops : List Lease.Op)
    (hl : ∀ op ∈ ops, Lease.isLocal op = true) (k : Nat) :
    (AMap.lookup (Lease.run (Lease.init c) ops).store k).map (fun r => (r.addr, r.plen)) =
      (AMap.lookup (Lease.run (Lease.init c) ops).a.subs k).map
        (fun i => (Epoch.indexToIP (Lease.run (Lease.init c) ops).a.cfg i, 32)) :=
  (linv_run ops (Lease.init c) (linv_init c) hl).agree k

/-- Uniqueness does survive a lease-mode restart: the reloaded allocator never gives one slot to two
    subscribers, whatever the store contained and in whatever order it was enumerated. -/
theorem lease_restart_unique (c : Epoch.Cfg) (st : Store) (order : List Nat) (k₁ k₂ i : Nat)
    (h₁ : AMap.lookup (Lease.restart { a := Epoch.init c, store := st } order).a.subs k₁ = some i)
    (h₂ : AMap.lookup (Lease.restart { a := Epoch.init c, store := st } order).a.subs k₂ = some i) : k₁ = k₂ :=
  Epoch.pinv_unique (load_inv _ _ _ (Epoch.inv_init c)).p h₁ h₂

/-- lease mode: Start refuses as well when the load Query fails -/
theorem lease_start_refuses (s : Lease.State) (order : List Nat) : Lease.start s order true = none := rfl

def cl : Epoch.Cfg := { base := 0x0a000000, ones := 29, plen := 32, grace := 1 }

/-- D38: loadAllocations in lease mode re-Allocates instead of restoring the stored address: s2 is recorded
    with 10.0.0.2 and answers 10.0.0.1 after the restart. -/
theorem D38_witness :
    let s := Lease.run (Lease.init cl) [.alloc 1 false, .alloc 2 false, .release 1 false]
    AMap.lookup s.store 2 = some { addr := 0x0a000002, plen := 32, epoch := 2 } ∧
      Lease.get s 2 = .okAddr 0x0a000002 32 ∧
      Lease.get (Lease.restart s [2]) 2 = .okAddr 0x0a000001 32 := by
  decide

/-- D39: handleRemoteChange in lease mode ignores the announced address: s3 is announced with 10.0.0.5 and
    answers 10.0.0.1. -/
theorem D39_witness :
    Lease.get (Lease.remotePut (Lease.init cl) 3 { addr := 0x0a000005, plen := 32, epoch := 2 }) 3
      = .okAddr 0x0a000001 32 := by
  decide

/-- KF-lease-store-epoch: with grace 1 the allocator drops a lease two epochs after its last renewal while
    cleanupExpiredFromStore (hard-coded "epoch < current − 2") keeps the record one epoch longer: memory and
    store disagree, and a restart in that window resurrects the lease. -/
theorem KF_lease_store_epoch_witness :
    let s := Lease.run (Lease.init cl) [.alloc 1 false, .tick [1] false, .tick [1] false]
    Lease.get s 1 = .none ∧ (AMap.lookup s.store 1).isSome = true ∧
      Lease.get (Lease.restart s [1]) 1 = .okAddr 0x0a000001 32 := by
  decide

/-- The interleaving the tick lock (fix d4b6bec) rules out: the store cleanup of an epoch tick takes its Query
    snapshot, ANOTHER caller re-allocates (fresh lease, fresh record), then the cleanup deletes from the stale
    snapshot.  Modelled with the pieces of `Lease.tick`: the result is a live lease without a record.  With
    the whole tick under da.mu, `Lease.tick` is one atomic step and this history does not exist. -/
theorem tick_race_witness :
    let s0 := Lease.run (Lease.init cl) [.alloc 1 false, .tick [1] false, .tick [1] false]
    let a' := (Epoch.advance s0.a).1
    let snap := snapshot s0.store [1]
    let s1 := (Lease.alloc { s0 with a := a' } 1 false).1
    let racy : Lease.State := { s1 with store := Lease.cleanup s1.store a'.epoch snap }
    Lease.get racy 1 = .okAddr 0x0a000001 32 ∧ AMap.lookup racy.store 1 = none ∧
      (AMap.lookup (Lease.tick s0 [1] false).1.store 1).isNone = true ∧
      Lease.get (Lease.alloc (Lease.tick s0 [1] false).1 1 false).1 1 = .okAddr 0x0a000001 32 ∧
      (AMap.lookup (Lease.alloc (Lease.tick s0 [1] false).1 1 false).1.store 1).isSome = true := by
  decide

/-- KF-stale-delete-echo: the store's delete notifications are asynchronous and handleRemoteChange releases on a
    delete without looking at the store again.  s1's record is deleted by the tick's cleanup, s1 re-allocates
    (fresh lease, fresh record) before the notification arrives, the stale notification then releases the fresh
    lease: the record says 10.0.0.1, the node answers nobody — and hands 10.0.0.1 to the next subscriber. -/
theorem KF_stale_delete_echo_witness :
    let s0 := Lease.run (Lease.init cl) [.alloc 1 false, .tick [1] false, .tick [1] false]
    let s1 := (Lease.tickThenAllocThenEcho s0 [1] 1).1
    (Lease.tickThenAllocThenEcho s0 [1] 1).2.2 = .okAddr 0x0a000001 32 ∧
      Lease.get s1 1 = .none ∧ (AMap.lookup s1.store 1).isSome = true ∧
      (Lease.alloc s1 2 false).2 = .okAddr 0x0a000001 32 := by
  decide

/-! non-vacuity of the partial theorem's hypothesis -/
example : ∀ op ∈ [Lease.Op.alloc 1 true, .alloc 1 false, .renew 1 false true, .release 1 true, .remoteDel 2, .get 1],
    Lease.isLocal op = true := by decide

end lease

end Bng.Spec.C12
