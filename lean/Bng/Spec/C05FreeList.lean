import Bng.Proof.FreeList
import Bng.Proof.FreeListGen
/-
  C05 — Address pools neither leak nor miscount: the five free-list pools.

  Property statements only.  All theorems quantify over every operation history of the generic model
  `Bng.FreeList` (release by key, release by value, MarkUnavailable, Allocate in any order) and every
  configuration whose constructor generated no value twice (`GoodCfg`, discharged for each of the five
  constructors and every geometry by `Bng.Spec.C01FreeList.good_*`, repeated here as `good_*`).
-/
namespace Bng.Spec.C05FreeList
open Bng Bng.FreeList AMap

def GoodCfg (c : Cfg) : Prop := c.univ.Nodup ∧ c.lookupFirst = true

theorem reachable_inv (c : Cfg) (hc : GoodCfg c) (ops : List Op) : Inv (run (init c) ops) :=
  inv_run (inv_init c hc.1 hc.2) ops

theorem good_dhcp (c : V4Cfg) (hc : GoodV4 c) : GoodCfg (dhcpCfg c) := ⟨genDhcp_nodup hc, rfl⟩
theorem good_local (c : V4Cfg) (hc : GoodV4 c) : GoodCfg (localCfg c) := ⟨genLocal_nodup hc, rfl⟩
theorem good_pppoe (c : V4Cfg) (hc : GoodV4 c) (h1 : 1 ≤ c.ones) : GoodCfg (pppoeCfg c) :=
  ⟨genPppoe_nodup hc h1, rfl⟩
theorem good_v6addr (c : V6Cfg) (hc : GoodV6 c) : GoodCfg (v6AddrCfg c) := ⟨genV6Addr_nodup hc, rfl⟩
theorem good_v6prefix (c : V6Cfg) (hc : GoodPD c) : GoodCfg (v6PrefixCfg c) := ⟨genV6Prefix_nodup hc, rfl⟩

/-- Conservation: after any history the values held, the free list and the addresses that
    MarkUnavailable took off the free list are, together, a permutation of what the constructor
    generated — nothing is lost, nothing is duplicated — and only marked addresses are ever parked. -/
theorem freelist_conservation (c : Cfg) (hc : GoodCfg c) (ops : List Op) :
    let s := run (init c) ops
    (vals s.held ++ s.avail ++ s.parked).Perm c.univ ∧ ∀ a, a ∈ s.parked → a ∈ s.marked := by
  have hI := reachable_inv c hc ops
  have := hI.perm
  rw [run_cfg] at this
  exact ⟨this, hI.parkedMarked⟩

/-- No leak: every generated address is, after any history, held by a key, or on the free list (the
    next subscribers get it), or was declared unavailable by MarkUnavailable. -/
theorem freelist_no_leak (c : Cfg) (hc : GoodCfg c) (ops : List Op) (a : Nat) (ha : a ∈ c.univ) :
    let s := run (init c) ops
    (∃ k, s.held.lookup k = some a) ∨ a ∈ s.avail ∨ a ∈ s.marked := by
  have hI := reachable_inv c hc ops
  rcases hI.univ_cases (by rw [run_cfg]; exact ha) with h | h | h
  · exact Or.inl h
  · exact Or.inr (Or.inl h)
  · exact Or.inr (Or.inr (hI.parkedMarked a h))

/-- A history without MarkUnavailable (the only kind the four pools other than dhcp.Pool have) parks
    nothing: held values and free list alone are a permutation of the universe. -/
theorem freelist_no_mark_no_parked (c : Cfg) (hc : GoodCfg c) (ops : List Op)
    (hm : ∀ op, op ∈ ops → ∀ a, op ≠ .mark a) :
    (run (init c) ops).parked = [] ∧ (vals (run (init c) ops).held ++ (run (init c) ops).avail).Perm c.univ := by
  have hI := reachable_inv c hc ops
  have hmk : ∀ (s : State) (ops : List Op), (∀ op, op ∈ ops → ∀ a, op ≠ .mark a) →
      (run s ops).marked = s.marked := by
    intro s ops
    induction ops generalizing s with
    | nil => intro _; rfl
    | cons op ops ih =>
      intro h
      simp only [run, List.foldl_cons]
      have h1 := ih (step s op).1 (fun o ho => h o (List.mem_cons_of_mem _ ho))
      simp only [run] at h1
      rw [h1]
      have h2 := h op List.mem_cons_self
      cases op with
      | alloc k => simp only [step]; unfold alloc; split <;> try rfl
                   split <;> rfl
      | release k => simp only [step]; unfold release; split <;> rfl
      | releaseVal a => simp only [step]; unfold releaseVal; split <;> rfl
      | mark a => exact absurd rfl (h2 a)
      | stats => rfl
      | get k => rfl
      | owner a => rfl
      | reserve k a =>
        simp only [step]; unfold reserve; split
        · split <;> try rfl
          split <;> rfl
        · split <;> rfl
      | list => rfl
  have hp := marked_nil_parked_nil hI (by rw [hmk _ _ hm]; rfl)
  refine ⟨hp, ?_⟩
  have := hI.perm
  rw [hp, List.append_nil, run_cfg] at this
  exact this

/-- Exhaustion is reported only when every generated address that has not been taken out of
    circulation by MarkUnavailable is held by a key. -/
theorem freelist_exhausted_only_when_full (c : Cfg) (hc : GoodCfg c) (ops : List Op) (k : Nat)
    (h : (alloc (run (init c) ops) k).2 = .exhausted) :
    ∀ a, a ∈ c.univ → a ∉ (run (init c) ops).parked → ∃ k', (run (init c) ops).held.lookup k' = some a := by
  have hI := reachable_inv c hc ops
  have hcfg : (run (init c) ops).cfg = c := run_cfg _ _
  generalize run (init c) ops = s at *
  intro a ha hnp
  have hav : s.avail = [] := by
    unfold alloc at h
    simp only [hI.lf, if_true] at h
    split at h
    · simp at h
    · split at h
      · assumption
      · simp at h
  rcases hI.univ_cases (by rw [hcfg]; exact ha) with h1 | h1 | h1
  · exact h1
  · rw [hav] at h1; simp at h1
  · exact absurd h1 hnp

/-- A released value is back in circulation: right after Release (by key) of a key that held a
    value, a key that holds nothing is not told "exhausted", and the released value is on the free list. -/
theorem freelist_release_returns (c : Cfg) (hc : GoodCfg c) (ops : List Op) (k k' a : Nat)
    (hk : (run (init c) ops).held.lookup k = some a)
    (hnew : (release (run (init c) ops) k).1.held.lookup k' = none) :
    a ∈ (release (run (init c) ops) k).1.avail ∧
      (alloc (release (run (init c) ops) k).1 k').2 ≠ .exhausted := by
  have hI := reachable_inv c hc ops
  generalize run (init c) ops = s at *
  have e : (release s k).1 =
      { s with held := AMap.erase s.held k, avail := s.avail ++ [a], rev := if s.cfg.hasRev then AMap.erase s.rev a else s.rev } := by
    simp [release, hk]
  rw [e] at hnew ⊢
  refine ⟨by simp, ?_⟩
  unfold alloc
  have hl : s.cfg.lookupFirst = true := hI.lf
  simp only [hl, if_true]
  rw [hnew]
  cases hav : s.avail <;> simp

/-- The same for dhcp.Pool.Release, which names the VALUE: if some key holds `a`, then after
    Release(a) nobody holds it, it is on the free list, and a new key is not told "exhausted". -/
theorem freelist_releaseVal_returns (c : Cfg) (hc : GoodCfg c) (ops : List Op) (k k' a : Nat)
    (hk : (run (init c) ops).held.lookup k = some a)
    (hnew : (releaseVal (run (init c) ops) a).1.held.lookup k' = none) :
    (∀ k'', (releaseVal (run (init c) ops) a).1.held.lookup k'' ≠ some a) ∧
      a ∈ (releaseVal (run (init c) ops) a).1.avail ∧
      (alloc (releaseVal (run (init c) ops) a).1 k').2 ≠ .exhausted := by
  have hI := reachable_inv c hc ops
  generalize run (init c) ops = s at *
  cases hh : holderOf s.held a with
  | none => exact absurd hk (holderOf_none hh k)
  | some k₀ =>
    have hk₀ := holderOf_some hI.nd hh
    have : k₀ = k := hI.unique hk₀ hk
    subst this
    have e : (releaseVal s a).1 =
        { s with held := AMap.erase s.held k₀, avail := s.avail ++ [a], rev := if s.cfg.hasRev then AMap.erase s.rev a else s.rev } := by
      simp [releaseVal, hh]
    rw [e] at hnew ⊢
    refine ⟨?_, by simp, ?_⟩
    · intro k'' h
      simp only [lookup_erase] at h
      by_cases e2 : k'' = k₀
      · simp [e2] at h
      · simp only [e2, if_false] at h
        exact e2 (hI.unique h hk)
    · unfold alloc
      have hl : s.cfg.lookupFirst = true := hI.lf
      simp only [hl, if_true]
      rw [hnew]
      cases hav : s.avail <;> simp

/-- Reserve (dhcp.Pool) neither leaks nor duplicates: a REFUSED Reserve changes nothing at all (in
    particular the key's current address is not put on the free list while the key still holds it); a
    successful one that moves the key puts the previous address back on the free list. -/
theorem freelist_reserve_conserves (c : Cfg) (hc : GoodCfg c) (ops : List Op) (k a : Nat) :
    let s := run (init c) ops
    ((reserve s k a).2 = .bool false → (reserve s k a).1 = s) ∧
    (∀ cur, s.held.lookup k = some cur → cur ≠ a → (reserve s k a).2 = .bool true →
        cur ∈ (reserve s k a).1.avail ∧ ∀ k', (reserve s k a).1.held.lookup k' ≠ some cur) := by
  have hI := reachable_inv c hc ops
  generalize run (init c) ops = s at *
  have hI' := inv_reserve hI k a
  show ((reserve s k a).2 = .bool false → (reserve s k a).1 = s) ∧
    (∀ cur, s.held.lookup k = some cur → cur ≠ a → (reserve s k a).2 = .bool true →
        cur ∈ (reserve s k a).1.avail ∧ ∀ k', (reserve s k a).1.held.lookup k' ≠ some cur)
  constructor
  · intro h
    unfold reserve at h ⊢
    split
    · rename_i cur hcur
      simp only [hcur] at h
      split
      · rfl
      · rename_i hne
        simp only [hne, if_false] at h
        split
        · rename_i ha; simp [ha] at h
        · rfl
    · rename_i hnone
      simp only [hnone] at h
      split
      · rename_i ha; simp [ha] at h
      · rfl
  · intro cur hcur hne hok
    have hmem : cur ∈ (reserve s k a).1.avail := by
      unfold reserve at hok ⊢
      simp only [hcur, hne, if_false] at hok ⊢
      split
      · simp
      · rename_i ha; simp [ha] at hok
    exact ⟨hmem, fun k' => hI'.avail_not_held hmem k'⟩

/-- The figures Stats() reports are the true ones after any history: Allocated is the number of keys
    holding a value, Available the length of the free list, and Total = Allocated + Available is the
    number of generated addresses minus those MarkUnavailable took out of circulation. -/
theorem freelist_stats_true (c : Cfg) (hc : GoodCfg c) (ops : List Op) :
    let s := run (init c) ops
    stats s = .stats s.held.length s.avail.length (c.univ.length - s.parked.length) s.marked.length ∧
      s.held.length + s.avail.length + s.parked.length = c.univ.length ∧
      (vals s.held).Nodup := by
  have hI := reachable_inv c hc ops
  have hcnt := hI.count
  rw [run_cfg] at hcnt
  change _ = c.univ.length at hcnt
  refine ⟨?_, hcnt, hI.vals_nodup⟩
  unfold stats
  congr 1
  omega

/-- There are never more holders than generated addresses. -/
theorem freelist_holders_le_universe (c : Cfg) (hc : GoodCfg c) (ops : List Op) :
    (run (init c) ops).held.length ≤ c.univ.length := by
  have := (reachable_inv c hc ops).count
  rw [run_cfg] at this
  change _ = c.univ.length at this
  omega

/-- dhcpv6.AddressPool is capped at the first 1000 addresses of the network (by construction) -/
theorem v6addr_at_most_1000 (c : V6Cfg) : (v6AddrCfg c).univ.length ≤ 1000 := genV6Addr_length_le c

/-! non-vacuity -/
example : GoodCfg (dhcpCfg { net := 0x0a000000, ones := 29, gw := 0x0a000001 }) :=
  good_dhcp _ ⟨by decide, by decide, by decide⟩
example : (alloc (run (init (dhcpCfg { net := 0xc0a80704, ones := 30, gw := 0xc0a80705 }))
    [.alloc 1]) 2).2 = .exhausted := by decide
example : stats (run (init (dhcpCfg { net := 0x0a000000, ones := 29, gw := 0x0a000001 }))
    [.alloc 1, .mark 0x0a000004, .mark 0x0a000002]) = .stats 1 3 4 2 := by decide

end Bng.Spec.C05FreeList
