import Bng.Proof.LockFacts
/-
  C08 — lock discipline of radius.AccountingManager (structural part).

  `Bng.Gen.Locks.locks` is REGENERATED on every run by harness/cmd/extractlocks from the repository's working tree.
  Model/Acct.lean executes StartSession and StopSession as micro-steps: a first critical section of `sessionsMu` (the
  claim: register the session / mark it stopping), then the network and disk steps WITH NO LOCK HELD (send the Start or
  the Stop, queue it when the server is down, persist or remove the recovery file — the points where the model lets the
  process crash and lets another call of the same session overlap), then a second critical section (the commit).  The
  overlap theorems (`no duplicate Stop`, `Stop never before Start`) are about this shape.  Here the kernel decides on the
  regenerated table that the code still has it.
-/
namespace Bng.Spec.C08Locks
open Bng.LockFacts

/-- StartSession: claim and commit are two exclusive sections of `sessionsMu`; the Accounting-Start is sent, queued
    and the session persisted with no lock held; the session table is only touched under the lock -/
theorem start_is_claim_send_persist_commit :
    known "radius.AccountingManager.StartSession" = true ∧
    acqOf "radius.AccountingManager.StartSession" "am.sessionsMu" = ["W", "W"] ∧
    outside "radius.AccountingManager.StartSession" "c" "am.client.SendAccounting" = true ∧
    outside "radius.AccountingManager.StartSession" "c" "am.queuePendingRecord" = true ∧
    outside "radius.AccountingManager.StartSession" "c" "am.persistActiveSession" = true ∧
    writesUnderW "radius.AccountingManager.StartSession" ["am.sessions"] "am.sessionsMu" = true ∧
    accessesUnder "radius.AccountingManager.StartSession" ["am.sessions"] "am.sessionsMu" = true := by decide

/-- StopSession: claim and commit are two exclusive sections; the StopPending mark is persisted, the Accounting-Stop
    sent and the recovery file removed with no lock held; the session leaves the table under the lock -/
theorem stop_is_claim_persist_send_commit :
    known "radius.AccountingManager.StopSession" = true ∧
    acqOf "radius.AccountingManager.StopSession" "am.sessionsMu" = ["W", "W"] ∧
    outside "radius.AccountingManager.StopSession" "c" "am.persistActiveSession" = true ∧
    outside "radius.AccountingManager.StopSession" "c" "am.sendAccountingStop" = true ∧
    outside "radius.AccountingManager.StopSession" "c" "am.removePersistedSession" = true ∧
    writesUnderW "radius.AccountingManager.StopSession" ["am.sessions"] "am.sessionsMu" = true ∧
    accessesUnder "radius.AccountingManager.StopSession" ["am.sessions"] "am.sessionsMu" = true := by decide

end Bng.Spec.C08Locks
