import Bng.Proof.LockFacts
/-
  C12 / C01 — lock discipline of allocator.DistributedAllocator (structural part).

  `Bng.Gen.Locks.locks` is REGENERATED on every run by harness/cmd/extractlocks from the repository's working tree.
  Model/Dist.lean executes Allocate, Release and the application of a remote change as ONE atomic step each — the
  in-memory allocation, the store write and the roll-back of a failed write happen together — and Start as "register
  the watch, then load the stored allocations, with remote changes waiting until the load is done" (fix 700037a; before
  it a remote write between the Query and the Watch was in neither, review item A4).  Here the kernel decides on the
  regenerated table that the code still has this shape.
-/
namespace Bng.Spec.C12Locks
open Bng.LockFacts

/-- Allocate and Release: ONE exclusive section of `da.mu`, held to the end, that contains the in-memory allocation /
    release, the store write and the roll-back on a failed write -/
theorem allocate_and_release_are_one_critical_section :
    oneDeferredSection "allocator.DistributedAllocator.Allocate" "da.mu" ["da.allocator", "da.epochAllocator"] = true ∧
    underW "allocator.DistributedAllocator.Allocate" "c" "da.allocator.Allocate" "da.mu" = true ∧
    underW "allocator.DistributedAllocator.Allocate" "c" "da.saveAllocation" "da.mu" = true ∧
    underW "allocator.DistributedAllocator.Allocate" "c" "da.allocator.Release" "da.mu" = true ∧
    oneDeferredSection "allocator.DistributedAllocator.Release" "da.mu" ["da.allocator", "da.epochAllocator"] = true ∧
    underW "allocator.DistributedAllocator.Release" "c" "da.allocator.Release" "da.mu" = true ∧
    underW "allocator.DistributedAllocator.Release" "c" "da.deleteAllocation" "da.mu" = true := by decide

/-- a change announced by another node is applied inside one exclusive section of the same mutex -/
theorem remote_change_is_one_critical_section :
    oneDeferredSection "allocator.DistributedAllocator.handleRemoteChange" "da.mu" ["da.allocator", "da.epochAllocator"] = true ∧
    underW "allocator.DistributedAllocator.handleRemoteChange" "c" "da.allocator.SetAllocation" "da.mu" = true ∧
    underW "allocator.DistributedAllocator.handleRemoteChange" "c" "da.allocator.Release" "da.mu" = true := by decide

/-- Start registers the watch and loads the stored allocations inside one exclusive section of `da.mu` — the watch
    first — so that a remote change delivered in between waits at the mutex until the load is complete -/
theorem start_watches_then_loads_under_the_lock :
    known "allocator.DistributedAllocator.Start" = true ∧
    acqOf "allocator.DistributedAllocator.Start" "da.mu" = ["W"] ∧
    underW "allocator.DistributedAllocator.Start" "c" "da.store.Watch" "da.mu" = true ∧
    underW "allocator.DistributedAllocator.Start" "c" "da.loadAllocations" "da.mu" = true ∧
    (match factsOf "allocator.DistributedAllocator.Start" with
     | some f => ((f.items.filter fun i => i.1 == "c" &&
                    (i.2.1 == "da.store.Watch" || i.2.1 == "da.loadAllocations")).map (·.2.1)) ==
                  ["da.store.Watch", "da.loadAllocations"]
     | none => false) = true := by decide

end Bng.Spec.C12Locks
