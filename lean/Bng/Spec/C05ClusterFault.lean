import Bng.Proof.PeerClusterFault
import Bng.Spec.C05Cluster
/-
  C05 — a cluster of pool.PeerPool nodes when the RESPONSE of a forwarded request is lost (review r-gaps C7):
  forwardAllocation / forwardRelease fail in `Do`, in the status check or in the JSON decode AFTER the peer's handler
  changed its local pool.  Statements for every history of cluster operations and armed faults (`Bng.PeerClusterFault`):

    * `fault_projects`, `fault_node_conservation`   the nodes move exactly as if every answer had arrived: per node
                                                    nothing is lost and Stats() is true;
    * `told_is_held_partial`        a node holds for a subscriber exactly what the requester was told — outside the clause
                                    of the recorded finding KF-peerpool-lost-response (`excl_lost_response`: the node
                                    allocated in a request whose answer was lost, and nobody was told or released since);
    * `told_is_held_without_faults` with no fault armed the clause is empty: the statement holds for every pair;
    * `KF_peerpool_lost_response_witness`           the defect on the model: an address allocated at the peer, the requester
                                                    left with an error, counted by the peer's Stats();
    * `repeated_request_heals`, `lost_release_frees`  what ends it, and why the same fault on a release is harmless.
-/
namespace Bng.Spec.C05ClusterFault
open Bng Bng.PeerCluster Bng.PeerClusterFault AMap
open Bng.Spec.C05Cluster (GoodCfg)

/-- the exclusion clause of KF-peerpool-lost-response, per (node, subscriber): node j allocated an address for k while
    handling a forwarded request whose answer never reached the requester, and since then no answer for k from j has
    arrived and k has not been released at j -/
def excl_lost_response (fs : FState) (j k : Nat) : Prop := (j, k) ∈ fs.pending

instance (fs : FState) (j k : Nat) : Decidable (excl_lost_response fs j k) := by
  unfold excl_lost_response; exact inferInstance

/-- whatever happens to the answers, the nodes' pools move by the cluster step of the operation the peer executed: a history
    with lost responses is, for the pools, the history in which every answer arrived -/
theorem fault_projects (fs : FState) (fops : List FOp) : (runF fs fops).s = run fs.s (project fops) := by
  induction fops generalizing fs with
  | nil => rfl
  | cons fop rest ih =>
    have h1 : runF fs (fop :: rest) = runF (stepF fs fop).1 rest := rfl
    rw [h1, ih, stepF_state]
    cases hb : baseOp fop with
    | none => simp only [project, List.filterMap_cons, hb]
    | some op => simp only [project, List.filterMap_cons, hb]; rfl

/-- (C05) per node nothing leaks and Stats() is true after every history with lost responses: what node j holds and what is
    on its free list is a rearrangement of the configured universe — an address whose allocation answer was lost is HELD at
    the peer, not gone -/
theorem fault_node_conservation (c : FreeList.Cfg) (hc : GoodCfg c) (n : Nat) (fops : List FOp) (j : Nat)
    (st : FreeList.State) (h : AMap.lookup (runF (PeerClusterFault.init c n) fops).s.nodes j = some st) :
    (vals st.held ++ st.avail).Perm c.univ ∧
      FreeList.stats st = .stats st.held.length st.avail.length c.univ.length 0 := by
  rw [fault_projects] at h
  exact C05Cluster.cluster_node_conservation c hc n _ j st h

/-- (C05, the part that holds) after every history of cluster operations and lost responses, a node holds for a subscriber
    exactly the address the requester was told (and nothing if it was told nothing or the address was released) — for every
    (node, subscriber) outside the clause of KF-peerpool-lost-response: no address is counted as allocated that nobody
    was given -/
theorem told_is_held_partial (c : FreeList.Cfg) (n : Nat) (fops : List FOp) (j k : Nat)
    (h : ¬ excl_lost_response (runF (PeerClusterFault.init c n) fops) j k) :
    heldAt (runF (PeerClusterFault.init c n) fops).s j k
      = AMap.lookup (runF (PeerClusterFault.init c n) fops).told (j, k) :=
  agree_run (agree_init c n) fops j k h

/-- with no fault ever armed the clause is empty: every holding of every node was handed to its requester -/
theorem told_is_held_without_faults (c : FreeList.Cfg) (n : Nat) (fops : List FOp)
    (hf : ∀ f, FOp.setFault (some f) ∉ fops) (j k : Nat) :
    heldAt (runF (PeerClusterFault.init c n) fops).s j k
      = AMap.lookup (runF (PeerClusterFault.init c n) fops).told (j, k) := by
  have hp : ∀ (fops : List FOp) (fs : FState), fs.fault = none → fs.pending = [] →
      (∀ f, FOp.setFault (some f) ∉ fops) → (runF fs fops).pending = [] := by
    intro fops
    induction fops with
    | nil => intro fs _ hp _; exact hp
    | cons fop rest ih =>
      intro fs hfa hp hno
      have := pending_step_nofault hfa hp fop (fun f e => hno f (by rw [e]; exact List.mem_cons_self ..))
      exact ih _ this.1 this.2 (fun f hm => hno f (List.mem_cons_of_mem _ hm))
  apply told_is_held_partial
  unfold excl_lost_response
  rw [hp fops _ rfl rfl hf]
  exact List.not_mem_nil

/-- KF-peerpool-lost-response on the model: two nodes, subscriber 6 belongs to node 2, the request enters at node 1 and the
    answer of node 2 is lost.  Node 2 holds 10.0.0.2 for subscriber 6 and counts it as allocated; the requester has an error
    and was told nothing; the pair is in the clause.  Nothing in the code ever takes the address back. -/
theorem KF_peerpool_lost_response_witness :
    let fs := runF (PeerClusterFault.init { univ := [2, 3, 4], hasRev := true } 2)
      [.setFault (some { kind := .resp, once := true }), .plain (.alloc 1 6 [2, 1])]
    (stepF (runF (PeerClusterFault.init { univ := [2, 3, 4], hasRev := true } 2)
        [.setFault (some { kind := .resp, once := true })]) (.plain (.alloc 1 6 [2, 1]))).2 = .lost 2 ∧
    heldAt fs.s 2 6 = some 2 ∧ AMap.lookup fs.told (2, 6) = none ∧ excl_lost_response fs 2 6 ∧
    (stepF fs (.plain (.stats 2))).2 = .plain (.stats (.stats 1 2 3 0)) := by decide

/-- what ends it: an answer for the subscriber that does arrive (the repeated request is idempotent at the peer) tells the
    requester the address and takes the pair out of the clause -/
theorem repeated_request_heals (fs : FState) (i k a : Nat) (ranked : List Nat) (hf : fs.fault = none)
    (h : (step fs.s (.alloc i k ranked)).2 = .served (healthyOwner fs.s i ranked) (.okAddr a)) :
    let fs' := (stepF fs (.plain (.alloc i k ranked))).1
    ¬ excl_lost_response fs' (healthyOwner fs.s i ranked) k ∧
      AMap.lookup fs'.told (healthyOwner fs.s i ranked, k) = some a := by
  simp only [stepF, hf, hits, Bool.false_eq_true, and_false, if_false, h, bookAlloc, if_true, excl_lost_response,
    lookup_insert, and_true]
  intro hm
  exact (mem_filter_ne.mp hm).2 rfl

/-- the same fault on a RELEASE is harmless: the peer has released (the address is back on its free list, the subscriber
    holds nothing there), only the requester does not know — a repeated release is the identity -/
theorem lost_release_frees (fs : FState) (i k : Nat) (ranked : List Nat) :
    (stepF fs (.plain (.release i k ranked))).1.s = (step fs.s (.release i k ranked)).1 :=
  stepF_state fs (.plain (.release i k ranked))

/-! non-vacuity -/
example : ¬ excl_lost_response (runF (PeerClusterFault.init { univ := [2, 3, 4], hasRev := true } 2)
    [.setFault (some { kind := .resp, once := true }), .plain (.alloc 1 6 [2, 1]), .plain (.alloc 1 6 [2, 1])]) 2 6 := by decide
example : ¬ excl_lost_response (runF (PeerClusterFault.init { univ := [2, 3, 4], hasRev := true } 2)
    [.setFault (some { kind := .body, once := false }), .plain (.alloc 1 6 [2, 1]), .plain (.release 1 6 [2, 1])]) 2 6 := by decide
/-- a truncated body breaks an allocation answer but not a release -/
example : ((stepF (runF (PeerClusterFault.init { univ := [2, 3, 4], hasRev := true } 2)
    [.setFault (some { kind := .body, once := false })]) (.plain (.release 1 6 [2, 1]))).2) = .plain (.served 2 .ok) := by decide
example : ∀ f, FOp.setFault (some f) ∉ [FOp.plain (.alloc 1 6 [2, 1]), .setFault none] := by
  intro f h; simp at h
example : ∃ fs : FState, fs.fault = none ∧
    (step fs.s (.alloc 1 6 [2, 1])).2 = .served (healthyOwner fs.s 1 [2, 1]) (.okAddr 2) :=
  ⟨PeerClusterFault.init { univ := [2, 3, 4], hasRev := true } 2, rfl, by decide⟩

end Bng.Spec.C05ClusterFault
