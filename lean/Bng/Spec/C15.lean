import Bng.Proof.Coa
import Bng.Md5
/-
  C15 — CoA and Disconnect requests are acted on only if authentic.

  Property statements only.  The model (`Bng/Model/Coa.lean`) is the body of `CoAServer.receiveLoop`
  for one UDP datagram, `verifyRequestAuthenticator`, `parseAttributes`, the code dispatch and
  `sendResponse`, as the code is after the D30 fix.  The hash `H` is universally quantified (MD5 in the
  code): no cryptographic assumption enters, only that digests have 16 bytes.

  In the code a handler invocation is always followed by exactly one response (`handleCoARequest` /
  `handleDisconnectRequest` call the handler — or the default — and then `sendResponse`), and nothing
  else sends.  "Acted on" (`acted`) therefore is: `receive` hands the datagram to a handler; the
  response to it is `respond`.
-/
namespace Bng.Spec.C15
open Bng Bng.Go Bng.Coa

/-- the listener acts on the datagram: a session-changing handler is invoked (and an ACK/NAK sent) -/
def acted (H : Bytes → Bytes) (secret buf : Bytes) : Prop :=
  ∃ req n, receive H secret buf = .ok (some req, n)

/-- A handler is invoked and an ACK/NAK sent IF AND ONLY IF the datagram is authentic
    (`Coa.authentic`): at least 20 bytes; RADIUS length field L with 20 ≤ L ≤ datagram size; code 40
    (Disconnect-Request) or 43 (CoA-Request); the attribute area `d[20:L]` is a well-formed TLV sequence
    (`Coa.attrsWF_strict`: the TLVs fill the area exactly; defined on the bytes, independent of the parser); and
    H(d[0:4] ‖ 16 zero bytes ‖ d[20:L] ‖ secret) = d[4:20].  Bytes after L are ignored by both sides. -/
theorem acted_iff_authentic (H : Bytes → Bytes) (hH : ∀ x, (H x).length = 16) (secret buf : Bytes) :
    acted H secret buf ↔ authentic H secret buf = true := by
  obtain ⟨r, m, e, _, hr, _⟩ := receive_spec H hH secret buf
  unfold acted
  rw [e]
  constructor
  · rintro ⟨req, n, h⟩
    injection h with h; injection h with h1 _
    rw [← hr, h1]; rfl
  · intro h
    rw [← hr] at h
    cases r with
    | none => simp at h
    | some req => exact ⟨req, m, rfl⟩

/-- Every response carries the request's identifier and a Response Authenticator that verifies against
    the request, and is itself a well-formed RADIUS packet: for the request `req` accepted from datagram
    `buf` and ANY handler reply (any error cause, a message of any length), the datagram `resp` sent back has
    `resp[1] = buf[1]`, the ACK/NAK code that belongs to the request kind,
    `resp[4:20] = H(resp[0:4] ‖ buf[4:20] ‖ resp[20:] ‖ secret)`, a length field equal to its size, and an
    attribute area that is a well-formed TLV sequence (`attrsWF_strict`; a Reply-Message longer than 253
    octets is cut, fix KF-coa-long-reply). -/
theorem response_verifies (H : Bytes → Bytes) (hH : ∀ x, (H x).length = 16) (secret buf : Bytes)
    (req : Request) (n : Nat) (h : receive H secret buf = .ok (some req, n)) (reply : Reply)
    (resp : Bytes) (hresp : resp = respond H secret req reply) :
    resp[1]? = buf[1]? ∧
    resp[0]? = some (respCode req.kind reply.success) ∧
    (req.kind = .coa ∧ buf.head? = some 43 ∨ req.kind = .dm ∧ buf.head? = some 40) ∧
    (resp.take 20).drop 4 = H (resp.take 4 ++ (buf.take 20).drop 4 ++ resp.drop 20 ++ secret) ∧
    lengthField resp = resp.length ∧
    attrsWF_strict (resp.drop 20) = true := by
  obtain ⟨r, m, e, _, _, hreq⟩ := receive_spec H hH secret buf
  rw [e] at h
  injection h with h; injection h with h1 _
  obtain ⟨hauth, hid, hkind⟩ := hreq req h1
  have hs := sendResponse_spec H hH secret (respCode req.kind reply.success) req.id req.auth
    reply.errorCause reply.message resp (by rw [hresp]; rfl)
  refine ⟨by rw [hs.2.1, hid], hs.1, hkind, ?_, hs.2.2.2.1, hs.2.2.2.2⟩
  rw [← hauth]
  exact hs.2.2.1

/-- All other datagrams are dropped without effect: if the datagram is not authentic, `receive`
    returns normally (no panic — the listener keeps running) without invoking a handler, hence without
    sending anything. -/
theorem dropped_no_effect (H : Bytes → Bytes) (hH : ∀ x, (H x).length = 16) (secret buf : Bytes)
    (h : authentic H secret buf = false) : ∃ n, receive H secret buf = .ok (none, n) := by
  obtain ⟨r, m, e, _, hr, _⟩ := receive_spec H hH secret buf
  rw [h] at hr
  cases r with
  | none => exact ⟨m, e⟩
  | some req => simp at hr

/-- the hypothesis on `H` is satisfiable: the MD5 of the driver has 16-byte digests -/
example : ∀ x, (Md5.md5 x).length = 16 := Md5.md5_length

/-- non-vacuity of `acted`: with a constant 16-byte "hash" the all-zero-authenticator Disconnect-Request
    below is authentic -/
example : authentic (fun _ => zeros16) [1] ([40, 7, 0, 20] ++ zeros16) = true := by
  simp [authentic, lengthField, packetOf, zeros16, beNat, attrsWF_strict]

/-- The recorded (and repaired) deviation KF-coa-trailing-byte, as a theorem: before the fix
    `parseAttributes` accepted an attribute area with one byte left over (`attrsWF_lenient`), which the
    specification (`attrsWF_strict`) rejects.  `acted_iff_authentic` is stated against the strict notion, so a
    parser that tolerates ANY slack no longer satisfies it. -/
theorem KF_coa_trailing_byte_witness :
    attrsWF_lenient [1, 3, 65, 0x55] = true ∧ attrsWF_strict [1, 3, 65, 0x55] = false := by
  constructor
  · simp [attrsWF_lenient]
  · simp [attrsWF_strict]

end Bng.Spec.C15
