import Bng.Proof.XdpDhcpEnd
/-
  C03 — the kernel DHCP fast path answers exactly as the userspace server would.

  Objects.  `Bng.XdpDhcp.run frame maps clk` is the byte-level model of `dhcp_fastpath_prog`
  (bpf/dhcp_fastpath.c) over raw map bytes; `Bng.CacheEnc` is what pkg/ebpf/loader.go and pkg/dhcp write into
  those maps (`encAssignment`, `encPool`, `encCfg`, the lease bookkeeping `Srv.step`); `Bng.XdpDhcpSpec` holds the
  decidable predicates the check evaluates on the natively compiled program's output and on the real slow
  path's replies (`replyDefect`, `viewOf`, `slowView`).  All theorems quantify over ALL frames (every length below
  64 KiB, any content), all map contents / all slow-path histories, and all clock values.

  Known findings (exclusion clauses, see known_findings.json):
    D10  IPv4 addresses reach the wire byte-reversed           → `tx_agrees_partial` (+ `tx_agrees_palindromic`), `D10_witness`
    D11  lease_expiry is Unix time, the program's clock is not → `expired_not_answered_partial`, `D11_witness`
    KF-opt53-fixed  message type read at fixed offsets          → `tx_wellformed` is about the type the program READS;
                                                                  `tx_type_partial`, `KF_opt53_fixed_witness`
    KF-dns-more-than-two / KF-expiry-subsecond                  → `KF_dns_more_than_two_witness`, `KF_expiry_subsecond_witness`
    KF-srvcfg-unset server_config never written                 → hypothesis `S ≠ 0` of `tx_agrees_partial`, `KF_srvcfg_unset_witness`
    KF-fastpath-reqaddr / KF-cid-foreign-mac: WHICH lease a request is answered from (requested address ignored,
      `KF_fastpath_reqaddr_witness`; circuit-id before MAC, `KF_cid_foreign_mac_witness`)
      — outside the agreement theorems below, which speak about the entry that was hit; judged by the
      monitors against the real slow path.
-/
namespace Bng.Spec.C03
open Bng Bng.C Bng.XdpDhcp Bng.XdpDhcpSpec Bng.CacheEnc

/-! ### (3) pass means untouched -/

/-- When the fast path does not reply (XDP_PASS) the frame it hands to userspace is byte-identical to the frame
    received — for every frame, cache content and clock; in particular on a cache hit that lacks room for the reply
    options (D12, fixed: the bounds test now precedes the first write). -/
theorem pass_identical (f : Frame) (m : Maps) (clk : UInt64) (f' : Frame) (hlen : f.length < 65536)
    (h : run f m clk = .ok (XDP_PASS, f')) : f' = f := by
  rcases ((run_Ok f m clk).elim h).2 hlen with h1 | ⟨p, t, a, pool, cfg, _, h2⟩
  · exact (Prod.mk.inj h1).2
  · exact absurd (Prod.mk.inj h2).1 (by decide)

/-! ### (1) a transmitted frame is a well-formed reply to its request -/

/-- Whenever the fast path transmits, the frame passes every check of `replyDefect` against its request, the server
    MAC and the server address `serverIpOf cfg pool` of the cache entry it answered from:
    Ethernet destination (relay's MAC / broadcast / chaddr as `setup_reply_l2_headers` decides) and source (server
    MAC), EtherType/VLAN tags as received; IP version/IHL/TOS and protocol as received (IHL 5, protocol 17 — else
    the request is not accepted), TTL 64, source = server address, destination = giaddr or 255.255.255.255, frame
    length = L2 header + `tot_len`, the header's one's-complement sum is 0xFFFF (`Bng.Checksum.csum_correct`); UDP ports
    67 → 68 (67 → 67 when relayed), `udp.len + 20 = tot_len`, checksum 0; BOOTP op = 2, htype/hlen, xid/secs/flags/
    ciaddr, giaddr/chaddr and magic cookie as received, hops 0, siaddr = server address, sname and file zeroed; the
    options are TLVs ending with END as the last byte of the frame, `tot_len = 268 + options`; and its option 53 is
    OFFER if the program read DISCOVER, ACK if it read REQUEST. -/
theorem tx_wellformed (f : Frame) (m : Maps) (clk : UInt64) (f' : Frame) (hlen : f.length < 65536)
    (h : run f m clk = .ok (XDP_TX, f')) :
    ∃ p t a pool cfg, Hit f m clk p t a pool cfg ∧
      replyDefect f f' p (rdBytes cfg 0 6) (leBytes 4 (serverIpOf cfg pool).toNat) = none ∧
      ((t = DHCP_DISCOVER ∧ opt 53 (f'.drop (p.dhcpOff + 240)) = some [DHCP_OFFER]) ∨
       (t = DHCP_REQUEST ∧ opt 53 (f'.drop (p.dhcpOff + 240)) = some [DHCP_ACK])) := by
  rcases ((run_Ok f m clk).elim h).2 hlen with h1 | ⟨p, t, a, pool, cfg, hh, h2⟩
  · exact absurd (Prod.mk.inj h1).1 (by decide)
  · have hf : f' = replyP f p t a pool cfg := (Prod.mk.inj h2).2
    refine ⟨p, t, a, pool, cfg, hh, ?_, ?_⟩
    · rw [hf]; exact reply_wellformed hh.wf hh.room t a pool cfg
    · have ht := reply_type hh.wf hh.room t a pool cfg
      rw [← hf] at ht
      rcases hh.mtOk with e | e
      · left; refine ⟨e, ?_⟩; rw [ht, e]; rfl
      · right; refine ⟨e, ?_⟩; rw [ht, e]; rfl

/-- The same for the type a DHCP parser reads (`trueMsgType`: first option 53 of the TLV walk), outside the
    exclusion clause of KF-opt53-fixed (the fixed-offset scan read the same type). -/
theorem tx_type_partial (f : Frame) (m : Maps) (clk : UInt64) (f' : Frame) (hlen : f.length < 65536)
    (h : run f m clk = .ok (XDP_TX, f')) :
    ∃ p t, parseHeaders f = .ok (some p) ∧ getMsgType f p.dhcpOff = .ok t ∧
      (trueMsgType (f.drop (p.dhcpOff + 240)) = some t →
        opt 53 (f'.drop (p.dhcpOff + 240)) = wantedReply (trueMsgType (f.drop (p.dhcpOff + 240)))) := by
  obtain ⟨p, t, a, pool, cfg, hh, _, hty⟩ := tx_wellformed f m clk f' hlen h
  refine ⟨p, t, hh.parsed, hh.mt, ?_⟩
  intro he
  rw [he]
  rcases hty with ⟨e, h53⟩ | ⟨e, h53⟩
  · rw [h53, e]; rfl
  · rw [h53, e]; rfl

/-- KF-opt53-fixed, the defect as a theorem: client identifier first, MAC 02:35:01:03:00:01 — the program reads
    REQUEST (3) where the options say DISCOVER (1). -/
theorem KF_opt53_fixed_witness :
    let opts : List UInt8 := [61, 7, 1, 0x02, 0x35, 0x01, 0x03, 0x00, 0x01, 53, 1, 1, 255, 0, 0, 0]
    (getMsgType (List.replicate 240 0 ++ opts) 0).toOption = some 3 ∧ trueMsgType opts = some 1 := by
  decide +kernel

/-! ### (2) the reply says what userspace says -/

/-- For cache bytes that are `CacheEnc` of a lease's assignment `A`, its pool `P` and a configured server address
    `S ≠ 0` (pools with at most two non-zero DNS servers, prefix length ≤ 32), the BOOTP message the fast path
    transmits carries: message type, lease time (option 51) and subnet mask (option 1) EXACTLY as the userspace
    reply `slowView` (yiaddr = A.ip, option 54 = S, 51 = P.leaseSecs, 1 = CIDR mask, 3 = P.gateway, 6 = P.dns);
    yiaddr and options 54, 3, 6 with each address's four bytes REVERSED (`View.rev`, finding D10). -/
theorem tx_agrees_partial (f : Frame) (clk : UInt64) (f' : Frame) (m : Maps) (hlen : f.length < 65536)
    (h : run f m clk = .ok (XDP_TX, f')) :
    ∃ p t a pool cfg, Hit f m clk p t a pool cfg ∧
      ∀ (A : Assignment) (P : PoolCfg) (mac : Bytes) (S idx : UInt32),
        a = encAssignment A → pool = encPool P → cfg = encCfg mac S idx →
        S ≠ 0 → P.dns.length ≤ 2 → (∀ d ∈ P.dns, d ≠ 0) → P.prefixLen.toNat ≤ 32 →
        viewOf (f'.drop p.dhcpOff) = (slowView (replyTypeOf t) A.ip S P).rev := by
  rcases ((run_Ok f m clk).elim h).2 hlen with h1 | ⟨p, t, a, pool, cfg, hh, h2⟩
  · exact absurd (Prod.mk.inj h1).1 (by decide)
  · have hf : f' = replyP f p t a pool cfg := (Prod.mk.inj h2).2
    refine ⟨p, t, a, pool, cfg, hh, ?_⟩
    intro A P mac S idx ha hp hc hS hd hnz hpl
    rw [hf, ha, hp, hc]
    exact reply_view hh.wf hh.room t A P (encCfg mac S idx) S (rd32_encCfg_ip mac S idx) hS hd hnz hpl

/-- an address whose wire bytes read the same in both directions (a.b.b.a) -/
def Palindromic (ip : UInt32) : Prop := rev4 (ipWire ip) = ipWire ip

/-- Outside the exclusion clause of D10 — every address involved is palindromic — the reply carries exactly what
    userspace sends. -/
theorem tx_agrees_palindromic (ty : UInt8) (yi S : UInt32) (P : PoolCfg)
    (h1 : Palindromic yi) (h2 : Palindromic S) (h3 : Palindromic P.gateway) (h4 : ∀ d ∈ P.dns, Palindromic d) :
    (slowView ty yi S P).rev = slowView ty yi S P := by
  have e : ∀ (a b : List UInt8), a.length = 4 → rev4 (a ++ b) = rev4 a ++ rev4 b := by
    intro a b hl
    match a, hl with
    | [w, x, y, z], _ => simp [rev4]
  have hdns : ∀ ds : List UInt32, (∀ d ∈ ds, Palindromic d) → rev4 (ds.flatMap ipWire) = ds.flatMap ipWire := by
    intro ds
    induction ds with
    | nil => intro _; rfl
    | cons d rest ih =>
      intro hh
      have hd : rev4 (ipWire d) = ipWire d := hh d (by simp)
      have hr := ih (fun x hx => hh x (by simp [hx]))
      simp only [List.flatMap_cons]
      rw [e _ _ (by simp [ipWire]), hd, hr]
  unfold View.rev slowView
  simp only [Option.map]
  unfold Palindromic at h1 h2 h3
  rw [h1, h2, h3, hdns P.dns h4]

/-- D10, the defect as a theorem: 10.0.1.5 is transmitted as 5.1.0.10. -/
theorem D10_witness :
    (slowView 5 0x0a000105 0x0a000101
        { id := 1, network := 0x0a000100, prefixLen := 24, gateway := 0x0a000101, dns := [], leaseSecs := 3600 }).rev.yiaddr
      = [5, 1, 0, 10] ∧
    (slowView 5 0x0a000105 0x0a000101
        { id := 1, network := 0x0a000100, prefixLen := 24, gateway := 0x0a000101, dns := [], leaseSecs := 3600 }).yiaddr
      = [10, 0, 1, 5] := by
  decide

/-- KF-srvcfg-unset, the defect as a theorem: with a zeroed server_config the program's server address is the
    pool gateway, whatever address the server was started with. -/
theorem KF_srvcfg_unset_witness (P : PoolCfg) : serverIpOf (List.replicate 16 0) (encPool P) = P.gateway := by
  unfold serverIpOf
  have : rd32 (List.replicate 16 0) 8 = 0 := by decide
  rw [this, rd32_encPool_gateway]
  rfl

/-- KF-fastpath-reqaddr, the mechanism as a theorem: whatever the request asks for (option 50, ciaddr, option 54
    are never read), the transmitted `yiaddr` is the cached `allocated_ip`, byte for byte as stored. -/
theorem KF_fastpath_reqaddr_witness (f : Frame) (m : Maps) (clk : UInt64) (f' : Frame) (hlen : f.length < 65536)
    (h : run f m clk = .ok (XDP_TX, f')) :
    ∃ p t a pool cfg, Hit f m clk p t a pool cfg ∧ bytesAt f' (p.dhcpOff + 16) 4 = leBytes 4 (rd32 a 4).toNat := by
  rcases ((run_Ok f m clk).elim h).2 hlen with h1 | ⟨p, t, a, pool, cfg, hh, h2⟩
  · exact absurd (Prod.mk.inj h1).1 (by decide)
  · refine ⟨p, t, a, pool, cfg, hh, ?_⟩
    rw [(Prod.mk.inj h2).2]
    exact reply_yiaddr hh.wf hh.room t a pool cfg

/-- KF-cid-foreign-mac, the mechanism as a theorem: for an untagged request from which the program extracts a
    circuit-id key that is in circuit_id_subscribers, that entry is the answer — the MAC (`chaddr`) is not consulted,
    nor is giaddr. -/
theorem KF_cid_foreign_mac_witness (f : Frame) (m : Maps) (p : Pkt) (k a : Bytes) (ht : p.tagged = false)
    (hk : extractCid f p.dhcpOff = .ok (some k)) (ha : AMap.lookup m.cid k = some a) :
    lookupAssignment f m p = .ok (some a) := by
  unfold lookupAssignment
  simp [ht, hk, ha, bind, Except.bind, pure, Except.pure]

/-! ### (4) after the end -/

/-- **The cache is sound after every history**: starting from empty maps, after ANY sequence of slow-path
    operations (server configuration, pools, acknowledged requests with any address / relay flag / circuit-id, releases,
    declines of any address, cleanup passes, time steps), every subscriber_pools entry belongs — with exactly its
    bytes — to the lease the table holds under that MAC key, every circuit_id_subscribers entry to a lease the table
    holds with that circuit-id key, and vlan_subscriber_pools is empty.  What the Go code deletes: RELEASE, an accepted
    DECLINE and expiry cleanup delete the MAC key, the VLAN pair (if any) and the circuit-id key of the lease; a
    renewal under another circuit-id deletes the old circuit-id's key (fixes 15db4fd, 676b977). -/
theorem cache_sound (now : Nat) (sip : UInt32) (ops : List Op) :
    Inv (Srv.run { now := now, serverIp := sip } ops) :=
  inv_run (inv_init now sip) ops

/-- **No answer after the end, and none after expiry on the program's clock**: after any history, if the fast path
    transmits then userspace holds a lease `l` that OWNS the request — its MAC has the MAC key of the request's
    chaddr, or its circuit-id has the circuit-id key the program extracted — the answering entry was written for
    that lease, and the clock handed to the program has not passed that lease's expiry.  So once a client's lease
    has been released, declined or cleaned up, and no other lease shares its circuit-id key, its requests are
    passed to userspace. -/
theorem no_answer_after_end (now : Nat) (sip : UInt32) (ops : List Op) (f : Frame) (clk : UInt64) (f' : Frame)
    (hlen : f.length < 65536)
    (h : run f (Srv.run { now := now, serverIp := sip } ops).maps clk = .ok (XDP_TX, f')) :
    ∃ p l, parseHeaders f = .ok (some p) ∧
      AMap.lookup (Srv.run { now := now, serverIp := sip } ops).leases l.mac = some l ∧ Owns l f p ∧
      ¬ (clk / 1000000000 > UInt64.ofNat l.exp) :=
  tx_has_lease (cache_sound now sip ops) hlen h

/-- contrapositive, for one client: no lease owns the request ⇒ PASS, frame untouched -/
theorem ended_client_passed (now : Nat) (sip : UInt32) (ops : List Op) (f : Frame) (clk : UInt64)
    (hlen : f.length < 65536)
    (hnone : ∀ p l, parseHeaders f = .ok (some p) →
      AMap.lookup (Srv.run { now := now, serverIp := sip } ops).leases l.mac = some l → ¬ Owns l f p) :
    run f (Srv.run { now := now, serverIp := sip } ops).maps clk
      = .ok (XDP_PASS, f) := by
  obtain ⟨r, hr, hpost⟩ := run_Ok f (Srv.run { now := now, serverIp := sip } ops).maps clk
  rcases hpost.1 with hv | hv
  · have : r = (XDP_PASS, r.2) := by rw [← hv]
    rw [this] at hr
    rw [hr, pass_identical f _ clk r.2 hlen hr]
  · have : r = (XDP_TX, r.2) := by rw [← hv]
    rw [this] at hr
    obtain ⟨p, l, hp, hl, hk, _⟩ := no_answer_after_end now sip ops f clk r.2 hlen hr
    exact absurd hk (hnone p l hp hl)

/-- **Expiry, outside the exclusion clause of D11** (the clock handed to the program is the slow path's clock, in
    whole seconds): after any history, if every lease that owns the request — by MAC key or by circuit-id key, so
    both lookup stages are covered — has expired on that clock, the request is passed to userspace untouched. -/
theorem expired_not_answered_partial (now : Nat) (sip : UInt32) (ops : List Op) (f : Frame) (clk : UInt64)
    (hlen : f.length < 65536)
    (hclk : clk / 1000000000 = UInt64.ofNat (Srv.run { now := now, serverIp := sip } ops).now)
    (hnow : (Srv.run { now := now, serverIp := sip } ops).now < 18446744073709551616)
    (hexp : ∀ p l, parseHeaders f = .ok (some p) →
      AMap.lookup (Srv.run { now := now, serverIp := sip } ops).leases l.mac = some l → Owns l f p →
      (Srv.run { now := now, serverIp := sip } ops).now > l.exp) :
    run f (Srv.run { now := now, serverIp := sip } ops).maps clk = .ok (XDP_PASS, f) := by
  obtain ⟨r, hr, hpost⟩ := run_Ok f (Srv.run { now := now, serverIp := sip } ops).maps clk
  rcases hpost.1 with hv | hv
  · have : r = (XDP_PASS, r.2) := by rw [← hv]
    rw [this] at hr
    rw [hr, pass_identical f _ clk r.2 hlen hr]
  · have : r = (XDP_TX, r.2) := by rw [← hv]
    rw [this] at hr
    obtain ⟨p, l, hp, hl, hk, hlive⟩ := no_answer_after_end now sip ops f clk r.2 hlen hr
    have hgt := hexp p l hp hl hk
    exfalso
    apply hlive
    rw [hclk]
    show UInt64.ofNat l.exp < UInt64.ofNat _
    rw [UInt64.lt_iff_toNat_lt, UInt64.toNat_ofNat', UInt64.toNat_ofNat']
    rw [Nat.mod_eq_of_lt (by omega), Nat.mod_eq_of_lt (by omega)]
    exact hgt

/-- **The reply is what userspace would send to THAT subscriber, after any history** (up to D10): if the fast path
    transmits on the cache a history produced, the answering entry belongs to a lease `l` userspace still holds and
    that owns the request, `P` is the pool the manager holds under the lease's pool id, and — when server_config was
    written (`Op.setCfg`, what `Server.Start` does) with a non-zero server address, the pool has at most two non-zero
    DNS servers and a prefix length ≤ 32 — the BOOTP message carries exactly the fields of the userspace reply for
    that lease (`slowView`: yiaddr = l.ip, option 54 = the server's address, 51/1/3/6 from `P`) with the addresses
    byte-reversed. -/
theorem tx_agrees_history (now : Nat) (sip : UInt32) (ops : List Op) (f : Frame) (clk : UInt64) (f' : Frame)
    (hlen : f.length < 65536)
    (h : run f (Srv.run { now := now, serverIp := sip } ops).maps clk = .ok (XDP_TX, f')) :
    ∃ p t l P, getMsgType f p.dhcpOff = .ok t ∧
      AMap.lookup (Srv.run { now := now, serverIp := sip } ops).leases l.mac = some l ∧ Owns l f p ∧
      AMap.lookup (Srv.run { now := now, serverIp := sip } ops).pools P.id = some P ∧ le32 P.id = le32 l.poolId ∧
      (∀ cfg, (Srv.run { now := now, serverIp := sip } ops).maps.cfg = some cfg → rd32 cfg 8 ≠ 0 →
        P.dns.length ≤ 2 → (∀ d ∈ P.dns, d ≠ 0) → P.prefixLen.toNat ≤ 32 →
        viewOf (f'.drop p.dhcpOff) =
          (slowView (replyTypeOf t) l.ip (Srv.run { now := now, serverIp := sip } ops).serverIp P).rev) := by
  obtain ⟨p, t, l, pc, P, cfg, hh, h1, h2, _, h4, h5, h6, h7, h8⟩ :=
    tx_from_live_lease (cache_sound now sip ops) hlen h
  refine ⟨p, t, l, P, hh.mt, h1, h2, h4, h5, ?_⟩
  intro cfg' hc hnz hd hdn hpl
  have : cfg' = cfg := by rw [h6] at hc; exact (Option.some.inj hc).symm
  subst this
  have hS : rd32 cfg' 8 = (Srv.run { now := now, serverIp := sip } ops).serverIp := by
    rcases h7 with e | e
    · exact e
    · exact absurd e hnz
  rw [h8]
  exact reply_view hh.wf hh.room t (assignmentOf l pc) P cfg' _ hS (by rw [← hS]; exact hnz) hd hdn hpl

end Bng.Spec.C03

namespace Bng.Spec.C03
open Bng Bng.C Bng.XdpDhcp Bng.XdpDhcpSpec Bng.CacheEnc

/-! ### D11, the defect as a theorem; non-vacuity of the transmission hypotheses -/

/-- a pool 10.0.1.0/24, gateway and server 10.0.1.1, one hour leases -/
def wPool : PoolCfg :=
  { id := 1, network := 0x0a000100, prefixLen := 24, gateway := 0x0a000101, dns := [0x08080808], leaseSecs := 3600 }
def wMac : Bytes := [2, 0, 0, 0, 0, 1]
/-- the history: configure, add the pool, ACK 10.0.1.5 to 02:00:00:00:00:01 at t = 1 000 000, let 4000 s pass -/
def wOps : List Op :=
  [.setCfg [2, 0, 0, 0, 0, 0xfe] 2, .addPool wPool, .ack wMac 0x0a000105 false none, .tick 4000]
def wSrv : Srv := Srv.run { now := 1000000, serverIp := 0x0a000101 } wOps
/-- a 320-byte DHCPDISCOVER of that client in an untagged Ethernet/IPv4/UDP frame -/
def wFrame : Frame :=
  [0xff, 0xff, 0xff, 0xff, 0xff, 0xff] ++ wMac ++ [0x08, 0x00] ++
  [0x45, 0, 0x01, 0x5c, 0, 0, 0, 0, 64, 17, 0, 0, 0, 0, 0, 0, 255, 255, 255, 255] ++
  [0, 68, 0, 67, 0x01, 0x48, 0, 0] ++
  ([1, 1, 6, 0, 0x11, 0x22, 0x33, 0x44, 0, 0, 0, 0] ++ List.replicate 16 0 ++ wMac ++ List.replicate 10 0 ++
   List.replicate 192 0 ++ [0x63, 0x82, 0x53, 0x63] ++ [53, 1, 1, 255] ++ List.replicate 76 0)

/-- D11: the lease expired 400 s ago on the slow path's clock (`now = 1 004 000 > exp = 1 003 600`), the entry is
    still there (cleanup has not run), and with the kernel's clock at 5000 s since boot the program transmits;
    with the slow path's clock it passes the frame on. -/
theorem D11_witness :
    (AMap.lookup wSrv.leases wMac).map (fun l => decide (wSrv.now > l.exp)) = some true ∧
    ((run wFrame wSrv.maps 5000000000000).toOption.map (·.1)) = some XDP_TX ∧
    ((run wFrame wSrv.maps (UInt64.ofNat (wSrv.now * 1000000000))).toOption.map (·.1)) = some XDP_PASS := by
  decide +kernel

/-- KF-dns-more-than-two, the defect as a theorem: the map value holds two servers; a third one never reaches it. -/
theorem KF_dns_more_than_two_witness (P : PoolCfg) (a b c : UInt32) (rest : List UInt32) :
    encPool { P with dns := a :: b :: c :: rest } = encPool { P with dns := [a, b] } := by
  simp [encPool, dnsAt]

/-- KF-expiry-subsecond, the defect as a theorem: a lease with ExpiresAt = X.500 s at time X.600 s is expired for
    userspace (`now.After(ExpiresAt)`) while the program's test `now > lease_expiry` on the very same clock, in whole
    seconds, is false. -/
theorem KF_expiry_subsecond_witness :
    let s : Srv := { now := 1000600, subMs := 600 }
    let l : Lease := { mac := wMac, ip := 0x0a000105, poolId := 1, exp := 1000600, expMs := 500 }
    s.after l = true ∧ ¬ (UInt64.ofNat s.now > UInt64.ofNat l.exp) := by
  decide

/-- non-vacuity of `tx_wellformed` / `tx_agrees_partial` / `no_answer_after_end`: a transmission exists -/
example : ∃ f', run wFrame wSrv.maps 5000000000000 = .ok (XDP_TX, f') := by
  have h := D11_witness.2.1
  cases hr : run wFrame wSrv.maps 5000000000000 with
  | error e => rw [hr] at h; cases h
  | ok r =>
    obtain ⟨v, g⟩ := r
    rw [hr] at h
    simp only [Except.toOption, Option.map] at h
    cases h
    exact ⟨g, rfl⟩

/-- non-vacuity of `pass_identical`: a pass exists -/
example : run [] {} 0 = .ok (XDP_PASS, []) := rfl

/-- non-vacuity of `tx_agrees_palindromic`: 10.1.1.10 is palindromic -/
example : Palindromic 0x0a01010a := by unfold Palindromic; decide

end Bng.Spec.C03
