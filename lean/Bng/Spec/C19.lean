import Bng.Proof.TokenBucket
/-
  C19 — Rate limiter admits no more than the contract and never starves a subscriber.

  Property statements only.  The model (`Bng.TokenBucket`) is `token_bucket_check` of bpf/qos_ratelimit.c in
  exact 64-bit machine arithmetic, the two TC programs' lookup, and `SetSubscriberQoS` of pkg/qos/manager.go
  as a writer of map bytes.  Times are kernel nanoseconds (`UInt64`), rates bit/s, sizes bytes.

  A *window* of a run is written `pre ++ a :: rest ++ post`: the arrivals `a :: rest` are the window,
  `pre`/`post` are whatever was offered before and after; the bucket the run starts from is ARBITRARY
  (any tokens, any timestamp), so every statement holds from any reachable and any unreachable map state.
-/
namespace Bng.Spec.C19
open Bng Bng.TokenBucket

/-! ## rate 0 means unlimited -/

/-- A bucket with rate 0 admits every packet, whatever its size, the clock and the bucket's state, and is
    left untouched. -/
theorem rate_zero_unlimited (b : Bucket) (now : UInt64) (len : UInt32) (h : b.rate = 0) :
    check b now len = (b, true) := by
  unfold check; simp [h]

/-- … and so does the TC program that finds such a bucket: the verdict is TC_ACT_OK. -/
theorem rate_zero_unlimited_prog (d : Dir) (m : Maps) (now : UInt64) (frame : Bytes) (len : UInt32)
    (k vb : Bytes) (b : Bucket) (hk : lookupKey d frame = some k) (hv : AMap.lookup (m.get d) k = some vb)
    (hb : Bucket.decode vb = some b) (h : b.rate = 0) :
    (runProg d m now frame len).2.ret = TC_ACT_OK := by
  unfold runProg
  simp only [hk, hv, hb, rate_zero_unlimited b now len h]
  rfl

/-! ## upper bound: never more than burst + rate × window -/

/-- the verdicts a run gives to the arrivals of the window `win` that follows `pre` -/
def windowVerdicts (b : Bucket) (pre win post : List Arrival) : List Bool :=
  ((runBucket b (pre ++ win ++ post)).2.drop pre.length).take win.length

/-- they are the verdicts of running the window from the state the bucket is in after `pre` -/
theorem windowVerdicts_eq (b : Bucket) (pre win post : List Arrival) :
    windowVerdicts b pre win post = (runBucket (runBucket b pre).1 win).2 := by
  unfold windowVerdicts
  rw [List.append_assoc, runBucket_append b pre, runBucket_append _ win]
  simp only []
  rw [List.drop_left' (runBucket_length b pre), List.take_left' (runBucket_length _ win)]

/-- **Upper bound.**  For every starting bucket with a non-zero rate (any tokens, any `last_update`), every
    arrival sequence and every window `a :: rest` of it over which the clock does not run backwards, the
    bytes admitted in the window are at most `burst + ⌊(t_last − t_first)·(rate/8)/10⁹⌋`: no slack beyond the
    burst, the 64-bit wrap of the product and all truncations only ever err on the side of admitting less. -/
theorem admitted_le (b : Bucket) (hr : b.rate ≠ 0) (pre : List Arrival) (a : Arrival) (rest post : List Arrival)
    (hs : SortedFrom a.t rest) :
    admitted (a :: rest) (windowVerdicts b pre (a :: rest) post) ≤
      b.burst.toNat + ((lastT a.t rest).toNat - a.t.toNat) * (b.rate.toNat / 8) / 1000000000 := by
  rw [windowVerdicts_eq]
  obtain ⟨hrate, hburst⟩ := runBucket_rate b pre
  generalize (runBucket b pre).1 = c at hrate hburst
  have hrc : c.rate ≠ 0 := by rw [hrate]; exact hr
  rw [← hrate, ← hburst, runBucket_cons]
  obtain ⟨h1, h2, h3, _, _, _, h7⟩ := check_spec c a.t a.len hrc
  have hrb := refill_le_burst c a.t
  set c' := (check c a.t a.len).1 with hc'
  have hp := potential rest c' (by rw [h1]; exact hrc) (by rw [h2]; omega) (by rw [h3]; exact hs)
  rw [h3, h1] at hp
  simp only [admitted]
  omega

/-- The same bound in the property's own terms: `burst + rate × window`, rate in bit/s, window in ns. -/
theorem admitted_le_rate (b : Bucket) (hr : b.rate ≠ 0) (pre : List Arrival) (a : Arrival) (rest post : List Arrival)
    (hs : SortedFrom a.t rest) :
    admitted (a :: rest) (windowVerdicts b pre (a :: rest) post) ≤
      b.burst.toNat + ((lastT a.t rest).toNat - a.t.toNat) * b.rate.toNat / 8000000000 := by
  have h := admitted_le b hr pre a rest post hs
  have h8 : b.rate.toNat / 8 * 8 ≤ b.rate.toNat := Nat.div_mul_le_self _ _
  generalize (lastT a.t rest).toNat - a.t.toNat = w at h ⊢
  have : w * (b.rate.toNat / 8) / 1000000000 ≤ w * b.rate.toNat / 8000000000 := by
    have h2 : w * (b.rate.toNat / 8) * 8 ≤ w * b.rate.toNat := by
      rw [Nat.mul_assoc]; exact Nat.mul_le_mul_left w h8
    calc w * (b.rate.toNat / 8) / 1000000000
        = w * (b.rate.toNat / 8) * 8 / (1000000000 * 8) := (Nat.mul_div_mul_right _ _ (by decide)).symm
      _ ≤ w * b.rate.toNat / (1000000000 * 8) := Nat.div_le_div_right h2
  exact Nat.le_trans h (Nat.add_le_add_left this _)

/-- The bucket the control plane installs starts full and not above its burst (so the bounds above start
    from a state the program itself could have produced). -/
theorem setqos_starts_full (q : QoS) :
    (egressBucket q).tokens.toNat = (egressBucket q).burst.toNat ∧
    (ingressBucket q).tokens.toNat = (ingressBucket q).burst.toNat := by
  unfold egressBucket ingressBucket
  simp [UInt32.toNat_toUInt64]

/-! ### the monitor that judges the C program is this bound -/

/-- **The over-admit monitor misses nothing.**  For every observed sequence with a non-decreasing clock and every
    window `(t₀,…) :: rest` of it, `8·10⁹ × (bytes admitted in the window)` is at most the monitor's potential `w`
    at the end of the window plus `rate × (t_last − t₀)`.  The monitor reports `over-admit` as soon as
    `w > burst·8·10⁹`; hence while it is silent every window ending at the current arrival satisfies
    `admitted ≤ burst + rate × window`, exactly (rational arithmetic, no rounding). -/
theorem over_admit_monitor_sound (rate burst : Nat) (hr : rate ≠ 0) (pre : List Obs) (t0 l0 : Nat) (a0 : Bool)
    (rest : List Obs) (hs : SortedObs 0 (pre ++ (t0, l0, a0) :: rest)) :
    SCALE * admittedObs ((t0, l0, a0) :: rest) ≤
      (Mon.run (Mon.new rate burst) (pre ++ (t0, l0, a0) :: rest)).w + rate * (lastObsT t0 rest - t0) := by
  rw [Mon.run_append]
  have hsplit : ∀ (xs ys : List Obs) (p : Nat), SortedObs p (xs ++ ys) → SortedObs p xs ∧ SortedObs (lastObsT p xs) ys := by
    intro xs
    induction xs with
    | nil => intro ys p h; exact ⟨trivial, h⟩
    | cons x xs ih =>
      intro ys p h
      obtain ⟨t, len, adm⟩ := x
      have := ih ys t h.2
      exact ⟨⟨h.1, this.1⟩, this.2⟩
  obtain ⟨hs1, hs2⟩ := hsplit pre _ 0 hs
  obtain ⟨hrate, hprev⟩ := mon_after pre (Mon.new rate burst) hr 0 (Or.inl rfl) hs1
  generalize Mon.run (Mon.new rate burst) pre = m at hrate hprev
  have hrm : m.rate ≠ 0 := by rw [hrate]; exact hr
  have hrr : m.rate = rate := hrate
  simp only [Mon.run, admittedObs]
  have hfirst : (m.step t0 l0 a0).1.w ≥ (if a0 then l0 * SCALE else 0) ∧ (m.step t0 l0 a0).1.prev = some (t0, l0) ∧
      (m.step t0 l0 a0).1.rate = m.rate := by
    rcases hprev with hp | ⟨pl, hp⟩
    · obtain ⟨h1, h2, h3, _⟩ := step_w_first m hrm hp t0 l0 a0
      exact ⟨by rw [h1], h2, h3⟩
    · obtain ⟨h1, h2, h3, _⟩ := step_w_next m hrm _ pl hp t0 l0 a0 hs2.1
      exact ⟨by rw [h1]; omega, h2, h3⟩
  obtain ⟨hw, hp1, hr1⟩ := hfirst
  have := (mon_extend rest (m.step t0 l0 a0).1 (by rw [hr1]; exact hrm) t0 l0 hp1 hs2.2).1
  rw [hr1, hrr] at this
  have ha : (if a0 = true then l0 else 0) * SCALE = (if a0 = true then l0 * SCALE else 0) := by
    cases a0 <;> simp
  rw [Nat.mul_add, Nat.mul_comm SCALE (if a0 = true then l0 else 0), ha]
  omega


/-! ## lower bound: an always-backlogged subscriber is served rate × window − burst − maxPkt

  `Backlogged rate burst p rest`: over the window `(p, rest]` the subscriber offers a packet at every
  arrival, every gap earns at most the packet offered before it (offered load ≥ earned tokens) and cannot
  overflow the bucket — decidable from the arrival sequence alone.  It forces every offered packet to fit into the
  burst (`backlogged_len_le_burst`); packets larger than the burst are finding KF-qos-burst-lt-pkt below.
  Everything is scaled by `SCALE = 8·10⁹` so that `gap [ns] × rate [bit/s]` is exact. -/

/-- the property's lower bound for the window `(p, rest]`, full strength -/
def ServedGe (b : Bucket) (pre : List Arrival) (p : Arrival) (rest post : List Arrival) (maxPkt : Nat) : Prop :=
  SCALE * admitted rest (windowVerdicts b (pre ++ [p]) rest post) + SCALE * (b.burst.toNat + maxPkt) ≥
    ((lastT p.t rest).toNat - p.t.toNat) * b.rate.toNat

instance (b : Bucket) (pre : List Arrival) (p : Arrival) (rest post : List Arrival) (maxPkt : Nat) :
    Decidable (ServedGe b pre p rest post maxPkt) := by unfold ServedGe; exact inferInstance

/-- exclusion clause of finding D52: the refill arithmetic (per-call truncation to whole tokens with
    `last_update` advanced unconditionally, `rate/8` rounding, 64-bit wrap of the product) failed to credit
    more than one maximum-size packet's worth of tokens over the window -/
def excl_D52 (b : Bucket) (p : Arrival) (rest : List Arrival) (maxPkt : Nat) : Bool :=
  decide (lossSum b.rate.toNat p rest > maxPkt * SCALE)

/-- **Accounting.**  Over a backlogged window the bytes served, one burst and the tokens the refill arithmetic
    lost add up to at least rate × window — from any starting bucket.  This is the exact statement of what
    the code guarantees: every shortfall below `rate × window − burst` is refill loss. -/
theorem served_ge_accounting (b : Bucket) (hr : b.rate ≠ 0) (pre : List Arrival) (p : Arrival)
    (rest post : List Arrival) (hb : Backlogged b.rate.toNat b.burst.toNat p rest) :
    SCALE * admitted rest (windowVerdicts b (pre ++ [p]) rest post) + SCALE * b.burst.toNat
      + lossSum b.rate.toNat p rest ≥ ((lastT p.t rest).toNat - p.t.toNat) * b.rate.toNat := by
  rw [windowVerdicts_eq, runBucket_append b pre [p]]
  simp only []
  obtain ⟨hrate, hburst⟩ := runBucket_rate b pre
  generalize (runBucket b pre).1 = c0 at hrate hburst
  have hrc : c0.rate ≠ 0 := by rw [hrate]; exact hr
  rw [← hrate, ← hburst]
  have e : (runBucket c0 [p]).1 = (check c0 p.t p.len).1 := by simp [runBucket]
  rw [e]
  obtain ⟨h1, h2, h3, _, _, _, h7⟩ := check_spec c0 p.t p.len hrc
  have hrb := refill_le_burst c0 p.t
  set c := (check c0 p.t p.len).1 with hc
  have hcons := conservation rest p c (by rw [h1]; exact hrc) h3 (afterOffer_check c0 p.t p.len hrc)
    (by rw [h2]; omega) (by rw [h1, h2, hrate, hburst]; exact hb)
  obtain ⟨_, hb2⟩ := runBucket_rate c rest
  have hfin : (runBucket c rest).1.tokens.toNat ≤ c0.burst.toNat := by
    -- the final token count is below the burst: it is either the untouched start or a capped refill
    have : ∀ (xs : List Arrival) (x : Bucket), x.rate ≠ 0 → x.tokens.toNat ≤ x.burst.toNat →
        (runBucket x xs).1.tokens.toNat ≤ x.burst.toNat := by
      intro xs
      induction xs with
      | nil => intro x _ hx; simpa [runBucket] using hx
      | cons y ys ih =>
        intro x hxr hx
        rw [runBucket_cons]
        obtain ⟨g1, g2, _, _, _, _, g7⟩ := check_spec x y.t y.len hxr
        have := refill_le_burst x y.t
        have := ih (check x y.t y.len).1 (by rw [g1]; exact hxr) (by rw [g2]; omega)
        rw [g2] at this; exact this
    have := this rest c (by rw [h1]; exact hrc) (by rw [h2]; omega)
    rw [h2] at this; exact this
  rw [h1] at hcons
  have : SCALE * (runBucket c rest).1.tokens.toNat ≤ SCALE * c0.burst.toNat := Nat.mul_le_mul_left _ hfin
  omega

/-- **Lower bound, partial.**  Whenever the exclusion clause of D52 is false — the refill arithmetic lost at
    most one maximum-size packet's worth of tokens over the window — the always-backlogged subscriber is
    served at least `rate × window − burst − maxPkt`, from any starting bucket. -/
theorem served_ge_partial (b : Bucket) (hr : b.rate ≠ 0) (pre : List Arrival) (p : Arrival)
    (rest post : List Arrival) (maxPkt : Nat) (hb : Backlogged b.rate.toNat b.burst.toNat p rest)
    (hx : excl_D52 b p rest maxPkt = false) :
    ServedGe b pre p rest post maxPkt := by
  have h := served_ge_accounting b hr pre p rest post hb
  unfold excl_D52 at hx
  simp only [decide_eq_false_iff_not, Nat.not_lt] at hx
  unfold ServedGe
  rw [Nat.mul_add, Nat.mul_comm SCALE maxPkt]
  omega

/-- What one refill can lose when the product does not wrap: less than one byte (the truncation to whole
    tokens) plus the `rate mod 8` rounding of the gap — per CALL, however short the gap. -/
theorem loss_per_call_lt (rate g : Nat) (hnw : g * (rate / 8) < 2 ^ 64) :
    lossOf rate g < SCALE + g * 8 := by
  have h := lossOf_eq rate g
  rw [Nat.mod_eq_of_lt hnw] at h
  have h1 : g * (rate / 8) < (g * (rate / 8) / 1000000000 + 1) * 1000000000 := by
    have := Nat.lt_div_mul_add (a := g * (rate / 8)) (b := 1000000000) (by decide)
    omega
  have h2 : g * rate = g * (rate / 8) * 8 + g * (rate % 8) := by
    rw [Nat.mul_assoc, ← Nat.mul_add]; congr 1; omega
  have h3 : g * (rate % 8) < g * 8 ∨ g = 0 := by
    rcases Nat.eq_zero_or_pos g with h0 | h0
    · right; exact h0
    · left; exact Nat.mul_lt_mul_of_pos_left (Nat.mod_lt _ (by decide)) h0
  unfold SCALE at h ⊢
  rcases h3 with h3 | h3
  · omega
  · subst h3; simp [lossOf]

/-! ### finding D52: starvation -/

/-- 1 kbit/s, burst 2 bytes, installed by SetSubscriberQoS -/
def w52 : Bucket := egressBucket { ip := [10, 0, 0, 5], down := 1000, up := 1000, burst := 2, prio := 0 }

/-- one-byte packets offered every 7 999 999 ns (just under the 8 ms a byte takes at 1 kbit/s) -/
def w52arr : List Arrival := polls 6 0 7999999 1

/-- **D52, witness.**  On the bucket the manager installs for 1 kbit/s with a 2-byte burst, a subscriber
    offering one-byte packets every 7 999 999 ns is backlogged, is admitted the two bytes of the burst and
    then NOTHING: over the window of the last four offers the full-strength bound fails, and the exclusion
    clause holds (the refill lost every earned token). -/
theorem D52_witness :
    Backlogged w52.rate.toNat w52.burst.toNat { t := 15999998, len := 1 } (w52arr.drop 2) ∧
    ¬ ServedGe w52 (w52arr.take 1) { t := 15999998, len := 1 } (w52arr.drop 2) [] 1 ∧
    excl_D52 w52 { t := 15999998, len := 1 } (w52arr.drop 2) 1 = true ∧
    (runBucket w52 w52arr).2 = [true, true, false, false, false, false] := by
  refine ⟨by decide, by decide, by decide, by decide⟩

/-- **D52, unbounded.**  The starvation never ends: from an empty bucket (fewer tokens than the packet
    needs), polling at any fixed gap `g` with `g·(rate/8) < 10⁹` — faster than one byte-time — admits nothing
    in `n` polls for EVERY `n`, and the bucket never gains a token, although `n·g·rate/(8·10⁹)` bytes were earned. -/
theorem D52_starvation_unbounded (n : Nat) (c : Bucket) (g : UInt64) (len : UInt32) (hr : c.rate ≠ 0)
    (hempty : c.tokens.toNat < len.toNat) (hb : c.tokens.toNat ≤ c.burst.toNat)
    (hfast : g.toNat * (c.rate.toNat / 8) < 1000000000)
    (hclk : c.last.toNat + n * g.toNat < 2 ^ 64) :
    admitted (polls n c.last g len) (runBucket c (polls n c.last g len)).2 = 0 ∧
    (runBucket c (polls n c.last g len)).1.tokens = c.tokens := by
  obtain ⟨h1, h2⟩ := starves n c g len hr hempty hb hfast hclk
  refine ⟨?_, h2⟩
  rw [h1]
  clear h1 h2 hclk
  generalize c.last = t
  induction n generalizing t with
  | zero => simp [polls, admitted]
  | succ n ih => simp [polls, admitted, List.replicate_succ, ih]

/-! ### finding KF-qos-burst-lt-pkt: a packet larger than the burst is never admitted

  `Backlogged` forces every offered packet to fit into the burst (`backlogged_len_le_burst`), so the theorems
  above say nothing about a subscriber whose packets are larger than the burst the control plane installed
  (`SetSubscriberQoS` accepts any `BurstBytes ≥ 1`).  What happens to it is stated here. -/

theorem backlogged_len_le_burst {rate burst : Nat} {p a : Arrival} {rest : List Arrival}
    (h : Backlogged rate burst p (a :: rest)) : p.len.toNat ≤ burst := by
  obtain ⟨_, hg, _⟩ := h
  unfold backloggedGap at hg
  simp only [Bool.and_eq_true, decide_eq_true_eq] at hg
  have : p.len.toNat * SCALE ≤ burst * SCALE := by omega
  exact Nat.le_of_mul_le_mul_right this (by decide)

/-- A packet larger than the bucket's burst is dropped — at any time, from any bucket state. -/
theorem oversize_never_admitted (b : Bucket) (now : UInt64) (len : UInt32) (hr : b.rate ≠ 0)
    (h : b.burst.toNat < len.toNat) : (check b now len).2 = false := by
  obtain ⟨_, _, _, _, _, h6, _⟩ := check_spec b now len hr
  have := refill_le_burst b now
  rw [h6]; exact decide_eq_false (by omega)

/-- exclusion clause of KF-qos-burst-lt-pkt: every packet offered in the window is larger than the burst -/
def excl_oversize (b : Bucket) (arr : List Arrival) : Bool := arr.all fun a => decide (b.burst.toNat < a.len.toNat)

/-- … so a subscriber that offers only such packets is served NOTHING, for ever, whatever the rate and however
    long it waits (another cause than D52: no arithmetic loss is involved). -/
theorem oversize_starves (arr : List Arrival) (b : Bucket) (hr : b.rate ≠ 0) (h : excl_oversize b arr = true) :
    admitted arr (runBucket b arr).2 = 0 := by
  induction arr generalizing b with
  | nil => simp [runBucket, admitted]
  | cons a rest ih =>
    unfold excl_oversize at h
    simp only [List.all_cons, Bool.and_eq_true, decide_eq_true_eq] at h
    rw [runBucket_cons]
    obtain ⟨h1, h2, _⟩ := check_spec b a.t a.len hr
    have hd := oversize_never_admitted b a.t a.len hr h.1
    simp only [admitted, hd]
    have := ih (check b a.t a.len).1 (by rw [h1]; exact hr) (by unfold excl_oversize; rw [h2]; exact h.2)
    simpa using this

/-- **KF-qos-burst-lt-pkt, witness.**  The bucket the manager installs for 1 Mbit/s with a 1000-byte burst, offered
    1500-byte packets at exactly line rate (one every 12 ms): every one is dropped. -/
theorem KF_burst_lt_pkt_witness :
    let b := egressBucket { ip := [10, 0, 0, 5], down := 1000000, up := 1000000, burst := 1000, prio := 0 }
    (runBucket b (polls 8 0 12000000 1500)).2 = List.replicate 8 false ∧
    excl_oversize b (polls 8 0 12000000 1500) = true := by
  decide

/-! ## the policy set through the control plane is the one enforced -/

/-- the bucket SetSubscriberQoS installs for a direction -/
def policyBucket (d : Dir) (q : QoS) : Bucket :=
  match d with
  | .egress => egressBucket q
  | .ingress => ingressBucket q

/-- `frame` is an untagged Ethernet II / IPv4 frame with a complete IP header whose subscriber-side address
    (destination on egress, source on ingress) is `ip` -/
def SubscriberFrame (d : Dir) (frame ip : Bytes) : Prop :=
  34 ≤ frame.length ∧ (frame.drop 12).take 2 = [0x08, 0x00] ∧
  (match d with
   | .egress => (frame.drop 30).take 4
   | .ingress => (frame.drop 26).take 4) = ip

instance (d : Dir) (frame ip : Bytes) : Decidable (SubscriberFrame d frame ip) := by
  unfold SubscriberFrame; cases d <;> exact inferInstance

/-- **Policy enforced.**  After `SetSubscriberQoS q` (whatever the maps held before), every IPv4 frame
    (a `SubscriberFrame`: untagged, IPv4 — everything else is finding KF-qos-unclassified below)
    to (egress) / from (ingress) the subscriber's address is looked up under exactly the key the manager
    wrote, finds exactly the bucket the manager wrote (rate, burst, priority of the policy, full), and is
    judged by `token_bucket_check` on that bucket.  (Holds since fix 6defdda; before it the program looked
    up the raw network-order address — finding D53.) -/
theorem policy_enforced (d : Dir) (m : Maps) (q : QoS) (a b c e : UInt8) (hq : q.ip = [a, b, c, e])
    (now : UInt64) (frame : Bytes) (len : UInt32) (hf : SubscriberFrame d frame q.ip) :
    lookupKey d frame = some (keyBytes q.ip) ∧
    ((AMap.lookup ((setSubscriberQoS m q).get d) (keyBytes q.ip)).bind Bucket.decode) = some (policyBucket d q) ∧
    (runProg d (setSubscriberQoS m q) now frame len).2.ret =
      (if (check (policyBucket d q) now len).2 then TC_ACT_OK else TC_ACT_SHOT) ∧
    (runProg d (setSubscriberQoS m q) now frame len).2.key = some (keyBytes q.ip, true) := by
  obtain ⟨hlen, hty, hip⟩ := hf
  have hkey : lookupKey d frame = some (keyBytes q.ip) := by
    unfold lookupKey
    rw [if_neg (by omega), if_neg (by simp [hty]), if_neg (by omega)]
    cases d <;> simp only [] at hip ⊢ <;> rw [hip, hq, keyBytes_eq] <;> rfl
  have hpad : (policyBucket d q).pad.length = 3 := by
    cases d <;> simp [policyBucket, egressBucket, ingressBucket]
  have hlk : AMap.lookup ((setSubscriberQoS m q).get d) (keyBytes q.ip) = some (policyBucket d q).encode := by
    cases d <;> simp [setSubscriberQoS, Maps.get, policyBucket]
  have hdec := decode_encode (policyBucket d q) hpad
  refine ⟨hkey, by rw [hlk]; exact hdec, ?_, ?_⟩
  · unfold runProg
    simp only [hkey, hlk, hdec]
    cases (check (policyBucket d q) now len).2 <;> simp
  · unfold runProg
    simp only [hkey, hlk, hdec]
    cases (check (policyBucket d q) now len).2 <;> simp

/-- **The last definition wins, for every field.**  After `AddPolicy p` — whatever the table held under that name,
    whether or not an earlier definition differs from `p` in a single field only (e.g. only the burst) —
    `GetPolicy p.name` is `p`; other names are untouched; `RemovePolicy` then `AddPolicy` gives the new definition. -/
theorem addPolicy_last_wins (t : PolicyTable) (p : Policy) (other : String) (ho : other ≠ p.name) :
    AMap.lookup (addPolicy t p) p.name = some p ∧
    AMap.lookup (addPolicy t p) other = AMap.lookup t other ∧
    AMap.lookup (removePolicy t p.name) p.name = none ∧
    AMap.lookup (addPolicy (removePolicy t p.name) p) p.name = some p := by
  unfold addPolicy removePolicy
  refine ⟨AMap.lookup_insert_self _ _ _, ?_, AMap.lookup_erase_self _ _, AMap.lookup_insert_self _ _ _⟩
  rw [AMap.lookup_insert]; simp [ho]

/-- `SetSubscriberPolicy` is `SetSubscriberQoS` with the values the name has in the policy table NOW. -/
theorem setPolicy_eq (c : Ctl) (ip : Bytes) (name : String) (p : Policy) (h : AMap.lookup c.pols name = some p) :
    c.setPolicy ip name = (c.setQoS (p.qos ip), true) := by
  unfold Ctl.setPolicy; rw [h]

/-- **Policy enforced, whole control plane.**  Define policy `A`, apply it to a subscriber by name, REdefine the
    name as `B` (`AddPolicy` again), re-apply the name without removing the subscriber first: from then on every
    IPv4 frame to/from the subscriber finds the bucket of `B` (rate, burst, priority, full) in both directions and
    is judged by it — whatever the maps, the bookkeeping and the table held before. -/
theorem policy_redefinition_enforced (d : Dir) (c : Ctl) (A B : Policy) (hn : A.name = B.name)
    (a b x e : UInt8) (now : UInt64) (frame : Bytes) (len : UInt32)
    (hf : SubscriberFrame d frame [a, b, x, e]) :
    let c1 := { c with pols := addPolicy c.pols A }
    let c2 := (c1.setPolicy [a, b, x, e] A.name).1
    let c3 := { c2 with pols := addPolicy c2.pols B }
    let c4 := (c3.setPolicy [a, b, x, e] A.name).1
    ((AMap.lookup (c4.maps.get d) (keyBytes [a, b, x, e])).bind Bucket.decode) = some (policyBucket d (B.qos [a, b, x, e])) ∧
    (runProg d c4.maps now frame len).2.ret =
      (if (check (policyBucket d (B.qos [a, b, x, e])) now len).2 then TC_ACT_OK else TC_ACT_SHOT) := by
  intro c1 c2 c3 c4
  have h3 : AMap.lookup c3.pols A.name = some B := by
    show AMap.lookup (addPolicy c2.pols B) A.name = some B
    unfold addPolicy; rw [hn]; exact AMap.lookup_insert_self _ _ _
  have h4 : c4 = c3.setQoS (B.qos [a, b, x, e]) := by
    show (c3.setPolicy [a, b, x, e] A.name).1 = _
    rw [setPolicy_eq c3 _ _ B h3]
  have hm : c4.maps = setSubscriberQoS c3.maps (B.qos [a, b, x, e]) := by rw [h4]; rfl
  rw [hm]
  have := policy_enforced d c3.maps (B.qos [a, b, x, e]) a b x e rfl now frame len hf
  exact ⟨this.2.1, this.2.2.1⟩

/-- `RemoveSubscriberQoS` removes both entries: afterwards the subscriber's frames find no bucket (no limit). -/
theorem removed_policy_not_enforced (d : Dir) (c : Ctl) (a b x e : UInt8) (now : UInt64) (frame : Bytes) (len : UInt32)
    (hf : SubscriberFrame d frame [a, b, x, e]) :
    (runProg d (c.remove [a, b, x, e]).maps now frame len).2 =
      { ret := TC_ACT_OK, key := some (keyBytes [a, b, x, e], false) } := by
  obtain ⟨hlen, hty, hip⟩ := hf
  have hkey : lookupKey d frame = some (keyBytes [a, b, x, e]) := by
    unfold lookupKey
    rw [if_neg (by omega), if_neg (by simp [hty]), if_neg (by omega)]
    cases d <;> simp only [] at hip ⊢ <;> rw [hip, keyBytes_eq] <;> rfl
  unfold runProg
  have hl : AMap.lookup ((c.remove [a, b, x, e]).maps.get d) (keyBytes [a, b, x, e]) = none := by
    cases d <;> simp [Ctl.remove, removeSubscriberQoS, Maps.get]
  simp only [hkey, hl]

/-! ### finding KF-qos-unclassified: only untagged IPv4 is ever classified

  `policy_enforced` is about `SubscriberFrame`s: untagged Ethernet II / IPv4.  Every other frame — IPv6, and IPv4
  behind a VLAN tag in the packet data or a PPPoE session header — is passed without any lookup, whatever its
  size and whatever policy is installed. -/

/-- exclusion clause of KF-qos-unclassified: the ethertype field at offset 12 is not IPv4 -/
def excl_unclassified (frame : Bytes) : Bool := decide (14 ≤ frame.length ∧ (frame.drop 12).take 2 ≠ [0x08, 0x00])

/-- A frame whose ethertype field is not IPv4 is never looked up and never limited: TC_ACT_OK, maps untouched. -/
theorem unclassified_unlimited (d : Dir) (m : Maps) (now : UInt64) (frame : Bytes) (len : UInt32)
    (h : (frame.drop 12).take 2 ≠ [0x08, 0x00]) :
    (runProg d m now frame len).2 = { ret := TC_ACT_OK } ∧ (runProg d m now frame len).1.egress = m.egress ∧
    (runProg d m now frame len).1.ingress = m.ingress := by
  have hk : lookupKey d frame = none := by
    unfold lookupKey
    by_cases hl : frame.length < 14
    · simp [hl]
    · simp [hl, h]
  unfold runProg
  simp [hk]

/-- in particular every IPv6 frame … -/
theorem ipv6_unlimited (d : Dir) (m : Maps) (now : UInt64) (frame : Bytes) (len : UInt32)
    (h : (frame.drop 12).take 2 = [0x86, 0xdd]) : (runProg d m now frame len).2.ret = TC_ACT_OK := by
  rw [(unclassified_unlimited d m now frame len (by rw [h]; decide)).1]

/-- … and every frame with an 802.1Q / 802.1ad / legacy tag or a PPPoE session header at offset 12, although this
    gateway identifies subscribers by S/C-tag. -/
theorem tagged_unlimited (d : Dir) (m : Maps) (now : UInt64) (frame : Bytes) (len : UInt32)
    (h : (frame.drop 12).take 2 = [0x81, 0x00] ∨ (frame.drop 12).take 2 = [0x88, 0xa8] ∨
         (frame.drop 12).take 2 = [0x91, 0x00] ∨ (frame.drop 12).take 2 = [0x92, 0x00] ∨
         (frame.drop 12).take 2 = [0x88, 0x64]) : (runProg d m now frame len).2.ret = TC_ACT_OK := by
  have hne : (frame.drop 12).take 2 ≠ [0x08, 0x00] := by
    rcases h with h | h | h | h | h <;> rw [h] <;> decide
  rw [(unclassified_unlimited d m now frame len hne).1]

/-- **KF-qos-unclassified, witness.**  1 kbit/s with a burst of 2 bytes installed for 10.0.0.5: the VLAN-tagged
    64 KB frame to 10.0.0.5 passes, the same frame untagged is dropped. -/
theorem KF_unclassified_witness :
    let m := setSubscriberQoS {} { ip := [10, 0, 0, 5], down := 1000, up := 1000, burst := 2, prio := 0 }
    let ip : Bytes := [0x45,0,0,20, 0,0,0,0, 64,17,0,0, 192,168,1,1, 10,0,0,5]
    let eth : Bytes := [2,0,0,0,0,1, 2,0,0,0,0,2]
    (runProg .egress m 1000 (eth ++ [0x81,0x00,0x00,0x64, 0x08,0x00] ++ ip) 65535).2.ret = TC_ACT_OK ∧
    excl_unclassified (eth ++ [0x81,0x00,0x00,0x64, 0x08,0x00] ++ ip) = true ∧
    (runProg .egress m 1000 (eth ++ [0x08,0x00] ++ ip) 65535).2.ret = TC_ACT_SHOT := by
  decide

/-- … and it touches no other subscriber's entry. -/
theorem policy_frame (d : Dir) (m : Maps) (q : QoS) (k : Bytes) (hk : k ≠ keyBytes q.ip) :
    AMap.lookup ((setSubscriberQoS m q).get d) k = AMap.lookup (m.get d) k := by
  cases d <;> simp [setSubscriberQoS, Maps.get, AMap.lookup_insert, hk]

/-! non-vacuity -/
example : SortedFrom 5 [{ t := 5, len := 1 }, { t := 9, len := 60 }] := by decide
example : Backlogged 1000 2 { t := 0, len := 1 } [{ t := 7999999, len := 1 }] := by decide
example : SubscriberFrame .egress
    [2,0,0,0,0,1, 2,0,0,0,0,2, 8,0, 0x45,0,0,20, 0,0,0,0, 64,17,0,0, 192,168,1,1, 10,0,0,5] [10,0,0,5] := by decide
example : excl_D52 w52 { t := 0, len := 1 } [{ t := 8000000, len := 1 }] 1 = false := by decide
example : ∃ c : Bucket, ∃ g : UInt64, ∃ len : UInt32, c.rate ≠ 0 ∧ c.tokens.toNat < len.toNat ∧
    c.tokens.toNat ≤ c.burst.toNat ∧ g.toNat * (c.rate.toNat / 8) < 1000000000 :=
  ⟨{ tokens := 0, last := 0, rate := 1000000, burst := 1500, prio := 0 }, 7999, 64, by decide, by decide, by decide, by decide⟩

end Bng.Spec.C19
