import Bng.Proof.XdpDhcp
/-
  C07 — kernel programs stay inside the packet and leave other traffic untouched.

  `dhcp_fastpath_prog` (bpf/dhcp_fastpath.c).  The model `Bng.XdpDhcp.run` follows the C text branch for
  branch; every packet dereference goes through the checked accessors of `Bng.C`, which fault when
  `off + n > data_end`.  The theorems quantify over ALL frames (every length, any content: truncation at any
  byte is just a shorter frame), all map contents (arbitrary key/value bytes) and all clock values.
  Termination is Lean's totality of `run` (structural recursion only).
-/
namespace Bng.Spec.C07
open Bng Bng.C Bng.XdpDhcp

/-- Memory safety: for every frame, every content of the five maps and every clock value the program
    performs no load or store outside `[data, data_end)`. -/
theorem dhcp_no_fault (f : Frame) (m : Maps) (clk : UInt64) : (run f m clk).isOk = true :=
  (run_Ok f m clk).isOk

/-- Defined verdict: the program returns XDP_PASS or XDP_TX, nothing else. -/
theorem dhcp_defined_verdict (f : Frame) (m : Maps) (clk : UInt64) (v : Nat) (f' : Frame)
    (h : run f m clk = .ok (v, f')) : v = XDP_PASS ∨ v = XDP_TX :=
  ((run_Ok f m clk).elim h).1

/-- Pass means unmodified: whenever the program returns XDP_PASS the frame it hands to the stack is
    byte-identical to the frame it received — also on a cache hit (the bounds test for the reply options
    happens before the first write, so no PASS is reachable after a write).
    Hypothesis: the frame is shorter than 64 KiB (`__u16 orig_len = data_end - data` in the C text; an XDP
    frame is at most one page). -/
theorem dhcp_pass_unmodified (f : Frame) (m : Maps) (clk : UInt64) (f' : Frame) (hlen : f.length < 65536)
    (h : run f m clk = .ok (XDP_PASS, f')) : f' = f := by
  rcases ((run_Ok f m clk).elim h).2 hlen with h1 | ⟨p, t, a, pool, cfg, _, h2⟩
  · exact (Prod.mk.inj h1).2
  · exact absurd (Prod.mk.inj h2).1 (by decide)

/-- What the program acts on: it transmits only on a `Hit` (BOOTREQUEST with the DHCP magic cookie, DISCOVER or
    REQUEST at a fixed option offset, cache entry under the VLAN pair / circuit-id / MAC key whose
    `lease_expiry` the kernel clock has not passed, pool entry, 64 bytes of option room, server
    configuration), and then the frame is the closed-form reply `replyP`. -/
theorem dhcp_tx_only_on_hit (f : Frame) (m : Maps) (clk : UInt64) (f' : Frame) (hlen : f.length < 65536)
    (h : run f m clk = .ok (XDP_TX, f')) :
    ∃ p t a pool cfg, Hit f m clk p t a pool cfg ∧ f' = replyP f p t a pool cfg := by
  rcases ((run_Ok f m clk).elim h).2 hlen with h1 | ⟨p, t, a, pool, cfg, hh, h2⟩
  · exact absurd (Prod.mk.inj h1).1 (by decide)
  · exact ⟨p, t, a, pool, cfg, hh, (Prod.mk.inj h2).2⟩

/-- non-vacuity: a frame too short for an Ethernet header is passed on as it is -/
example : run [1, 2, 3] {} 0 = .ok (XDP_PASS, [1, 2, 3]) := rfl

end Bng.Spec.C07
