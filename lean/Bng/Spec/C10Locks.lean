import Bng.Proof.LockFacts
/-
  C10 / C16 — lock discipline of nat.Manager (structural part).

  `Bng.Gen.Locks.locks` is REGENERATED on every run by harness/cmd/extractlocks.  Model/Nat.lean executes AllocateNAT as
  `precheck` (shared lock on the allocation table) and `commit` (one section of the pool lock in which the slot is
  chosen, the kernel map written, the allocation recorded and the log record produced), and DeallocateNAT as ONE step of
  the pool lock (since fix 4e12767).  Here the kernel decides on the regenerated table that the code has this shape.
-/
namespace Bng.Spec.C10Locks
open Bng.LockFacts

/-- AllocateNAT: the pool lock is taken once, exclusively, to the end of the method; the slot search, the kernel map
    write, the allocation-table write and the log record are all inside it -/
theorem allocate_commits_inside_pool_lock :
    known "nat.Manager.AllocateNAT" = true ∧
    acqOf "nat.Manager.AllocateNAT" "m.poolMu" = ["W"] ∧ deferredUnlock "nat.Manager.AllocateNAT" "m.poolMu" = true ∧
    underW "nat.Manager.AllocateNAT" "c" "m.freeSlotLocked" "m.poolMu" = true ∧
    underW "nat.Manager.AllocateNAT" "c" "m.subscriberNAT.Put" "m.poolMu" = true ∧
    underW "nat.Manager.AllocateNAT" "w" "m.allocations" "m.poolMu" = true ∧
    underW "nat.Manager.AllocateNAT" "w" "m.allocations" "m.allocationMu" = true ∧
    underW "nat.Manager.AllocateNAT" "c" "m.natLogger.LogAllocation" "m.poolMu" = true := by decide

/-- DeallocateNAT is one section of the pool lock: table delete, kernel map delete, purge of the subscriber's kernel
    session state, slot accounting and the release record all happen inside it, and the allocation table is never
    looked at outside the pool lock (no unlocked pre-check whose answer could go stale: every read and write of
    `m.allocations` and `m.pool` is inside the section, whatever it does with the inner `allocationMu`) -/
theorem deallocate_is_one_section_of_the_pool_lock :
    known "nat.Manager.DeallocateNAT" = true ∧
    acqOf "nat.Manager.DeallocateNAT" "m.poolMu" = ["W"] ∧ deferredUnlock "nat.Manager.DeallocateNAT" "m.poolMu" = true ∧
    underW "nat.Manager.DeallocateNAT" "w" "m.allocations" "m.poolMu" = true ∧
    underW "nat.Manager.DeallocateNAT" "c" "m.subscriberNAT.Delete" "m.poolMu" = true ∧
    underW "nat.Manager.DeallocateNAT" "c" "m.purgeSubscriberState" "m.poolMu" = true ∧
    underW "nat.Manager.DeallocateNAT" "w" "m.pool" "m.poolMu" = true ∧
    underW "nat.Manager.DeallocateNAT" "c" "m.natLogger.LogDeallocation" "m.poolMu" = true ∧
    accessesUnder "nat.Manager.DeallocateNAT" ["m.allocations", "m.pool"] "m.poolMu" = true := by decide

end Bng.Spec.C10Locks
