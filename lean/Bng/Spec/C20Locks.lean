import Bng.Proof.LockFacts
/-
  C20 — lock discipline of the key indexes (structural part).

  `Bng.Gen.Locks.locks` is REGENERATED on every run by harness/cmd/extractlocks.  Model/PppoeSessions.lean, Model/Qinq.lean
  and Model/Vlan.lean execute every operation as one atomic step over the forward and the reverse index together; that
  is sound only while each operation is ONE exclusive critical section covering both indexes.
-/
namespace Bng.Spec.C20Locks
open Bng.LockFacts

/-- PPPoE session ids: CreateSession, RemoveSession and CleanupExpired each hold the manager's lock exclusively from
    start to end, and both indexes (by id, by MAC) and the id counter are only touched inside -/
theorem pppoe_session_index_operations_are_one_critical_section :
    oneDeferredSection "pppoe.SessionManager.CreateSession" "m.mu" ["m.sessions", "m.macToSession", "m.nextID"] = true ∧
    oneDeferredSection "pppoe.SessionManager.RemoveSession" "m.mu" ["m.sessions", "m.macToSession", "m.nextID"] = true ∧
    known "pppoe.SessionManager.CleanupExpired" = true ∧
    acqOf "pppoe.SessionManager.CleanupExpired" "m.mu" = ["W"] ∧
    deferredUnlock "pppoe.SessionManager.CleanupExpired" "m.mu" = true ∧
    accessesUnder "pppoe.SessionManager.CleanupExpired" ["m.sessions", "m.macToSession"] "m.mu" = true ∧
    writesUnderW "pppoe.SessionManager.CreateSession" ["m.sessions", "m.macToSession"] "m.mu" = true ∧
    writesUnderW "pppoe.SessionManager.RemoveSession" ["m.sessions", "m.macToSession"] "m.mu" = true := by decide

/-- QinQ pairs: Register and Unregister update the forward and the reverse map inside one exclusive section -/
theorem qinq_operations_are_one_critical_section :
    oneDeferredSection "qinq.Mapper.Register" "m.mu" ["m.vlanToSubscriber", "m.subscriberToVLAN"] = true ∧
    oneDeferredSection "qinq.Mapper.Unregister" "m.mu" ["m.vlanToSubscriber", "m.subscriberToVLAN"] = true ∧
    writesUnderW "qinq.Mapper.Register" ["m.vlanToSubscriber", "m.subscriberToVLAN"] "m.mu" = true ∧
    writesUnderW "qinq.Mapper.Unregister" ["m.vlanToSubscriber", "m.subscriberToVLAN"] "m.mu" = true := by decide

/-- VLAN allocator: Allocate, AllocateWithSTag and Release are each one exclusive section covering the allocation
    table and the per-S-TAG usage index -/
theorem vlan_operations_are_one_critical_section :
    oneDeferredSection "nexus.VLANAllocator.Allocate" "v.mu" ["v.allocations", "v.sTagUsage"] = true ∧
    oneDeferredSection "nexus.VLANAllocator.AllocateWithSTag" "v.mu" ["v.allocations", "v.sTagUsage"] = true ∧
    oneDeferredSection "nexus.VLANAllocator.Release" "v.mu" ["v.allocations", "v.sTagUsage"] = true ∧
    underW "nexus.VLANAllocator.Release" "c" "v.releaseUnlocked" "v.mu" = true := by decide

/-- state.Store: every Create / Update / Delete of a subscriber, lease, session or NAT binding is ONE exclusive section
    of the store mutex covering the primary table and all of its secondary indexes (by MAC, by NTE, by IP, by private /
    public address) — the Index model's atomic steps -/
theorem state_store_mutations_are_one_critical_section :
    oneDeferredSection "state.Store.CreateSubscriber" "s.mu" ["s.subscribers", "s.subscriberByMAC", "s.subscriberByNTE"] = true ∧
    oneDeferredSection "state.Store.UpdateSubscriber" "s.mu" ["s.subscribers", "s.subscriberByMAC", "s.subscriberByNTE"] = true ∧
    oneDeferredSection "state.Store.DeleteSubscriber" "s.mu" ["s.subscribers", "s.subscriberByMAC", "s.subscriberByNTE"] = true ∧
    oneDeferredSection "state.Store.CreateLease" "s.mu" ["s.leases", "s.leaseByMAC", "s.leaseByIP"] = true ∧
    oneDeferredSection "state.Store.DeleteLease" "s.mu" ["s.leases", "s.leaseByMAC", "s.leaseByIP"] = true ∧
    oneDeferredSection "state.Store.CreateSession" "s.mu" ["s.sessions", "s.sessionByMAC", "s.sessionByIP"] = true ∧
    oneDeferredSection "state.Store.DeleteSession" "s.mu" ["s.sessions", "s.sessionByMAC", "s.sessionByIP"] = true ∧
    oneDeferredSection "state.Store.CreateNATBinding" "s.mu" ["s.natBindings", "s.natByPrivate", "s.natByPublic"] = true ∧
    oneDeferredSection "state.Store.DeleteNATBinding" "s.mu" ["s.natBindings", "s.natByPrivate", "s.natByPublic"] = true ∧
    writesUnderW "state.Store.CreateSubscriber" ["s.subscribers", "s.subscriberByMAC", "s.subscriberByNTE"] "s.mu" = true ∧
    writesUnderW "state.Store.DeleteSubscriber" ["s.subscribers", "s.subscriberByMAC", "s.subscriberByNTE"] "s.mu" = true ∧
    writesUnderW "state.Store.CreateLease" ["s.leases", "s.leaseByMAC", "s.leaseByIP"] "s.mu" = true ∧
    writesUnderW "state.Store.DeleteLease" ["s.leases", "s.leaseByMAC", "s.leaseByIP"] "s.mu" = true ∧
    writesUnderW "state.Store.CreateSession" ["s.sessions", "s.sessionByMAC", "s.sessionByIP"] "s.mu" = true ∧
    writesUnderW "state.Store.DeleteSession" ["s.sessions", "s.sessionByMAC", "s.sessionByIP"] "s.mu" = true := by decide

end Bng.Spec.C20Locks
