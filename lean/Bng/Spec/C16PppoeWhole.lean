import Bng.Proof.PppoeMonitor
/-
  C16 / C05 / C04 (PPPoE server, whole histories).  Statements for EVERY sequence of frames, RADIUS outcomes
  and idle sweeps from a fresh server (`init radius bits`):

    * `monitor_silent_on_model`  the monitor the correspondence check runs on the implementation's
      observations (`PppoeMon.monitorCore`) raises nothing but the recorded finding KF-pppoe-idle-leak when it
      is run on the model's own observations — it asks for nothing the model does not deliver, so a verdict
      on the implementation is a departure from the model, not an artefact of the monitor;
    * `pool_conservation`        free + allocated = pool size, always (C05);
    * `no_residue_without_sweep` with no idle sweep in the history, exactly the sessions that hold an address
      account for the allocated addresses: every termination path (PADT, LCP Terminate, failed PAP) gave the
      address back (C16);
    * `allocated_accounted`      in general the difference is exactly the number of addressed sessions removed
      by idle sweeps (KF-pppoe-idle-leak, the only leak).
-/
namespace Bng.Spec.C16PppoeWhole
open Bng Bng.PppoeServer Bng.PppoeMon Bng.Proof.PppoeMonitor

theorem monitor_silent_on_model (radius : Bool) (bits : Nat) (ins : List In) :
    ∀ v ∈ runBoth (init radius bits) (initMon radius bits) ins, v.2.1 = "KF-pppoe-idle-leak" :=
  (run_ok (W_init radius bits) (Rel_init radius bits) ins).2.2

theorem total_kept (ins : List In) : ∀ (s : Srv) (mn : Mon), (monAfter s mn ins).total = mn.total := by
  induction ins with
  | nil => intro s mn; rfl
  | cons i rest ih => intro s mn; simp only [monAfter]; rw [ih]; rfl

theorem pool_conservation (radius : Bool) (bits : Nat) (ins : List In) :
    (run (init radius bits) ins).avail.length + (run (init radius bits) ins).alloc.length
      = (poolAddrs bits).length := by
  have h := (run_ok (W_init radius bits) (Rel_init radius bits) ins).2.1.cons
  rw [total_kept] at h
  exact h

/-- number of live sessions that hold an address -/
def holding (s : Srv) : Nat := s.sessions.countP (fun p => p.2.ip.isSome)

theorem allocated_accounted (radius : Bool) (bits : Nat) (ins : List In) :
    (run (init radius bits) ins).alloc.length
      = holding (run (init radius bits) ins) + (monAfter (init radius bits) (initMon radius bits) ins).stranded :=
  (run_ok (W_init radius bits) (Rel_init radius bits) ins).2.1.count

theorem no_residue_without_sweep (radius : Bool) (bits : Nat) (ins : List In) (h : In.sweep ∉ ins) :
    (run (init radius bits) ins).alloc.length = holding (run (init radius bits) ins) := by
  have := allocated_accounted radius bits ins
  rw [stranded_without_sweep _ _ _ h] at this
  exact this

/-- a session that holds an address is recorded in the pool under its own key, and the other way round -/
theorem address_iff_pool_entry (radius : Bool) (bits : Nat) (ins : List In) (sid : Nat) (x : Sess)
    (hx : AMap.lookup (run (init radius bits) ins).sessions sid = some x) :
    x.ip.isSome = (AMap.lookup (run (init radius bits) ins).alloc x.serial).isSome :=
  (run_ok (W_init radius bits) (Rel_init radius bits) ins).1.ipa sid x hx

/-! non-vacuity: the monitor does speak — on the sweep — and is silent on an ordinary history -/
example : (runBoth (init true 30) (initMon true 30)
    [.padr 1 true, .pap 1 1 .good .accept, .ipcp 1 1 .creqIp, .sweep]).map (·.2.1) = ["KF-pppoe-idle-leak"] := by
  decide
example : (runBoth (init true 30) (initMon true 30)
    [.padr 1 true, .pap 1 1 .good .accept, .ipcp 1 1 .cack, .padt 1 1]).length = 0 := by decide
example : holding (run (init true 29) [.padr 1 true, .pap 1 1 .good .accept, .padr 2 true, .pap 2 2 .good .accept,
    .lcp 1 1 .term]) = 1 := by decide

end Bng.Spec.C16PppoeWhole
