import Bng.Proof.PppoeMonitor
import Bng.Model.PppoeTimed
/-
  C16 / C05 / C04 (PPPoE server, whole histories).  Statements for EVERY sequence of frames, RADIUS outcomes
  and idle sweeps from a fresh server (`init radius bits`):

    * `monitor_silent_on_model`  the monitor the correspondence check runs on the implementation's
      observations (`PppoeMon.monitorCore`) raises nothing but the recorded finding KF-pppoe-idle-leak when it
      is run on the model's own observations — it asks for nothing the model does not deliver, so a verdict
      on the implementation is a departure from the model, not an artefact of the monitor;
    * `pool_conservation`        free + allocated = pool size, always (C05);
    * `no_residue_without_sweep` with no idle sweep in the history, exactly the sessions that hold an address
      account for the allocated addresses: every termination path (PADT, LCP Terminate, failed PAP) gave the
      address back (C16);
    * `address_is_pool_entry`, `sessions_hold_distinct_addresses`, `held_address_not_free`  (C01) what a session shows
      as its address is the pool's entry for it, no two live sessions hold one address, and a held address is
      never also free;
    * `allocated_accounted`      in general the difference is exactly the number of addressed sessions removed
      by idle sweeps (KF-pppoe-idle-leak, the only leak).
-/
namespace Bng.Spec.C16PppoeWhole
open Bng Bng.PppoeServer Bng.PppoeMon Bng.Proof.PppoeMonitor

theorem monitor_silent_on_model (radius : Bool) (bits : Nat) (ins : List In) :
    ∀ v ∈ runBoth (init radius bits) (initMon radius bits) ins, v.2.1 = "KF-pppoe-idle-leak" :=
  (run_ok (W_init radius bits) (Rel_init radius bits) ins).2.2

theorem total_kept (ins : List In) : ∀ (s : Srv) (mn : Mon), (monAfter s mn ins).total = mn.total := by
  induction ins with
  | nil => intro s mn; rfl
  | cons i rest ih => intro s mn; simp only [monAfter]; rw [ih]; rfl

theorem pool_conservation (radius : Bool) (bits : Nat) (ins : List In) :
    (run (init radius bits) ins).avail.length + (run (init radius bits) ins).alloc.length
      = (poolAddrs bits).length := by
  have h := (run_ok (W_init radius bits) (Rel_init radius bits) ins).2.1.cons
  rw [total_kept] at h
  exact h

/-- number of live sessions that hold an address -/
def holding (s : Srv) : Nat := s.sessions.countP (fun p => p.2.ip.isSome)

theorem allocated_accounted (radius : Bool) (bits : Nat) (ins : List In) :
    (run (init radius bits) ins).alloc.length
      = holding (run (init radius bits) ins) + (monAfter (init radius bits) (initMon radius bits) ins).stranded :=
  (run_ok (W_init radius bits) (Rel_init radius bits) ins).2.1.count

theorem no_residue_without_sweep (radius : Bool) (bits : Nat) (ins : List In) (h : ∀ keep, In.sweep keep ∉ ins) :
    (run (init radius bits) ins).alloc.length = holding (run (init radius bits) ins) := by
  have := allocated_accounted radius bits ins
  rw [stranded_without_sweep _ _ _ h] at this
  exact this

/-- the address a session shows is exactly what the pool records under the session's own key -/
theorem address_is_pool_entry (radius : Bool) (bits : Nat) (ins : List In) (sid : Nat) (x : Sess)
    (hx : AMap.lookup (run (init radius bits) ins).sessions sid = some x) :
    x.ip = AMap.lookup (run (init radius bits) ins).alloc x.serial :=
  (run_ok (W_init radius bits) (Rel_init radius bits) ins).1.ipa sid x hx

/-- (C01) no two live sessions hold the same address, after every history -/
theorem sessions_hold_distinct_addresses (radius : Bool) (bits : Nat) (ins : List In) (sid sid' a : Nat) (x x' : Sess)
    (hx : AMap.lookup (run (init radius bits) ins).sessions sid = some x)
    (hx' : AMap.lookup (run (init radius bits) ins).sessions sid' = some x')
    (ha : x.ip = some a) (ha' : x'.ip = some a) : sid = sid' := by
  have hW := (run_ok (W_init radius bits) (Rel_init radius bits) ins).1
  generalize run (init radius bits) ins = s at *
  have h1 := hW.ipa sid x hx
  have h2 := hW.ipa sid' x' hx'
  rw [ha] at h1; rw [ha'] at h2
  -- the two pool entries carry the same address: the pool's addresses are pairwise distinct, so it is one entry
  have hv : (AMap.vals s.alloc).Nodup := (List.nodup_append.mp hW.pnd).2.1
  have m1 := AMap.mem_of_lookup h1.symm
  have m2 := AMap.mem_of_lookup h2.symm
  have hk : x.serial = x'.serial := by
    have := inj_of_nodup_map (fun (p : Nat × Nat) => p.2) hv m1 m2 rfl
    exact congrArg Prod.fst this
  exact hW.inj sid sid' x x' hx hx' hk

/-- (C01/C05) an address a session holds is not at the same time on the pool's free list -/
theorem held_address_not_free (radius : Bool) (bits : Nat) (ins : List In) (sid a : Nat) (x : Sess)
    (hx : AMap.lookup (run (init radius bits) ins).sessions sid = some x) (ha : x.ip = some a) :
    a ∉ (run (init radius bits) ins).avail := by
  have hW := (run_ok (W_init radius bits) (Rel_init radius bits) ins).1
  generalize run (init radius bits) ins = s at *
  have h1 := hW.ipa sid x hx
  rw [ha] at h1
  have m1 : a ∈ AMap.vals s.alloc := by
    have := AMap.mem_of_lookup h1.symm
    simp only [AMap.vals, List.mem_map]
    exact ⟨_, this, rfl⟩
  intro hmem
  exact (List.nodup_append.mp hW.pnd).2.2 a hmem a m1 rfl

/-- (C01) the server never acknowledges an IPCP Configure-Request that carries an IP-Address option: it answers with a
    Configure-Nak carrying the address it assigned, or — when it could assign none (pool exhausted) — with a
    Configure-Reject; a peer can never pick its own address (which might be another session's).  From ANY state. -/
theorem address_request_never_acknowledged (s : Srv) (m sid : Nat) :
    ∀ o ∈ (step s (.ipcp m sid .creqIp)).2, ∀ sid' m', o ≠ .ipcpack sid' m' := by
  intro o ho sid' m' he
  subst he
  simp only [step] at ho
  split at ho
  · simp at ho
  · split at ho
    · simp at ho
    · rename_i x _ _
      cases hip : x.ip <;> simp [hip] at ho

/-- and what it offers instead is the session's own pool entry -/
theorem address_offer_is_the_assigned_one (s : Srv) (m sid a sid' m' : Nat)
    (h : Out.ipcpnak (some a) sid' m' ∈ (step s (.ipcp m sid .creqIp)).2) :
    ∃ x, ownerGate s m sid = some x ∧ x.ip = some a := by
  simp only [step] at h
  split at h
  · simp at h
  · rename_i x hg
    split at h
    · simp at h
    · cases hip : x.ip with
      | none => simp [hip] at h
      | some b =>
        simp [hip] at h
        exact ⟨x, hg, by rw [hip, h.1]⟩

/-! ### the idle sweep against the clock -/

open Bng.PppoeTimed in
/-- every timed history (frames, hours passing, idle sweeps with a timeout) is a history of the untimed model in which each
    sweep pass keeps exactly the sessions that had traffic within the timeout — so conservation, no-residue, distinct
    addresses and the monitor refinement above hold for timed histories as they are -/
theorem timed_projects (t : TSrv) (tis : List TIn) : (runT t tis).srv = run t.srv (project t tis) := by
  induction tis generalizing t with
  | nil => rfl
  | cons ti rest ih =>
    have h1 : runT t (ti :: rest) = runT (stepT t ti).1 rest := rfl
    rw [h1, ih]
    cases ti with
    | frame i => simp only [project, untimed]; rfl
    | age n => simp only [project, untimed]; rfl
    | sweepT h => simp only [project, untimed]; rfl

open Bng.PppoeTimed in
/-- an idle sweep with a timeout of h hours removes a session iff it has been idle for more than h hours -/
theorem sweep_keeps_exactly_the_active (t : TSrv) (h sid : Nat) (x : Sess)
    (hx : AMap.lookup t.srv.sessions sid = some x) :
    (AMap.lookup (stepT t (.sweepT h)).1.srv.sessions sid = some x ↔ idleOf t sid ≤ h) ∧
    (AMap.lookup (stepT t (.sweepT h)).1.srv.sessions sid = none ↔ h < idleOf t sid) := by
  have hl : AMap.lookup (stepT t (.sweepT h)).1.srv.sessions sid
      = if (keepFor t h).contains sid then AMap.lookup t.srv.sessions sid else none := by
    show AMap.lookup (t.srv.sessions.filter (fun p => (keepFor t h).contains p.1)) sid = _
    exact Bng.Spec.C04.lookup_filter_key (fun k => (keepFor t h).contains k) _ _
  have hk : (keepFor t h).contains sid = true ↔ idleOf t sid ≤ h := by
    rw [List.contains_iff_mem]
    simp only [keepFor, List.mem_map, List.mem_filter, decide_eq_true_eq]
    constructor
    · rintro ⟨p, ⟨_, hp⟩, rfl⟩; exact hp
    · intro hle; exact ⟨(sid, x), ⟨AMap.mem_of_lookup hx, hle⟩, rfl⟩
  rw [hl]
  by_cases hc : (keepFor t h).contains sid = true
  · have := hk.mp hc
    rw [if_pos hc, hx]
    constructor
    · exact ⟨fun _ => this, fun _ => rfl⟩
    · constructor
      · intro e; cases e
      · intro hlt; omega
  · have hn : ¬ idleOf t sid ≤ h := fun e => hc (hk.mpr e)
    rw [if_neg hc]
    constructor
    · constructor
      · intro e; cases e
      · intro e; exact absurd e hn
    · exact ⟨fun _ => by omega, fun _ => rfl⟩

/-- pool of one address: the second authenticated session gets none and its request for the first one's address is rejected -/
example : (step (run (init true 30) [.padr 1 true, .pap 1 1 .good .accept, .padr 2 true, .pap 2 2 .good .accept])
    (.ipcp 2 2 .creqIp)).2 = [.ipcprej 2 2] := by decide

/-! non-vacuity: the monitor does speak — on the sweep — and is silent on an ordinary history -/
example : (runBoth (init true 30) (initMon true 30)
    [.padr 1 true, .pap 1 1 .good .accept, .ipcp 1 1 .creqIp, .sweep []]).map (·.2.1) = ["KF-pppoe-idle-leak"] := by
  decide
example : (runBoth (init true 30) (initMon true 30)
    [.padr 1 true, .pap 1 1 .good .accept, .ipcp 1 1 .cack, .padt 1 1]).length = 0 := by decide
/-- a partial pass of the sweep: the idle session goes (its address stranded), the active one stays with its address -/
example : (runBoth (init true 29) (initMon true 29)
    [.padr 1 true, .pap 1 1 .good .accept, .padr 2 true, .pap 2 2 .good .accept, .sweep [2], .ipcp 2 2 .creqIp]).map (·.2.1)
      = ["KF-pppoe-idle-leak"] := by decide
example : holding (run (init true 29) [.padr 1 true, .pap 1 1 .good .accept, .padr 2 true, .pap 2 2 .good .accept,
    .lcp 1 1 .term]) = 1 := by decide

end Bng.Spec.C16PppoeWhole
