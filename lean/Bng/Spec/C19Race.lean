import Bng.Proof.QosRace
/-
  C19 — "the policy set through the control plane is the one enforced", for control-plane calls that OVERLAP and for
  map writes that FAIL (pkg/qos/manager.go; r-gaps A1, C2, C3).

  SetSubscriberQoS and RemoveSubscriberQoS are three separate writes each (egress bucket, ingress bucket, subscriber
  table).  Until fix 01bf152 nothing serialised two calls: `Race.step false` is that code, and the three witnesses
  below are outcomes no order of the two calls can produce.  Since the fix both methods hold subscribersMu from their
  first write to their last: `Race.step true`; `locked_calls_are_serial` proves for EVERY schedule that both calls
  complete and the state is that of one call after the other.  The harness drives the real manager through the same
  schedules (verif hook c40da54 parks a call between its writes; component `qos`, op `race`).
-/
namespace Bng.Spec.C19Race
open Bng Bng.TokenBucket Bng.QosRace

/-- the split into writes is faithful: the three writes of a call, run without interruption, are the manager call of
    Bng.TokenBucket that the other C19 theorems (policy_enforced, removed_policy_not_enforced, …) speak about -/
theorem run_is_the_manager_call (c : Ctl) (q : QoS) (ip : Bytes) :
    (Call.set q).run c = c.setQoS q ∧ (Call.remove ip).run c = c.remove ip := by
  constructor
  · unfold Call.run Ctl.setQoS setSubscriberQoS
    simp only [Call.write]
  · unfold Call.run Ctl.remove removeSubscriberQoS
    simp only [Call.write]

/-- UNDER THE LOCK (the code since 01bf152): for every control-plane state, every pair of calls (Set/Remove, Set/Set,
    Remove/Remove, same or different subscribers) and EVERY schedule of their writes, both calls run to completion and
    the resulting buckets and subscriber table are exactly those of call A followed by call B, or of B followed by A -/
theorem locked_calls_are_serial (c : Ctl) (a b : Call) (sched : List Bool) :
    (raceRun true c a b sched).pcA = 3 ∧ (raceRun true c a b sched).pcB = 3 ∧
    ((raceRun true c a b sched).ctl = b.run (a.run c) ∨ (raceRun true c a b sched).ctl = a.run (b.run c)) := by
  unfold raceRun
  have h1 : Good a b c (Race.steps true a b { ctl := c } sched) := good_steps a b c sched _ (good_init a b c)
  obtain ⟨hA, hB, hH⟩ := drain_completes a b c _ h1
  exact ⟨hA, hB, serial_after _ h1 drain hA hB hH⟩

/-- a call that had to wait was seen waiting only while the other one held the lock: with the lock, a schedule that
    lets one call finish before the other starts blocks nobody -/
theorem sequential_schedule_blocks_nobody (c : Ctl) (a b : Call) :
    (raceRun true c a b [true, true, true, false, false, false]).blocked = false ∧
    (raceRun true c a b [false, false, false, true, true, true]).blocked = false := by
  constructor <;> simp [raceRun, Race.steps, drain, Race.step, Race.pc]

/-! ### finding KF-qos-unlocked-install (fixed by 01bf152): the same schedules WITHOUT the lock -/

def q1 : QoS := { ip := [10, 0, 0, 5], down := 2000000, up := 700000, burst := 4000, prio := 2 }
def q2 : QoS := { ip := [10, 0, 0, 5], down := 64000, up := 64000, burst := 0, prio := 7 }
def k1 : Bytes := keyBytes [10, 0, 0, 5]

/-- Set E, I ; Remove e, i, t ; Set T: both calls report success, the subscriber table says the subscriber has a
    policy, and there is no bucket in either direction - the policy is not enforced at all.  Neither order of the two
    calls ends like this (after Set;Remove nobody is tracked, after Remove;Set both buckets exist). -/
theorem A1_tracked_without_buckets_witness :
    let r := raceRun false {} (.set q1) (.remove q1.ip) [true, true, false, false, false, true]
    r.pcA = 3 ∧ r.pcB = 3 ∧ AMap.lookup r.ctl.subs k1 = some q1 ∧
    AMap.lookup r.ctl.maps.egress k1 = none ∧ AMap.lookup r.ctl.maps.ingress k1 = none ∧
    r.ctl.count = 1 ∧ ((Call.remove q1.ip).run ((Call.set q1).run {})).count = 0 ∧
    (AMap.lookup ((Call.set q1).run ((Call.remove q1.ip).run {})).maps.egress k1).isSome := by
  decide

/-- Set E ; Remove e, i ; Set I, T ; Remove t: the ingress bucket stays although nobody is tracked - it polices the
    upload of whoever holds the address next until that subscriber's own policy is installed, and RemoveSubscriberQoS
    of the untracked address is the only thing that ever removes it -/
theorem A1_bucket_without_owner_witness :
    let r := raceRun false {} (.set q1) (.remove q1.ip) [true, false, false, true, true, false]
    r.pcA = 3 ∧ r.pcB = 3 ∧ AMap.lookup r.ctl.subs k1 = none ∧ r.ctl.count = 0 ∧
    AMap.lookup r.ctl.maps.egress k1 = none ∧
    AMap.lookup r.ctl.maps.ingress k1 = some (ingressBucket q1).encode := by
  decide

/-- two Sets at once (a policy change racing a re-install): the egress bucket of one policy beside the ingress bucket
    of the other - a combination the control plane never asked for -/
theorem A1_mixed_policies_witness :
    let r := raceRun false {} (.set q1) (.set q2) [true, false, false, true]
    AMap.lookup r.ctl.maps.egress k1 = some (egressBucket q2).encode ∧
    AMap.lookup r.ctl.maps.ingress k1 = some (ingressBucket q1).encode ∧
    (egressBucket q2).rate ≠ (egressBucket q1).rate ∧ (ingressBucket q1).rate ≠ (ingressBucket q2).rate := by
  decide

/-- … and the same three schedules under the lock end as one call after the other -/
example :
    (let r := raceRun true {} (.set q1) (.remove q1.ip) [true, true, false, false, false, true]
     r.ctl.count = 0 ∧ AMap.lookup r.ctl.maps.egress k1 = none ∧ r.blocked = true) ∧
    (let r := raceRun true {} (.set q1) (.set q2) [true, false, false, true]
     AMap.lookup r.ctl.maps.egress k1 = some (egressBucket q2).encode ∧
     AMap.lookup r.ctl.maps.ingress k1 = some (ingressBucket q2).encode) := by
  decide

/-! ### map writes that fail (`wfault`): findings KF-qos-delete-ignored and KF-qos-half-install -/

/-- without a fault the fault-aware calls are the plain ones -/
theorem nofault_is_plain (c : Ctl) (q : QoS) (ip : Bytes) :
    setQoSF {} c q = (c.setQoS q, true) ∧ removeF {} c ip = c.remove ip := by
  obtain ⟨h1, h2⟩ := run_is_the_manager_call c q ip
  constructor
  · simp only [setQoSF, Bool.false_eq_true, if_false, ← h1, Call.run]
  · simp only [removeF, Bool.false_eq_true, if_false, ← h2, Call.run]

/-- known finding KF-qos-delete-ignored: RemoveSubscriberQoS drops the result of its Deletes.  With the egress handle
    write-protected the call reports success and forgets the subscriber, and the egress bucket stays: the "removed"
    policy keeps policing the address (`removed_policy_not_enforced` of Spec.C19 holds for the plain call only). -/
theorem KF_qos_delete_ignored_witness :
    let c := removeF { e := true } ((Ctl.setQoS {} q1)) q1.ip
    c.count = 0 ∧ AMap.lookup c.maps.egress k1 = some (egressBucket q1).encode ∧ AMap.lookup c.maps.ingress k1 = none := by
  decide

/-- known finding KF-qos-half-install: SetSubscriberQoS returns at the failing ingress Put and leaves the egress bucket
    it has just written: an untracked bucket of a policy the control plane was told could not be installed -/
theorem KF_qos_half_install_witness :
    let r := setQoSF { i := true } {} q1
    r.2 = false ∧ r.1.count = 0 ∧ AMap.lookup r.1.maps.egress k1 = some (egressBucket q1).encode ∧
    AMap.lookup r.1.maps.ingress k1 = none := by
  decide

/-- what IS proved about failing writes: a Set whose egress Put fails changes nothing at all; a Remove always forgets
    the subscriber; and with both handles writable again a Remove clears whatever an earlier failure left behind -/
theorem failing_writes_partial (ro : Ro) (c : Ctl) (q : QoS) (ip : Bytes) :
    (ro.e = true → setQoSF ro c q = (c, false)) ∧
    AMap.lookup (removeF ro c ip).subs (keyBytes ip) = none ∧
    (let c' := removeF {} (removeF ro c ip) ip
     AMap.lookup c'.maps.egress (keyBytes ip) = none ∧ AMap.lookup c'.maps.ingress (keyBytes ip) = none) := by
  refine ⟨?_, ?_, ?_⟩
  · intro h; simp [setQoSF, h]
  · simp [removeF, Call.write]
  · simp [removeF, Call.write]

end Bng.Spec.C19Race
