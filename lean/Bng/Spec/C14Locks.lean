import Bng.Proof.LockFacts
/-
  C14 — lock discipline of the failover controller (structural part).

  `Bng.Gen.Locks.locks` is REGENERATED on every run by harness/cmd/extractlocks from the repository's working tree.
  Model/Failover.lean splits executeFailover into phases between which the role-change callback runs unlocked, and
  handles a health event as one atomic step.
-/
namespace Bng.Spec.C14Locks
open Bng.LockFacts

/-- the failover controller: health events are handled in one exclusive section; executeFailover changes state, role
    and epoch only under the lock, and runs the role-change callback with NO lock held (the model's phases) -/
theorem failover_role_change_under_lock_callback_outside :
    oneDeferredSection "ha.FailoverController.handleHealthEvent" "c.mu" ["c.state", "c.currentRole", "c.roleEpoch"] = true ∧
    known "ha.FailoverController.executeFailover" = true ∧
    writesUnderW "ha.FailoverController.executeFailover" ["c.state", "c.currentRole", "c.roleEpoch"] "c.mu" = true ∧
    outside "ha.FailoverController.executeFailover" "c" "onRoleChange" = true := by decide

end Bng.Spec.C14Locks
