import Bng.Proof.TeardownMonitor
/-
  C16 (pppoe.SessionTeardown) — the monitor that judges the real code's observations, against the model.

  `per_session_clauses_silent_on_model`: for EVERY history of creations, terminations by every path, repeated and
  interleaved (held) TerminateSession calls, failed re-authentications and an eBPF-map callback that is made to fail
  (`fault ebpf on|off|once`), the per-session clauses of the monitor (double-stop, double-cleanup, double-padt,
  residue ×2, missing-stop, stop-unstarted, stop-before-end, ebpf-residue) never speak on the model's own observations;
  the only verdicts are the recorded findings KF-pppoe-no-acct-start and KF-pppoe-teardown-ebpf-noretry, and the latter
  needs a failing callback (`ebpf_finding_needs_a_failing_callback`).  So a verdict of one of those clauses on the
  implementation is a departure from the model, not an artefact of the monitor.
  (The `not-terminated` clauses are validated by the runs only.)
-/
namespace Bng.Spec.C16TeardownMon
open Bng Bng.Teardown Bng.TeardownMon Bng.Proof.TeardownMonitor

/-- On every history of the model — terminations by every path, repeated, two at once, with the eBPF-map callback
    failing at any point — the per-session clauses of the monitor raise nothing but the two recorded findings. -/
theorem per_session_clauses_silent_on_model (radius : Bool) (ops : List Op) :
    ∀ v ∈ runPer (init radius) { radius := radius } ops,
      v.2.1 = "KF-pppoe-no-acct-start" ∨ v.2.1 = "KF-pppoe-teardown-ebpf-noretry" :=
  runPer_quiet ops (Bng.Spec.C16Teardown.inv_init radius)
    (by intro k; simp [init, Bng.Spec.C16Teardown.cl, count]) (Rel_init radius)

/-- On histories in which the eBPF-map callback is never made to fail the only verdict is KF-pppoe-no-acct-start:
    the finding KF-pppoe-teardown-ebpf-noretry is never attributed without a failing callback. -/
theorem ebpf_finding_needs_a_failing_callback (radius : Bool) (ops : List Op)
    (hops : ∀ op ∈ ops, ∀ m, op ≠ Op.fault m) :
    ∀ v ∈ runPer (init radius) { radius := radius } ops, v.2.1 = "KF-pppoe-no-acct-start" :=
  runPer_quiet_nofail ops (Bng.Spec.C16Teardown.inv_init radius)
    (by intro k; simp [init, Bng.Spec.C16Teardown.cl, count]) (Rel_init radius)
    ⟨rfl, by intro n; simp [init, count]⟩ hops

/-- what the observation shows for a counter is the model's counter -/
theorem observed_count_is_model_count (m : AMap Nat Nat) (n : Nat) : getCount (countsOf m) n = count m n :=
  get_countsOf m n

/-! non-vacuity: the monitor does speak on the model — the recorded finding, once, when an authenticated session is torn
    down — and is otherwise silent also with two terminations at once -/
example : (runPer (init true) { radius := true }
    [.mk 1 1 true true, .tpark 0 1, .term 1, .padt 1 1, .tresume 0, .term 1, .termAll]).map (·.1)
      = ["stop-without-start"] := by decide
example : runPer (init false) {} [.mk 1 1 true true, .mk 2 2 false false, .authFail 1, .termAll, .term 1] = [] := by decide

/-! non-vacuity with the fault: the failed removal is reported at every later step, as the recorded finding and as
    nothing else; the session whose removal worked is silent -/
example : (runPer (init false) {}
    [.mk 1 1 true true, .mk 2 2 true true, .fault .once, .term 1, .termAll, .padt 1 1]).map (fun v => (v.1, v.2.1))
      = [("ebpf-residue", "KF-pppoe-teardown-ebpf-noretry"), ("ebpf-residue", "KF-pppoe-teardown-ebpf-noretry"),
         ("ebpf-residue", "KF-pppoe-teardown-ebpf-noretry")] := by decide
/-- the monitor is not blind: what the seeded change C16h does (the cleanup stops when the callback fails: address and
    table entry stay, no Stop) is judged `residue` ×2 and `missing-stop` with clause none -/
example : ((perSession true { name := 1, mac := 1, authed := true, hasIp := true }
      { stops := [], ebpf := [], efail := [(1, 1)], fp := [1], padt := [], held := [1], live := [1], parked := false }).map
        (fun v => (v.1, v.2.1)))
      = [("residue", "none"), ("residue", "none"), ("missing-stop", "none"),
         ("ebpf-residue", "KF-pppoe-teardown-ebpf-noretry")] := by decide

end Bng.Spec.C16TeardownMon
