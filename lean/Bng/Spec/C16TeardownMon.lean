import Bng.Proof.TeardownMonitor
/-
  C16 (pppoe.SessionTeardown) — the monitor that judges the real code's observations, against the model.

  `per_session_clauses_silent_on_model`: for EVERY history of creations, terminations by every path, repeated and
  interleaved (held) TerminateSession calls and failed re-authentications, the per-session clauses of the monitor
  (double-stop, double-cleanup, double-padt, residue ×2, missing-stop, stop-unstarted, stop-before-end) never speak on
  the model's own observations; the only verdict is the recorded finding KF-pppoe-no-acct-start.  So a verdict of one of
  those clauses on the implementation is a departure from the model, not an artefact of the monitor.
  (The `not-terminated` clauses are validated by the runs only.)
-/
namespace Bng.Spec.C16TeardownMon
open Bng Bng.Teardown Bng.TeardownMon Bng.Proof.TeardownMonitor

theorem per_session_clauses_silent_on_model (radius : Bool) (ops : List Op) :
    ∀ v ∈ runPer (init radius) { radius := radius } ops, v.2.1 = "KF-pppoe-no-acct-start" :=
  runPer_quiet ops (Bng.Spec.C16Teardown.inv_init radius)
    (by intro k; simp [init, Bng.Spec.C16Teardown.cl, count, AMap.lookup]) (Rel_init radius)

/-- what the observation shows for a counter is the model's counter -/
theorem observed_count_is_model_count (m : AMap Nat Nat) (n : Nat) : getCount (countsOf m) n = count m n :=
  get_countsOf m n

/-! non-vacuity: the monitor does speak on the model — the recorded finding, once, when an authenticated session is torn
    down — and is otherwise silent also with two terminations at once -/
example : (runPer (init true) { radius := true }
    [.mk 1 1 true true, .tpark 0 1, .term 1, .padt 1 1, .tresume 0, .term 1, .termAll]).map (·.1)
      = ["stop-without-start"] := by decide
example : runPer (init false) {} [.mk 1 1 true true, .mk 2 2 false false, .authFail 1, .termAll, .term 1] = [] := by decide

end Bng.Spec.C16TeardownMon
