import Bng.Model.NexusHash
/-
  C12 — "a store write failure leaves memory and store in agreement", for the central allocation of
  pkg/nexus/client.go: AllocateIPForSubscriber / ReleaseSubscriberIP write the subscriber record to the store;
  memory is the client's cache of subscriber records (GetSubscriber, LookupSubscriberIP).

  Property statements only.  Model: Bng.NexusHash.Client (cache and store as two tables; `allocF` / `releaseF` are
  the two calls with the store refusing the write).  The model is tied to the real nexus.Client by the
  `nexusclient` component (fault put on|off, audit).
-/
namespace Bng.Spec.C12Nexus
open Bng Bng.NexusHash

/-- A store write failure leaves memory and store in agreement: after ANY history of provisioning, pool and ISP
    edits, allocations, releases and lookups, each allocation or release with the store accepting or REFUSING the
    write, the client's cache of subscriber records is exactly the set of records in the store. -/
theorem client_cache_agrees_with_store (ops : List Client.Op) :
    (Client.run Client.init ops).subs = (Client.run Client.init ops).store := by
  have h : ∀ (ops : List Client.Op) (s : Client.State), s.subs = s.store →
      (Client.run s ops).subs = (Client.run s ops).store := by
    intro ops
    induction ops with
    | nil => intro s h; exact h
    | cons op ops ih =>
      intro s h
      apply ih
      cases op with
      | pool p c => exact h
      | isp i f => exact h
      | lookup k => exact h
      | sub k p i hh => simp only [Client.step, Client.save, h]
      | alloc k =>
        simp only [Client.step, Client.alloc]
        repeat' split
        all_goals first | exact h | simp only [Client.save, h]
      | release k =>
        simp only [Client.step, Client.release]
        repeat' split
        all_goals first | exact h | simp only [Client.save, h]
      | allocF k =>
        simp only [Client.step, Client.allocF]
        repeat' split
        all_goals exact h
      | releaseF k =>
        simp only [Client.step, Client.releaseF]
        repeat' split
        all_goals exact h
  exact h ops Client.init rfl

/-- A refused write changes nothing and is reported: with the store refusing, AllocateIPForSubscriber leaves
    cache and store as they were, and it answers an address only if the subscriber's record already carried it
    (no write was needed); a newly computed address is an error, never an answer. -/
theorem client_refused_write_changes_nothing (s : Client.State) (k : Nat) :
    (Client.allocF s k).1 = s ∧ (Client.releaseF s k).1 = s ∧
      (∀ a, (Client.allocF s k).2 = .okAddr a →
        ∃ sub, AMap.lookup s.subs k = some sub ∧ sub.addr = some a) := by
  refine ⟨?_, ?_, ?_⟩
  · unfold Client.allocF
    repeat' split
    all_goals rfl
  · unfold Client.releaseF
    repeat' split
    all_goals rfl
  · intro a h
    unfold Client.allocF at h
    split at h
    · simp at h
    · rename_i sub hs
      split at h
      · rename_i a' ha
        simp only [Client.Obs.okAddr.injEq] at h
        exact ⟨sub, hs, by rw [ha, h]⟩
      · split at h
        · simp at h
        · rename_i o hne
          simp only at h
          exact absurd h (hne a)

/-- … so after a refused allocation the subscriber still has no address (it can retry), and after a refused
    release it still has its address — in the cache AND in the store. -/
theorem client_refused_write_keeps_answers (s : Client.State) (k k' : Nat) :
    Client.lookup (Client.allocF s k).1 k' = Client.lookup s k' ∧
      Client.lookup (Client.releaseF s k).1 k' = Client.lookup s k' := by
  obtain ⟨h1, h2, _⟩ := client_refused_write_changes_nothing s k
  rw [h1, h2]; exact ⟨rfl, rfl⟩

/-- The defect fix 08ca96f removed, on the model of the two calls as they WERE (the cached record itself was
    edited before the write): the store refuses s7's allocation — the call reports an error, yet the cache answers
    10.0.0.4 from then on, a later (accepted) AllocateIPForSubscriber returns it WITHOUT writing, and the store
    never carries the address.  The release direction: a refused release clears the cache while the store keeps
    the address. -/
theorem client_unfixed_witness :
    let s := Client.run Client.init [.pool 1 { base := 0x0a000000, ones := 29 }, .sub 7 (some 1) none 12345]
    let u := (Client.allocFUnfixed s 7).1
    (Client.allocFUnfixed s 7).2 = .error ∧ Client.lookup u 7 = .okAddr 0x0a000004 ∧
      (AMap.lookup u.store 7).map (·.addr) = some none ∧
      (Client.alloc u 7).2 = .okAddr 0x0a000004 ∧
      (AMap.lookup (Client.alloc u 7).1.store 7).map (·.addr) = some none ∧
      (let h := (Client.alloc s 7).1
       Client.lookup (Client.releaseFUnfixed h 7).1 7 = .none ∧
         (AMap.lookup (Client.releaseFUnfixed h 7).1.store 7).map (·.addr) = some (some 0x0a000004)) ∧
      -- the code as it is
      Client.lookup (Client.allocF s 7).1 7 = .none ∧ (Client.allocF s 7).2 = .error := by
  decide

/-! non-vacuity: a history with refused and accepted writes -/
example : Client.lookup (Client.run Client.init
    [.pool 1 { base := 0x0a000000, ones := 29 }, .sub 7 (some 1) none 12345, .allocF 7, .alloc 7, .releaseF 7]) 7 =
      .okAddr 0x0a000004 := by decide

end Bng.Spec.C12Nexus
