import Bng.Proof.NcpTables
/-
  C11 — PPP control protocols open only on mutual agreement and always terminate.

  Property statements only, for each of the three automata of /repo/pkg/pppoe (LCP, IPCP, IPv6CP).

  * `Fsm{Lcp,Ipcp,Ipv6cp}.tables` are REGENERATED from the Go source by harness/cmd/extractfsm on every run; the
    model `Bng.Ncp.step` (Bng/Model/Ncp.lean) interprets them.  Every theorem below therefore speaks about the
    transition switch that is in /repo now; the finite facts about the tables are closed by `decide +kernel`
    (Bng/Proof/NcpTables.lean), the rest is induction over the event list, generic in the table.
  * An event list `evs : List Ev` is any interleaving of administrative events, received packets (identifiers and
    option lists arbitrary, option bytes possibly unparseable), restart-timer expiries and STALE expiries
    (`Ev.stale`: the callback of a stopped timer instance runs anyway).
  * Ghost state: `State.our`  = the peer acknowledged the identifier of our most recent Configure-Request
    (set by a Configure-Ack whose identifier equals `lastIdentifier`, cleared whenever a new request is sent);
    `State.peer` = we acknowledged the peer's most recent Configure-Request (set/cleared by the reply to each
    parseable Configure-Request).  Both are cleared by lower-layer Down.
  * All theorems hold for every configuration `c : Cfg` (retry count, option values), including a negative one.
-/
namespace Bng.Spec.C11
open Bng.Ncp Bng.Gen Bng.Proof.NcpTables

def cfgL : Cfg := { proto := .lcp, maxConf := 2 }
def cfgI : Cfg := { proto := .ipcp, maxConf := 2, localIP := some [10, 0, 0, 1], peerIP := some [10, 0, 0, 100] }
def cfg6 : Cfg := { proto := .ipv6cp, maxConf := 2 }

/-! ## LCP -/

/-- LCP reports Opened only while the peer has acknowledged our most recent Configure-Request and we have
    acknowledged the peer's most recent one — after ANY sequence of events, stale timer firings included. -/
theorem lcp_opened_mutual (c : Cfg) (evs : List Ev) :
    (run FsmLcp.tables c (init c) evs).st = .Opened →
      (run FsmLcp.tables c (init c) evs).our = true ∧ (run FsmLcp.tables c (init c) evs).peer = true :=
  opened_mutual_of lcp_inv c evs

/-- From Opened, every renegotiation (a Configure-Request; a Configure-Ack/Nak/Reject carrying the identifier of
    our last request — in each case unless the option bytes are unparseable AND the Go handler returns on a parse
    error, which `Leaving` reads off the generated table), Terminate-Request, Terminate-Ack, lower-layer Down, Close, a Code-Reject of a
    Configure code and a Protocol-Reject of LCP itself leaves Opened — in every state `s`, reachable or not. -/
theorem lcp_leaves_opened (c : Cfg) (s : State) (e : Ev) (hs : s.st = .Opened) (he : Leaving FsmLcp.tables s e) :
    (step FsmLcp.tables c s e).1.st ≠ .Opened :=
  leaves_opened lcp_dispatch lcp_leave c s e hs he

/-- Every reply (Configure-Ack/Nak/Reject, Terminate-Ack, Echo-Reply) sent while handling a packet carries that
    packet's identifier. -/
theorem lcp_reply_echoes_id (c : Cfg) (s : State) (e : Ev) (p : Pkt)
    (hp : p ∈ (step FsmLcp.tables c s e).2.out) (hr : isReplyCode p.code = true) : p.id = (evCtx e).id :=
  reply_echoes_id _ c s e p hp hr

/-- A Configure-Ack repeats the option list of the request it answers, unchanged and in order. -/
theorem lcp_ack_repeats_options (c : Cfg) (s : State) (e : Ev) (p : Pkt)
    (hp : p ∈ (step FsmLcp.tables c s e).2.out) (hk : p.code = cCA) : p.opts = (evCtx e).opts :=
  ack_repeats_options _ c s e p hp hk

/-- A Configure-Reject lists, in order, only options of the request, each of them unsupported; every option of a
    Configure-Nak replaces an option of the request that is negotiable but unacceptable, with the same type. -/
theorem lcp_nak_rej_only_offending (c : Cfg) (s : State) (e : Ev) (p : Pkt)
    (hp : p ∈ (step FsmLcp.tables c s e).2.out) :
    (p.code = cCJ → p.opts.Sublist (evCtx e).opts ∧ ∀ o ∈ p.opts, unsupported (effCfg c s) o) ∧
    (p.code = cCN → ∀ n ∈ p.opts, ∃ o ∈ (evCtx e).opts, nakable (effCfg c s) o ∧ n.ty = o.ty) :=
  nak_rej_only_offending _ c s e p hp

/-- Against a silent peer (nothing but expiries of the armed restart timer) the automaton falls quiet: from any
    reachable state, after at most `MaxConfigure + 1` expiries no timer is armed any more — so at most
    `MaxConfigure` retransmissions are sent.  Variant: the restart counter.  (That it also leaves the timer-driven
    states is `lcp_silent_peer_stops_partial`.) -/
theorem lcp_silent_peer_quiet (c : Cfg) (evs : List Ev) :
    ∃ n, n ≤ (max (initRc c) 0).toNat + 1 ∧
      (timeouts FsmLcp.tables c (run FsmLcp.tables c (init c) evs) n).armed = false :=
  silent_peer_stops_of lcp_to c evs

/-- Pinned table fact: in the Go source as it is now, stopTimer() before the state switch occurs only in the five
    receive handlers that finding KF-ncp-timer-stopped-early names (and in Down); in particular not in
    receiveConfigureRequest.  The monitor attributes "waiting without a timer" to that finding only after one of those
    five handlers ran; a new early stopTimer() elsewhere breaks this obligation. -/
theorem lcp_stoptimer_only_in_named_handlers : GoodStops FsmLcp.tables = true := by decide +kernel

/-- PARTIAL (finding KF-ncp-timer-stopped-early).  Full property: against a silent peer the automaton not only falls
    quiet but STOPS, i.e. leaves the timer-driven states.  Proved: if at the moment the peer falls silent the automaton
    is not already waiting without a timer (`WaitOk`: in Closing/Stopping/Req-Sent/Ack-Rcvd/Ack-Sent the restart timer
    is armed), then after at most `MaxConfigure + 1` expiries no timer is armed and the state is none of those five.  What is
    missing is exactly the excluded region: the receive handlers call stopTimer() BEFORE their state switch, so a
    packet that does not move the automaton out of a timer-driven state leaves it there with no timer
    (`lcp_KF_timer_stopped_early_witness`). -/
theorem lcp_silent_peer_stops_partial (c : Cfg) (evs : List Ev) (h0 : WaitOk (run FsmLcp.tables c (init c) evs)) :
    ∃ n, n ≤ (max (initRc c) 0).toNat + 1 ∧
      (timeouts FsmLcp.tables c (run FsmLcp.tables c (init c) evs) n).armed = false ∧
      waiting (timeouts FsmLcp.tables c (run FsmLcp.tables c (init c) evs) n).st = false :=
  silent_peer_stops_partial_of lcp_to lcp_wait c evs h0

/-- The defect, on the model of the code as it is: after Open, Up and the peer's Configure-Ack the automaton sits in
    Ack-Rcvd with the restart timer stopped (RFC 1661 keeps it running there); `WaitOk` fails, and against a peer that
    says nothing more it stays in Ack-Rcvd however many timer expiries are delivered. -/
theorem lcp_KF_timer_stopped_early_witness :
    ¬ WaitOk (run FsmLcp.tables cfgL (init cfgL) [.open, .up, .rca 1]) ∧
    ∀ n, (timeouts FsmLcp.tables cfgL (run FsmLcp.tables cfgL (init cfgL) [.open, .up, .rca 1]) n).st = .AckRcvd := by
  have ha : (run FsmLcp.tables cfgL (init cfgL) [.open, .up, .rca 1]).armed = false := by decide +kernel
  have hs : (run FsmLcp.tables cfgL (init cfgL) [.open, .up, .rca 1]).st = .AckRcvd := by decide +kernel
  refine ⟨?_, fun n => by rw [timeouts_unarmed _ _ _ ha n]; exact hs⟩
  intro h
  have := h (by rw [hs]; rfl)
  rw [ha] at this
  cases this

/-! ## IPCP -/

/-- as `lcp_opened_mutual`, for the IPCP automaton -/
theorem ipcp_opened_mutual (c : Cfg) (evs : List Ev) :
    (run FsmIpcp.tables c (init c) evs).st = .Opened →
      (run FsmIpcp.tables c (init c) evs).our = true ∧ (run FsmIpcp.tables c (init c) evs).peer = true :=
  opened_mutual_of ipcp_inv c evs

/-- as `lcp_leaves_opened`, for the IPCP automaton (Code-Reject and Protocol-Reject are not IPCP events) -/
theorem ipcp_leaves_opened (c : Cfg) (s : State) (e : Ev) (hs : s.st = .Opened) (he : Leaving FsmIpcp.tables s e) :
    (step FsmIpcp.tables c s e).1.st ≠ .Opened :=
  leaves_opened ipcp_dispatch ipcp_leave c s e hs he

/-- as `lcp_reply_echoes_id` -/
theorem ipcp_reply_echoes_id (c : Cfg) (s : State) (e : Ev) (p : Pkt)
    (hp : p ∈ (step FsmIpcp.tables c s e).2.out) (hr : isReplyCode p.code = true) : p.id = (evCtx e).id :=
  reply_echoes_id _ c s e p hp hr

/-- as `lcp_ack_repeats_options` -/
theorem ipcp_ack_repeats_options (c : Cfg) (s : State) (e : Ev) (p : Pkt)
    (hp : p ∈ (step FsmIpcp.tables c s e).2.out) (hk : p.code = cCA) : p.opts = (evCtx e).opts :=
  ack_repeats_options _ c s e p hp hk

/-- as `lcp_nak_rej_only_offending` -/
theorem ipcp_nak_rej_only_offending (c : Cfg) (s : State) (e : Ev) (p : Pkt)
    (hp : p ∈ (step FsmIpcp.tables c s e).2.out) :
    (p.code = cCJ → p.opts.Sublist (evCtx e).opts ∧ ∀ o ∈ p.opts, unsupported (effCfg c s) o) ∧
    (p.code = cCN → ∀ n ∈ p.opts, ∃ o ∈ (evCtx e).opts, nakable (effCfg c s) o ∧ n.ty = o.ty) :=
  nak_rej_only_offending _ c s e p hp

/-- After ANY history (Up/Down cycles with pool allocation and release, SetPeerIP, changing pool answers, packets,
    timers) IPCP acknowledges an IP-Address option only if it carries the address assigned to the session at that
    moment: the configured one, the one set by SetPeerIP, or the one the pool handed out and that has not been
    released since (`State.assigned`, ghost).  With nothing assigned it acknowledges none. -/
theorem ipcp_acks_only_assigned (c : Cfg) (hc : c.proto = .ipcp) (evs : List Ev) (e : Ev) (p : Pkt)
    (hp : p ∈ (step FsmIpcp.tables c (run FsmIpcp.tables c (init c) evs) e).2.out) (hk : p.code = cCA) :
    ∀ o ∈ p.opts, o.ty = 3 → (run FsmIpcp.tables c (init c) evs).assigned = some o.data :=
  Bng.Ncp.ipcp_acks_only_assigned _ c hc evs e p hp hk

/-- as `lcp_silent_peer_quiet`, with `MaxRetransmit` (0 meaning 10) -/
theorem ipcp_silent_peer_quiet (c : Cfg) (evs : List Ev) :
    ∃ n, n ≤ (max (initRc c) 0).toNat + 1 ∧
      (timeouts FsmIpcp.tables c (run FsmIpcp.tables c (init c) evs) n).armed = false :=
  silent_peer_stops_of ipcp_to c evs

/-- Pinned table fact: in the Go source as it is now, stopTimer() before the state switch occurs only in the five
    receive handlers that finding KF-ncp-timer-stopped-early names (and in Down); in particular not in
    receiveConfigureRequest.  The monitor attributes "waiting without a timer" to that finding only after one of those
    five handlers ran; a new early stopTimer() elsewhere breaks this obligation. -/
theorem ipcp_stoptimer_only_in_named_handlers : GoodStops FsmIpcp.tables = true := by decide +kernel

/-- PARTIAL (finding KF-ncp-timer-stopped-early).  Full property: against a silent peer the automaton not only falls
    quiet but STOPS, i.e. leaves the timer-driven states.  Proved: if at the moment the peer falls silent the automaton
    is not already waiting without a timer (`WaitOk`: in Closing/Stopping/Req-Sent/Ack-Rcvd/Ack-Sent the restart timer
    is armed), then after at most `MaxRetransmit + 1` expiries no timer is armed and the state is none of those five.  What is
    missing is exactly the excluded region: the receive handlers call stopTimer() BEFORE their state switch, so a
    packet that does not move the automaton out of a timer-driven state leaves it there with no timer
    (`ipcp_KF_timer_stopped_early_witness`). -/
theorem ipcp_silent_peer_stops_partial (c : Cfg) (evs : List Ev) (h0 : WaitOk (run FsmIpcp.tables c (init c) evs)) :
    ∃ n, n ≤ (max (initRc c) 0).toNat + 1 ∧
      (timeouts FsmIpcp.tables c (run FsmIpcp.tables c (init c) evs) n).armed = false ∧
      waiting (timeouts FsmIpcp.tables c (run FsmIpcp.tables c (init c) evs) n).st = false :=
  silent_peer_stops_partial_of ipcp_to ipcp_wait c evs h0

/-- The defect, on the model of the code as it is: after Open, Up and the peer's Configure-Ack the automaton sits in
    Ack-Rcvd with the restart timer stopped (RFC 1661 keeps it running there); `WaitOk` fails, and against a peer that
    says nothing more it stays in Ack-Rcvd however many timer expiries are delivered. -/
theorem ipcp_KF_timer_stopped_early_witness :
    ¬ WaitOk (run FsmIpcp.tables cfgI (init cfgI) [.open, .up, .rca 1]) ∧
    ∀ n, (timeouts FsmIpcp.tables cfgI (run FsmIpcp.tables cfgI (init cfgI) [.open, .up, .rca 1]) n).st = .AckRcvd := by
  have ha : (run FsmIpcp.tables cfgI (init cfgI) [.open, .up, .rca 1]).armed = false := by decide +kernel
  have hs : (run FsmIpcp.tables cfgI (init cfgI) [.open, .up, .rca 1]).st = .AckRcvd := by decide +kernel
  refine ⟨?_, fun n => by rw [timeouts_unarmed _ _ _ ha n]; exact hs⟩
  intro h
  have := h (by rw [hs]; rfl)
  rw [ha] at this
  cases this

/-! ## IPv6CP -/

/-- as `lcp_opened_mutual`, for the IPv6CP automaton -/
theorem ipv6cp_opened_mutual (c : Cfg) (evs : List Ev) :
    (run FsmIpv6cp.tables c (init c) evs).st = .Opened →
      (run FsmIpv6cp.tables c (init c) evs).our = true ∧ (run FsmIpv6cp.tables c (init c) evs).peer = true :=
  opened_mutual_of ipv6cp_inv c evs

/-- as `ipcp_leaves_opened` -/
theorem ipv6cp_leaves_opened (c : Cfg) (s : State) (e : Ev) (hs : s.st = .Opened) (he : Leaving FsmIpv6cp.tables s e) :
    (step FsmIpv6cp.tables c s e).1.st ≠ .Opened :=
  leaves_opened ipv6cp_dispatch ipv6cp_leave c s e hs he

/-- as `lcp_reply_echoes_id` -/
theorem ipv6cp_reply_echoes_id (c : Cfg) (s : State) (e : Ev) (p : Pkt)
    (hp : p ∈ (step FsmIpv6cp.tables c s e).2.out) (hr : isReplyCode p.code = true) : p.id = (evCtx e).id :=
  reply_echoes_id _ c s e p hp hr

/-- as `lcp_ack_repeats_options` -/
theorem ipv6cp_ack_repeats_options (c : Cfg) (s : State) (e : Ev) (p : Pkt)
    (hp : p ∈ (step FsmIpv6cp.tables c s e).2.out) (hk : p.code = cCA) : p.opts = (evCtx e).opts :=
  ack_repeats_options _ c s e p hp hk

/-- as `lcp_nak_rej_only_offending` -/
theorem ipv6cp_nak_rej_only_offending (c : Cfg) (s : State) (e : Ev) (p : Pkt)
    (hp : p ∈ (step FsmIpv6cp.tables c s e).2.out) :
    (p.code = cCJ → p.opts.Sublist (evCtx e).opts ∧ ∀ o ∈ p.opts, unsupported (effCfg c s) o) ∧
    (p.code = cCN → ∀ n ∈ p.opts, ∃ o ∈ (evCtx e).opts, nakable (effCfg c s) o ∧ n.ty = o.ty) :=
  nak_rej_only_offending _ c s e p hp

/-- as `ipcp_silent_peer_quiet` -/
theorem ipv6cp_silent_peer_quiet (c : Cfg) (evs : List Ev) :
    ∃ n, n ≤ (max (initRc c) 0).toNat + 1 ∧
      (timeouts FsmIpv6cp.tables c (run FsmIpv6cp.tables c (init c) evs) n).armed = false :=
  silent_peer_stops_of ipv6cp_to c evs

/-- Pinned table fact: in the Go source as it is now, stopTimer() before the state switch occurs only in the five
    receive handlers that finding KF-ncp-timer-stopped-early names (and in Down); in particular not in
    receiveConfigureRequest.  The monitor attributes "waiting without a timer" to that finding only after one of those
    five handlers ran; a new early stopTimer() elsewhere breaks this obligation. -/
theorem ipv6cp_stoptimer_only_in_named_handlers : GoodStops FsmIpv6cp.tables = true := by decide +kernel

/-- PARTIAL (finding KF-ncp-timer-stopped-early).  Full property: against a silent peer the automaton not only falls
    quiet but STOPS, i.e. leaves the timer-driven states.  Proved: if at the moment the peer falls silent the automaton
    is not already waiting without a timer (`WaitOk`: in Closing/Stopping/Req-Sent/Ack-Rcvd/Ack-Sent the restart timer
    is armed), then after at most `MaxRetransmit + 1` expiries no timer is armed and the state is none of those five.  What is
    missing is exactly the excluded region: the receive handlers call stopTimer() BEFORE their state switch, so a
    packet that does not move the automaton out of a timer-driven state leaves it there with no timer
    (`ipv6cp_KF_timer_stopped_early_witness`). -/
theorem ipv6cp_silent_peer_stops_partial (c : Cfg) (evs : List Ev) (h0 : WaitOk (run FsmIpv6cp.tables c (init c) evs)) :
    ∃ n, n ≤ (max (initRc c) 0).toNat + 1 ∧
      (timeouts FsmIpv6cp.tables c (run FsmIpv6cp.tables c (init c) evs) n).armed = false ∧
      waiting (timeouts FsmIpv6cp.tables c (run FsmIpv6cp.tables c (init c) evs) n).st = false :=
  silent_peer_stops_partial_of ipv6cp_to ipv6cp_wait c evs h0

/-- The defect, on the model of the code as it is: after Open, Up and the peer's Configure-Ack the automaton sits in
    Ack-Rcvd with the restart timer stopped (RFC 1661 keeps it running there); `WaitOk` fails, and against a peer that
    says nothing more it stays in Ack-Rcvd however many timer expiries are delivered. -/
theorem ipv6cp_KF_timer_stopped_early_witness :
    ¬ WaitOk (run FsmIpv6cp.tables cfg6 (init cfg6) [.open, .up, .rca 1]) ∧
    ∀ n, (timeouts FsmIpv6cp.tables cfg6 (run FsmIpv6cp.tables cfg6 (init cfg6) [.open, .up, .rca 1]) n).st = .AckRcvd := by
  have ha : (run FsmIpv6cp.tables cfg6 (init cfg6) [.open, .up, .rca 1]).armed = false := by decide +kernel
  have hs : (run FsmIpv6cp.tables cfg6 (init cfg6) [.open, .up, .rca 1]).st = .AckRcvd := by decide +kernel
  refine ⟨?_, fun n => by rw [timeouts_unarmed _ _ _ ha n]; exact hs⟩
  intro h
  have := h (by rw [hs]; rfl)
  rw [ha] at this
  cases this

/-! ## non-vacuity: Opened is reachable, replies are sent, the timer does get armed -/


/-- the ordinary handshake reaches Opened, in both orders -/
example : (run FsmLcp.tables cfgL (init cfgL) [.open, .up, .rcr 7 [⟨1, [5, 212], .conc⟩] false, .rca 1]).st = .Opened := by
  decide +kernel
example : (run FsmIpcp.tables cfgI (init cfgI) [.open, .up, .rca 1, .rcr 7 [⟨3, [10, 0, 0, 100], .conc⟩] false]).st = .Opened := by
  decide +kernel
example : (run FsmIpv6cp.tables cfg6 (init cfg6) [.up, .open, .rcr 0 [⟨1, [2, 0, 0, 0, 0, 0, 0, 9], .conc⟩] false, .rca 1]).st = .Opened := by
  decide +kernel

/-- the event sequence that opened the link without agreement before the repair of `timeout()` (D36): a stale
    expiry in Ack-Rcvd now goes back to Req-Sent, and the Configure-Request does not open the link -/
example : (run FsmLcp.tables cfgL (init cfgL) [.up, .open, .rca 1, .stale, .rcr 1 [] false]).st = .AckSent := by
  decide +kernel

/-- an acceptable request is acknowledged with its own options; an address that is not the assigned one is not -/
example : (step FsmIpcp.tables cfgI (init cfgI) (.rcr 9 [⟨3, [10, 0, 0, 100], .conc⟩] false)).2.out =
    [{ code := cCA, id := 9, opts := [⟨3, [10, 0, 0, 100], .conc⟩] }] := by decide +kernel
example : (step FsmIpcp.tables { cfgI with peerIP := none } (init { cfgI with peerIP := none })
      (.rcr 9 [⟨3, [10, 0, 0, 100], .conc⟩] false)).2.out =
    [{ code := cCJ, id := 9, opts := [⟨3, [10, 0, 0, 100], .conc⟩] }] := by decide +kernel

def cfgP : Cfg := { proto := .ipcp, maxConf := 2, localIP := some [10, 0, 0, 1], pool := true }

/-- with a pool: the allocated address is acknowledged while it is held; after Down released it the same request is
    answered with the newly allocated address (the sequence that made IPCP acknowledge a released address before
    the repair of Down()) -/
example : (step FsmIpcp.tables cfgP (run FsmIpcp.tables cfgP (init cfgP) [.poolNext (some [10, 77, 0, 2]), .open, .up])
      (.rcr 1 [⟨3, [10, 77, 0, 2], .conc⟩] false)).2.out = [{ code := cCA, id := 1, opts := [⟨3, [10, 77, 0, 2], .conc⟩] }] := by
  decide +kernel
example : (step FsmIpcp.tables cfgP
      (run FsmIpcp.tables cfgP (init cfgP) [.poolNext (some [10, 77, 0, 2]), .open, .up, .down, .poolNext (some [10, 77, 0, 3]), .up])
      (.rcr 1 [⟨3, [10, 77, 0, 2], .conc⟩] false)).2.out = [{ code := cCN, id := 1, opts := [⟨3, [10, 77, 0, 3], .conc⟩] }] := by
  decide +kernel

/-- a matching Configure-Nak with unparseable options leaves Opened in IPv6CP (lax parsing), which `Leaving` admits -/
example : Leaving FsmIpv6cp.tables (run FsmIpv6cp.tables cfg6 (init cfg6) [.up, .open, .rcr 0 [] false, .rca 1]) (.rcn 1 [] true) :=
  ⟨by decide +kernel, Or.inr (by decide +kernel)⟩

/-- against a silent peer LCP with MaxConfigure = 2 sends the request twice and stops at the second expiry -/
example : (timeouts FsmLcp.tables cfgL (run FsmLcp.tables cfgL (init cfgL) [.open, .up]) 1).armed = true ∧
    (timeouts FsmLcp.tables cfgL (run FsmLcp.tables cfgL (init cfgL) [.open, .up]) 2).armed = false ∧
    (timeouts FsmLcp.tables cfgL (run FsmLcp.tables cfgL (init cfgL) [.open, .up]) 2).st = .Stopped := by
  decide +kernel

/-- the hypothesis of `lcp_leaves_opened` is satisfiable -/
example : Leaving FsmLcp.tables (run FsmLcp.tables cfgL (init cfgL) [.open, .up, .rcr 7 [] false, .rca 1]) (.rtr 3) := trivial

/-- the hypothesis of the `_silent_peer_stops_partial` theorems holds e.g. right after Open, Up: then two expiries
    lead to Stopped with no timer armed -/
example : WaitOk (run FsmLcp.tables cfgL (init cfgL) [.open, .up]) := fun _ => by decide +kernel

end Bng.Spec.C11
