/-
  A tiny "C / eBPF semantics" layer for the packet programs under /repo/bpf (core Lean only).

  * a frame is `List UInt8`; `data = 0`, `data_end = frame.length`.  Pointer values of the C code are
    modelled as byte offsets from `data` (`Nat`: the programs only ever add small constants and a 4-bit
    IHL, so 64-bit pointer arithmetic cannot wrap).
  * every packet access goes through `ldBytes` / `stBytes` (and the `ld8/16/32`, `st8/16/32`, `memset`
    wrappers), which return `Except.error (Fault.oob …)` when `off + n > data_end`.  A program model that
    follows the C text therefore faults exactly where the C program would touch a byte outside the
    packet; "memory safe" is `∀ frame …, (run frame …).isOk`.
  * integers keep their machine type (`UInt8/16/32/64`, C wrap-around); the host is little-endian as on
    the deployment target (x86-64 / the BPF target the Makefile builds for): a `__u16`/`__u32` load
    assembles the bytes least-significant first.  Byte order conversions are explicit (`bswap16/32`,
    `htons = ntohs = bswap16`, `htonl = ntohl = bswap32`).
  * map values are byte strings (`List UInt8`) read with the total accessors `rd8/16/32/64`
    (a kernel map hands out exactly `value_size` bytes; reading a field is not a packet access).
-/
namespace Bng.C

abbrev Frame := List UInt8

inductive Fault where
  /-- access of `n` bytes at offset `off` in a packet of `size` bytes with `off + n > size` -/
  | oob (off n size : Nat)
  deriving Repr, DecidableEq

/-- the fault monad of packet programs -/
abbrev M := Except Fault

def M.isOk {α} : M α → Bool
  | .ok _ => true
  | .error _ => false

@[simp] theorem M.isOk_ok {α} (a : α) : M.isOk (.ok a : M α) = true := rfl
@[simp] theorem M.isOk_error {α} (e : Fault) : M.isOk (.error e : M α) = false := rfl

/-! ### verdicts -/
def XDP_ABORTED : Nat := 0
def XDP_DROP : Nat := 1
def XDP_PASS : Nat := 2
def XDP_TX : Nat := 3
def XDP_REDIRECT : Nat := 4
def TC_ACT_OK : Nat := 0
def TC_ACT_SHOT : Nat := 2

/-! ### integers and byte order -/

/-- byte swap of a 16-bit value: `(x << 8) | (x >> 8)`, written arithmetically (low byte becomes high byte) -/
def bswap16 (x : UInt16) : UInt16 := UInt16.ofNat (x.toNat % 256 * 256 + x.toNat / 256)
/-- byte swap of a 32-bit value (`__builtin_bswap32`), written arithmetically -/
def bswap32 (x : UInt32) : UInt32 :=
  UInt32.ofNat (x.toNat % 256 * 16777216 + x.toNat / 256 % 256 * 65536 + x.toNat / 65536 % 256 * 256 + x.toNat / 16777216)
def htons := bswap16
def ntohs := bswap16
def htonl := bswap32
def ntohl := bswap32

/-- little-endian value of a byte string (host loads) -/
def leNat : List UInt8 → Nat
  | [] => 0
  | b :: rest => b.toNat + 256 * leNat rest

/-- little-endian bytes of a value on `n` bytes (host stores) -/
def leBytes : (n : Nat) → Nat → List UInt8
  | 0, _ => []
  | n + 1, v => UInt8.ofNat (v % 256) :: leBytes n (v / 256)

@[simp] theorem leBytes_length (n v : Nat) : (leBytes n v).length = n := by
  induction n generalizing v with
  | zero => rfl
  | succ n ih => simp [leBytes, ih]

/-! ### checked packet access -/

/-- the `n` bytes at `off` (total; short when the frame ends earlier) -/
def bytesAt (f : Frame) (off n : Nat) : List UInt8 := (f.drop off).take n

/-- load `n` bytes at `off` -/
def ldBytes (f : Frame) (off n : Nat) : M (List UInt8) :=
  if off + n ≤ f.length then .ok (bytesAt f off n) else .error (.oob off n f.length)

/-- store the bytes `bs` at `off` -/
def stBytes (f : Frame) (off : Nat) (bs : List UInt8) : M Frame :=
  if off + bs.length ≤ f.length then .ok (f.take off ++ bs ++ f.drop (off + bs.length))
  else .error (.oob off bs.length f.length)

def ld8 (f : Frame) (off : Nat) : M UInt8 := do
  let bs ← ldBytes f off 1
  pure (UInt8.ofNat (leNat bs))

def ld16 (f : Frame) (off : Nat) : M UInt16 := do
  let bs ← ldBytes f off 2
  pure (UInt16.ofNat (leNat bs))

def ld32 (f : Frame) (off : Nat) : M UInt32 := do
  let bs ← ldBytes f off 4
  pure (UInt32.ofNat (leNat bs))

def st8 (f : Frame) (off : Nat) (v : UInt8) : M Frame := stBytes f off [v]
def st16 (f : Frame) (off : Nat) (v : UInt16) : M Frame := stBytes f off (leBytes 2 v.toNat)
def st32 (f : Frame) (off : Nat) (v : UInt32) : M Frame := stBytes f off (leBytes 4 v.toNat)

/-- `__builtin_memset(p, c, n)` on packet memory -/
def memset (f : Frame) (off : Nat) (c : UInt8) (n : Nat) : M Frame := stBytes f off (List.replicate n c)

/-! ### map values (total accessors) -/

def rdBytes (v : List UInt8) (off n : Nat) : List UInt8 :=
  let bs := (v.drop off).take n
  bs ++ List.replicate (n - bs.length) 0

def rd8 (v : List UInt8) (off : Nat) : UInt8 := v.getD off 0
def rd16 (v : List UInt8) (off : Nat) : UInt16 := UInt16.ofNat (leNat (rdBytes v off 2))
def rd32 (v : List UInt8) (off : Nat) : UInt32 := UInt32.ofNat (leNat (rdBytes v off 4))
def rd64 (v : List UInt8) (off : Nat) : UInt64 := UInt64.ofNat (leNat (rdBytes v off 8))

/-! ### the facts the safety proofs run on -/

@[simp] theorem bytesAt_length (f : Frame) (off n : Nat) :
    (bytesAt f off n).length = min n (f.length - off) := by
  simp [bytesAt, List.length_take, List.length_drop]

theorem ldBytes_ok {f : Frame} {off n : Nat} (h : off + n ≤ f.length) :
    ldBytes f off n = .ok (bytesAt f off n) := by
  simp [ldBytes, h]

theorem stBytes_ok {f : Frame} {off : Nat} {bs : List UInt8} (h : off + bs.length ≤ f.length) :
    stBytes f off bs = .ok (f.take off ++ bs ++ f.drop (off + bs.length)) := by
  simp [stBytes, h]

theorem ld8_ok {f : Frame} {off : Nat} (h : off + 1 ≤ f.length) :
    ld8 f off = .ok (UInt8.ofNat (leNat (bytesAt f off 1))) := by
  simp [ld8, ldBytes_ok h]; rfl

theorem ld16_ok {f : Frame} {off : Nat} (h : off + 2 ≤ f.length) :
    ld16 f off = .ok (UInt16.ofNat (leNat (bytesAt f off 2))) := by
  simp [ld16, ldBytes_ok h]; rfl

theorem ld32_ok {f : Frame} {off : Nat} (h : off + 4 ≤ f.length) :
    ld32 f off = .ok (UInt32.ofNat (leNat (bytesAt f off 4))) := by
  simp [ld32, ldBytes_ok h]; rfl

/-- the frame after a successful store (total form used in statements: a store that does not fit leaves
    the frame alone, so the length is preserved unconditionally) -/
def splice (f : Frame) (off : Nat) (bs : List UInt8) : Frame :=
  if off + bs.length ≤ f.length then f.take off ++ bs ++ f.drop (off + bs.length) else f

theorem splice_eq {f : Frame} {off : Nat} {bs : List UInt8} (h : off + bs.length ≤ f.length) :
    splice f off bs = f.take off ++ bs ++ f.drop (off + bs.length) := by
  simp [splice, h]

theorem stBytes_eq_splice {f : Frame} {off : Nat} {bs : List UInt8} (h : off + bs.length ≤ f.length) :
    stBytes f off bs = .ok (splice f off bs) := by
  rw [splice_eq h]; exact stBytes_ok h

@[simp] theorem splice_length' (f : Frame) (off : Nat) (bs : List UInt8) :
    (splice f off bs).length = f.length := by
  unfold splice
  split
  · simp [List.length_take, List.length_drop]; omega
  · rfl

theorem splice_length {f : Frame} {off : Nat} {bs : List UInt8} (_h : off + bs.length ≤ f.length) :
    (splice f off bs).length = f.length := splice_length' f off bs

theorem st8_ok {f : Frame} {off : Nat} {v : UInt8} (h : off + 1 ≤ f.length) :
    st8 f off v = .ok (splice f off [v]) := by
  unfold st8; exact stBytes_eq_splice (by simpa using h)

theorem st16_ok {f : Frame} {off : Nat} {v : UInt16} (h : off + 2 ≤ f.length) :
    st16 f off v = .ok (splice f off (leBytes 2 v.toNat)) := by
  unfold st16; exact stBytes_eq_splice (by simpa using h)

theorem st32_ok {f : Frame} {off : Nat} {v : UInt32} (h : off + 4 ≤ f.length) :
    st32 f off v = .ok (splice f off (leBytes 4 v.toNat)) := by
  unfold st32; exact stBytes_eq_splice (by simpa using h)

theorem memset_ok {f : Frame} {off n : Nat} {c : UInt8} (h : off + n ≤ f.length) :
    memset f off c n = .ok (splice f off (List.replicate n c)) := by
  unfold memset; exact stBytes_eq_splice (by simpa using h)

/-- byte `i` of a spliced frame -/
theorem getElem?_splice {f : Frame} {off : Nat} {bs : List UInt8} (hs : off + bs.length ≤ f.length) (i : Nat) :
    (splice f off bs)[i]? = if i < off then f[i]? else if i < off + bs.length then bs[i - off]? else f[i]? := by
  have h1 : (f.take off).length = off := by simp [List.length_take]; omega
  rw [splice_eq hs]
  by_cases c1 : i < off
  · simp only [c1, if_true]
    rw [List.append_assoc, List.getElem?_append_left (by omega)]
    simp [c1]
  · simp only [c1, if_false]
    rw [List.append_assoc, List.getElem?_append_right (by omega), h1]
    by_cases c2 : i < off + bs.length
    · simp only [c2, if_true]
      rw [List.getElem?_append_left (by omega)]
    · simp only [c2, if_false]
      rw [List.getElem?_append_right (by omega), List.getElem?_drop]
      congr 1
      omega

/-- bytes read back from a spliced frame: a window that does not overlap the store is unchanged -/
theorem bytesAt_splice_disjoint {f : Frame} {off : Nat} {bs : List UInt8} {o n : Nat}
    (hs : off + bs.length ≤ f.length) (hd : o + n ≤ off ∨ off + bs.length ≤ o) :
    bytesAt (splice f off bs) o n = bytesAt f o n := by
  apply List.ext_getElem?
  intro i
  simp only [bytesAt, List.getElem?_take, List.getElem?_drop]
  by_cases hi : i < n
  · simp only [hi, if_true]
    rw [getElem?_splice hs]
    rcases hd with hd | hd
    · have : o + i < off := by omega
      simp [this]
    · have c1 : ¬ o + i < off := by omega
      have c2 : ¬ o + i < off + bs.length := by omega
      simp [c1, c2]
  · simp [hi]

/-- the window exactly covering the store reads the stored bytes -/
theorem bytesAt_splice_same {f : Frame} {off : Nat} {bs : List UInt8}
    (hs : off + bs.length ≤ f.length) :
    bytesAt (splice f off bs) off bs.length = bs := by
  have h1 : (f.take off).length = off := by simp [List.length_take]; omega
  rw [splice_eq hs]
  simp only [bytesAt, List.append_assoc]
  rw [List.drop_append_of_le_length (by omega)]
  rw [List.drop_eq_nil_of_le (by omega)]
  simp



/-! ### byte order facts -/

theorem leBytes2_eq (v : Nat) : leBytes 2 v = [UInt8.ofNat (v % 256), UInt8.ofNat (v / 256 % 256)] := by
  simp [leBytes]

theorem leBytes4_eq (v : Nat) : leBytes 4 v =
    [UInt8.ofNat (v % 256), UInt8.ofNat (v / 256 % 256), UInt8.ofNat (v / 256 / 256 % 256),
     UInt8.ofNat (v / 256 / 256 / 256 % 256)] := by
  simp [leBytes]

theorem pack2 (l h : Nat) (hh : h < 256) (hl : l < 256) :
    (l * 256 + h) % 256 = h ∧ (l * 256 + h) / 256 % 256 = l := by
  have : (l * 256 + h) / 256 = l := by omega
  omega

/-- a 16-bit value stored after `htons` reads big-endian: high byte first -/
theorem leBytes2_htons (x : UInt16) :
    leBytes 2 (htons x).toNat = [UInt8.ofNat (x.toNat / 256), UInt8.ofNat (x.toNat % 256)] := by
  have hx : x.toNat < 65536 := x.toNat_lt
  have e : (htons x).toNat = x.toNat % 256 * 256 + x.toNat / 256 := by
    simp only [htons, bswap16, UInt16.toNat_ofNat']
    omega
  have k := pack2 (x.toNat % 256) (x.toNat / 256) (by omega) (by omega)
  rw [leBytes2_eq, e, k.1, k.2]

theorem pack4 (b0 b1 b2 b3 : Nat) (h0 : b0 < 256) (h1 : b1 < 256) (h2 : b2 < 256) (h3 : b3 < 256) :
    let v := b0 * 16777216 + b1 * 65536 + b2 * 256 + b3
    v % 256 = b3 ∧ v / 256 % 256 = b2 ∧ v / 256 / 256 % 256 = b1 ∧ v / 256 / 256 / 256 % 256 = b0 := by
  intro v
  have a1 : v / 256 = b0 * 65536 + b1 * 256 + b2 := by omega
  have a2 : v / 256 / 256 = b0 * 256 + b1 := by omega
  have a3 : v / 256 / 256 / 256 = b0 := by omega
  omega

/-- a 32-bit value stored after `htonl` reads big-endian: the reverse of its little-endian bytes -/
theorem leBytes4_htonl (x : UInt32) : leBytes 4 (htonl x).toNat = (leBytes 4 x.toNat).reverse := by
  have hx : x.toNat < 4294967296 := x.toNat_lt
  have d2 : x.toNat / 256 / 256 = x.toNat / 65536 := by omega
  have d4 : x.toNat / 65536 / 256 % 256 = x.toNat / 16777216 := by omega
  have e : (htonl x).toNat =
      x.toNat % 256 * 16777216 + x.toNat / 256 % 256 * 65536 + x.toNat / 65536 % 256 * 256 + x.toNat / 16777216 := by
    simp only [htonl, bswap32, UInt32.toNat_ofNat']
    omega
  have k := pack4 (x.toNat % 256) (x.toNat / 256 % 256) (x.toNat / 65536 % 256) (x.toNat / 16777216)
    (by omega) (by omega) (by omega) (by omega)
  simp only [] at k
  rw [leBytes4_eq, leBytes4_eq, e, k.1, k.2.1, k.2.2.1, k.2.2.2]
  simp [d2, d4]

/-! ### reading windows back from spliced / truncated frames -/

theorem bytesAt_splice_same' {f : Frame} {off n : Nat} {bs : List UInt8}
    (hs : off + bs.length ≤ f.length) (hn : n = bs.length) : bytesAt (splice f off bs) off n = bs := by
  subst hn; exact bytesAt_splice_same hs

/-- a window inside the stored bytes -/
theorem bytesAt_splice_sub {f : Frame} {off o n : Nat} {bs : List UInt8}
    (hs : off + bs.length ≤ f.length) (h1 : off ≤ o) (h2 : o + n ≤ off + bs.length) :
    bytesAt (splice f off bs) o n = bytesAt bs (o - off) n := by
  apply List.ext_getElem?
  intro i
  simp only [bytesAt, List.getElem?_take, List.getElem?_drop]
  by_cases hi : i < n
  · simp only [hi, if_true]
    rw [getElem?_splice hs]
    have c1 : ¬ o + i < off := by omega
    have c2 : o + i < off + bs.length := by omega
    simp only [c1, c2, if_true, if_false]
    congr 1; omega
  · simp [hi]

/-- a store inside the window: the window of the new frame is the old window with the store applied -/
theorem bytesAt_splice_inside {f : Frame} {off o n : Nat} {bs : List UInt8}
    (hw : o + n ≤ f.length) (h1 : o ≤ off) (h2 : off + bs.length ≤ o + n) :
    bytesAt (splice f off bs) o n = splice (bytesAt f o n) (off - o) bs := by
  have hs : off + bs.length ≤ f.length := by omega
  have hl : (bytesAt f o n).length = n := by simp; omega
  apply List.ext_getElem?
  intro i
  rw [getElem?_splice (by rw [hl]; omega)]
  simp only [bytesAt, List.getElem?_take, List.getElem?_drop]
  by_cases hi : i < n
  · simp only [hi, if_true]
    rw [getElem?_splice hs]
    by_cases c1 : o + i < off
    · have : i < off - o := by omega
      simp [c1, this]
    · have c1' : ¬ i < off - o := by omega
      by_cases c2 : o + i < off + bs.length
      · have : i < off - o + bs.length := by omega
        simp only [c1, c2, c1', this, if_true, if_false]
        congr 1; omega
      · have : ¬ i < off - o + bs.length := by omega
        simp [c1, c2, c1', this]
  · have a1 : ¬ i < off - o := by omega
    have a2 : ¬ i < off - o + bs.length := by omega
    simp [hi, a1, a2]

theorem bytesAt_take {f : Frame} {k o n : Nat} (h : o + n ≤ k) : bytesAt (f.take k) o n = bytesAt f o n := by
  apply List.ext_getElem?
  intro i
  simp only [bytesAt, List.getElem?_take, List.getElem?_drop]
  by_cases hi : i < n
  · have : o + i < k := by omega
    simp [hi, this]
  · simp [hi]

/-- a window read in two parts -/
theorem bytesAt_append {f : Frame} (o a b : Nat) : bytesAt f o (a + b) = bytesAt f o a ++ bytesAt f (o + a) b := by
  simp only [bytesAt]
  rw [List.take_add, List.drop_drop]



/-- a window of a window -/
theorem bytesAt_bytesAt {f : Frame} {o n a m : Nat} (h : a + m ≤ n) :
    bytesAt (bytesAt f o n) a m = bytesAt f (o + a) m := by
  apply List.ext_getElem?
  intro i
  simp only [bytesAt, List.getElem?_take, List.getElem?_drop]
  by_cases hi : i < m
  · have : a + i < n := by omega
    simp [hi, this, Nat.add_assoc]
  · simp [hi]

/-- a window that ends inside the frame drops nothing -/
theorem drop_eq_bytesAt {f : Frame} {o n : Nat} (h : f.length = o + n) : f.drop o = bytesAt f o n := by
  simp only [bytesAt]
  rw [List.take_of_length_le]
  simp [List.length_drop]; omega

/-! goal-directed forms of the window lemmas (`refine`/`apply` them: the side conditions become goals) -/

theorem win_same {f : Frame} {off n : Nat} {bs r : List UInt8}
    (hs : off + bs.length ≤ f.length) (hn : n = bs.length) (hr : bs = r) : bytesAt (splice f off bs) off n = r := by
  subst hr; exact bytesAt_splice_same' hs hn

theorem win_disj {f : Frame} {off o n : Nat} {bs r : List UInt8}
    (hs : off + bs.length ≤ f.length) (hd : o + n ≤ off ∨ off + bs.length ≤ o) (h : bytesAt f o n = r) :
    bytesAt (splice f off bs) o n = r := by
  rw [bytesAt_splice_disjoint hs hd]; exact h

theorem win_take {f : Frame} {k o n : Nat} {r : List UInt8} (hk : o + n ≤ k) (h : bytesAt f o n = r) :
    bytesAt (f.take k) o n = r := by
  rw [bytesAt_take hk]; exact h

/-! ### a small Hoare-style calculus: `Ok x P` = "x does not fault and its result satisfies P" -/

def Ok {α} (x : M α) (P : α → Prop) : Prop := ∃ a, x = .ok a ∧ P a

theorem Ok.isOk {α} {x : M α} {P : α → Prop} (h : Ok x P) : x.isOk = true := by
  obtain ⟨a, h, _⟩ := h; simp [h]

theorem Ok.pure {α} {a : α} {P : α → Prop} (h : P a) : Ok (Pure.pure a : M α) P := ⟨a, rfl, h⟩

theorem Ok.ok {α} {a : α} {P : α → Prop} (h : P a) : Ok (.ok a : M α) P := ⟨a, rfl, h⟩

theorem Ok.bind {α β} {x : M α} {k : α → M β} {Q : α → Prop} {P : β → Prop}
    (hx : Ok x Q) (hk : ∀ a, Q a → Ok (k a) P) : Ok (x >>= k) P := by
  obtain ⟨a, hx, hq⟩ := hx
  obtain ⟨b, hb, hp⟩ := hk a hq
  subst hx
  exact ⟨b, hb, hp⟩

/-- `bind` that also hands the continuation the equation `x = .ok a` -/
theorem Ok.bind_eq {α β} {x : M α} {k : α → M β} {Q : α → Prop} {P : β → Prop}
    (hx : Ok x Q) (hk : ∀ a, x = .ok a → Q a → Ok (k a) P) : Ok (x >>= k) P := by
  obtain ⟨a, hx, hq⟩ := hx
  obtain ⟨b, hb, hp⟩ := hk a hx hq
  subst hx
  exact ⟨b, hb, hp⟩

theorem Ok.ite {α} {c : Prop} [Decidable c] {t e : M α} {P : α → Prop}
    (ht : c → Ok t P) (he : ¬ c → Ok e P) : Ok (if c then t else e) P := by
  by_cases h : c
  · simp only [h, if_true]; exact ht h
  · simp only [h, if_false]; exact he h

theorem Ok.mono {α} {x : M α} {P Q : α → Prop} (h : Ok x P) (hpq : ∀ a, P a → Q a) : Ok x Q := by
  obtain ⟨a, hx, hp⟩ := h; exact ⟨a, hx, hpq a hp⟩

theorem Ok.of_eq {α} {x : M α} {a : α} {P : α → Prop} (hx : x = .ok a) (h : P a) : Ok x P := ⟨a, hx, h⟩

theorem Ok.elim {α} {x : M α} {P : α → Prop} {a : α} (h : Ok x P) (hx : x = .ok a) : P a := by
  obtain ⟨b, hb, hp⟩ := h
  rw [hb] at hx; cases hx; exact hp

theorem ldBytes_Ok {f : Frame} {off n : Nat} (h : off + n ≤ f.length) :
    Ok (ldBytes f off n) (fun bs => bs = bytesAt f off n) := ⟨_, ldBytes_ok h, rfl⟩

theorem ld8_Ok {f : Frame} {off : Nat} (h : off + 1 ≤ f.length) :
    Ok (ld8 f off) (fun v => v = UInt8.ofNat (leNat (bytesAt f off 1))) := ⟨_, ld8_ok h, rfl⟩

theorem ld16_Ok {f : Frame} {off : Nat} (h : off + 2 ≤ f.length) :
    Ok (ld16 f off) (fun v => v = UInt16.ofNat (leNat (bytesAt f off 2))) := ⟨_, ld16_ok h, rfl⟩

theorem ld32_Ok {f : Frame} {off : Nat} (h : off + 4 ≤ f.length) :
    Ok (ld32 f off) (fun v => v = UInt32.ofNat (leNat (bytesAt f off 4))) := ⟨_, ld32_ok h, rfl⟩

theorem stBytes_Ok {f : Frame} {off : Nat} {bs : List UInt8} (h : off + bs.length ≤ f.length) :
    Ok (stBytes f off bs) (fun f' => f' = splice f off bs ∧ f'.length = f.length) :=
  ⟨_, stBytes_eq_splice h, rfl, splice_length h⟩

theorem st8_Ok {f : Frame} {off : Nat} {v : UInt8} (h : off + 1 ≤ f.length) :
    Ok (st8 f off v) (fun f' => f' = splice f off [v] ∧ f'.length = f.length) :=
  ⟨_, st8_ok h, rfl, splice_length (by simpa using h)⟩

theorem st16_Ok {f : Frame} {off : Nat} {v : UInt16} (h : off + 2 ≤ f.length) :
    Ok (st16 f off v) (fun f' => f' = splice f off (leBytes 2 v.toNat) ∧ f'.length = f.length) :=
  ⟨_, st16_ok h, rfl, splice_length (by simpa using h)⟩

theorem st32_Ok {f : Frame} {off : Nat} {v : UInt32} (h : off + 4 ≤ f.length) :
    Ok (st32 f off v) (fun f' => f' = splice f off (leBytes 4 v.toNat) ∧ f'.length = f.length) :=
  ⟨_, st32_ok h, rfl, splice_length (by simpa using h)⟩

theorem memset_Ok {f : Frame} {off n : Nat} {c : UInt8} (h : off + n ≤ f.length) :
    Ok (memset f off c n) (fun f' => f' = splice f off (List.replicate n c) ∧ f'.length = f.length) :=
  ⟨_, memset_ok h, rfl, splice_length (by simpa using h)⟩

end Bng.C
