/-
  Bng.Map — association lists used as the model of Go maps.

  `insert` replaces, `erase` removes every entry of the key, `lookup` returns the first match.
  The three lookup laws hold unconditionally; `NodupKeys` is kept as a separate invariant
  (needed only where `length` is compared with a counter).
  Core Lean only (no Mathlib): this file is linked into the `bngdrv` executable.
-/
namespace Bng

abbrev AMap (κ : Type) (ν : Type) := List (κ × ν)

namespace AMap
set_option linter.unusedSectionVars false
variable {κ ν : Type} [DecidableEq κ]

def lookup (m : AMap κ ν) (k : κ) : Option ν :=
  match m with
  | [] => none
  | (k', v) :: rest => if k' = k then some v else lookup rest k

def erase : AMap κ ν → κ → AMap κ ν
  | [], _ => []
  | (k', v) :: rest, k => if k' = k then erase rest k else (k', v) :: erase rest k

def insert (m : AMap κ ν) (k : κ) (v : ν) : AMap κ ν :=
  (k, v) :: erase m k

def contains (m : AMap κ ν) (k : κ) : Bool := (lookup m k).isSome

def keys (m : AMap κ ν) : List κ := m.map (·.1)
def vals (m : AMap κ ν) : List ν := m.map (·.2)

def NodupKeys (m : AMap κ ν) : Prop := (keys m).Nodup

@[simp] theorem lookup_nil (k : κ) : lookup ([] : AMap κ ν) k = none := rfl

theorem lookup_cons (k' : κ) (v : ν) (rest : AMap κ ν) (k : κ) :
    lookup ((k', v) :: rest) k = if k' = k then some v else lookup rest k := rfl

@[simp] theorem erase_nil (k : κ) : erase ([] : AMap κ ν) k = [] := rfl

theorem erase_cons (k' : κ) (v : ν) (rest : AMap κ ν) (k : κ) :
    erase ((k', v) :: rest) k = if k' = k then erase rest k else (k', v) :: erase rest k := rfl

theorem lookup_erase (m : AMap κ ν) (k k' : κ) :
    lookup (erase m k) k' = if k' = k then none else lookup m k' := by
  induction m with
  | nil => simp
  | cons p rest ih =>
    obtain ⟨a, b⟩ := p
    rw [erase_cons]
    by_cases h : a = k
    · subst h
      by_cases h2 : k' = a
      · subst h2; simp [ih]
      · have : ¬ a = k' := fun e => h2 e.symm
        simp [ih, lookup_cons, h2, this]
    · by_cases h2 : k' = k
      · subst h2
        simp [h, lookup_cons, ih]
      · simp [h, lookup_cons, ih, h2]

@[simp] theorem lookup_erase_self (m : AMap κ ν) (k : κ) : lookup (erase m k) k = none := by
  simp [lookup_erase]

theorem lookup_erase_ne (m : AMap κ ν) {k k' : κ} (h : k' ≠ k) :
    lookup (erase m k) k' = lookup m k' := by
  simp [lookup_erase, h]

theorem lookup_insert (m : AMap κ ν) (k : κ) (v : ν) (k' : κ) :
    lookup (insert m k v) k' = if k' = k then some v else lookup m k' := by
  unfold insert
  rw [lookup_cons]
  by_cases h : k' = k
  · subst h; simp
  · have : ¬ k = k' := fun e => h e.symm
    simp [h, this, lookup_erase]

@[simp] theorem lookup_insert_self (m : AMap κ ν) (k : κ) (v : ν) :
    lookup (insert m k v) k = some v := by simp [lookup_insert]

theorem lookup_insert_ne (m : AMap κ ν) {k k' : κ} (v : ν) (h : k' ≠ k) :
    lookup (insert m k v) k' = lookup m k' := by simp [lookup_insert, h]

theorem mem_of_lookup {m : AMap κ ν} {k : κ} {v : ν} (h : lookup m k = some v) : (k, v) ∈ m := by
  induction m with
  | nil => simp at h
  | cons p rest ih =>
    obtain ⟨a, b⟩ := p
    rw [lookup_cons] at h
    by_cases e : a = k
    · simp [e] at h; subst e; subst h; simp
    · simp [e] at h; exact List.mem_cons_of_mem _ (ih h)

theorem lookup_isSome_of_mem_keys {m : AMap κ ν} {k : κ} (h : k ∈ keys m) : (lookup m k).isSome := by
  induction m with
  | nil => simp [keys] at h
  | cons p rest ih =>
    obtain ⟨a, b⟩ := p
    rw [lookup_cons]
    by_cases e : a = k
    · simp [e]
    · simp [e]
      apply ih
      simp [keys] at h ⊢
      rcases h with h | h
      · exact absurd h.symm e
      · exact h

theorem mem_keys_of_lookup {m : AMap κ ν} {k : κ} {v : ν} (h : lookup m k = some v) : k ∈ keys m := by
  have := mem_of_lookup h
  simp only [keys, List.mem_map]
  exact ⟨(k, v), this, rfl⟩

theorem lookup_eq_none_iff {m : AMap κ ν} {k : κ} : lookup m k = none ↔ k ∉ keys m := by
  constructor
  · intro h hk
    have := lookup_isSome_of_mem_keys hk
    simp [h] at this
  · intro h
    cases e : lookup m k with
    | none => rfl
    | some v => exact absurd (mem_keys_of_lookup e) h

theorem erase_sublist (m : AMap κ ν) (k : κ) : (erase m k).Sublist m := by
  induction m with
  | nil => simp
  | cons p rest ih =>
    obtain ⟨a, b⟩ := p
    rw [erase_cons]
    by_cases h : a = k
    · simp [h]; exact List.Sublist.cons _ ih
    · simp [h]; exact ih

theorem not_mem_keys_erase (m : AMap κ ν) (k : κ) : k ∉ keys (erase m k) := by
  apply lookup_eq_none_iff.mp
  simp [lookup_erase]

theorem nodupKeys_nil : NodupKeys ([] : AMap κ ν) := by simp [NodupKeys, keys]

theorem nodupKeys_erase {m : AMap κ ν} (h : NodupKeys m) (k : κ) : NodupKeys (erase m k) := by
  unfold NodupKeys keys at *
  exact List.Nodup.sublist ((erase_sublist m k).map _) h

theorem nodupKeys_insert {m : AMap κ ν} (h : NodupKeys m) (k : κ) (v : ν) :
    NodupKeys (insert m k v) := by
  unfold NodupKeys insert
  have h1 := not_mem_keys_erase m k
  have h2 := nodupKeys_erase h k
  unfold NodupKeys at h2
  simp only [keys, List.map_cons, List.nodup_cons] at *
  exact ⟨h1, h2⟩

theorem erase_eq_self_of_not_mem {m : AMap κ ν} {k : κ} (hk : k ∉ keys m) : erase m k = m := by
  induction m with
  | nil => rfl
  | cons p rest ih =>
    obtain ⟨a, b⟩ := p
    simp only [keys, List.map_cons, List.mem_cons, not_or] at hk
    rw [erase_cons]
    have : ¬ a = k := fun e => hk.1 e.symm
    simp only [this, if_false]
    rw [ih]
    simpa [keys] using hk.2

theorem length_erase_of_lookup {m : AMap κ ν} (hn : NodupKeys m) {k : κ} {v : ν}
    (h : lookup m k = some v) : (erase m k).length + 1 = m.length := by
  induction m with
  | nil => simp at h
  | cons p rest ih =>
    obtain ⟨a, b⟩ := p
    have hn' : NodupKeys rest := by
      unfold NodupKeys keys at hn ⊢; simp at hn; exact hn.2
    have hnot : a ∉ keys rest := by
      unfold NodupKeys keys at hn; simp at hn
      intro hm; simp [keys] at hm; obtain ⟨x, hx⟩ := hm; exact hn.1 x hx
    rw [lookup_cons] at h
    by_cases e : a = k
    · subst e
      have h1 : erase ((a, b) :: rest) a = erase rest a := by
        simp [erase_cons]
      rw [h1, erase_eq_self_of_not_mem hnot]
      simp
    · simp [e] at h
      have := ih hn' h
      have h1 : erase ((a, b) :: rest) k = (a, b) :: erase rest k := by
        simp [erase_cons, e]
      rw [h1]
      simp only [List.length_cons]
      omega

theorem length_erase_of_none {m : AMap κ ν} {k : κ} (h : lookup m k = none) :
    (erase m k).length = m.length := by
  rw [erase_eq_self_of_not_mem (lookup_eq_none_iff.mp h)]

theorem lookup_of_mem {m : AMap κ ν} (hn : NodupKeys m) {k : κ} {v : ν} (h : (k, v) ∈ m) :
    lookup m k = some v := by
  induction m with
  | nil => simp at h
  | cons p rest ih =>
    obtain ⟨a, b⟩ := p
    have hn' : NodupKeys rest := by
      unfold NodupKeys keys at hn ⊢; simp at hn; exact hn.2
    have hnot : ∀ x, (a, x) ∉ rest := by
      unfold NodupKeys keys at hn; simp at hn; exact hn.1
    rw [lookup_cons]
    rcases List.mem_cons.mp h with h | h
    · simp only [Prod.mk.injEq] at h; simp [h.1, h.2]
    · by_cases e : a = k
      · subst e; exact absurd h (hnot v)
      · simp only [e, if_false]; exact ih hn' h

/-- values are pairwise distinct when the map is injective -/
theorem vals_nodup [DecidableEq ν] {m : AMap κ ν} (hn : NodupKeys m)
    (hinj : ∀ k k' v, lookup m k = some v → lookup m k' = some v → k = k') : (vals m).Nodup := by
  induction m with
  | nil => simp [vals]
  | cons p rest ih =>
    obtain ⟨a, b⟩ := p
    have hn' : NodupKeys rest := by
      unfold NodupKeys keys at hn ⊢; simp at hn; exact hn.2
    have hnot : ∀ x, (a, x) ∉ rest := by
      unfold NodupKeys keys at hn; simp at hn; exact hn.1
    have lift : ∀ k v, lookup rest k = some v → lookup ((a, b) :: rest) k = some v := by
      intro k v h
      rw [lookup_cons]
      by_cases e : a = k
      · subst e; exact absurd (mem_of_lookup h) (hnot v)
      · simp only [e, if_false]; exact h
    simp only [vals, List.map_cons, List.nodup_cons]
    constructor
    · intro hm
      simp only [List.mem_map] at hm
      obtain ⟨⟨k', v'⟩, hmem, hv⟩ := hm
      simp only at hv; subst hv
      have h1 := lift _ _ (lookup_of_mem hn' hmem)
      have h2 : lookup ((a, v') :: rest) a = some v' := by simp [lookup_cons]
      have := hinj _ _ _ h1 h2
      subst this
      exact hnot _ hmem
    · exact ih hn' (fun k k' v h1 h2 => hinj k k' v (lift _ _ h1) (lift _ _ h2))

end AMap
end Bng
