/-
  A tiny "Go semantics" layer for byte-slice code (core Lean only).

  * a byte slice is `List UInt8`; the model takes `cap = len` (the harness hands every decoder a
    slice clipped to its length), so Go's slice rule `0 ≤ lo ≤ hi ≤ cap` is `lo ≤ hi ≤ length`;
  * a run-time panic (index/slice out of range) is `Except.error`, a normal Go `error` return is an
    ordinary value of the decoder's result type;
  * `xs[lo:hi]`  = `slice xs lo hi`,  `xs[lo:]` = `sliceFrom xs lo` (needs `lo ≤ len`),
    `xs[:hi]` = `sliceTo xs hi`, `xs[i]` = `index xs i`;
  * `binary.BigEndian.Uint16/32/64(b)` panic when `len(b)` is too small (`_ = b[1]` …).
-/
namespace Bng.Go

abbrev Bytes := List UInt8

inductive Panic where
  /-- slice bounds out of range -/
  | slice (lo hi len : Nat)
  /-- index out of range -/
  | index (i len : Nat)
  deriving Repr, DecidableEq

/-- the Go-panic monad -/
abbrev G := Except Panic

def G.isOk {α} : G α → Bool
  | .ok _ => true
  | .error _ => false

@[simp] theorem G.isOk_ok {α} (a : α) : G.isOk (.ok a : G α) = true := rfl
@[simp] theorem G.isOk_error {α} (e : Panic) : G.isOk (.error e : G α) = false := rfl

/-- `xs[lo:hi]` -/
def slice (xs : Bytes) (lo hi : Nat) : G Bytes :=
  if lo ≤ hi ∧ hi ≤ xs.length then .ok ((xs.take hi).drop lo) else .error (.slice lo hi xs.length)

/-- `xs[lo:]` -/
def sliceFrom (xs : Bytes) (lo : Nat) : G Bytes :=
  if lo ≤ xs.length then .ok (xs.drop lo) else .error (.slice lo xs.length xs.length)

/-- `xs[:hi]` -/
def sliceTo (xs : Bytes) (hi : Nat) : G Bytes :=
  if hi ≤ xs.length then .ok (xs.take hi) else .error (.slice 0 hi xs.length)

/-- `xs[i]` -/
def index (xs : Bytes) (i : Nat) : G UInt8 :=
  if h : i < xs.length then .ok xs[i] else .error (.index i xs.length)

/-- big-endian value of a byte string -/
def beNat : Bytes → Nat
  | [] => 0
  | xs@(_ :: _) => xs.foldl (fun acc b => acc * 256 + b.toNat) 0

/-- `binary.BigEndian.Uint16(b)` -/
def be16 (b : Bytes) : G Nat :=
  if 2 ≤ b.length then .ok (beNat (b.take 2)) else .error (.index 1 b.length)

/-- `binary.BigEndian.Uint32(b)` -/
def be32 (b : Bytes) : G Nat :=
  if 4 ≤ b.length then .ok (beNat (b.take 4)) else .error (.index 3 b.length)

/-- `binary.BigEndian.Uint64(b)` -/
def be64 (b : Bytes) : G Nat :=
  if 8 ≤ b.length then .ok (beNat (b.take 8)) else .error (.index 7 b.length)

/-- big-endian encoding on `n` bytes (`PutUint16/32`) -/
def putBE : (n : Nat) → Nat → Bytes
  | 0, _ => []
  | n + 1, v => putBE n (v / 256) ++ [UInt8.ofNat (v % 256)]

/-! ### the facts the totality proofs run on (used with `simp (disch := omega)`) -/

theorem slice_ok {xs : Bytes} {lo hi : Nat} (h1 : lo ≤ hi) (h2 : hi ≤ xs.length) :
    slice xs lo hi = .ok ((xs.take hi).drop lo) := by
  simp [slice, h1, h2]

theorem sliceFrom_ok {xs : Bytes} {lo : Nat} (h : lo ≤ xs.length) :
    sliceFrom xs lo = .ok (xs.drop lo) := by
  simp [sliceFrom, h]

theorem sliceTo_ok {xs : Bytes} {hi : Nat} (h : hi ≤ xs.length) :
    sliceTo xs hi = .ok (xs.take hi) := by
  simp [sliceTo, h]

theorem index_ok {xs : Bytes} {i : Nat} (h : i < xs.length) :
    index xs i = .ok (xs[i]'h) := by
  simp [index, h]

theorem be16_ok {b : Bytes} (h : 2 ≤ b.length) : be16 b = .ok (beNat (b.take 2)) := by
  simp [be16, h]

theorem be32_ok {b : Bytes} (h : 4 ≤ b.length) : be32 b = .ok (beNat (b.take 4)) := by
  simp [be32, h]

theorem be64_ok {b : Bytes} (h : 8 ≤ b.length) : be64 b = .ok (beNat (b.take 8)) := by
  simp [be64, h]

@[simp] theorem length_take_drop (xs : Bytes) (lo hi : Nat) :
    ((xs.take hi).drop lo).length = min hi xs.length - lo := by
  simp [List.length_drop, List.length_take]

theorem slice_length {xs ys : Bytes} {lo hi : Nat} (h : slice xs lo hi = .ok ys) :
    ys.length = hi - lo ∧ lo ≤ hi ∧ hi ≤ xs.length := by
  unfold slice at h
  split at h
  · rename_i hc
    injection h with h
    subst h
    simp [List.length_drop, List.length_take]
    omega
  · cases h

theorem sliceFrom_length {xs ys : Bytes} {lo : Nat} (h : sliceFrom xs lo = .ok ys) :
    ys.length = xs.length - lo ∧ lo ≤ xs.length := by
  unfold sliceFrom at h
  split at h
  · injection h with h
    subst h
    simp [List.length_drop]
    assumption
  · cases h

/-- a two-byte big-endian value is below 65536 -/
theorem beNat_lt (b : Bytes) : beNat b < 256 ^ b.length := by
  have key : ∀ (xs : Bytes) (acc : Nat),
      xs.foldl (fun acc b => acc * 256 + b.toNat) acc < (acc + 1) * 256 ^ xs.length := by
    intro xs
    induction xs with
    | nil => intro acc; simp
    | cons x xs ih =>
      intro acc
      simp only [List.foldl_cons, List.length_cons]
      have h1 := ih (acc * 256 + x.toNat)
      have hx : x.toNat < 256 := x.toNat_lt
      have : (acc * 256 + x.toNat + 1) * 256 ^ xs.length ≤ (acc + 1) * 256 ^ (xs.length + 1) := by
        have e : (acc + 1) * 256 ^ (xs.length + 1) = ((acc + 1) * 256) * 256 ^ xs.length := by
          rw [Nat.pow_succ, Nat.mul_assoc, Nat.mul_comm (256 ^ xs.length) 256, ← Nat.mul_assoc]
        rw [e]
        apply Nat.mul_le_mul_right
        omega
      omega
  cases b with
  | nil => simp [beNat]
  | cons x xs =>
    have := key (x :: xs) 0
    simpa [beNat] using this

/-- `binary.BigEndian.Uint16(xs[off:off+2])` -/
def be16At (xs : Bytes) (off : Nat) : G Nat := do
  let s ← slice xs off (off + 2)
  be16 s

/-- `binary.BigEndian.Uint32(xs[off:off+4])` -/
def be32At (xs : Bytes) (off : Nat) : G Nat := do
  let s ← slice xs off (off + 4)
  be32 s

@[simp] theorem ok_bind {α β} (a : α) (f : α → G β) : ((Except.ok a : G α) >>= f) = f a := rfl
@[simp] theorem error_bind {α β} (e : Panic) (f : α → G β) : ((Except.error e : G α) >>= f) = .error e := rfl
@[simp] theorem pure_eq_ok {α} (a : α) : (pure a : G α) = .ok a := rfl

theorem be16At_ok {xs : Bytes} {off : Nat} (h : off + 2 ≤ xs.length) :
    be16At xs off = .ok (beNat ((xs.take (off + 2)).drop off)) := by
  unfold be16At
  rw [slice_ok (by omega) h, ok_bind, be16_ok]
  · rw [List.take_of_length_le]
    simp; omega
  · simp; omega

theorem be32At_ok {xs : Bytes} {off : Nat} (h : off + 4 ≤ xs.length) :
    be32At xs off = .ok (beNat ((xs.take (off + 4)).drop off)) := by
  unfold be32At
  rw [slice_ok (by omega) h, ok_bind, be32_ok]
  · rw [List.take_of_length_le]
    simp; omega
  · simp; omega

/-- what `be16At` returns is a 16-bit value -/
theorem be16At_lt {xs : Bytes} {off v : Nat} (h : be16At xs off = .ok v) : v < 65536 := by
  by_cases hl : off + 2 ≤ xs.length
  · rw [be16At_ok hl] at h
    injection h with h
    subst h
    have := beNat_lt ((xs.take (off + 2)).drop off)
    have hlen : ((xs.take (off + 2)).drop off).length = 2 := by simp; omega
    rw [hlen] at this
    exact this
  · unfold be16At slice at h
    simp [hl] at h

end Bng.Go
