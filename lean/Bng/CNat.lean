/-
  Minimal C/eBPF packet-access layer used by the nat44 model (core Lean only).
  (Named CNat to stay clear of the shared `Bng/C.lean` of the other C07 programs; same conventions as DESIGN §5.)

  * a frame is the byte string between `data` and `data_end`: `List UInt8`, `data_end - data = length`;
  * `ld8/16/32`, `st8/16/32` are the CHECKED accesses: `Except.error (.oob off n size)` when `off + n > size`
    (this is what the guard page / the in-kernel verifier would reject), otherwise the raw access
    `rd*/wr*`;
  * multi-byte values are what a little-endian host (x86-64, the bpf target of the deployment) loads:
    `rd16 f o = f[o] | f[o+1] << 8`. A `__be16` field therefore holds the byte-swapped number, exactly
    as in the C program; `bswap16/32` = `bpf_ntohs/htons/ntohl/htonl`.
-/
namespace Bng.CNat

abbrev Frame := List UInt8

inductive Fault where
  /-- an access of `n` bytes at offset `off` of a frame of `size` bytes with `off + n > size` -/
  | oob (off n size : Nat)
  deriving Repr, DecidableEq

/-- the packet-access monad -/
abbrev M := Except Fault

def M.isOk {α} : M α → Bool
  | .ok _ => true
  | .error _ => false

@[simp] theorem M.isOk_ok {α} (a : α) : M.isOk (.ok a : M α) = true := rfl
@[simp] theorem M.isOk_error {α} (e : Fault) : M.isOk (.error e : M α) = false := rfl

/-! ### raw (unchecked) accesses -/

def rd8 (f : Frame) (off : Nat) : UInt8 := f.getD off 0

def rd16 (f : Frame) (off : Nat) : UInt16 :=
  (rd8 f off).toUInt16 ||| ((rd8 f (off + 1)).toUInt16 <<< 8)

def rd32 (f : Frame) (off : Nat) : UInt32 :=
  (rd8 f off).toUInt32 ||| ((rd8 f (off + 1)).toUInt32 <<< 8) |||
  ((rd8 f (off + 2)).toUInt32 <<< 16) ||| ((rd8 f (off + 3)).toUInt32 <<< 24)

def wr8 (f : Frame) (off : Nat) (v : UInt8) : Frame := f.set off v

def wr16 (f : Frame) (off : Nat) (v : UInt16) : Frame :=
  (f.set off v.toUInt8).set (off + 1) (v >>> 8).toUInt8

def wr32 (f : Frame) (off : Nat) (v : UInt32) : Frame :=
  (((f.set off v.toUInt8).set (off + 1) (v >>> 8).toUInt8).set (off + 2) (v >>> 16).toUInt8).set
    (off + 3) (v >>> 24).toUInt8

@[simp] theorem length_wr8 (f : Frame) (off : Nat) (v : UInt8) : (wr8 f off v).length = f.length := by
  simp [wr8]
@[simp] theorem length_wr16 (f : Frame) (off : Nat) (v : UInt16) : (wr16 f off v).length = f.length := by
  simp [wr16]
@[simp] theorem length_wr32 (f : Frame) (off : Nat) (v : UInt32) : (wr32 f off v).length = f.length := by
  simp [wr32]

/-! ### checked accesses -/

/-- the bounds check every access goes through: the `n` bytes at `off` lie inside `[0, size)` -/
def chk (f : Frame) (off n : Nat) : M Unit :=
  if off + n ≤ f.length then .ok () else .error (.oob off n f.length)

def ld8 (f : Frame) (off : Nat) : M UInt8 := do chk f off 1; pure (rd8 f off)
def ld16 (f : Frame) (off : Nat) : M UInt16 := do chk f off 2; pure (rd16 f off)
def ld32 (f : Frame) (off : Nat) : M UInt32 := do chk f off 4; pure (rd32 f off)
def st8 (f : Frame) (off : Nat) (v : UInt8) : M Frame := do chk f off 1; pure (wr8 f off v)
def st16 (f : Frame) (off : Nat) (v : UInt16) : M Frame := do chk f off 2; pure (wr16 f off v)
def st32 (f : Frame) (off : Nat) (v : UInt32) : M Frame := do chk f off 4; pure (wr32 f off v)

theorem ok_bind {α β} (a : α) (g : α → M β) : (Except.ok a >>= g) = g a := rfl
theorem pure_eq_ok {α} (a : α) : (pure a : M α) = .ok a := rfl

theorem chk_ok {f : Frame} {off n : Nat} (h : off + n ≤ f.length) : chk f off n = .ok () := by
  simp [chk, h]

theorem ld8_ok {f : Frame} {off : Nat} (h : off + 1 ≤ f.length) : ld8 f off = .ok (rd8 f off) := by
  simp [ld8, chk_ok h, ok_bind, pure_eq_ok]
theorem ld16_ok {f : Frame} {off : Nat} (h : off + 2 ≤ f.length) : ld16 f off = .ok (rd16 f off) := by
  simp [ld16, chk_ok h, ok_bind, pure_eq_ok]
theorem ld32_ok {f : Frame} {off : Nat} (h : off + 4 ≤ f.length) : ld32 f off = .ok (rd32 f off) := by
  simp [ld32, chk_ok h, ok_bind, pure_eq_ok]
theorem st8_ok {f : Frame} {off : Nat} {v : UInt8} (h : off + 1 ≤ f.length) :
    st8 f off v = .ok (wr8 f off v) := by
  simp [st8, chk_ok h, ok_bind, pure_eq_ok]
theorem st16_ok {f : Frame} {off : Nat} {v : UInt16} (h : off + 2 ≤ f.length) :
    st16 f off v = .ok (wr16 f off v) := by
  simp [st16, chk_ok h, ok_bind, pure_eq_ok]
theorem st32_ok {f : Frame} {off : Nat} {v : UInt32} (h : off + 4 ≤ f.length) :
    st32 f off v = .ok (wr32 f off v) := by
  simp [st32, chk_ok h, ok_bind, pure_eq_ok]

/-- the converse: a checked access that succeeded was in bounds -/
theorem chk_ok_iff {f : Frame} {off n : Nat} : chk f off n = .ok () ↔ off + n ≤ f.length := by
  unfold chk; split <;> simp [*]

/-! ### byte order -/

def bswap16 (v : UInt16) : UInt16 := (v <<< 8) ||| (v >>> 8)

def bswap32 (v : UInt32) : UInt32 :=
  (v <<< 24) ||| ((v <<< 8) &&& (0x00ff0000 : UInt32)) ||| ((v >>> 8) &&& (0x0000ff00 : UInt32)) ||| (v >>> 24)

end Bng.CNat
