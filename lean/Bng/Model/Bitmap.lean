import Bng.Map
import Bng.Model.PoolSpec
/-
  Model of pkg/allocator/bitmap.go (IPAllocator).

  One Lean function per Go method; every Go map is an `AMap`, the big.Int bitmap is the list of set
  bit positions, `allocatedCount` is an `Int` (the code subtracts without a guard), `Uint64()`
  truncations are explicit.  Subscriber ids are `Nat` (the harness uses s0, s1, …; the empty id is
  excluded because LookupByPrefix uses "" for "nobody").
  Core Lean only.
-/
namespace Bng.Bitmap
open Bng

structure Cfg where
  famBits    : Nat      -- 32 or 128
  poolPrefix : Nat
  plen       : Nat
  base       : Nat      -- numeric value of the (masked) base address
  deriving Repr, DecidableEq

def Cfg.totalBig (c : Cfg) : Nat := 2 ^ (c.plen - c.poolPrefix)
/-- `a.totalPrefixes.Uint64()` -/
def Cfg.total (c : Cfg) : Nat := c.totalBig % 2 ^ 64
def Cfg.step (c : Cfg) : Nat := 2 ^ (c.famBits - c.plen)
/-- NewIPAllocator's validation -/
def Cfg.valid (c : Cfg) : Bool :=
  c.poolPrefix ≤ c.plen && c.plen ≤ c.famBits

structure State where
  cfg       : Cfg
  bits      : List Nat
  allocated : AMap Nat Nat     -- subscriber → index
  idx2sub   : AMap Nat Nat     -- index → subscriber
  count     : Int
  nextFree  : Nat
  deriving Repr

def init (c : Cfg) : State :=
  { cfg := c, bits := [], allocated := [], idx2sub := [], count := 0, nextFree := 0 }

def setBit (bits : List Nat) (i : Nat) : List Nat := if i ∈ bits then bits else i :: bits
def clearBit (bits : List Nat) (i : Nat) : List Nat := bits.filter (fun j => !(j == i))

theorem mem_setBit {bits : List Nat} {i j : Nat} : j ∈ setBit bits i ↔ j = i ∨ j ∈ bits := by
  unfold setBit
  split
  · constructor
    · intro h; exact Or.inr h
    · intro h; rcases h with h | h
      · subst h; assumption
      · exact h
  · simp

theorem mem_clearBit {bits : List Nat} {i j : Nat} : j ∈ clearBit bits i ↔ j ∈ bits ∧ j ≠ i := by
  simp [clearBit]

/-- scan `n` positions starting at `i` for a clear bit -/
def scan (bits : List Nat) : Nat → Nat → Option Nat
  | _, 0 => none
  | i, n + 1 => if i ∈ bits then scan bits (i + 1) n else some i

/-- findFreeIndex -/
def findFree (s : State) : Option Nat :=
  let total := s.cfg.total
  let start := if s.nextFree ≥ total then 0 else s.nextFree
  match scan s.bits start (total - start) with
  | some i => some i
  | none => scan s.bits 0 start

/-- getPrefixByIndex: numeric address of unit `i` -/
def prefixOf (c : Cfg) (i : Nat) : Nat := c.base + i * c.step

/-- getIndexByPrefix -/
def indexOf (c : Cfg) (addr ones : Nat) : Option Nat :=
  if ones ≠ c.plen then none
  else if addr < c.base then none
  else
    let index := (addr - c.base) / c.step
    if index ≥ c.totalBig then none else some (index % 2 ^ 64)

inductive Obs where
  | okAddr (a : Nat)
  | ok
  | exhausted
  | conflict
  | notfound
  | range
  | none
  | sub (s : Nat)
  | bool (b : Bool)
  | stats (alloc total : Nat)
  | list (l : List (Nat × Nat × Nat))   -- (subscriber, address, index) sorted by subscriber
  deriving Repr, DecidableEq

/-- unit `i` goes to subscriber `k` (bit, both maps, counter) -/
def give (s : State) (k i nf : Nat) : State :=
  { s with bits := setBit s.bits i, count := s.count + 1,
           allocated := AMap.insert s.allocated k i, idx2sub := AMap.insert s.idx2sub i k,
           nextFree := nf }

/-- unit `i` is taken from subscriber `k` -/
def take (s : State) (k i nf : Nat) : State :=
  { s with bits := clearBit s.bits i, count := s.count - 1,
           allocated := AMap.erase s.allocated k, idx2sub := AMap.erase s.idx2sub i,
           nextFree := nf }

def alloc (s : State) (k : Nat) : State × Obs :=
  match s.allocated.lookup k with
  | some i => (s, .okAddr (prefixOf s.cfg i))
  | none =>
    match findFree s with
    | none => (s, .exhausted)
    | some i => (give s k i ((i + 1) % 2 ^ 64), .okAddr (prefixOf s.cfg i))

def allocSpecific (s : State) (k addr ones : Nat) : State × Obs :=
  match indexOf s.cfg addr ones with
  | none => (s, .range)
  | some i =>
    if i ∈ s.bits then
      if s.idx2sub.lookup i = some k then (s, .ok) else (s, .conflict)
    else if (s.allocated.lookup k).isSome then (s, .conflict)
    else (give s k i s.nextFree, .ok)

def hintAfterRelease (s : State) (i : Nat) : Nat := if i < s.nextFree then i else s.nextFree

def release (s : State) (k : Nat) : State × Obs :=
  match s.allocated.lookup k with
  | none => (s, .notfound)
  | some i => (take s k i (hintAfterRelease s i), .ok)

def releasePrefix (s : State) (addr ones : Nat) : State × Obs :=
  match indexOf s.cfg addr ones with
  | none => (s, .range)
  | some i =>
    if i ∉ s.bits then (s, .notfound)
    else
      match s.idx2sub.lookup i with
      | some k => (take s k i (hintAfterRelease s i), .ok)
      | none =>
        -- a set bit without a holder (unreachable, see `Inv.bit`): only the bit and counter change
        ({ s with bits := clearBit s.bits i, count := s.count - 1,
                  nextFree := hintAfterRelease s i }, .ok)

def lookup (s : State) (k : Nat) : Obs :=
  match s.allocated.lookup k with
  | some i => .okAddr (prefixOf s.cfg i)
  | none => .none

def lookupByPrefix (s : State) (addr ones : Nat) : Obs :=
  match indexOf s.cfg addr ones with
  | none => .none
  | some i => match s.idx2sub.lookup i with
    | some k => .sub k
    | none => .none

def isAllocated (s : State) (addr ones : Nat) : Obs :=
  match indexOf s.cfg addr ones with
  | none => .bool false
  | some i => .bool (decide (i ∈ s.bits))

/-- `big.Int.Uint64()`: low 64 bits of the absolute value -/
def uint64OfInt (x : Int) : Nat := x.natAbs % 2 ^ 64

def stats (s : State) : Obs := .stats (uint64OfInt s.count) s.cfg.total

/-- SetAllocation (replay from the distributed store) -/
def setAllocation (s : State) (k addr ones : Nat) : State × Obs :=
  match indexOf s.cfg addr ones with
  | none => (s, .range)
  | some i =>
    match s.idx2sub.lookup i with
    | some k' => if k' ≠ k then (s, .conflict) else setIt s k i
    | none => setIt s k i
where
  setIt (s : State) (k i : Nat) : State × Obs :=
    match s.allocated.lookup k with
    | some old =>
      if old ≠ i then
        -- the subscriber moves: the old unit is cleared, the new one set (hint untouched)
        (give (take s k old s.nextFree) k i s.nextFree, .ok)
      else
        -- identical record replayed: nothing changes
        (s, .ok)
    | none => (give s k i s.nextFree, .ok)

/-- UnmarshalJSON ∘ MarshalJSON: bitmap and `allocated` survive, the reverse index is rebuilt,
    the count is recomputed, the hint is dropped. -/
def rebuildFrom (acc : AMap Nat Nat) (m : AMap Nat Nat) : AMap Nat Nat :=
  List.foldl (fun (acc : AMap Nat Nat) (p : Nat × Nat) => AMap.insert acc p.2 p.1) acc m

def roundtrip (s : State) : State :=
  { s with idx2sub := rebuildFrom [] s.allocated,
           count := s.allocated.length, nextFree := 0 }

def insertSorted (p : Nat × Nat × Nat) : List (Nat × Nat × Nat) → List (Nat × Nat × Nat)
  | [] => [p]
  | q :: rest => if p.1 ≤ q.1 then p :: q :: rest else q :: insertSorted p rest

def listAllocations (s : State) : Obs :=
  .list (s.allocated.foldl (fun acc p => insertSorted (p.1, prefixOf s.cfg p.2, p.2) acc) [])

inductive Op where
  | alloc (k : Nat)
  | allocSpecific (k addr ones : Nat)
  | release (k : Nat)
  | releasePrefix (addr ones : Nat)
  | lookup (k : Nat)
  | lookupByPrefix (addr ones : Nat)
  | isAllocated (addr ones : Nat)
  | stats
  | setAllocation (k addr ones : Nat)
  | roundtrip
  | list
  deriving Repr, DecidableEq

def step (s : State) : Op → State × Obs
  | .alloc k => alloc s k
  | .allocSpecific k a o => allocSpecific s k a o
  | .release k => release s k
  | .releasePrefix a o => releasePrefix s a o
  | .lookup k => (s, lookup s k)
  | .lookupByPrefix a o => (s, lookupByPrefix s a o)
  | .isAllocated a o => (s, isAllocated s a o)
  | .stats => (s, stats s)
  | .setAllocation k a o => setAllocation s k a o
  | .roundtrip => (roundtrip s, .ok)
  | .list => (s, listAllocations s)

def run (s : State) (ops : List Op) : State := ops.foldl (fun st op => (step st op).1) s

/-- the observations along a run -/
def trace : State → List Op → List (Op × Obs)
  | _, [] => []
  | s, op :: ops => (op, (step s op).2) :: trace (step s op).1 ops

/-- the geometry the abstract pool specification is told about -/
def geoOf (c : Cfg) : PoolSpec.Geo :=
  { lo := c.base, step := c.step, units := c.totalBig, totalReported := c.totalBig }

/-- a request naming any address inside a unit refers to that unit (getIndexByPrefix rounds down) -/
def unitOf (c : Cfg) (x : Nat) : Nat :=
  if c.step = 0 ∨ x < c.base then x else c.base + (x - c.base) / c.step * c.step

/-- What an answer of the allocator means for the abstract pool (C01/C05 monitor input).
    Used by `bngdrv` on the IMPLEMENTATION's answers and by the refinement theorem on the model's. -/
def toEvent (c : Cfg) : Op → Obs → PoolSpec.Ev
  | .alloc k, .okAddr a => .got k a
  | .alloc _, .exhausted => .exhausted
  | .allocSpecific k x _, .ok => .got k (unitOf c x)
  | .release k, .ok => .released k
  | .release k, .notfound => .notHeld k
  | .releasePrefix x _, .ok => .releasedVal (unitOf c x)
  | .lookup k, .none => .looked k none
  | .lookup k, .okAddr a => .looked k (some a)
  | .lookupByPrefix x l, .none => if l = c.plen then .owner (unitOf c x) none else .nop
  | .lookupByPrefix x l, .sub k => if l = c.plen then .owner (unitOf c x) (some k) else .nop
  | .stats, .stats a t => .stats a t
  | .setAllocation k x _, .ok => .forced k (unitOf c x)
  | .list, .list l => .listing (l.map fun (k, a, _) => (k, a))
  | _, _ => .nop

end Bng.Bitmap
