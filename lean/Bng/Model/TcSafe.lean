import Bng.C
/-
  Checked-access models of the three TC programs' PACKET ACCESSES (C07): `antispoof_ingress` (bpf/antispoof.c),
  `qos_egress_prog` and `qos_ingress_prog` (bpf/qos_ratelimit.c), branch for branch over the checked loads of
  `Bng.C`.  The map side is abstracted to its results: every `bpf_map_lookup_elem` (and, for QoS, the
  `token_bucket_check` that follows it) is a parameter of the model, so the safety theorems hold for ALL map
  contents and helper behaviours.  The functional models of the map logic are Bng/Model/Antispoof.lean (C18) and
  Bng/Model/TokenBucket.lean (C19); the driver instantiates the parameters with them.
  None of the three programs writes to the packet (QoS egress writes `skb->priority` only).
  Core Lean only.
-/
namespace Bng.TcSafe
open Bng Bng.C

abbrev Bytes := List UInt8

/-- what `antispoof_ingress` gets from its maps -/
structure AsEnv where
  /-- `bpf_map_lookup_elem(&antispoof_config, &0)`: the 8 bytes of the slot, or NULL -/
  config : Option Bytes
  /-- `bpf_map_lookup_elem(&subscriber_bindings, &mac_key)` for the 8 key bytes: the 24 value bytes, or NULL -/
  binding : Bytes → Option Bytes
  /-- `ip_in_allowed_range(src_ip)` for the four source address bytes (LPM trie lookup ≠ NULL) -/
  inRange : Bytes → Bool

/-- `mac_to_u64(eth->h_source)` as the 8 key bytes of the `__u64` -/
def macKey (mac : Bytes) : Bytes := mac.reverse ++ [0, 0]

/-- `antispoof_ingress`: verdict, frame afterwards, number of perf events -/
def antispoof (f : Frame) (env : AsEnv) : M (Nat × Frame × Nat) := do
  -- if ((void *)(eth + 1) > data_end) return TC_ACT_OK;
  if 14 > f.length then pure (TC_ACT_OK, f, 0) else do
  let mac ← ldBytes f 6 6
  let defaultMode : UInt8 := match env.config with | some c => rd8 c 0 | none => 0
  let logViolations : UInt8 := match env.config with | some c => rd8 c 1 | none => 0
  let binding := env.binding (macKey mac)
  let mode : UInt8 := match binding with | some b => rd8 b 22 | none => defaultMode
  if mode == 0 then pure (TC_ACT_OK, f, 0) else do
  let proto ← ld16 f 12
  if proto == htons 0x0800 then do
    -- if ((void *)(ip + 1) > data_end) return TC_ACT_OK;
    if 14 + 20 > f.length then pure (TC_ACT_OK, f, 0) else do
    let src ← ld32 f 26
    let srcBytes ← ldBytes f 26 4
    let allowed : Bool :=
      if mode == 2 then env.inRange srcBytes
      else match binding with
        | some b => if rd8 b 20 != 0 then (if mode == 1 || mode == 3 then ntohl src == rd32 b 0 else false) else false
        | none => false
    if !allowed then do
      -- log_violation copies eth->h_source out of the packet
      let ev ← (if logViolations != 0 then do let _ ← ldBytes f 6 6; pure 1 else pure 0 : M Nat)
      if mode == 3 then pure (TC_ACT_OK, f, ev) else pure (TC_ACT_SHOT, f, ev)
    else pure (TC_ACT_OK, f, 0)
  else if proto == htons 0x86DD then do
    -- if ((void *)(ip6 + 1) > data_end) return TC_ACT_OK;
    if 14 + 40 > f.length then pure (TC_ACT_OK, f, 0) else do
    let src6 ← ldBytes f 22 16
    let allowed : Bool :=
      match binding with
      | some b => if rd8 b 21 != 0 then src6 == rdBytes b 4 16 else mode == 2
      | none => mode == 2
    if !allowed && mode != 3 then do
      let ev ← (if logViolations != 0 then do let _ ← ldBytes f 6 6; pure 1 else pure 0 : M Nat)
      pure (TC_ACT_SHOT, f, ev)
    else pure (TC_ACT_OK, f, 0)
  else pure (TC_ACT_OK, f, 0)

inductive Dir where
  | egress | ingress
  deriving DecidableEq, Repr

/-- `qos_egress_prog` / `qos_ingress_prog`.  `bucket key` = the result of the map lookup for the 4 key bytes
    (`bpf_ntohl(ip->daddr / saddr)` as a `__u32`) followed by `token_bucket_check`: `none` = no entry,
    `some (allowed, priority)`.  Result: verdict, frame afterwards, value written to `skb->priority` (if any). -/
def qos (d : Dir) (f : Frame) (bucket : Bytes → Option (Bool × UInt8)) : M (Nat × Frame × Option UInt8) := do
  if 14 > f.length then pure (TC_ACT_OK, f, none) else do
  let proto ← ld16 f 12
  if proto != htons 0x0800 then pure (TC_ACT_OK, f, none) else do
  if 14 + 20 > f.length then pure (TC_ACT_OK, f, none) else do
  let ip ← ld32 f (match d with | .egress => 30 | .ingress => 26)
  match bucket (leBytes 4 (ntohl ip).toNat) with
  | none => pure (TC_ACT_OK, f, none)
  | some (allowed, prio) =>
    if allowed then pure (TC_ACT_OK, f, match d with | .egress => some prio | .ingress => none)
    else pure (TC_ACT_SHOT, f, none)

end Bng.TcSafe
