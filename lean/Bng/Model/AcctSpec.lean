import Bng.Map
import Bng.Model.AcctWire
/-
  The monitor of C08.  It consumes OBSERVATIONS only:

    * which `start` calls were issued, with which identifiers, and which of them returned,
    * the traffic counter values the environment had (the `ctr` operations),
    * the records the RADIUS server ACCEPTED, in order, as decoded from the wire,
    * crash markers, and the content of the persistence directory observed at every crash, graceful
      shutdown and at the end (`sessions/*.json` names, Stop records in `pending.json`),
    * which sessions had a Stop record abandoned after MaxRetries failed attempts (retry budget exceeded).

  Verdicts (clause names of the property):
    stop-unstarted     a Stop was accepted for a session id no StartSession was ever called with
    stop-before-start  a Stop was accepted before that session's Start was accepted
    dup-stop           a Stop of a session was accepted after a Stop of that session had been ACKNOWLEDGED to
                       the client, although no crash happened since the session was started ("absent a crash a
                       Stop the server has already acknowledged is never sent again"); a Stop the server
                       accepted but whose reply the client never saw may legitimately be sent again
    lost-stop          at a crash / shutdown / quiescent end: a session whose StartSession returned, or whose
                       Start the server accepted, has no accepted Stop, and neither its session file nor a
                       Stop in pending.json exists (sessions whose retry budget was exceeded are exempt)
    identifiers        a record does not carry the identifiers given to StartSession for its session id
    gigawords          Acct-*-Gigawords present with value 0, or (gigawords·2^32 + octets) is not a value the
                       session's counter ever had
  Session ids are assumed not to be reused (RADIUS requires Acct-Session-Id to be unique); a trace that
  starts the same id twice marks the id `reused` and the monitor says nothing more about dup-stop for it.
  Core Lean only.
-/
namespace Bng.AcctSpec
open Bng Bng.AcctWire

inductive WKind | start | interim | stop | other
  deriving DecidableEq, Repr

/-- one accepted Accounting-Request, from the wire -/
structure WRec where
  kind  : WKind
  sid   : Nat
  ident : Option Nat          -- none = the identity attributes are not those of any one `ident`
  cause : Nat
  inO   : Octets
  outO  : Octets
  acked : Bool := true        -- the client got the Accounting-Response
  deriving Repr

structure MSess where
  ident    : Nat
  returned : Bool := false     -- StartSession returned ok
  reused   : Bool := false
  startAcc : Bool := false
  stopAcc  : Bool := false     -- a Stop was accepted by the server
  stopAcked : Bool := false    -- a Stop was accepted and acknowledged to the client
  crashed  : Bool := false     -- a crash happened since the start call
  budget   : Bool := false     -- a Stop record of the session was abandoned (retry budget exceeded)
  deriving Repr

structure Mon where
  sess : AMap Nat MSess := []
  /-- every value the session's (input, output) counters were given by the environment -/
  vals : AMap Nat (List UInt64 × List UInt64) := []
  deriving Repr

inductive Ev
  | startCalled (s ident : Nat)
  | startReturned (s : Nat)
  | ctr (s : Nat) (i o : UInt64)
  | accepted (r : WRec)
  | crash
  | durable (files pstops : List Nat)    -- observed directory content; checked for lost Stops
  | abandoned (s : Nat)
  deriving Repr

/-- (clause, session id, detail) -/
abbrev Verdict := String × Nat × String

def upd (m : Mon) (s : Nat) (f : MSess → MSess) : Mon :=
  match AMap.lookup m.sess s with
  | some x => { m with sess := AMap.insert m.sess s (f x) }
  | none => m

def valsOf (m : Mon) (s : Nat) : List UInt64 × List UInt64 :=
  match AMap.lookup m.vals s with
  | some v => (0 :: v.1, 0 :: v.2)
  | none => ([0], [0])

def octOk (vals : List UInt64) (o : Octets) : Bool :=
  (match o.giga with | some g => g != 0 | none => true) &&
  vals.any (fun v => v.toNat == decode o)

def checkAccepted (m : Mon) (r : WRec) : Mon × List Verdict :=
  match AMap.lookup m.sess r.sid with
  | none =>
    (m, if r.kind == .stop then [("stop-unstarted", r.sid, s!"Stop accepted for s{r.sid}, never started")]
        else [("identifiers", r.sid, s!"record for unknown session s{r.sid}")])
  | some x =>
    let idv : List Verdict :=
      if r.ident == some x.ident then [] else [("identifiers", r.sid, s!"record of s{r.sid} does not carry its identifiers")]
    let gv : List Verdict :=
      if r.kind == .interim || r.kind == .stop then
        (if octOk (valsOf m r.sid).1 r.inO then [] else [("gigawords", r.sid, s!"input octets of s{r.sid} not a counter value")]) ++
        (if octOk (valsOf m r.sid).2 r.outO then [] else [("gigawords", r.sid, s!"output octets of s{r.sid} not a counter value")])
      else []
    match r.kind with
    | .start => ({ m with sess := AMap.insert m.sess r.sid { x with startAcc := true } }, idv)
    | .stop =>
      let v1 : List Verdict := if x.startAcc then [] else
        [("stop-before-start", r.sid, s!"Stop of s{r.sid} accepted before its Start")]
      let v2 : List Verdict := if x.stopAcked && !x.crashed && !x.reused then
        [("dup-stop", r.sid, s!"acknowledged Stop of s{r.sid} sent again without a crash")] else []
      let x' : MSess := { x with stopAcc := true, stopAcked := x.stopAcked || r.acked }
      ({ m with sess := AMap.insert m.sess r.sid x' }, idv ++ gv ++ v1 ++ v2)
    | _ => (m, idv ++ gv)

def check (m : Mon) : Ev → Mon × List Verdict
  | .startCalled s ident =>
    ({ m with sess := match AMap.lookup m.sess s with
      | none => AMap.insert m.sess s { ident := ident }
      | some x => AMap.insert m.sess s { x with reused := true } }, [])
  | .startReturned s => (upd m s (fun x => { x with returned := true }), [])
  | .ctr s i o =>
    let v := match AMap.lookup m.vals s with | some v => v | none => ([], [])
    ({ m with vals := AMap.insert m.vals s (i :: v.1, o :: v.2) }, [])
  | .accepted r => checkAccepted m r
  | .crash => ({ m with sess := m.sess.map (fun (k, x) => (k, { x with crashed := true })) }, [])
  | .abandoned s => (upd m s (fun x => { x with budget := true }), [])
  | .durable files pstops =>
    (m, m.sess.filterMap (fun (k, x) =>
      if (x.returned || x.startAcc) && !x.stopAcc && !x.budget && !files.contains k && !pstops.contains k then
        some ("lost-stop", k, s!"s{k} was started, has no accepted Stop, and no session file or pending Stop is on disk")
      else none))

end Bng.AcctSpec
