/-
  The names pkg/radius/accounting.go derives from an Acct-Session-Id (an arbitrary byte string the caller of
  StartSession chooses):

    sessionFileName(id)   = url.PathEscape(id) + ".json"      the session's recovery file in <PersistPath>/sessions/
    writeFileAtomic(path) writes path + ".tmp" and renames it  the temporary file next to it

  `escape` is net/url's `escape(s, encodePathSegment)`: the bytes `shouldEscape` lets through are the ASCII letters
  and digits and  - _ . ~ $ & + : = @ ; every other byte c becomes '%' followed by the two UPPER-case hex digits of c.

  The small-step model `Bng.Acct` keys the durable session files by the session id (`Dur.files : AMap Nat Sess`).
  That is justified by the theorems of `Bng.Spec.C08Names` over these functions (the map id ↦ file name is injective,
  never leaves the directory, is always picked up again by the recovery's `filepath.Ext(name) == ".json"` filter, and
  never is another session's temporary file), and `fileName` itself is tied to the code by the correspondence run:
  the driver prints `fileName` of every session file of the model, the harness the real directory listing.
  Core Lean only.
-/
namespace Bng.AcctNames

/-- `!shouldEscape(c, encodePathSegment)` of net/url -/
def keep (c : UInt8) : Bool :=
  (0x61 ≤ c && c ≤ 0x7a) || (0x41 ≤ c && c ≤ 0x5a) || (0x30 ≤ c && c ≤ 0x39) ||
  c == 0x2d || c == 0x5f || c == 0x2e || c == 0x7e ||                       -- - _ . ~
  c == 0x24 || c == 0x26 || c == 0x2b || c == 0x3a || c == 0x3d || c == 0x40  -- $ & + : = @

/-- `upperhex[n]` for n < 16 -/
def hexUp (n : Nat) : UInt8 := if n < 10 then UInt8.ofNat (0x30 + n) else UInt8.ofNat (0x37 + n)

/-- `url.PathEscape` -/
def escape : List UInt8 → List UInt8
  | [] => []
  | c :: cs =>
    if keep c then c :: escape cs
    else 0x25 :: hexUp (c.toNat / 16) :: hexUp (c.toNat % 16) :: escape cs

/-- ".json" -/
def dotJson : List UInt8 := [0x2e, 0x6a, 0x73, 0x6f, 0x6e]
/-- ".tmp" -/
def dotTmp : List UInt8 := [0x2e, 0x74, 0x6d, 0x70]

/-- the name of a session's recovery file inside `<PersistPath>/sessions/` -/
def fileName (id : List UInt8) : List UInt8 := escape id ++ dotJson

/-- the temporary file `writeFileAtomic` writes before renaming it to `f` -/
def tmpName (f : List UInt8) : List UInt8 := f ++ dotTmp

/-- `filepath.Ext(name) == ".json"`, the filter of recoverOrphanedSessions: the name's suffix from its LAST dot -/
def extIsJson (name : List UInt8) : Bool :=
  (name.reverse.takeWhile (· != 0x2e)).reverse == [0x6a, 0x73, 0x6f, 0x6e] && name.contains 0x2e

/-- the bytes that are harmless in a file name: what `keep` lets through, and '%' -/
def safeByte (c : UInt8) : Bool := keep c || c == 0x25

end Bng.AcctNames
