import Bng.Map
/-
  The abstract specification every "subscriber-identifying key" table is judged against (C20):
  a partial injective map  subscriber ↦ key  reconstructed from API observations only.

  `check` consumes one observed event and reports which clause of the property it breaks:

    dup-key        one key identifies two subscribers
    id-unique      a freshly created identifier is already in use by a live subscriber
    range          a key outside the configured ranges was handed out
    fwd-rev        a forward or reverse lookup disagrees with what was handed out
    release-frame  a release disturbed another mapping, or left the released key unusable

  Keys and subscribers are `Nat` (a VLAN pair (s, c) is `s * 65536 + c`).  The same definition is run by
  `bngdrv` on the IMPLEMENTATION's observations for the components vlan, qinq, pppsess and index.
  Core Lean only.
-/
namespace Bng.KeySpec
open Bng

abbrev Verdict := String × String

structure Mon where
  /-- subscriber ↦ key, as handed out by the API -/
  held : AMap Nat Nat := []
  /-- a release happened and no other mutation since (mismatches found now are release-frame failures) -/
  sinceRelease : Bool := false
  deriving Repr

inductive Ev where
  /-- the API told `sub` that it holds `key`; `idem`: the call must not move an existing holding -/
  | gave (sub key : Nat) (inRange idem : Bool)
  /-- a NEW subscriber was created under identifier `key` -/
  | created (sub key : Nat) (inRange : Bool)
  | released (sub : Nat)
  | releasedKey (key : Nat)
  /-- an operation failed: it must not have changed anything (nothing to record) -/
  | failed
  /-- the API refused to give `key` to `sub` because "another subscriber holds it" -/
  | refused (sub key : Nat)
  /-- the API reported "no key left" while `used` of `cap` keys of the requested scope are held -/
  | exhausted (used cap : Nat)
  | fwd (sub : Nat) (r : Option Nat)
  | rev (key : Nat) (r : Option Nat)
  /-- complete forward listing (sorted by subscriber) and reverse listing (key, subscriber) sorted by key -/
  | dump (f : List (Nat × Nat)) (r : List (Nat × Nat))
  /-- a bulk (re)load that named the (subscriber, key) records `named` left the table as listed by `f` / `r`;
      `bad` = the NEW entries of `f` that are outside the configured ranges -/
  | adopt (named f r bad : List (Nat × Nat))
  | nop
  deriving Repr

def holderOf (m : AMap Nat Nat) (key : Nat) : Option Nat :=
  match m.find? (fun p => p.2 == key) with
  | some p => some p.1
  | none => none

def insertSorted (p : Nat × Nat) : List (Nat × Nat) → List (Nat × Nat)
  | [] => [p]
  | q :: rest => if p.1 ≤ q.1 then p :: q :: rest else q :: insertSorted p rest

def sortPairs (m : List (Nat × Nat)) : List (Nat × Nat) := m.foldl (fun acc p => insertSorted p acc) []

def frameName (m : Mon) : String := if m.sinceRelease then "release-frame" else "fwd-rev"

def checkGave (m : Mon) (sub key : Nat) (inRange idem : Bool) (dupName : String) : List Verdict :=
  -- the range clause judges NEW bindings (a repeated answer about an existing holding was judged when it was made)
  (if inRange || AMap.lookup m.held sub = some key then [] else
    [("range", s!"key {key} given to {sub} is outside the configured ranges")]) ++
  (match AMap.lookup m.held sub with
    | some k' => if idem && k' ≠ key then [("fwd-rev", s!"{sub} held {k'} and was told {key}")] else []
    | none => []) ++
  (match holderOf (AMap.erase m.held sub) key with
    | some s' => [(dupName, s!"key {key} given to {sub} while held by {s'}")]
    | none => [])

def check (m : Mon) : Ev → Mon × List Verdict
  | .gave sub key inRange idem =>
    ({ held := AMap.insert m.held sub key, sinceRelease := false }, checkGave m sub key inRange idem "dup-key")
  | .created sub key inRange =>
    ({ held := AMap.insert m.held sub key, sinceRelease := false }, checkGave m sub key inRange false "id-unique")
  | .released sub => ({ held := AMap.erase m.held sub, sinceRelease := true }, [])
  | .releasedKey key =>
    (match holderOf m.held key with
      | some s => { held := AMap.erase m.held s, sinceRelease := true }
      | none => { m with sinceRelease := true }, [])
  | .failed => (m, [])
  | .refused sub key =>
    (m, match holderOf (AMap.erase m.held sub) key with
        | some _ => []
        | none => [("release-frame", s!"key {key} refused to {sub} as taken although no other subscriber holds it")])
  | .exhausted used cap =>
    (m, if used < cap then [("release-frame", s!"no key left reported with {used} of {cap} keys held")] else [])
  | .fwd sub r =>
    (m, if AMap.lookup m.held sub = r then [] else
          [(frameName m, s!"lookup of subscriber {sub} disagrees with what was handed out")])
  | .rev key r =>
    (m, if holderOf m.held key = r then [] else
          [(frameName m, s!"reverse lookup of key {key} disagrees with what was handed out")])
  | .dump f r =>
    (m, (if f = sortPairs m.held then [] else [(frameName m, "forward listing disagrees with what was handed out")]) ++
        (if r = sortPairs (f.map fun p => (p.2, p.1)) then [] else
          [(frameName m, "reverse listing is not the inverse of the forward listing")]))
  | .adopt named f r bad =>
    ({ held := f, sinceRelease := false },
      (bad.map fun p => ("range", s!"key {p.2} of {p.1} is outside the configured ranges")) ++
      (if (f.map (·.2)).Nodup then [] else [("dup-key", "after the load one key is held by two subscribers")]) ++
      (if r = sortPairs (f.map fun p => (p.2, p.1)) then [] else
        [("fwd-rev", "after the load the reverse listing is not the inverse of the forward listing")]) ++
      (if (sortPairs m.held).all (fun p => named.any (fun q => q.1 == p.1) || f.contains p) &&
          f.all (fun p => AMap.lookup m.held p.1 = some p.2 || named.contains p)
        then [] else [("fwd-rev", "the load changed a subscriber it did not name, or invented a record")]))
  | .nop => (m, [])

end Bng.KeySpec
