/-
  The accounting of the real session paths (C08): pkg/dhcp Server (handleRequest: Accounting-Start for a new
  session; releaseSessionResources: Accounting-Stop) and pkg/pppoe SessionTeardown (cleanup: Accounting-Stop; no
  Start is ever sent on the PPPoE path, finding KF-pppoe-no-acct-start).  Both call radius.Client.SendAccounting
  DIRECTLY: a request the server does not receive is logged and forgotten - there is no queue and nothing on disk
  (radius.AccountingManager is constructed nowhere outside its tests).

  The server is `up` or not; a record is accepted iff the server is up at the moment the path sends it.
  Ghost fields (no transition reads them): `ended`, `endedDown`.
  Core Lean only.
-/
namespace Bng.AcctDirect

inductive Path | dhcp | pppoe
  deriving DecidableEq, Repr

/-- a session: the `gen`-th session of DHCP client `k`, or PPPoE session `k` (gen = 1) -/
structure Sid where
  path : Path
  k    : Nat
  gen  : Nat
  deriving DecidableEq, Repr

inductive RKind | start | stop
  deriving DecidableEq, Repr

structure Rec where
  kind : RKind
  sid  : Sid
  deriving DecidableEq, Repr

structure State where
  up        : Bool := true
  leases    : List (Nat × Nat) := []   -- DHCP client k ↦ generation of its live session
  gens      : List (Nat × Nat) := []   -- DHCP client k ↦ number of its sessions so far
  ppp       : List Nat := []           -- live PPPoE sessions
  pppUsed   : List Nat := []
  log       : List Rec := []           -- accepted by the accounting server, oldest first
  /-- ghost: sessions that have ended -/
  ended     : List Sid := []
  /-- ghost: sessions that ended while the accounting server was unreachable -/
  endedDown : List Sid := []
  deriving Repr

def find (m : List (Nat × Nat)) (k : Nat) : Option Nat := (m.find? (fun e => e.1 == k)).map (·.2)
def put (m : List (Nat × Nat)) (k v : Nat) : List (Nat × Nat) := (k, v) :: m.filter (fun e => e.1 != k)
def del (m : List (Nat × Nat)) (k : Nat) : List (Nat × Nat) := m.filter (fun e => e.1 != k)

/-- `radiusClient.SendAccounting(...)`; an error is logged, nothing else -/
def sendDirect (σ : State) (r : Rec) : State := if σ.up then { σ with log := σ.log ++ [r] } else σ

def endSession (σ : State) (s : Sid) : State :=
  sendDirect { σ with ended := s :: σ.ended, endedDown := if σ.up then σ.endedDown else s :: σ.endedDown }
    { kind := .stop, sid := s }

inductive Op
  | srv (up : Bool)
  | dreq (k : Nat)      -- DISCOVER + REQUEST
  | drel (k : Nat)      -- RELEASE
  | pmk (k : Nat)       -- an authenticated PPPoE session is established
  | ppadt (k : Nat)     -- the client's PADT
  deriving Repr

def step (σ : State) : Op → State
  | .srv u => { σ with up := u }
  | .dreq k =>
    match find σ.leases k with
    | some _ => σ                                     -- renewal: no accounting
    | none =>
      let g := (find σ.gens k).getD 0 + 1
      sendDirect { σ with leases := put σ.leases k g, gens := put σ.gens k g }
        { kind := .start, sid := { path := .dhcp, k := k, gen := g } }
  | .drel k =>
    match find σ.leases k with
    | none => σ
    | some g => endSession { σ with leases := del σ.leases k } { path := .dhcp, k := k, gen := g }
  | .pmk k => if σ.pppUsed.contains k then σ else { σ with ppp := k :: σ.ppp, pppUsed := k :: σ.pppUsed }
  | .ppadt k =>
    if σ.ppp.contains k then endSession { σ with ppp := σ.ppp.filter (· != k) } { path := .pppoe, k := k, gen := 1 }
    else σ

def run (σ : State) : List Op → State
  | [] => σ
  | op :: ops => run (step σ op) ops

end Bng.AcctDirect
