import Bng.C
import Bng.Map
/-
  Byte-level model of `dhcp_fastpath_prog` (/repo/bpf/dhcp_fastpath.c), branch for branch.

  One Lean function per C function; every bounds test of the C text is an `if` of the model and
  every packet dereference goes through the checked accessors of `Bng.C`, so a dereference the C
  program makes without having established its bounds is a `Fault` of the model.

  Maps are association lists of the RAW key and value bytes (what `bpf_map_lookup_elem` compares
  and hands out).  Struct field offsets are those of the packed C declarations in bpf/maps.h:

    struct pool_assignment (25 bytes): pool_id@0 allocated_ip@4 vlan_id@8 client_class@12
                                       lease_expiry@13 flags@21 _pad@22
    struct ip_pool (28 bytes):         network@0 prefix_len@4 gateway@8 dns_primary@12
                                       dns_secondary@16 lease_time@20
    struct dhcp_server_config (16):    server_mac@0 server_ip@8 interface_index@12
    struct vlan_key (4):               s_tag@0 c_tag@2          struct circuit_id_key: data[32]

  Not modelled: the statistics counters (`update_stat` touches only stats_map, never the frame or
  the verdict).  `bpf_xdp_adjust_tail` is the kernel helper as documented: a shrink to no less than
  ETH_HLEN succeeds, growth beyond the tail room fails (`tailRoom`, the bound used by /verif/cshim).
  Core Lean only.
-/
namespace Bng.XdpDhcp
open Bng Bng.C

abbrev Bytes := List UInt8
abbrev BMap := AMap Bytes Bytes

/-- the five maps `dhcp_fastpath_prog` reads -/
structure Maps where
  /-- subscriber_pools: key = `__u64` MAC (8 bytes), value = struct pool_assignment -/
  sub : BMap := []
  /-- vlan_subscriber_pools: key = struct vlan_key (4 bytes) -/
  vlan : BMap := []
  /-- circuit_id_subscribers: key = struct circuit_id_key (32 bytes) -/
  cid : BMap := []
  /-- ip_pools: key = `__u32` pool id -/
  pools : BMap := []
  /-- server_config[0] (BPF_MAP_TYPE_ARRAY: the kernel always has the slot, zero-filled until written;
      `none` models a failed lookup, which the C code tests for) -/
  cfg : Option Bytes := some (List.replicate 16 0)

/-! ### constants of the C text -/
def ETH_HLEN : Nat := 14
def VLAN_HLEN : Nat := 4
def IPHDR : Nat := 20
def UDPHDR : Nat := 8
def DHCP_FIXED : Nat := 240        -- sizeof(struct dhcp_packet)
def MAX_REPLY_OPTS : Nat := 64     -- MAX_DHCP_REPLY_OPTIONS_LEN
def CID_KEY_LEN : Nat := 32        -- CIRCUIT_ID_KEY_LEN
/-- 255.255.255.255 (`pkt.ip->daddr = 0xFFFFFFFF`) -/
@[irreducible] def IP_BCAST : UInt32 := 0xFFFFFFFF
def DHCP_DISCOVER : UInt8 := 1
def DHCP_OFFER : UInt8 := 2
def DHCP_REQUEST : UInt8 := 3
def DHCP_ACK : UInt8 := 5
/-- shim/kernel bound on growing the tail (one page minus headroom and skb_shared_info) -/
def tailRoom : Nat := 4096 - 256 - 320

/-- `struct pkt_ctx` with pointers as offsets from `data` -/
structure Pkt where
  vlanOff : Nat          -- vlan_offset
  ipOff : Nat
  udpOff : Nat
  dhcpOff : Nat
  vlanId : UInt16 := 0
  innerVlanId : UInt16 := 0
  tagged : Bool := false
  deriving Repr

/-- result of the Ethernet/VLAN part of `parse_packet_headers` -/
structure L2 where
  proto : UInt16         -- eth_proto after the tags (as loaded, i.e. network order bytes in a host integer)
  l3 : Nat               -- l3_start
  vlanOff : Nat := 0
  vlanId : UInt16 := 0
  innerVlanId : UInt16 := 0
  tagged : Bool := false

/-- `parse_packet_headers`, Ethernet and 802.1Q / 802.1ad part: `none` = return -1 -/
def parseL2 (f : Frame) : M (Option L2) := do
  -- if ((void *)(pkt->eth + 1) > data_end) return -1;
  if ETH_HLEN > f.length then pure none else do
  let proto0 ← ld16 f 12
  if proto0 == htons 0x8100 || proto0 == htons 0x88A8 then do
    -- if ((void *)(vhdr + 1) > data_end) return -1;
    if ETH_HLEN + VLAN_HLEN > f.length then pure none else do
    let tci ← ld16 f 14
    let vlanId := ntohs tci &&& 0x0FFF
    let proto1 ← ld16 f 16
    if proto1 == htons 0x8100 then do
      -- if ((void *)(inner_vhdr + 1) > data_end) return -1;
      if ETH_HLEN + 2 * VLAN_HLEN > f.length then pure none else do
      let tci2 ← ld16 f 18
      let inner := ntohs tci2 &&& 0x0FFF
      let proto2 ← ld16 f 20
      pure (some { proto := proto2, l3 := ETH_HLEN + 2 * VLAN_HLEN, vlanOff := 2 * VLAN_HLEN,
                   vlanId := vlanId, innerVlanId := inner, tagged := true })
    else
      pure (some { proto := proto1, l3 := ETH_HLEN + VLAN_HLEN, vlanOff := VLAN_HLEN,
                   vlanId := vlanId, tagged := true })
  else
    pure (some { proto := proto0, l3 := ETH_HLEN })

/-- `parse_packet_headers`, IPv4 / UDP / BOOTP part -/
def parseL3 (f : Frame) (e : L2) : M (Option Pkt) := do
  -- Only process IPv4
  if e.proto != htons 0x0800 then pure none else do
  -- if ((void *)(pkt->ip + 1) > data_end) return -1;
  if e.l3 + IPHDR > f.length then pure none else do
  -- Only process UDP
  let ipProto ← ld8 f (e.l3 + 9)
  if ipProto != 17 then pure none else do
  -- pkt->udp = (void *)pkt->ip + (pkt->ip->ihl * 4);   (ihl = low nibble of byte 0 on a little-endian host)
  let b0 ← ld8 f e.l3
  let ihl := b0 &&& 0x0F
  -- if (pkt->ip->ihl != 5) return -1;
  if ihl != 5 then pure none else do
  let udp := e.l3 + ihl.toNat * 4
  if udp + UDPHDR > f.length then pure none else do
  let dport ← ld16 f (udp + 2)
  if dport != htons 67 then pure none else do
  let dhcp := udp + UDPHDR
  if dhcp + DHCP_FIXED > f.length then pure none else
  pure (some { vlanOff := e.vlanOff, ipOff := e.l3, udpOff := udp, dhcpOff := dhcp, vlanId := e.vlanId,
               innerVlanId := e.innerVlanId, tagged := e.tagged })

/-- `parse_packet_headers`: `none` = return -1 -/
def parseHeaders (f : Frame) : M (Option Pkt) := do
  match ← parseL2 f with
  | none => pure none
  | some e => parseL3 f e

/-- `[53][1][type]` at fixed offset `i` of the options area -/
def msgTypeAt (f : Frame) (o i : Nat) : M (Option UInt8) := do
  let c ← ld8 f (o + i)
  let l ← ld8 f (o + i + 1)
  if c == 53 && l == 1 then do
    let t ← ld8 f (o + i + 2)
    pure (some t)
  else pure none

/-- try the fixed offsets in the order of the C text -/
def msgTypeScan (f : Frame) (o : Nat) : List Nat → M UInt8
  | [] => pure 0
  | i :: rest => do
    match ← msgTypeAt f o i with
    | some t => pure t
    | none => msgTypeScan f o rest

/-- `get_dhcp_msg_type`: option 53 at the fixed offsets 0,1,3,4,5,6 of the options area -/
def getMsgType (f : Frame) (dhcp : Nat) : M UInt8 :=
  let o := dhcp + DHCP_FIXED
  -- if ((void *)(opts + 12) > data_end) return 0;
  if o + 12 > f.length then pure 0 else msgTypeScan f o [0, 1, 3, 4, 5, 6]

/-- the key built by the copy loop: `cidLen` bytes of the packet, zero padded to 32 -/
def cidKeyFrom (f : Frame) (off cidLen : Nat) : M Bytes := do
  let bs ← ldBytes f off cidLen
  pure (bs ++ List.replicate (CID_KEY_LEN - cidLen) 0)

/-- the body shared by both places: `[1][cid_len][cid…]` at `sub` → key -/
def cidAt (f : Frame) (sub : Nat) : M (Option Bytes) := do
  let t ← ld8 f sub
  if t != 1 then pure none else do
  let cidLen ← ld8 f (sub + 1)
  if cidLen > 0 && decide (cidLen.toNat ≤ CID_KEY_LEN) && decide (sub + 2 + cidLen.toNat ≤ f.length) then do
    let k ← cidKeyFrom f (sub + 2) cidLen.toNat
    pure (some k)
  else pure none

/-- the loop `for (pos = 12; pos < 20; pos++)` of `extract_circuit_id_fixed`, `n` iterations left -/
def cidScan (f : Frame) (o : Nat) : (n : Nat) → (pos : Nat) → M (Option Bytes)
  | 0, _ => pure none
  | n + 1, pos => do
    let c ← ld8 f (o + pos)
    if c == 82 && decide (o + pos + 8 ≤ f.length) then do
      let opt82Len ← ld8 f (o + pos + 1)
      if opt82Len ≥ 4 then do
        match ← cidAt f (o + pos + 2) with
        | some k => pure (some k)
        | none => cidScan f o n (pos + 1)
      else cidScan f o n (pos + 1)
    else cidScan f o n (pos + 1)

/-- `extract_circuit_id_fixed`: `none` = return 0, `some key` = return 1 with the 32 key bytes -/
def extractCid (f : Frame) (dhcp : Nat) : M (Option Bytes) := do
  let o := dhcp + DHCP_FIXED
  -- if ((void *)(opts + 64) > data_end) return 0;
  if o + 64 > f.length then pure none else do
  let c ← ld8 f (o + 3)
  if c == 82 then do
    let opt82Len ← ld8 f (o + 4)
    if opt82Len ≥ 4 && decide (o + 5 + opt82Len.toNat ≤ f.length) then do
      match ← cidAt f (o + 5) with
      | some k => pure (some k)
      | none => cidScan f o 8 12
    else cidScan f o 8 12
  else cidScan f o 8 12

/-- `mac_to_u64(dhcp->chaddr)` as the 8 key bytes of the `__u64` (little-endian host) -/
def macKey (f : Frame) (dhcp : Nat) : M Bytes := do
  let mac ← ldBytes f (dhcp + 28) 6
  pure (mac.reverse ++ [0, 0])

/-- `struct vlan_key { .s_tag = vlan_id, .c_tag = inner_vlan_id }` -/
def vlanKey (p : Pkt) : Bytes := leBytes 2 p.vlanId.toNat ++ leBytes 2 p.innerVlanId.toNat

/-- the three-stage lookup of the main program (VLAN pair, then circuit-id, then MAC) -/
def lookupAssignment (f : Frame) (m : Maps) (p : Pkt) : M (Option Bytes) := do
  match (if p.tagged then AMap.lookup m.vlan (vlanKey p) else none) with
  | some a => pure (some a)
  | none => do
    let k ← extractCid f p.dhcpOff
    match (match k with | some key => AMap.lookup m.cid key | none => none) with
    | some a => pure (some a)
    | none => do
      let mk ← macKey f p.dhcpOff
      pure (AMap.lookup m.sub mk)

/-- `prefix_to_mask` -/
def prefixToMask (plen : UInt8) : UInt32 :=
  if plen == 0 then 0
  else if plen ≥ 32 then 0xFFFFFFFF
  else htonl ((0xFFFFFFFF : UInt32) <<< (32 - plen.toUInt32))

/-- one `[code][len=4][u32]` option with its bounds test; `none` = return -1 -/
def putOpt4 (f : Frame) (opt off : Nat) (code : UInt8) (v : UInt32) : M (Option (Frame × Nat)) := do
  if opt + off + 6 > f.length then pure none else do
  let f ← st8 f (opt + off) code
  let f ← st8 f (opt + off + 1) 4
  let f ← st32 f (opt + off + 2) v
  pure (some (f, off + 6))

/-- option 6 of `build_dhcp_options` -/
def putDns (f : Frame) (opt off : Nat) (dns1 dns2 : UInt32) : M (Option (Frame × Nat)) := do
  if dns1 != 0 then do
    let dnsLen : Nat := if dns2 != 0 then 8 else 4
    if opt + off + 2 + dnsLen > f.length then pure none else do
    let f ← st8 f (opt + off) 6
    let f ← st8 f (opt + off + 1) (UInt8.ofNat dnsLen)
    let f ← st32 f (opt + off + 2) dns1
    if dns2 != 0 then do
      let f ← st32 f (opt + off + 6) dns2
      pure (some (f, off + 10))
    else pure (some (f, off + 6))
  else pure (some (f, off))

/-- sequencing of option writers (`return -1` propagates) -/
def andThen (r : M (Option (Frame × Nat))) (k : Frame → Nat → M (Option (Frame × Nat))) :
    M (Option (Frame × Nat)) := do
  match ← r with
  | none => pure none
  | some (f, off) => k f off

/-- `build_dhcp_options`: `none` = return -1, else the frame and the option length -/
def buildOptions (f : Frame) (opt : Nat) (msgType : UInt8) (pool : Bytes) (serverIp : UInt32) :
    M (Option (Frame × Nat)) :=
  let leaseTime := rd32 pool 20
  -- Option 53
  if opt + 3 > f.length then pure none else
  andThen (do
    let f ← st8 f opt 53
    let f ← st8 f (opt + 1) 1
    let f ← st8 f (opt + 2) msgType
    pure (some (f, 3))) fun f off =>
  -- 54 server identifier (copied as stored), 51 lease time, 1 subnet mask, 3 router (copied as stored)
  andThen (putOpt4 f opt off 54 serverIp) fun f off =>
  andThen (putOpt4 f opt off 51 (htonl leaseTime)) fun f off =>
  andThen (putOpt4 f opt off 1 (prefixToMask (rd8 pool 4))) fun f off =>
  andThen (putOpt4 f opt off 3 (rd32 pool 8)) fun f off =>
  -- 6 DNS (copied as stored)
  andThen (putDns f opt off (rd32 pool 12) (rd32 pool 16)) fun f off =>
  -- 58 T1, 59 T2
  andThen (putOpt4 f opt off 58 (htonl (leaseTime / 2))) fun f off =>
  andThen (putOpt4 f opt off 59 (htonl ((leaseTime * 7) / 8))) fun f off =>
  -- 255 end
  if opt + off + 1 > f.length then pure none else do
  let f ← st8 f (opt + off) 255
  pure (some (f, off + 1))

/-- `sum += buf[i]` over the host-order (little-endian) 16-bit words, as a natural number.
    The C accumulator is a `__u32`; ten 16-bit words cannot overflow it, and `foldCsum` reduces modulo 2^32
    where C does, so the arithmetic below IS the C arithmetic: `x & 0xFFFF = x % 65536`, `x >> 16 = x / 65536`,
    `~x = 2^32 - 1 - x` on 32 bits, `(__u16)x = x % 65536`. -/
def sumWords : List UInt8 → Nat
  | a :: b :: rest => a.toNat + 256 * b.toNat + sumWords rest
  | _ => 0

/-- `sum = (sum & 0xFFFF) + (sum >> 16)` twice, then `~sum` truncated to `__u16` -/
def foldCsum (sum : Nat) : Nat :=
  let s0 := sum % 4294967296
  let s1 := (s0 % 65536 + s0 / 65536) % 4294967296
  let s2 := (s1 % 65536 + s1 / 65536) % 4294967296
  (4294967295 - s2) % 65536

/-- `ip_checksum`: the loop reads `buf[0..9]`, i.e. the 20 bytes at `ip` -/
def ipChecksum (f : Frame) (ip : Nat) : M UInt16 := do
  let hdr ← ldBytes f ip 20
  pure (UInt16.ofNat (foldCsum (sumWords hdr)))

/-- `bpf_xdp_adjust_tail(ctx, delta)`: `none` = error return -/
def adjustTail (f : Frame) (delta : Int) : Option Frame :=
  let nlen : Int := f.length + delta
  if nlen < 14 then none
  else if nlen > tailRoom ∧ delta > 0 then none
  else if delta ≤ 0 then some (f.take nlen.toNat)
  else some (f ++ List.replicate delta.toNat 0)

/-- the L2/L3/L4 rewrite: relay branch or `setup_reply_l2_headers` + broadcast -/
def rewriteHeaders (f : Frame) (p : Pkt) (cfg : Bytes) (serverIp giaddr : UInt32) : M Frame := do
  let srvMac := rdBytes cfg 0 6
  if giaddr != 0 then do
    -- copy_mac(eth->h_dest, eth->h_source); copy_mac(eth->h_source, config->server_mac);
    let src ← ldBytes f 6 6
    let f ← stBytes f 0 src
    let f ← stBytes f 6 srvMac
    let f ← st32 f (p.ipOff + 12) serverIp
    let f ← st32 f (p.ipOff + 16) giaddr
    let f ← st8 f (p.ipOff + 8) 64
    let f ← st16 f (p.ipOff + 10) 0
    let f ← st16 f p.udpOff (htons 67)
    let f ← st16 f (p.udpOff + 2) (htons 67)
    st16 f (p.udpOff + 6) 0
  else do
    -- setup_reply_l2_headers
    let flags ← ld16 f (p.dhcpOff + 10)
    let ciaddr ← ld32 f (p.dhcpOff + 12)
    let chaddr ← ldBytes f (p.dhcpOff + 28) 6
    -- both inner branches of the C text set use_broadcast = 1 when ciaddr == 0
    let useBroadcast := (ntohs flags &&& 0x8000) != 0 || ciaddr == 0
    let f ← stBytes f 0 (if useBroadcast then List.replicate 6 0xFF else chaddr)
    let f ← stBytes f 6 srvMac
    let f ← st32 f (p.ipOff + 12) serverIp
    let f ← st32 f (p.ipOff + 16) IP_BCAST
    let f ← st8 f (p.ipOff + 8) 64
    let f ← st16 f (p.ipOff + 10) 0
    let f ← st16 f p.udpOff (htons 67)
    let f ← st16 f (p.udpOff + 2) (htons 68)
    st16 f (p.udpOff + 6) 0

/-- the BOOTP fixed part of the reply -/
def rewriteBootp (f : Frame) (p : Pkt) (yiaddr serverIp : UInt32) : M Frame := do
  let f ← st8 f p.dhcpOff 2
  let f ← st8 f (p.dhcpOff + 3) 0
  let f ← st32 f (p.dhcpOff + 16) yiaddr
  let f ← st32 f (p.dhcpOff + 20) serverIp
  let f ← memset f (p.dhcpOff + 44) 0 64
  memset f (p.dhcpOff + 108) 0 128

/-- lengths, checksum, tail adjustment, verdict (the part after `build_dhcp_options`) -/
def finish (f : Frame) (p : Pkt) (optLen : Nat) : M (Nat × Frame) := do
  let dhcpLen : UInt16 := UInt16.ofNat (DHCP_FIXED + optLen)
  let udpLen : UInt16 := 8 + dhcpLen
  let ipLen : UInt16 := 20 + udpLen
  let l2Len : UInt16 := UInt16.ofNat (ETH_HLEN + p.vlanOff)
  let totalLen : UInt16 := l2Len + ipLen
  let f ← st16 f (p.ipOff + 2) (htons ipLen)
  let f ← st16 f (p.udpOff + 4) (htons udpLen)
  let ck ← ipChecksum f p.ipOff
  let f ← st16 f (p.ipOff + 10) ck
  let origLen : UInt16 := UInt16.ofNat f.length
  let delta : Int := (totalLen.toNat : Int) - (origLen.toNat : Int)
  if delta != 0 then
    match adjustTail f delta with
    | none => pure (XDP_PASS, f)
    | some f' => pure (XDP_TX, f')
  else pure (XDP_TX, f)

/-- the reply construction after a cache hit (`assignment`, `pool`, `config` found, lease not expired) -/
def reply (f : Frame) (p : Pkt) (msgType : UInt8) (a pool cfg : Bytes) : M (Nat × Frame) := do
  let replyType := if msgType == DHCP_DISCOVER then DHCP_OFFER else DHCP_ACK
  let giaddr ← ld32 f (p.dhcpOff + 24)
  let cfgIp := rd32 cfg 8
  let serverIp := if cfgIp != 0 then cfgIp else rd32 pool 8
  let f ← rewriteHeaders f p cfg serverIp giaddr
  let f ← rewriteBootp f p (rd32 a 4) serverIp
  match ← buildOptions f (p.dhcpOff + DHCP_FIXED) replyType pool serverIp with
  | none => pure (XDP_PASS, f)     -- opt_len < 0 (the frame keeps what was written before the failing test)
  | some (f, optLen) => finish f p optLen

/-- `dhcp_fastpath_prog(ctx)` with `clk = bpf_ktime_get_ns()`: verdict and the frame afterwards -/
def run (f : Frame) (m : Maps) (clk : UInt64) : M (Nat × Frame) := do
  match ← parseHeaders f with
  | none => pure (XDP_PASS, f)
  | some p => do
    let op ← ld8 f p.dhcpOff
    if op != 1 then pure (XDP_PASS, f) else do
    let magic ← ld32 f (p.dhcpOff + 236)
    if magic != htonl 0x63825363 then pure (XDP_PASS, f) else do
    let msgType ← getMsgType f p.dhcpOff
    if msgType != DHCP_DISCOVER && msgType != DHCP_REQUEST then pure (XDP_PASS, f) else do
    match ← lookupAssignment f m p with
    | none => pure (XDP_PASS, f)
    | some a => do
      -- __u64 now = bpf_ktime_get_ns() / 1000000000;  if (now > assignment->lease_expiry) return XDP_PASS;
      let now := clk / 1000000000
      if now > rd64 a 13 then pure (XDP_PASS, f) else do
      match AMap.lookup m.pools (rdBytes a 0 4) with
      | none => pure (XDP_PASS, f)
      | some pool =>
        -- CHECK_BOUNDS_PASS(pkt.dhcp->options, pkt.data_end, MAX_DHCP_REPLY_OPTIONS_LEN);  (before the first write)
        if p.dhcpOff + DHCP_FIXED + MAX_REPLY_OPTS > f.length then pure (XDP_PASS, f) else
        match m.cfg with
        | none => pure (XDP_PASS, f)
        | some cfg => reply f p msgType a pool cfg

/-! ### named pieces of the reply (used by the closed forms and by the executable specification) -/

/-- the destination MAC `setup_reply_l2_headers` chooses -/
def l2Dest (f : Frame) (p : Pkt) : List UInt8 :=
  let flags := UInt16.ofNat (leNat (bytesAt f (p.dhcpOff + 10) 2))
  let ciaddr := UInt32.ofNat (leNat (bytesAt f (p.dhcpOff + 12) 4))
  if ((ntohs flags &&& 0x8000) != 0 || ciaddr == 0) = true then List.replicate 6 0xFF
  else bytesAt f (p.dhcpOff + 28) 6

/-- `config->server_ip != 0 ? config->server_ip : pool->gateway` -/
def serverIpOf (cfg pool : Bytes) : UInt32 := if rd32 cfg 8 != 0 then rd32 cfg 8 else rd32 pool 8
/-- OFFER for DISCOVER, ACK otherwise (i.e. for REQUEST) -/
def replyTypeOf (msgType : UInt8) : UInt8 := if msgType == DHCP_DISCOVER then DHCP_OFFER else DHCP_ACK

end Bng.XdpDhcp
