import Bng.Go
/-
  C09 — models of the network-facing decoders and handlers of bng, written in the Go-panic monad
  of `Bng/Go.lean`, mirroring the Go code branch for branch (the code AS IT IS after the `fix:`
  commits recorded in known_findings.json, D26–D33).

  Every decoder returns `G (result × steps)`:
    * `Except.error _`  = the Go code panics (slice / index out of range),
    * `result`          = what the Go function returns (a Go `error` return is the value `none`/`.err`),
    * `steps`           = loop iterations executed (+1 per call), the cost measure of the `_linear` theorems.
  Loops are well-founded recursions on `len - offset`: Lean's termination checker is the proof that
  no input makes them spin.  Core Lean only.
-/
namespace Bng.Decoders
open Bng.Go

/-! ## pkg/pppoe/protocol.go -/

structure PPPoEHeader where
  verType : UInt8
  code : UInt8
  sessionID : Nat
  length : Nat
  deriving Repr

/-- `ParsePPPoEHeader` -/
def parsePPPoEHeader (data : Bytes) : G (Option PPPoEHeader × Nat) :=
  if data.length < 6 then pure (none, 1) else do
    let vt ← index data 0
    let code ← index data 1
    let sid ← be16At data 2
    let len ← be16At data 4
    pure (some ⟨vt, code, sid, len⟩, 1)

structure Tag where
  typ : Nat
  value : Bytes
  deriving Repr

/-- the `for offset+4 <= len(data)` loop of `ParseTags` -/
def parseTagsLoop (data : Bytes) (off : Nat) (acc : List Tag) (n : Nat) :
    G (Option (List Tag) × Nat) :=
  if h : off + 4 ≤ data.length then do
    let t ← be16At data off
    let l ← be16At data (off + 2)
    if t = 0 then pure (some acc.reverse, n + 1)          -- TagEndOfList: break
    else if off + 4 + l > data.length then pure (none, n + 1)
    else do
      let v ← slice data (off + 4) (off + 4 + l)
      parseTagsLoop data (off + 4 + l) (⟨t, v⟩ :: acc) (n + 1)
  else pure (some acc.reverse, n)
termination_by data.length - off
decreasing_by omega

/-- `ParseTags` -/
def parseTags (data : Bytes) : G (Option (List Tag) × Nat) := parseTagsLoop data 0 [] 1

/-- `FindTag` -/
def findTag (tags : List Tag) (t : Nat) : Option Tag := tags.find? (fun x => x.typ == t)

structure LCPPacket where
  code : UInt8
  id : UInt8
  length : Nat
  data : Bytes
  deriving Repr

/-- `ParseLCPPacket` -/
def parseLCPPacket (data : Bytes) : G (Option LCPPacket × Nat) :=
  if data.length < 4 then pure (none, 1) else do
    let code ← index data 0
    let id ← index data 1
    let len ← be16At data 2
    if len > data.length then pure (none, 1)
    else if len > 4 then do
      let d ← slice data 4 len
      pure (some ⟨code, id, len, d⟩, 1)
    else pure (some ⟨code, id, len, []⟩, 1)

/-- `(*LCPPacket).Serialize` (the length field is `uint16(4+len(Data))`) -/
def serializeLCP (code id : UInt8) (data : Bytes) : Bytes :=
  [code, id] ++ putBE 2 ((4 + data.length) % 65536) ++ data

structure LCPOption where
  typ : UInt8
  data : Bytes
  deriving Repr

/-- the loop of `ParseLCPOptions` -/
def parseLCPOptionsLoop (data : Bytes) (off : Nat) (acc : List LCPOption) (n : Nat) :
    G (Option (List LCPOption) × Nat) :=
  if h : off + 2 ≤ data.length then do
    let t ← index data off
    let l8 ← index data (off + 1)
    if h2 : l8.toNat < 2 then pure (none, n + 1)
    else if off + l8.toNat > data.length then pure (none, n + 1)
    else do
      let d ← if l8.toNat > 2 then slice data (off + 2) (off + l8.toNat) else pure []
      parseLCPOptionsLoop data (off + l8.toNat) (⟨t, d⟩ :: acc) (n + 1)
  else if off ≠ data.length then pure (none, n)          -- a stray byte after the last option (commit b61c599)
  else pure (some acc.reverse, n)
termination_by data.length - off
decreasing_by omega

/-- `ParseLCPOptions` -/
def parseLCPOptions (data : Bytes) : G (Option (List LCPOption) × Nat) :=
  parseLCPOptionsLoop data 0 [] 1

/-- `SerializeLCPOptions` (`optBuf[1] = uint8(2+len(opt.Data))`) -/
def serializeLCPOptions (opts : List LCPOption) : Bytes :=
  opts.flatMap fun o => [o.typ, UInt8.ofNat ((2 + o.data.length) % 256)] ++ o.data

/-! ## pkg/pppoe/teardown.go, keepalive.go -/

/-- `ParsePADT` (with the D26 guard): `none` = error, `some (sid, tags)` otherwise -/
def parsePADT (data : Bytes) : G (Option (Nat × List Tag) × Nat) := do
  let (hdr?, n1) ← parsePPPoEHeader data
  match hdr? with
  | none => pure (none, n1)
  | some hdr =>
    if hdr.code ≠ 0xA7 then pure (some (0, []), n1)
    else if data.length > 6 then
      if 6 + hdr.length > data.length then pure (none, n1)          -- fix D26
      else do
        let payload ← slice data 6 (6 + hdr.length)
        let (tags?, n2) ← parseTags payload
        match tags? with
        | none => pure (none, n1 + n2)
        | some tags => pure (some (hdr.sessionID, tags), n1 + n2)
    else pure (some (hdr.sessionID, []), n1)

/-- `ParseEchoPacket` : (magic, payload) -/
def parseEchoPacket (data : Bytes) : G ((Nat × Bytes) × Nat) :=
  if data.length < 4 then pure ((0, []), 1) else do
    let m ← be32 (← sliceTo data 4)
    if data.length > 4 then do
      let p ← sliceFrom data 4
      pure ((m, p), 1)
    else pure ((m, []), 1)

/-! ## pkg/pppoe/server.go : handleDiscovery / handleSession / handlePAP and the simple LCP/IPCP replies -/

inductive Disc where
  /-- dropped (short, bad header, bad length, bad tags, other code) -/
  | none
  /-- PADI: was a PADO sent, and the Host-Uniq echoed in it -/
  | padi (pado : Bool) (hostUniq : Option Bytes)
  /-- PADR: was a session created / PADS sent, and the Host-Uniq echoed -/
  | padr (pads : Bool) (hostUniq : Option Bytes)
  | padt (sid : Nat)
  deriving Repr

/-- `handlePADI` as far as the reply goes -/
def handlePADI (svc : Bytes) (tags : List Tag) : Disc :=
  let hu := (findTag tags 0x0103).map (·.value)
  match findTag tags 0x0101 with
  | some sn => if sn.value.length > 0 ∧ sn.value ≠ svc then .padi false none else .padi true hu
  | none => .padi true hu

/-- `handlePADR` as far as the reply goes (session creation assumed to succeed) -/
def handlePADR (tags : List Tag) : Disc :=
  match findTag tags 0x0104 with
  | none => .padr false none
  | some _ => .padr true ((findTag tags 0x0103).map (·.value))

/-- `(*Server).handleDiscovery` (with the D31 guard; the fix also makes the slice bound `6+int(hdr.Length)`). -/
def handleDiscovery (svc : Bytes) (data : Bytes) : G (Disc × Nat) :=
  if data.length < 6 then pure (.none, 1) else do
    let (hdr?, n1) ← parsePPPoEHeader data
    match hdr? with
    | none => pure (.none, n1)
    | some hdr =>
      if 6 + hdr.length > data.length then pure (.none, n1)          -- fix D31
      else do
        let payload ← slice data 6 (6 + hdr.length)
        let (tags?, n2) ← parseTags payload
        match tags? with
        | none => pure (.none, n1 + n2)
        | some tags =>
          if hdr.code = 0x09 then pure (handlePADI svc tags, n1 + n2)
          else if hdr.code = 0x19 then pure (handlePADR tags, n1 + n2)
          else if hdr.code = 0xA7 then pure (.padt hdr.sessionID, n1 + n2)
          else pure (.none, n1 + n2)

/-- what the simple server needs to know about the session a frame is addressed to -/
structure SrvSession where
  id : Nat
  magic : Nat
  /-- `session.Authenticated` -/
  authed : Bool := false
  deriving Repr

/-- a PPP frame sent back: (protocol, payload) -/
abbrev Sent := List (Nat × Bytes)

/-- `startLCPNegotiation` with mru 1492 and PAP; the identifier byte is reported as 0 (the harness masks it) -/
def srvLcpConfReq (s : SrvSession) : Bytes :=
  serializeLCP 1 0 (serializeLCPOptions
    [⟨1, putBE 2 1492⟩, ⟨5, putBE 4 s.magic⟩, ⟨3, [0xC0, 0x23]⟩])

/-- `(*Server).handleLCP` : frames sent, and whether the session was removed (Terminate-Request) -/
def srvHandleLCP (s : SrvSession) (data : Bytes) : G ((Sent × Bool) × Nat) := do
  let (pkt?, n1) ← parseLCPPacket data
  match pkt? with
  | none => pure (([], false), n1)
  | some pkt =>
    if pkt.code = 1 then do
      let (opts?, n2) ← parseLCPOptions pkt.data
      match opts? with
      | none => pure (([], false), n1 + n2)
      | some _ => pure (([(0xC021, serializeLCP 2 pkt.id pkt.data)], false), n1 + n2)
    else if pkt.code = 2 then pure (([], false), n1)
    else if pkt.code = 3 then pure (([(0xC021, srvLcpConfReq s)], false), n1)
    else if pkt.code = 9 then pure (([(0xC021, serializeLCP 10 pkt.id (putBE 4 s.magic))], false), n1)
    else if pkt.code = 5 then pure (([(0xC021, serializeLCP 6 pkt.id [])], true), n1)
    else pure (([], false), n1)

/-- "Login OK" -/
def loginOK : Bytes := [0x4c, 0x6f, 0x67, 0x69, 0x6e, 0x20, 0x4f, 0x4b]

/-- `(*Server).handlePAP` without RADIUS (accept all) and without an address pool:
    `none` = ignored, `some (username, reply)` -/
def srvHandlePAP (data : Bytes) : G (Option (Bytes × Bytes) × Nat) :=
  if data.length < 4 then pure (none, 1) else do
    let code ← index data 0
    let id ← index data 1
    if code ≠ 1 then pure (none, 1)
    else if data.length < 6 then pure (none, 1)
    else do
      let ulen := (← index data 4).toNat
      if data.length < 5 + ulen + 1 then pure (none, 1)
      else do
        let user ← slice data 5 (5 + ulen)
        let plen := (← index data (5 + ulen)).toNat
        if data.length < 6 + ulen + plen then pure (none, 1)
        else do
          let _pw ← slice data (6 + ulen) (6 + ulen + plen)
          -- `for i := 0; i < passwordLen; i++ { data[6+usernameLen+i] = 0 }` : the last index written
          let _ ← if plen > 0 then index data (6 + ulen + plen - 1) else pure 0
          pure (some (user, [2, id] ++ putBE 2 13 ++ [8] ++ loginOK), 1 + plen)

/-- `(*Server).handleIPCP` for a session without address and a server without DNS: ignored until the
    session is authenticated (commit c23771f), then a Configure-Request is acknowledged verbatim -/
def srvHandleIPCP (authed : Bool) (data : Bytes) : G (Sent × Nat) :=
  if authed = false then pure ([], 1) else do
  let (pkt?, n1) ← parseLCPPacket data
  match pkt? with
  | none => pure ([], n1)
  | some pkt =>
    if pkt.code = 1 then do
      let (opts?, n2) ← parseLCPOptions pkt.data
      match opts? with
      | none => pure ([], n1 + n2)
      | some _ => pure ([(0x8021, serializeLCP 2 pkt.id pkt.data)], n1 + n2)
    else pure ([], n1)

/-- what `handleSession` did: was the session found (and owned by the sender), frames sent, session
    removed, session authenticated afterwards -/
structure SessOut where
  found : Bool := false
  sent : Sent := []
  removed : Bool := false
  authed : Bool := false
  deriving Repr

/-- `(*Server).handleSession` (with the D32 guard); `sess` = the session with that id owned by the
    sending MAC, if any. -/
def handleSession (sess : Option SrvSession) (data : Bytes) : G (SessOut × Nat) :=
  let a := match sess with | some s => s.authed | none => false
  if data.length < 8 then pure ({ authed := a }, 1) else do
    let (hdr?, n1) ← parsePPPoEHeader data
    match hdr? with
    | none => pure ({ authed := a }, n1)
    | some hdr =>
      if hdr.length < 2 ∨ 6 + hdr.length > data.length then pure ({ authed := a }, n1)   -- fix D32
      else
        match sess with
        | none => pure ({ authed := a }, n1)
        | some s =>
          if s.id ≠ hdr.sessionID then pure ({ authed := a }, n1)
          else do
            let proto ← be16At data 6
            let payload ← slice data 8 (6 + hdr.length)
            if proto = 0xC021 then do
              let ((sent, rm), n2) ← srvHandleLCP s payload
              pure ({ found := true, sent := sent, removed := rm, authed := a }, n1 + n2)
            else if proto = 0xC023 then do
              let (r, n2) ← srvHandlePAP payload
              match r with
              | none => pure ({ found := true, authed := a }, n1 + n2)
              | some (_, reply) => pure ({ found := true, sent := [(0xC023, reply)], authed := true }, n1 + n2)
            else if proto = 0x8021 then do
              let (sent, n2) ← srvHandleIPCP s.authed payload
              pure ({ found := true, sent := sent, authed := a }, n1 + n2)
            else pure ({ found := true, authed := a }, n1)

/-! ## pkg/pppoe/auth.go -/

inductive AuthOut where
  /-- a Go `error` was returned -/
  | err
  /-- accepted without effect (other code, CHAP identifier mismatch) -/
  | ignored
  /-- credentials parsed: username, reply packet -/
  | done (user : Bytes) (reply : Bytes)
  deriving Repr

/-- `handlePAPAuthRequest` (no RADIUS client: every credential is accepted) -/
def handlePAPAuthRequest (id : UInt8) (data : Bytes) : G (AuthOut × Nat) :=
  if data.length < 1 then pure (.err, 1) else do
    let p := (← index data 0).toNat
    if data.length < 1 + p + 1 then pure (.err, 1)
    else do
      let peer ← slice data 1 (1 + p)
      let plen := (← index data (1 + p)).toNat
      if data.length < 2 + p + plen then pure (.err, 1)
      else do
        let _pw ← slice data (2 + p) (2 + p + plen)
        let _ ← if plen > 0 then index data (2 + p + plen - 1) else pure 0
        pure (.done peer ([2, id] ++ putBE 2 13 ++ [8] ++ loginOK), 1 + plen)

/-- `receivePAP` (with the D27 guard) -/
def receivePAP (data : Bytes) : G (AuthOut × Nat) :=
  if data.length < 4 then pure (.err, 1) else do
    let code ← index data 0
    let id ← index data 1
    let length ← be16At data 2
    if length < 4 ∨ length > data.length then pure (.err, 1)        -- fix D27
    else if code = 1 then do
      let body ← slice data 4 length
      let (r, n) ← handlePAPAuthRequest id body
      pure (r, n + 1)
    else pure (.ignored, 1)

/-- `handleCHAPResponse` (no RADIUS client) -/
def handleCHAPResponse (chapID : UInt8) (id : UInt8) (data : Bytes) : G (AuthOut × Nat) :=
  if id ≠ chapID then pure (.ignored, 1)
  else if data.length < 1 then pure (.err, 1)
  else do
    let vs := (← index data 0).toNat
    if data.length < 1 + vs then pure (.err, 1)
    else do
      let _resp ← slice data 1 (1 + vs)
      let name ← sliceFrom data (1 + vs)
      pure (.done name ([3, id] ++ putBE 2 12 ++ loginOK), 1)

/-- `receiveCHAP` (with the D28 guard) -/
def receiveCHAP (chapID : UInt8) (data : Bytes) : G (AuthOut × Nat) :=
  if data.length < 4 then pure (.err, 1) else do
    let code ← index data 0
    let id ← index data 1
    let length ← be16At data 2
    if length < 4 ∨ length > data.length then pure (.err, 1)        -- fix D28
    else if code = 2 then do
      let body ← slice data 4 length
      let (r, n) ← handleCHAPResponse chapID id body
      pure (r, n + 1)
    else pure (.ignored, 1)

/-! ## pkg/pppoe/lcp.go, ipcp.go, ipv6cp.go : ReceivePacket -/

inductive Fsm where
  | initial | starting | closed | stopped | closing | stopping | reqSent | ackRcvd | ackSent | opened
  deriving Repr, DecidableEq

/-- `closeInternal` : the state afterwards -/
def closeInternal : Fsm → Fsm
  | .starting => .initial
  | .stopped => .closed
  | .stopping => .closing
  | .opened => .closing
  | .reqSent => .closing
  | .ackRcvd => .closing
  | .ackSent => .closing
  | s => s

structure CpState where
  state : Fsm
  lastId : UInt8
  deriving Repr

inductive CpOut where
  /-- a Go `error` was returned -/
  | err
  /-- Configure-Request answered: response code, identifier, options -/
  | confReq (code : UInt8) (id : UInt8) (opts : List LCPOption)
  /-- accepted, nothing about the packet body is observable -/
  | plain
  | codeRej (st : Fsm)
  | protoRej (st : Fsm)
  | echo (reply : Option Bytes)
  /-- unknown code: the Code-Reject data sent -/
  | unknown (rej : Bytes)
  deriving Repr

/-- outcome of the three-way option classification -/
structure Cls where
  ack : List LCPOption := []
  nak : List LCPOption := []
  rej : List LCPOption := []

def Cls.response (c : Cls) : UInt8 × List LCPOption :=
  if c.rej.length > 0 then (4, c.rej.reverse)
  else if c.nak.length > 0 then (3, c.nak.reverse)
  else (2, c.ack.reverse)

/-- `(*LCPStateMachine).processConfigureOptions`.  `magic` is the local magic number, `none` once it
    has been regenerated at random (a later equal option is then not detected); random NAK values
    are reported as zeros (the harness masks them). -/
def lcpProcessOptions : List LCPOption → Option Nat → Cls → G Cls
  | [], _, c => pure c
  | o :: rest, magic, c =>
    if o.typ = 1 then
      if o.data.length ≠ 2 then lcpProcessOptions rest magic { c with rej := o :: c.rej }
      else do
        let mru ← be16 o.data
        if mru ≥ 64 ∧ mru ≤ 1492 then lcpProcessOptions rest magic { c with ack := o :: c.ack }
        else if mru < 64 then lcpProcessOptions rest magic { c with nak := ⟨1, putBE 2 64⟩ :: c.nak }
        else lcpProcessOptions rest magic { c with nak := ⟨1, putBE 2 1492⟩ :: c.nak }
    else if o.typ = 3 then
      if o.data.length < 2 then lcpProcessOptions rest magic { c with rej := o :: c.rej }
      else do
        let _ ← be16 o.data
        lcpProcessOptions rest magic { c with rej := o :: c.rej }
    else if o.typ = 5 then
      if o.data.length ≠ 4 then lcpProcessOptions rest magic { c with rej := o :: c.rej }
      else do
        let m ← be32 o.data
        if m = 0 then lcpProcessOptions rest magic { c with nak := ⟨5, putBE 4 0⟩ :: c.nak }
        else if magic = some m then lcpProcessOptions rest none { c with nak := ⟨5, putBE 4 0⟩ :: c.nak }
        else lcpProcessOptions rest magic { c with ack := o :: c.ack }
    else if o.typ = 7 ∨ o.typ = 8 then
      if o.data.length ≠ 0 then lcpProcessOptions rest magic { c with rej := o :: c.rej }
      else lcpProcessOptions rest magic { c with ack := o :: c.ack }
    else lcpProcessOptions rest magic { c with rej := o :: c.rej }

/-- the option loops of `receiveConfigureNak` (reads `opt.Data` behind length guards) -/
def lcpNakOptions : List LCPOption → G Unit
  | [] => pure ()
  | o :: rest => do
    if o.typ = 1 then
      if o.data.length ≥ 2 then do let _ ← be16 o.data; pure ()
    else if o.typ = 3 then
      if o.data.length ≥ 2 then do
        let ap ← be16 o.data
        if (ap = 0xC023 ∨ ap = 0xC223) ∧ ap = 0xC223 ∧ o.data.length ≥ 3 then do
          let _ ← index o.data 2
          pure ()
    else if o.typ = 5 then
      if o.data.length ≥ 4 then pure ()
    lcpNakOptions rest

/-- `receiveConfigureRequest` (LCP) as far as the response goes -/
def lcpRecvConfReq (magic : Nat) (pkt : LCPPacket) : G (CpOut × Nat) := do
  let (opts?, n2) ← parseLCPOptions pkt.data
  match opts? with
  | none => pure (.err, n2)
  | some opts =>
    let c ← lcpProcessOptions opts (some magic) {}
    let (code, ropts) := c.response
    pure (.confReq code pkt.id ropts, n2 + opts.length)

/-- `receiveConfigureNak` (LCP) -/
def lcpRecvConfNak (st : CpState) (pkt : LCPPacket) : G (CpOut × Nat) :=
  if pkt.id ≠ st.lastId then pure (.plain, 1)
  else do
    let (opts?, n2) ← parseLCPOptions pkt.data
    match opts? with
    | none => pure (.err, n2)
    | some opts =>
      lcpNakOptions opts
      pure (.plain, n2 + opts.length)

/-- `receiveConfigureReject` (LCP) -/
def lcpRecvConfRej (st : CpState) (pkt : LCPPacket) : G (CpOut × Nat) :=
  if pkt.id ≠ st.lastId then pure (.plain, 1)
  else do
    let (opts?, n2) ← parseLCPOptions pkt.data
    match opts? with
    | none => pure (.err, n2)
    | some opts => pure (.plain, n2 + opts.length)

/-- `receiveCodeReject` -/
def lcpRecvCodeRej (st : CpState) (pkt : LCPPacket) : G (CpOut × Nat) :=
  if pkt.data.length > 0 then do
    let rc ← index pkt.data 0
    if rc ≥ 1 ∧ rc ≤ 4 then pure (.codeRej (closeInternal st.state), 1)
    else pure (.codeRej st.state, 1)
  else pure (.codeRej st.state, 1)

/-- `receiveProtocolReject` -/
def lcpRecvProtoRej (st : CpState) (pkt : LCPPacket) : G (CpOut × Nat) :=
  if pkt.data.length < 2 then pure (.protoRej st.state, 1)
  else do
    let rp ← be16 (← sliceTo pkt.data 2)
    if rp = 0xC021 then pure (.protoRej (closeInternal st.state), 1)
    else pure (.protoRej st.state, 1)

/-- `receiveEchoRequest` (with the D29 guard) -/
def lcpRecvEchoReq (st : CpState) (magic : Nat) (pkt : LCPPacket) : G (CpOut × Nat) :=
  if st.state ≠ .opened then pure (.echo none, 1)
  else if pkt.data.length < 4 then pure (.echo none, 1)          -- fix D29
  else do
    -- replyData := make([]byte, 4+len(pkt.Data)-4); PutUint32(replyData[:4], magic)
    let replyData : Bytes := List.replicate (4 + pkt.data.length - 4) 0
    let _ ← sliceTo replyData 4
    let tail ← if pkt.data.length > 4 then sliceFrom pkt.data 4 else pure []
    pure (.echo (some (serializeLCP 10 pkt.id (putBE 4 magic ++ tail))), 1)

/-- the `switch pkt.Code` of `(*LCPStateMachine).ReceivePacket` -/
def lcpDispatch (st : CpState) (magic : Nat) (pkt : LCPPacket) : G (CpOut × Nat) :=
  if pkt.code = 1 then lcpRecvConfReq magic pkt
  else if pkt.code = 2 then pure (.plain, 1)
  else if pkt.code = 3 then lcpRecvConfNak st pkt
  else if pkt.code = 4 then lcpRecvConfRej st pkt
  else if pkt.code = 5 ∨ pkt.code = 6 then pure (.plain, 1)
  else if pkt.code = 7 then lcpRecvCodeRej st pkt
  else if pkt.code = 8 then lcpRecvProtoRej st pkt
  else if pkt.code = 9 then lcpRecvEchoReq st magic pkt
  else if pkt.code = 10 ∨ pkt.code = 11 then pure (.plain, 1)
  else pure (.unknown (serializeLCP pkt.code pkt.id pkt.data), 1)

/-- `(*LCPStateMachine).ReceivePacket` -/
def lcpReceive (st : CpState) (magic : Nat) (data : Bytes) : G (CpOut × Nat) := do
  let (pkt?, n1) ← parseLCPPacket data
  match pkt? with
  | none => pure (.err, n1)
  | some pkt =>
    let (r, n2) ← lcpDispatch st magic pkt
    pure (r, n1 + n2)

structure IpcpCfg where
  peerIP : Option Bytes
  dns1 : Option Bytes
  dns2 : Option Bytes

def zero4 : Bytes := [0, 0, 0, 0]

/-- `(*IPCPStateMachine).processConfigureOptions` -/
def ipcpProcessOptions (cfg : IpcpCfg) : List LCPOption → Cls → Cls
  | [], c => c
  | o :: rest, c =>
    if o.typ = 3 then
      if o.data.length ≠ 4 then ipcpProcessOptions cfg rest { c with rej := o :: c.rej }
      else if o.data = zero4 then
        match cfg.peerIP with
        | some ip => ipcpProcessOptions cfg rest { c with nak := ⟨3, ip⟩ :: c.nak }
        | none => ipcpProcessOptions cfg rest { c with rej := o :: c.rej }
      else
        match cfg.peerIP with
        | some ip =>
          if o.data ≠ ip then ipcpProcessOptions cfg rest { c with nak := ⟨3, ip⟩ :: c.nak }
          else ipcpProcessOptions cfg rest { c with ack := o :: c.ack }
        | none => ipcpProcessOptions cfg rest { c with ack := o :: c.ack }
    else if o.typ = 129 then
      if o.data.length ≠ 4 then ipcpProcessOptions cfg rest { c with rej := o :: c.rej }
      else if o.data = zero4 then
        match cfg.dns1 with
        | some d => ipcpProcessOptions cfg rest { c with nak := ⟨129, d⟩ :: c.nak }
        | none => ipcpProcessOptions cfg rest { c with ack := o :: c.ack }
      else ipcpProcessOptions cfg rest { c with ack := o :: c.ack }
    else if o.typ = 131 then
      if o.data.length ≠ 4 then ipcpProcessOptions cfg rest { c with rej := o :: c.rej }
      else if o.data = zero4 then
        match cfg.dns2 with
        | some d => ipcpProcessOptions cfg rest { c with nak := ⟨131, d⟩ :: c.nak }
        | none => ipcpProcessOptions cfg rest { c with ack := o :: c.ack }
      else ipcpProcessOptions cfg rest { c with ack := o :: c.ack }
    else ipcpProcessOptions cfg rest { c with rej := o :: c.rej }

/-- `(*IPCPStateMachine).ReceivePacket` -/
def ipcpReceive (cfg : IpcpCfg) (st : CpState) (data : Bytes) : G (CpOut × Nat) := do
  let (pkt?, n1) ← parseLCPPacket data
  match pkt? with
  | none => pure (.err, n1)
  | some pkt =>
    if pkt.code = 1 then do
      let (opts?, n2) ← parseLCPOptions pkt.data
      match opts? with
      | none => pure (.err, n1 + n2)
      | some opts =>
        let (code, ropts) := (ipcpProcessOptions cfg opts {}).response
        pure (.confReq code pkt.id ropts, n1 + n2 + opts.length)
    else if pkt.code = 3 then
      if pkt.id ≠ st.lastId then pure (.plain, n1)
      else do
        let (opts?, n2) ← parseLCPOptions pkt.data
        match opts? with
        | none => pure (.err, n1 + n2)
        | some opts => pure (.plain, n1 + n2 + opts.length)
    else if pkt.code = 4 then
      if pkt.id ≠ st.lastId then pure (.plain, n1)
      else do
        -- `opts, _ := ParseLCPOptions(pkt.Data)` : the error is dropped
        let (_, n2) ← parseLCPOptions pkt.data
        pure (.plain, n1 + n2)
    else pure (.plain, n1)

/-- `(*IPV6CPStateMachine).processConfigureOptions`; `localID = none` once regenerated at random -/
def ipv6cpProcessOptions : List LCPOption → Option Nat → Cls → G Cls
  | [], _, c => pure c
  | o :: rest, localID, c =>
    if o.typ = 1 then
      if o.data.length ≠ 8 then ipv6cpProcessOptions rest localID { c with rej := o :: c.rej }
      else do
        let pid ← be64 o.data
        if pid = 0 then ipv6cpProcessOptions rest localID { c with nak := ⟨1, putBE 8 0⟩ :: c.nak }
        else if localID = some pid then ipv6cpProcessOptions rest none { c with nak := ⟨1, putBE 8 0⟩ :: c.nak }
        else ipv6cpProcessOptions rest localID { c with ack := o :: c.ack }
    else ipv6cpProcessOptions rest localID { c with rej := o :: c.rej }

/-- the option loop of IPv6CP `receiveConfigureNak` -/
def ipv6cpNakOptions : List LCPOption → G Unit
  | [] => pure ()
  | o :: rest => do
    if o.typ = 1 ∧ o.data.length = 8 then do
      let _ ← be64 o.data
      pure ()
    ipv6cpNakOptions rest

/-- `(*IPV6CPStateMachine).ReceivePacket` -/
def ipv6cpReceive (localID : Nat) (st : CpState) (data : Bytes) : G (CpOut × Nat) := do
  let (pkt?, n1) ← parseLCPPacket data
  match pkt? with
  | none => pure (.err, n1)
  | some pkt =>
    if pkt.code = 1 then do
      let (opts?, n2) ← parseLCPOptions pkt.data
      match opts? with
      | none => pure (.err, n1 + n2)
      | some opts =>
        let c ← ipv6cpProcessOptions opts (some localID) {}
        let (code, ropts) := c.response
        pure (.confReq code pkt.id ropts, n1 + n2 + opts.length)
    else if pkt.code = 3 then
      if pkt.id ≠ st.lastId then pure (.plain, n1)
      else do
        let (opts?, n2) ← parseLCPOptions pkt.data
        match opts? with
        | none => pure (.plain, n1 + n2)
        | some opts =>
          ipv6cpNakOptions opts
          pure (.plain, n1 + n2 + opts.length)
    else pure (.plain, n1)

/-! ## pkg/dhcp/server.go parseOption82, pkg/ztp/client.go parseVendorOptions -/

structure RelayInfo where
  circuitID : Option Bytes := none
  remoteID : Option Bytes := none
  deriving Repr

/-- the sub-option loop of `parseOption82` -/
def parseOption82Loop (opt : Bytes) (off : Nat) (info : RelayInfo) (n : Nat) : G (RelayInfo × Nat) :=
  if h : off < opt.length then
    if off + 2 > opt.length then pure (info, n + 1)
    else do
      let t ← index opt off
      let l := (← index opt (off + 1)).toNat
      if off + 2 + l > opt.length then pure (info, n + 1)
      else do
        let d ← slice opt (off + 2) (off + 2 + l)
        let info' := if t = 1 then { info with circuitID := some d }
                     else if t = 2 then { info with remoteID := some d } else info
        parseOption82Loop opt (off + 2 + l) info' (n + 1)
  else pure (info, n)
termination_by opt.length - off
decreasing_by omega

/-- `parseOption82` on the bytes of option 82 (`none` = option absent or empty) -/
def parseOption82 (opt : Bytes) : G (Option RelayInfo × Nat) :=
  if opt.length = 0 then pure (none, 1) else do
    let (i, n) ← parseOption82Loop opt 0 {} 1
    pure (some i, n)

/-- `parseVendorOptions` : the value of the first type-1 option, "" otherwise -/
def parseVendorOptionsLoop (data : Bytes) (i : Nat) (n : Nat) : G (Bytes × Nat) :=
  if h : i + 2 ≤ data.length then do
    let t ← index data i
    let l := (← index data (i + 1)).toNat
    if i + 2 + l > data.length then pure ([], n + 1)
    else if t = 1 then do
      let v ← slice data (i + 2) (i + 2 + l)
      pure (v, n + 1)
    else parseVendorOptionsLoop data (i + 2 + l) (n + 1)
  else pure ([], n)
termination_by data.length - i
decreasing_by omega

def parseVendorOptions (data : Bytes) : G (Bytes × Nat) := parseVendorOptionsLoop data 0 1

/-! ## pkg/dhcpv6/protocol.go -/

structure V6Option where
  code : Nat
  data : Bytes
  deriving Repr

/-- the loop of `ParseOptions` -/
def parseV6OptionsLoop (data : Bytes) (off : Nat) (acc : List V6Option) (n : Nat) :
    G (Option (List V6Option) × Nat) :=
  if h : off + 4 ≤ data.length then do
    let c ← be16At data off
    let l ← be16At data (off + 2)
    if off + 4 + l > data.length then pure (none, n + 1)
    else do
      let d ← slice data (off + 4) (off + 4 + l)
      parseV6OptionsLoop data (off + 4 + l) (⟨c, d⟩ :: acc) (n + 1)
  else pure (some acc.reverse, n)
termination_by data.length - off
decreasing_by omega

def parseV6Options (data : Bytes) : G (Option (List V6Option) × Nat) := parseV6OptionsLoop data 0 [] 1

structure V6Message where
  typ : UInt8
  txid : Bytes
  opts : List V6Option
  deriving Repr

/-- `ParseMessage` -/
def parseV6Message (data : Bytes) : G (Option V6Message × Nat) :=
  if data.length < 4 then pure (none, 1) else do
    let t ← index data 0
    let tx ← slice data 1 4
    let (opts?, n) ← parseV6Options (← sliceFrom data 4)
    match opts? with
    | none => pure (none, n + 1)
    | some opts => pure (some ⟨t, tx, opts⟩, n + 1)

/-- `ParseDUID` : (type, data) -/
def parseDUID (data : Bytes) : G (Option (Nat × Bytes) × Nat) :=
  if data.length < 2 then pure (none, 1) else do
    let t ← be16At data 0
    let d ← sliceFrom data 2
    pure (some (t, d), 1)

structure IA where
  iaid : Nat
  t1 : Nat
  t2 : Nat
  opts : List V6Option
  deriving Repr

/-- `ParseIANA` and `ParseIAPD` (same code) -/
def parseIA (data : Bytes) : G (Option IA × Nat) :=
  if data.length < 12 then pure (none, 1) else do
    let iaid ← be32At data 0
    let t1 ← be32At data 4
    let t2 ← be32At data 8
    if data.length > 12 then do
      let (opts?, n) ← parseV6Options (← sliceFrom data 12)
      match opts? with
      | none => pure (none, n + 1)
      | some opts => pure (some ⟨iaid, t1, t2, opts⟩, n + 1)
    else pure (some ⟨iaid, t1, t2, []⟩, 1)

structure IAAddr where
  addr : Bytes
  preferred : Nat
  valid : Nat
  opts : List V6Option
  deriving Repr

/-- `ParseIAAddress` -/
def parseIAAddress (data : Bytes) : G (Option IAAddr × Nat) :=
  if data.length < 24 then pure (none, 1) else do
    let a ← slice data 0 16
    let p ← be32At data 16
    let v ← be32At data 20
    if data.length > 24 then do
      let (opts?, n) ← parseV6Options (← sliceFrom data 24)
      match opts? with
      | none => pure (none, n + 1)
      | some opts => pure (some ⟨a, p, v, opts⟩, n + 1)
    else pure (some ⟨a, p, v, []⟩, 1)

structure IAPrefix where
  preferred : Nat
  valid : Nat
  plen : UInt8
  pfx : Bytes
  opts : List V6Option
  deriving Repr

/-- `ParseIAPrefix` -/
def parseIAPrefix (data : Bytes) : G (Option IAPrefix × Nat) :=
  if data.length < 25 then pure (none, 1) else do
    let p ← be32At data 0
    let v ← be32At data 4
    let l ← index data 8
    let x ← slice data 9 25
    if data.length > 25 then do
      let (opts?, n) ← parseV6Options (← sliceFrom data 25)
      match opts? with
      | none => pure (none, n + 1)
      | some opts => pure (some ⟨p, v, l, x, opts⟩, n + 1)
    else pure (some ⟨p, v, l, x, []⟩, 1)

/-! ## pkg/ha/sync.go connectToStream : SSE line slicing -/

/-- `reader.ReadString('\n')` : the line including the delimiter and the rest, `none` at EOF
    (an unterminated tail is returned with `io.EOF`, which ends `connectToStream`) -/
def readLine : Bytes → Bytes → Option (Bytes × Bytes)
  | [], _ => none
  | b :: rest, acc => if b = 10 then some ((b :: acc).reverse, rest) else readLine rest (b :: acc)

theorem readLine_rest_lt {bs acc line rest} (h : readLine bs acc = some (line, rest)) :
    rest.length < bs.length := by
  induction bs generalizing acc with
  | nil => simp [readLine] at h
  | cons b t ih =>
    unfold readLine at h
    split at h
    · injection h with h; injection h with h1 h2; subst h2; simp
    · have := ih h; simp; omega

/-- "data: " -/
def dataPrefix : Bytes := [0x64, 0x61, 0x74, 0x61, 0x3a, 0x20]

/-- the read loop of `connectToStream` until the stream ends: the payloads handed to `handleSSEData` -/
def haStream (bs : Bytes) (acc : List Bytes) (n : Nat) : G (List Bytes × Nat) :=
  match h : readLine bs [] with
  | none => pure (acc.reverse, n + 1)
  | some (line, rest) =>
    if line.take 6 = dataPrefix then do
      let d ← slice line 6 (line.length - 1)          -- line[6 : len(line)-1]
      haStream rest (d :: acc) (n + 1)
    else haStream rest acc (n + 1)
termination_by bs.length
decreasing_by
  all_goals exact readLine_rest_lt h

/-! ## pkg/pppoe/session.go : the session-id search of CreateSession -/

/-- the `for { … }` search of `CreateSession`; `fuel` is a proof device: `none` = not found within fuel -/
def idSearch (used : Nat → Bool) : Nat → Nat → Nat → Option (Nat × Nat)
  | 0, _, _ => none
  | fuel + 1, next, n =>
    if used next = false then some (next, n + 1)
    else
      let next' := (next + 1) % 65536
      let next'' := if next' = 0 then 1 else next'
      idSearch used fuel next'' (n + 1)

inductive CreateOut where
  /-- "no free session ID" -/
  | full
  /-- allocated id, next id afterwards -/
  | got (id : Nat) (next : Nat)
  /-- the search did not end within 65536 iterations (the Go code would spin) -/
  | spin
  deriving Repr, DecidableEq

/-- `CreateSession` (with the D33 guard and the id-0 normalisation of commit 64c9c22):
    `count = len(m.sessions)`, `used id = id ∈ m.sessions` -/
def createSession (used : Nat → Bool) (count : Nat) (next : Nat) : CreateOut × Nat :=
  if count ≥ 65535 then (.full, 1)                                   -- fix D33
  else
    let next := if next = 0 then 1 else next
    match idSearch used 65536 next 0 with
    | some (id, n) => (.got id ((id + 1) % 65536), n)
    | none => (.spin, 65536)

end Bng.Decoders
